/-
Channel `togo` (C10): parses the type descriptors and the record term of one op line, runs the
model (`Model/ToGo.lean`) and the spec (`Spec/RecordGo.lean`) and prints both canonical trees.
  togo conv <root> W <world…> E <term…> X <generator's expectation | ->
  togo echo <root> W <world…> E <term…> X -
Spec column: `<tree>` (strict), `<tree>|err` (either outcome allowed, nothing else), `err`,
`-` (no spec answer), or `gen-mismatch(…)` when the generator's own expectation (the canonical
dump of the Go value the record was made from) differs from the spec's tree.
-/
import ZygoVerif.Model.ToGo
import ZygoVerif.Spec.RecordGo
import ZygoVerif.Driver.Proto
namespace ZygoVerif.Driver.Togo
open ZygoVerif.ToGo ZygoVerif.Proto ZygoVerif

/-! ### parsing -/

partial def parseTyToks : List String → Option (Ty × List String)
  | "i64" :: r => some (.int .i64, r) | "int" :: r => some (.int .int, r)
  | "i32" :: r => some (.int .i32, r) | "i16" :: r => some (.int .i16, r) | "i8" :: r => some (.int .i8, r)
  | "u64" :: r => some (.uint .u64, r) | "uint" :: r => some (.uint .uint, r)
  | "u32" :: r => some (.uint .u32, r) | "u16" :: r => some (.uint .u16, r) | "u8" :: r => some (.uint .u8, r)
  | "f64" :: r => some (.f64, r) | "f32" :: r => some (.f32, r) | "str" :: r => some (.str, r)
  | "bool" :: r => some (.bool, r) | "time" :: r => some (.time, r) | "bytes" :: r => some (.bytes, r)
  | "eface" :: r => some (.eface, r) | "X" :: r => some (.other, r)
  | "L" :: r => (parseTyToks r).map (fun (t, r') => (.slice t, r'))
  | "P" :: s :: r => some (.ptr s, r)
  | "V" :: s :: r => some (.struct s, r)
  | "I" :: s :: r => some (.iface s, r)
  | "M" :: r => do
    let (k, r1) ← parseTyToks r
    let (v, r2) ← parseTyToks r1
    pure (.map k v, r2)
  | _ => none

def parseTy (s : String) : Option Ty :=
  match parseTyToks (s.splitOn "/") with
  | some (t, []) => some t
  | _ => none

partial def parseFields : Nat → List String → Option (List Field × List String)
  | 0, r => some ([], r)
  | n+1, name :: tag :: an :: ty :: r => do
    let t ← parseTy ty
    let (fs, r') ← parseFields n r
    pure (⟨name, if tag == "-" then "" else tag, an == "1", t⟩ :: fs, r')
  | _, _ => none

partial def parseStructs : Nat → List String → Option (List SDef × List String)
  | 0, r => some ([], r)
  | n+1, name :: reg :: nf :: r => do
    let k ← nf.toNat?
    let (fs, r1) ← parseFields k r
    let (ds, r2) ← parseStructs n r1
    pure (⟨name, if reg == "-" then "" else reg, fs⟩ :: ds, r2)
  | _, _ => none

partial def parseIfaces : Nat → List String → Option (List (String × List String) × List String)
  | 0, r => some ([], r)
  | n+1, name :: k :: r => do
    let kk ← k.toNat?
    if r.length < kk then none else
    let (is, r2) ← parseIfaces n (r.drop kk)
    pure ((name, r.take kk) :: is, r2)
  | _, _ => none

def parseWorld (toks : List String) : Option World :=
  match toks with
  | "S" :: n :: r => do
    let nn ← n.toNat?
    let (ds, r1) ← parseStructs nn r
    match r1 with
    | "F" :: m :: r2 => do
      let mm ← m.toNat?
      let (is, r3) ← parseIfaces mm r2
      if r3.isEmpty then some ⟨ds, is⟩ else none
    | _ => none
  | _ => none

def dropS (s : String) (n : Nat) : String := String.ofList (s.toList.drop n)

def parseInt? (s : String) : Option Int :=
  if s.startsWith "-" then (dropS s 1).toNat?.map (fun n => -(n : Int)) else s.toNat?.map (fun n => (n : Int))

abbrev Defs := List (Nat × Sx)

def parseKey (kt : String) : Option Key :=
  if kt.startsWith "ki" then (parseInt? (dropS kt 2)).map Key.int
  else if kt.startsWith "k" then (parseCodes? (dropS kt 1)).map Key.sym
  else if kt.startsWith "K" then (parseCodes? (dropS kt 1)).map Key.str
  else none

mutual
partial def parseTerm (defs : Defs) : List String → Option (Sx × Defs × List String)
  | [] => none
  | t :: r =>
    let rest := dropS t 1
    match t.toList.headD ' ' with
    | 'i' => (parseInt? rest).map (fun v => (.int v, defs, r))
    | 'u' => rest.toNat?.map (fun v => (.uint v, defs, r))
    | 'f' => (parseHex? rest).map (fun v => (.flt v, defs, r))
    | 's' => (parseCodes? rest).map (fun b => (.str b, defs, r))
    | 'y' => (parseCodes? rest).map (fun b => (.sym b, defs, r))
    | 'c' => (parseInt? rest).map (fun v => (.char v, defs, r))
    | 'b' => some (.bool (rest == "1"), defs, r)
    | 'n' => some (.nil, defs, r)
    | 'r' => (parseCodes? rest).map (fun b => (.raw b, defs, r))
    | 't' => (parseInt? rest).map (fun v => (.time v, defs, r))
    | 'p' => some (.pair, defs, r)
    | 'A' => do
      let k ← rest.toNat?
      let (xs, defs', r') ← parseTerms k defs r
      pure (.arr xs, defs', r')
    | 'R' => do
      let id ← rest.toNat?
      let d ← defs.find? (·.1 == id)
      pure (d.2, defs, r)
    | 'H' =>
      match rest.splitOn ":" with
      | [ids, ks, tn] => do
        let id ← ids.toNat?
        let k ← ks.toNat?
        let (kvs, defs', r') ← parseKVs k defs r
        let h := Sx.hash id tn kvs
        pure (h, (id, h) :: defs', r')
      | _ => none
    | _ => none
partial def parseTerms : Nat → Defs → List String → Option (List Sx × Defs × List String)
  | 0, defs, r => some ([], defs, r)
  | n+1, defs, r => do
    let (x, d1, r1) ← parseTerm defs r
    let (xs, d2, r2) ← parseTerms n d1 r1
    pure (x :: xs, d2, r2)
partial def parseKVs : Nat → Defs → List String → Option (List (Key × Sx) × Defs × List String)
  | 0, defs, r => some ([], defs, r)
  | _, _, [] => none
  | n+1, defs, kt :: r => do
    let key ← parseKey kt
    let (x, d1, r1) ← parseTerm defs r
    let (kvs, d2, r2) ← parseKVs n d1 r1
    pure ((key, x) :: kvs, d2, r2)
end

/-! ### canonical printing (must agree with harness/ch_togo.go canonGo / canonSexp) -/

def intKName : IntK → String | .i64 => "i64" | .int => "int" | .i32 => "i32" | .i16 => "i16" | .i8 => "i8"
def uintKName : UintK → String | .u64 => "u64" | .uint => "uint" | .u32 => "u32" | .u16 => "u16" | .u8 => "u8"

def insertSorted (e : String × GV) : List (String × GV) → List (String × GV)
  | [] => [e]
  | x :: r => if e.1 < x.1 then e :: x :: r else x :: insertSorted e r

/-- `seen`: object ids in order of first visit -/
partial def canonGo (w : World) (obj : Nat → Option GV) (seen : List Nat) : GV → String × List Nat
  | .int k v => (s!"{intKName k}:{v}", seen)
  | .uint k v => (s!"{uintKName k}:{v}", seen)
  | .flt b => (s!"f64:{toHex b}", seen)
  | .str b => (s!"str:{showCodes b}", seen)
  | .bool b => (if b then "bool:1" else "bool:0", seen)
  | .time s => (s!"time:{s}", seen)
  | .bytes none => ("nil", seen)
  | .bytes (some b) => (s!"bytes:{showCodes b}", seen)
  | .slice none => ("nil", seen)
  | .slice (some xs) =>
    let (parts, seen') := xs.foldl (fun (acc : List String × List Nat) x =>
      let (s, sn) := canonGo w obj acc.2 x
      (acc.1 ++ [s], sn)) ([], seen)
    ("[" ++ ",".intercalate parts ++ "]", seen')
  | .ptr none => ("nil", seen)
  | .ptr (some o) =>
    match seen.idxOf? o with
    | some i => (s!"&{i+1}", seen)
    | none =>
      let seen1 := seen ++ [o]
      match obj o with
      | some sv =>
        let (s, sn) := canonGo w obj seen1 sv
        (s!"&{seen1.length}:{s}", sn)
      | none => (s!"&{seen1.length}:?", seen1)
  | .struct name fs =>
    let names : List String := match w.find name with
      | some d => d.fields.map (·.name)
      | none => []
    let (parts, seen') := (names.zip fs).foldl (fun (acc : List String × List Nat) nf =>
      let (s, sn) := canonGo w obj acc.2 nf.2
      (acc.1 ++ [nf.1 ++ "=" ++ s], sn)) ([], seen)
    (name ++ "{" ++ ",".intercalate parts ++ "}", seen')
  | .iface none => ("nil", seen)
  | .iface (some d) =>
    let (s, sn) := canonGo w obj seen d
    ("if(" ++ s ++ ")", sn)
  | .map none => ("nil", seen)
  | .map (some es) =>
    let keyed := es.foldl (fun acc e => insertSorted ((canonGo w obj seen e.1).1, e.2) acc) []
    let (parts, seen') := keyed.foldl (fun (acc : List String × List Nat) kv =>
      let (s, sn) := canonGo w obj acc.2 kv.2
      (acc.1 ++ [kv.1 ++ "=" ++ s], sn)) ([], seen)
    ("map{" ++ ",".intercalate parts ++ "}", seen')
  | .printed => ("printed", seen)
  | .bad => ("bad", seen)

partial def canonSx : Sx → String
  | .int v => s!"i:{v}"
  | .uint v => s!"u:{v}"
  | .flt b => s!"f:{toHex b}"
  | .str b => s!"s:{showCodes b}"
  | .sym b => s!"y:{showCodes b}"
  | .char v => s!"c:{v}"
  | .bool b => if b then "b:1" else "b:0"
  | .nil => "nil"
  | .raw b => s!"raw:{showCodes b}"
  | .time s => s!"t:{s}"
  | .pair => "pair"
  | .arr xs => "[" ++ ",".intercalate (xs.map canonSx) ++ "]"
  | .hash _ tn kvs =>
    let showKey : Key → String
      | .sym b => s!"y:{showCodes b}"
      | .str b => s!"s:{showCodes b}"
      | .int v => s!"i:{v}"
    s!"rec:{tn}" ++ "{" ++ ",".intercalate (kvs.map (fun kv => showKey kv.1 ++ "=" ++ canonSx kv.2)) ++ "}"

/-! ### the way back on the spec side: same record layout, but a time comes back as a time -/

instance : Inhabited Sx := ⟨.nil⟩

partial def backSpec (w : World) (obj : Nat → Option GV) : GV → Sx
  | .time s => if s == zeroTime then .nil else .time s
  | .ptr (some o) => match obj o with
    | some sv => backSpec w obj sv
    | none => .nil
  | v => backStep w [] (backSpec w obj) v

def splitAt (sep : String) (toks : List String) : Option (List String × List String) :=
  match toks.span (· != sep) with
  | (a, _ :: b) => some (a, b)
  | _ => none

def fuel : Nat := 64

def handle (toks : List String) : String :=
  match toks with
  | mode :: root :: "W" :: rest =>
    match splitAt "E" rest with
    | none => "bad-op\t-"
    | some (wtoks, rest2) =>
      if rest2.length < 3 then "bad-op\t-" else
      let exp := rest2.getLast!
      let ttoks := rest2.take (rest2.length - 2)
      match parseWorld wtoks, parseTerm [] ttoks with
      | some w, some (x, _, []) =>
        let rootDef := w.lookupReg root
        let want : Option String := if mode == "echo" then rootDef.map (·.name) else none
        if mode != "conv" && mode != "echo" then "bad-op\t-" else
        -- model
        let m : String := match toGoTop w fuel want x with
          | .error .err => "err"
          | .error .fuel => "model-out-of-scope"
          | .ok (o, st) =>
            if mode == "conv" then (canonGo w (fun i => st.heap[i]?) [] (.ptr (some o))).1
            else canonSx (back w st.heap fuel (.ptr (some o)))
        -- spec
        let s : String := match SpecToGo.denTop w fuel want x with
          | none => "err"
          | some out =>
            if out.textual then "-" else
            let look : Nat → Option GV := fun i => (out.objs.find? (·.1 == i)).map (·.2)
            let tree := if mode == "conv" then (canonGo w look [] out.v).1 else canonSx (backSpec w look out.v)
            if exp != "-" && exp != tree then s!"gen-mismatch({tree})"
            else if out.strict then tree else tree ++ "|err"
        s!"{m}\t{s}"
      | _, _ => "bad-op\t-"
  | _ => "bad-op\t-"

end ZygoVerif.Driver.Togo
