/-
Channel `sandbox` (C08):
  sandbox names  <cfg>                    (an enumeration, compared by checks/C08.py with the
                                           extracted tables and the certified reachable set)
  sandbox probe|probei <cfg> <name>       battery of call shapes for one name
  sandbox sweep  cli <name>,<name>,…      the batteries of many names in one REPL session
  sandbox script <cfg> <mode> <script>    one script
  sandbox history <cfg> <gate> <name>     two-text histories: text 1 binds <gate>, the probes of <name> run later
  sandbox tuples <cfg> <name> <lo>-<hi>   every argument tuple of length lo…hi over a value pool
with cfg ∈ {bare, std, cli}. The model of a sandboxed configuration is the reference graph of
Generated/CallGraph.lean, for which Props/C08.lean proves that no outside-world primitive is
reachable: whatever the script, the model predicts no canary effect. The specification
(the property itself) says the same. So both columns are `clean`; the implementation side
runs the script against real canaries.
Core-only; the driver does not import the generated graph (the theorems are checked by
`lake build ZygoVerif.Props.C08`, not by the driver).
-/
import ZygoVerif.Driver.Proto
namespace ZygoVerif.Driver.Sandbox
open ZygoVerif.Proto

def okCfg (c : String) : Bool := c == "bare" || c == "std" || c == "cli"

def handle (toks : List String) : String :=
  match toks with
  | ["names", c] => if okCfg c then "-\t-" else "bad-op\t-"
  | ["probe", c, n] | ["probei", c, n] =>
    if okCfg c && (parseCodes? n).isSome then "clean\tclean" else "bad-op\t-"
  | ["tuples", c, n, r] =>
    let okRange := match r.splitOn "-" with
      | [a, b] => a.toNat?.isSome && b.toNat?.isSome
      | _ => false
    if (c == "bare" || c == "std") && okRange && (parseCodes? n).isSome then "clean\tclean" else "bad-op\t-"
  | ["history", c, g, n] =>
    if (c == "bare" || c == "std") && (parseCodes? g).isSome && (parseCodes? n).isSome then "clean\tclean" else "bad-op\t-"
  | ["sweep", "cli", ns] =>
    if (ns.splitOn ",").all (fun n => (parseCodes? n).isSome) then "clean\tclean" else "bad-op\t-"
  | ["script", c, m, s] =>
    -- a cli mode may carry further command line flags: `repl:-demo`
    let m0 := (m.splitOn ":").headD ""
    let okMode := if c == "cli" then m0 == "repl" || m0 == "cmd" || m0 == "file" else m == "eval" || m == "evali"
    if okCfg c && okMode && (parseCodes? s).isSome then "clean\tclean" else "bad-op\t-"
  | _ => "bad-op\t-"

end ZygoVerif.Driver.Sandbox
