/-
Channel `interf` (C20): `interf <P> <S1> <S2> …` (dot-coded byte strings). The model of a
fresh interpreter's evaluation reads no package-level variable that earlier interpreters can
write (Props/C20.lean: `globals_writes_allowed`, `fresh_eval_independent_of_history`), so
for every history the model's answer is `same`; the spec (`Spec.OrderFree.sameAsAlone` over
the two outcomes) says the same. The implementation side actually runs the history and then
the program in a fresh interpreter, and the program alone in another fresh process.
-/
import ZygoVerif.Spec.OrderFree
import ZygoVerif.Driver.Proto
namespace ZygoVerif.Driver.Interf
open ZygoVerif.Proto

def handle (toks : List String) : String :=
  match toks with
  | p :: snippets =>
    if (parseCodes? p).isSome && snippets.all (fun s => (parseCodes? s).isSome) then "same\tsame" else "bad-op\t-"
  | _ => "bad-op\t-"

end ZygoVerif.Driver.Interf
