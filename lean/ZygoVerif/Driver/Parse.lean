/-
Channel `parse`: model column = the delivery protocol on the parser model (history,
pieces, end of input); spec column = whole-text parse + `Spec.Unfinished` per prefix.
-/
import ZygoVerif.Model.Parser
import ZygoVerif.Spec.Unfinished
import ZygoVerif.Driver.Proto
import ZygoVerif.Driver.Lex
namespace ZygoVerif.Driver.Parse
open ZygoVerif ZygoVerif.Lexer ZygoVerif.Parser ZygoVerif.Proto
open ZygoVerif.Driver.Lex (toChars? showChars)

def hexOf (n : Nat) : String := String.ofList (Nat.toDigits 16 n)

def isNaNBits (b : Nat) : Bool := (b / 2^52) % 2048 == 2047 && b % 2^52 != 0

partial def canon : Sexp → String
  | .int v => s!"i{v}"
  | .uint v => s!"u{v}"
  | .float b sci => (if isNaNBits b then "fnan" else "f" ++ hexOf b) ++ (if sci then "e" else "")
  | .char v => s!"c{v}"
  | .str s raw => (if raw then "r:" else "s:") ++ showChars s
  | .sym n ct d => "y" ++ (if ct then "c" else "") ++ (if d then "d" else "") ++ ":" ++ showChars n
  | .bool b => if b then "#t" else "#f"
  | .comment t blk => (if blk then "K:" else "k:") ++ showChars t
  | .comma => ","
  | .semicolon => ";"
  | .null => "()"
  | .endS => "END"
  | .emptyHash => "{0}"
  | .array es inf =>
    (if inf then "<[" else "[") ++ String.join (es.map fun e => " " ++ canon e) ++ (if inf then " ]>" else " ]")
  | .pair h t =>
    let rec go : Sexp → String
      | .pair h t => " " ++ canon h ++ go t
      | .null => ""
      | x => " \\ " ++ canon x
    "(" ++ go (.pair h t) ++ " )"

def canonList (l : List Sexp) : String :=
  if l.isEmpty then "-" else " ".intercalate (l.map canon)

def showStatuses (l : List Status) : String := String.join (l.map Status.letter)

/-- a history entry: the lexer state the parser is left with -/
def runHist (l : LexState) (kind : Char) (txt : List Char) : LexState :=
  let s0 : PState := if kind == 'w' then initState l [txt] else { lex := resetAddNewInput l txt, fut := [] }
  (run (topLoop (fuelFor [txt])) s0).2.lex

def parseHist (l : LexState) : List String → Option LexState
  | [] => some l
  | e :: rest =>
    match e.toList with
    | k :: ':' :: cs =>
      if k == 'w' || k == 'a' then
        match toChars? (String.ofList cs) with
        | some txt => parseHist (runHist l k txt) rest
        | none => none
      else none
    | _ => none

/-- statuses the property requires after each prefix (no end-of-input yet) -/
def specPrefixStatuses (pre : List Char) : List (List Char) → List Status
  | [] => []
  | c :: rest =>
    let p := pre ++ c
    let r := run (topLoop (fuelFor [p])) { lex := resetAddNewInput LexState.init p, fut := [] }
    let isErr := match r.1 with
      | .stop .err => true
      | _ => false
    if isErr then [.err] else
    match Spec.UnfinishedPrefix p with
    | none => [.err]
    | some true => .more :: specPrefixStatuses p rest
    | some false => .done :: specPrefixStatuses p rest

def specAnswer (chunks : List (List Char)) : String :=
  let pre := specPrefixStatuses [] chunks
  if pre.getLast? == some .err then
    -- the expressions completed before the error, from the whole-text parse
    let whole := parseChunks [chunks.flatten]
    showStatuses pre ++ " | " ++ canonList whole.exprs
  else
    let whole := parseChunks [chunks.flatten]
    let fin : Status := if whole.status == .err then .err else
      match Spec.Unfinished (chunks.flatten ++ eofPiece) with
      | some true => .more
      | some false => .done
      | none => .err
    showStatuses (pre ++ [fin]) ++ " | " ++ canonList whole.exprs

def lastValue (es : List Sexp) : String :=
  let es := es.filter fun e => match e with
    | .comment _ _ => false
    | _ => true
  match es.getLast? with
  | some e => canon e
  | none => "nil"

def handle (toks : List String) : String :=
  match toks with
  | ["ev", c] =>
    match toChars? c with
    | some txt =>
      let r := parseChunks [txt]
      let a := if r.status == .done then lastValue r.exprs else "err"
      s!"{a}\t{a}"
    | none => "bad-op\t-"
  | ["p", h, c] =>
    if h.startsWith "H=" && c.startsWith "C=" then
      let hs := (h.drop 2).toString
      let hist := if hs == "-" then some LexState.init else parseHist LexState.init (hs.splitOn "/")
      let chunks := ((c.drop 2).toString.splitOn "/").mapM toChars?
      match hist, chunks with
      | some l, some cs =>
        let r := parseChunksFrom l cs
        let m := showStatuses (r.trace ++ [r.status]) ++ " | " ++ canonList r.exprs
        s!"{m}\t{specAnswer cs}"
      | _, _ => "bad-op\t-"
    else "bad-op\t-"
  | _ => "bad-op\t-"

end ZygoVerif.Driver.Parse
