/-
Channel `parse`: model column = the delivery protocol on the parser model (history,
pieces, end of input); spec column = whole-text parse + `Spec.Unfinished` per prefix.
-/
import ZygoVerif.Model.Parser
import ZygoVerif.Model.Abandon
import ZygoVerif.Spec.Unfinished
import ZygoVerif.Driver.Proto
import ZygoVerif.Driver.Lex
namespace ZygoVerif.Driver.Parse
open ZygoVerif ZygoVerif.Lexer ZygoVerif.Parser ZygoVerif.Proto
open ZygoVerif.Driver.Lex (toChars? showChars)

def hexOf (n : Nat) : String := String.ofList (Nat.toDigits 16 n)

def isNaNBits (b : Nat) : Bool := (b / 2^52) % 2048 == 2047 && b % 2^52 != 0

partial def canon : Sexp → String
  | .int v => s!"i{v}"
  | .uint v => s!"u{v}"
  | .float b sci => (if isNaNBits b then "fnan" else "f" ++ hexOf b) ++ (if sci then "e" else "")
  | .char v => s!"c{v}"
  | .str s raw => (if raw then "r:" else "s:") ++ showChars s
  | .sym n ct d => "y" ++ (if ct then "c" else "") ++ (if d then "d" else "") ++ ":" ++ showChars n
  | .bool b => if b then "#t" else "#f"
  | .comment t blk => (if blk then "K:" else "k:") ++ showChars t
  | .comma => ","
  | .semicolon => ";"
  | .null => "()"
  | .endS => "END"
  | .emptyHash => "{0}"
  | .array es inf =>
    (if inf then "<[" else "[") ++ String.join (es.map fun e => " " ++ canon e) ++ (if inf then " ]>" else " ]")
  | .pair h t =>
    let rec go : Sexp → String
      | .pair h t => " " ++ canon h ++ go t
      | .null => ""
      | x => " \\ " ++ canon x
    "(" ++ go (.pair h t) ++ " )"

def canonList (l : List Sexp) : String :=
  if l.isEmpty then "-" else " ".intercalate (l.map canon)

def showStatuses (l : List Status) : String := String.join (l.map Status.letter)

/-- a history entry: the lexer state the parser is left with -/
def runHist (l : LexState) (kind : Char) (txt : List Char) : LexState :=
  let s0 : PState := if kind == 'w' then initState l [txt] else { lex := resetAddNewInput l txt, fut := [] }
  (run (topLoop (fuelFor [txt])) s0).2.lex

def parseHist (l : LexState) : List String → Option LexState
  | [] => some l
  | e :: rest =>
    match e.toList with
    | k :: ':' :: cs =>
      if k == 'w' || k == 'a' then
        match toChars? (String.ofList cs) with
        | some txt => parseHist (runHist l k txt) rest
        | none => none
      else none
    | _ => none

/-- statuses the property requires after each prefix (no end-of-input yet) -/
def specPrefixStatuses (pre : List Char) : List (List Char) → List Status
  | [] => []
  | c :: rest =>
    let p := pre ++ c
    let r := run (topLoop (fuelFor [p])) { lex := resetAddNewInput LexState.init p, fut := [] }
    let isErr := match r.1 with
      | .stop .err => true
      | _ => false
    if isErr then [.err] else
    match Spec.UnfinishedPrefix p with
    | none => [.err]
    | some true => .more :: specPrefixStatuses p rest
    | some false => .done :: specPrefixStatuses p rest

def specAnswer (chunks : List (List Char)) : String :=
  let pre := specPrefixStatuses [] chunks
  if pre.getLast? == some .err then
    -- the expressions completed before the error, from the whole-text parse
    let whole := parseChunks [chunks.flatten]
    showStatuses pre ++ " | " ++ canonList whole.exprs
  else
    let whole := parseChunks [chunks.flatten]
    let fin : Status := if whole.status == .err then .err else
      match Spec.Unfinished (chunks.flatten ++ eofPiece) with
      | some true => .more
      | some false => .done
      | none => .err
    showStatuses (pre ++ [fin]) ++ " | " ++ canonList whole.exprs

def lastValue (es : List Sexp) : String :=
  let es := es.filter fun e => match e with
    | .comment _ _ => false
    | _ => true
  match es.getLast? with
  | some e => canon e
  | none => "nil"

/-! ### ops `h` and `ei`: the parser driven call by call (`Model/Abandon.PSt`) -/

def route? : String → Option Route
  | "r" => some .resetAdd
  | "n" => some .resetNew
  | "s" => some .stopResetAdd
  | "t" => some .stopResetNew
  | "S" => some .stopNew
  | "R" => some .resetAddLexerFirst     -- experiments with the other statement order only
  | "N" => some .resetNewLexerFirst
  | _ => none

structure HEntry where
  route : Route
  eof : Bool
  again : Nat
  txt : List Char
  queued : Option (List Char)

def hEntry? (e : String) : Option HEntry :=
  match e.splitOn ":" with
  | [r, m, a, t] => do
    let r ← route? r
    let eof ← (if m == "w" then some true else if m == "a" then some false else none)
    let a ← a.toNat?
    let t ← toChars? t
    if r == .stopNew then none else pure ⟨r, eof, a, t, none⟩
  | [r, m, a, t, q] => do
    let r ← route? r
    let eof ← (if m == "w" then some true else if m == "a" then some false else none)
    let a ← a.toNat?
    let t ← toChars? t
    let q ← toChars? q
    if r == .stopNew then none else pure ⟨r, eof, a, t, some q⟩
  | _ => none

def hEntries? (hs : String) : Option (List HEntry) :=
  if hs == "-" then some [] else (hs.splitOn "/").mapM hEntry?

def callParseTokens (F : Nat) (p : PSt) : Nat → PSt
  | 0 => p
  | n + 1 => callParseTokens F (p.parseTokens F).2.2 n

def runHEntry (F : Nat) (p : PSt) (e : HEntry) : PSt :=
  let p1 := p.start e.route e.txt
  let p2 := if e.eof then p1.endInput else p1
  let p3 := callParseTokens F p2 (e.again + 1)
  match e.queued with
  | some q => p3.newInput q
  | none => p3

def resultLine (r : Result) : String :=
  showStatuses (r.trace ++ [r.status]) ++ " | " ++ canonList r.exprs

def handleH (h r c : String) : String :=
  match hEntries? h, route? r, ((c.splitOn "/").mapM toChars?) with
  | some es, some route, some cs =>
    let total := (es.map fun e => e.txt.length + (e.queued.getD []).length).sum + cs.flatten.length
    let F := 4 * total + 16
    let p := es.foldl (runHEntry F) PSt.fresh
    let m := resultLine (p.parseBy F route cs).1
    if route.isReset then
      -- the same text on the delivery model of `Model/Parser` (pieces known in advance): the two
      -- interpreters of the protocol must agree (`Proofs/Abandon`)
      let m2 := resultLine (parseChunks cs)
      let m := if m == m2 then m else s!"MODELS-DISAGREE stepwise[{m}] run[{m2}]"
      s!"{m}\t{specAnswer cs}"
    else s!"{m}\t-"
  | _, _, _ => "bad-op\t-"

/-- interpreter-level history entry: `E`/`L` = LoadStream (ResetAddNewInput, EndInput,
ParseTokens); `R` = the `read` builtin (the same, then the range loop is left after the first
reply: the iterator unwinds at once); `P` = ParseFile (Reset, NewInput, EndInput, ParseTokens);
`C` = Clear (does not touch the parser) -/
def runIEntry (F : Nat) (p : PSt) (e : String) : Option PSt :=
  match e.toList with
  | k :: ':' :: cs =>
    match toChars? (String.ofList cs) with
    | none => none
    | some txt =>
      if k == 'E' || k == 'L' then some (((p.resetAddNewInput txt).endInput).parseTokens F).2.2
      else if k == 'R' then some ((((p.resetAddNewInput txt).endInput).parseTokens F).2.2).stop
      else if k == 'P' then some ((((p.reset).newInput txt).endInput).parseTokens F).2.2
      else if k == 'C' then some p
      else none
  | _ => none

def handleEi (h x t : String) : String :=
  match toChars? t with
  | none => "bad-op\t-"
  | some txt =>
    let es := if h == "-" then [] else h.splitOn "/"
    let F := 4 * ((es.map String.length).sum + txt.length) + 16
    let p? := es.foldl (fun (p : Option PSt) e => p.bind fun p => runIEntry F p e) (some PSt.fresh)
    match p? with
    | none => "bad-op\t-"
    | some p =>
      if x == "1" then "twin=same\ttwin=same" else
      let (st, ex, _) := ((p.resetAddNewInput txt).endInput).parseTokens F
      let m := if st == .done then lastValue ex else "err"
      let r := parseChunks [txt]
      let s := if r.status == .done then lastValue r.exprs else "err"
      s!"v={m} twin=same\tv={s} twin=same"

def handle (toks : List String) : String :=
  match toks with
  | ["ev", c] =>
    match toChars? c with
    | some txt =>
      let r := parseChunks [txt]
      let a := if r.status == .done then lastValue r.exprs else "err"
      s!"{a}\t{a}"
    | none => "bad-op\t-"
  | ["h", h, r, c] =>
    if h.startsWith "H=" && r.startsWith "R=" && c.startsWith "C=" then
      handleH (h.drop 2).toString (r.drop 2).toString (c.drop 2).toString
    else "bad-op\t-"
  | ["ei", h, x, t] =>
    if h.startsWith "H=" && x.startsWith "X=" && t.startsWith "T=" then
      handleEi (h.drop 2).toString (x.drop 2).toString (t.drop 2).toString
    else "bad-op\t-"
  | ["p", h, c] =>
    if h.startsWith "H=" && c.startsWith "C=" then
      let hs := (h.drop 2).toString
      let hist := if hs == "-" then some LexState.init else parseHist LexState.init (hs.splitOn "/")
      let chunks := ((c.drop 2).toString.splitOn "/").mapM toChars?
      match hist, chunks with
      | some l, some cs =>
        let r := parseChunksFrom l cs
        let m := showStatuses (r.trace ++ [r.status]) ++ " | " ++ canonList r.exprs
        s!"{m}\t{specAnswer cs}"
      | _, _ => "bad-op\t-"
    else "bad-op\t-"
  | _ => "bad-op\t-"

end ZygoVerif.Driver.Parse
