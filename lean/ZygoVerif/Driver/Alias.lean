/-
Channel `alias` (C02, "constructor freshness / aliasing"): op format, model column (VM model,
`VM.runText`) and spec column (reference evaluator, `Ref.runProgram`) are those of channel
`eval` (`Driver/Eval.lean`, whose record formats are reused); only the generator differs
(harness/gen_alias.go). The programs are small (recursion depth 3, loops of 3 iterations), so
a text that does not terminate (malformed stream) is cut off earlier than in `eval`.
-/
import ZygoVerif.Driver.Eval
namespace ZygoVerif.Driver.Alias
open ZygoVerif.Core ZygoVerif.Driver.Eval

def refFuel : Nat := 1500
def vmFuel : Nat := 8000

def specHistory : List String → Ref.St → Bool → List String
  | [], _, _ => []
  | t :: ts, s, alive =>
    if !alive then "-" :: specHistory ts s false else
    match readAll t with
    | none => "-" :: specHistory ts s false
    | some sxs =>
      let es := elabProgram sxs
      if !Ref.wfList {} es then "-" :: specHistory ts s false
      else
        let (o, s') := Ref.runProgram refFuel es s
        match o with
        | .timeout => "-" :: specHistory ts s false
        | _ => specRecord o :: specHistory ts s' true

def modelHistory : List String → VM.St → Bool → List String
  | [], _, _ => []
  | t :: ts, s, alive =>
    if !alive then "dead" :: modelHistory ts s false else
    match readAll t with
    | none => "cerr - T[] D[0,1,0,0]" :: modelHistory ts s true
    | some sxs =>
      let (o, s', alive') := VM.runText vmFuel (elabProgram sxs) s
      modelRecord o :: modelHistory ts s' alive'

def handle (toks : List String) : String :=
  let m := " ;; ".intercalate (modelHistory toks VM.initSt true)
  let s := " ;; ".intercalate (specHistory toks Ref.initSt true)
  s!"{m}\t{s}"

end ZygoVerif.Driver.Alias
