/-
Channel `num`: runs the model of Compare / NumericDo (instantiated with Lean's native
binary64 `Float`) and the mathematical spec on one op line.
-/
import ZygoVerif.Model.Num
import ZygoVerif.Model.GoSem
import ZygoVerif.Generated.NumGo
import ZygoVerif.Spec.MathOrder
import ZygoVerif.Driver.Proto
namespace ZygoVerif.Driver.Num
open ZygoVerif.Num ZygoVerif.Proto ZygoVerif.GoSem

/-- Native instantiation. `float64(x)` for a 64-bit integer is the C conversion. -/
def native : FloatSem where
  F := Float
  isNaN := Float.isNaN
  lt := fun a b => a < b
  add := (· + ·)
  sub := (· - ·)
  mul := (· * ·)
  div := (· / ·)
  ofInt := fun z =>
    if z ≥ 0 then (UInt64.ofNat z.toNat).toFloat
    else (Int64.ofInt z).toFloat
  zero := 0.0

/-- The mathematical order of two non-NaN floats, computed without subtraction. -/
def nativeCmp (a b : Float) : Ordering :=
  if a < b then .lt else if a > b then .gt else .eq

abbrev V := NumV Float

def parseV (t h : String) : Option V := do
  let n ← parseHex? h
  match t with
  | "i" => some (.int (BitVec.ofNat 64 n))
  | "u" => some (.uint (BitVec.ofNat 64 n))
  | "c" => some (.char (BitVec.ofNat 32 n))
  | "f" => some (.flt (Float.ofBits (UInt64.ofNat n)))
  | _ => none

def showV : V → String
  | .int v => s!"i {toHex v.toNat}"
  | .uint v => s!"u {toHex v.toNat}"
  | .char v => s!"c {toHex v.toNat}"
  | .flt f => if f.isNaN then "f nan" else s!"f {toHex f.toBits.toNat}"

def showRes {α} (sh : α → String) (ev : Bool) : Res α → String
  | .ok a => sh a
  | .err => "err"
  | .panic => if ev then "err" else "panic"

def parseCmp : String → Option CmpOp
  | "<" => some .lt | ">" => some .gt | "<=" => some .le | ">=" => some .ge
  | "==" => some .eq | "!=" => some .ne | _ => none

def parseAr : String → Option ArOp
  | "+" => some .add | "-" => some .sub | "*" => some .mul | "/" => some .div | _ => none

def parseVs : List String → Option (List V)
  | [] => some []
  | t :: h :: rest => do
    let v ← parseV t h
    let vs ← parseVs rest
    some (v :: vs)
  | _ => none

def showB (b : Bool) : String := if b then "t" else "f"

/-- Spec-side answer for integer arithmetic: ℤ arithmetic reduced mod 2^64 (2^32 for a
char result), exact division when it divides. `-` where the spec defers to IEEE. -/
def specArith (ev : Bool) (op : ArOp) (a b : V) : String :=
  let wrap (signed : Bool) (z : Int) : String :=
    let v := BitVec.ofInt 64 z
    if signed then s!"i {toHex v.toNat}" else s!"u {toHex v.toNat}"
  let go (signed : Bool) (x y : Int) : String :=
    match op with
    | .add => wrap signed (x + y)
    | .sub => wrap signed (x - y)
    | .mul => wrap signed (x * y)
    | .div =>
      if y = 0 then (if ev then "err" else "panic")  -- an error for the script (the direct Go call panics)
      else if x % y = 0 then wrap signed (x / y) else "-"
  match a, b with
  | .int x, .int y => go true x.toInt y.toInt
  | .uint x, .uint y => go false x.toNat y.toNat
  | _, _ => "-"

/-! Ops `gcmp` / `gar` / `gint`: the functions TRANSLATED from the Go source
(`Generated/NumGo.lean`, or their last-good copies where the translator refused) run on the
same operands as the Go originals `(*Zlisp).Compare`, `NumericDo`, `IntegerDo` called
directly. This validates the translator: a wrong translation shows up as a correspondence
break, not as a false proof. -/

abbrev GV := Sx Float

def parseGV (t h : String) : Option GV := do
  let n ← parseHex? h
  match t with
  | "i" => some (.int (BitVec.ofNat 64 n))
  | "u" => some (.uint (BitVec.ofNat 64 n))
  | "c" => some (.char (BitVec.ofNat 32 n))
  | "f" => some (.flt (Float.ofBits (UInt64.ofNat n)))
  | "b" => some (.bool (n != 0))
  | _ => none

def showGV : GV → String
  | .int v => s!"i {toHex v.toNat}"
  | .uint v => s!"u {toHex v.toNat}"
  | .char v => s!"c {toHex v.toNat}"
  | .flt f => if f.isNaN then "f nan" else s!"f {toHex f.toBits.toNat}"
  | .bool b => showB b

def parseNumericOp : String → Option NumericOp
  | "+" => some .Add | "-" => some .Sub | "*" => some .Mult | "/" => some .Div | _ => none

def parseIntegerOp : String → Option IntegerOp
  | "sll" => some .ShiftLeft | "sra" => some .ShiftRightArith | "srl" => some .ShiftRightLog
  | "mod" => some .Modulo | "and" => some .BitAnd | "or" => some .BitOr | "xor" => some .BitXor
  | _ => none

def handleGen (toks : List String) : Option String :=
  match toks with
  | "gcmp" :: ta :: ha :: tb :: hb :: [] => do
    let a ← parseGV ta ha
    let b ← parseGV tb hb
    some (showRes (fun (v : BitVec 64) => toString v.toInt) false (NumGo.Compare native a b))
  | "gar" :: op :: ta :: ha :: tb :: hb :: [] => do
    let op ← parseNumericOp op
    let a ← parseGV ta ha
    let b ← parseGV tb hb
    some (showRes showGV false (NumGo.NumericDo native op a b))
  | "gint" :: op :: ta :: ha :: tb :: hb :: [] => do
    let op ← parseIntegerOp op
    let a ← parseGV ta ha
    let b ← parseGV tb hb
    some (showRes showGV false (NumGo.IntegerDo native op a b))
  | _ => none

/-- `num meta`: what the translator refused (aliases of the last-good copy) and its problems;
read by checks/C07.py from the very binary the ops run through. -/
def metaLine : String :=
  let r := NumGo.refused.map (fun (n, c, p) => s!"{n}@{p}: {c}")
  s!"refused={NumGo.refused.length} problems={NumGo.problems.length} translated={NumGo.goSigs.length - NumGo.refused.length}" ++
    " | " ++ " ;; ".intercalate r ++ " | " ++ " ;; ".intercalate NumGo.problems

def toNumV : GV → Option V
  | .int v => some (.int v)
  | .uint v => some (.uint v)
  | .char v => some (.char v)
  | .flt f => some (.flt f)
  | .bool _ => none

/-- What the mathematical order says about the three-way `Compare` of two operands:
`err` (not comparable), `nan` (unordered), or -1 / 0 / 1. -/
def spec3 (a b : GV) : String :=
  match toNumV a, toNumV b with
  | some x, some y =>
    match specCmp native nativeCmp x y with
    | none => "err"
    | some none => "nan"
    | some (some .lt) => "-1"
    | some (some .eq) => "0"
    | some (some .gt) => "1"
  | _, _ => "-"

/-- `same api …`: the translated functions (and the spec) on the operand pair (v, v). The
model and the spec are value-level: that both operands are one object cannot matter. -/
def handleSameApi (op : String) (v : GV) : String :=
  if op == "cmp3" then
    let m := match NumGo.Compare native v v with
      | .ok r => if r.toInt > 1 then "nan" else toString r.toInt
      | .err => "err"
      | .panic => "panic"
    s!"{m}\t{spec3 v v}"
  else match parseNumericOp op with
    | some o =>
      let sp := match toNumV v, parseAr op with
        | some x, some aop => specArith false aop x x
        | _, _ => "-"
      s!"{showRes showGV false (NumGo.NumericDo native o v v)}\t{sp}"
    | none =>
      match parseIntegerOp op with
      | some o => s!"{showRes showGV false (NumGo.IntegerDo native o v v)}\t-"
      | none => "bad-op\t-"

def handleCore (toks : List String) : String :=
  match toks with
  | "meta" :: _ => metaLine ++ "\t-"
  | "gcmp" :: _ | "gar" :: _ | "gint" :: _ =>
    match handleGen toks with
    | some m => s!"{m}\t-"
    | none => "bad-op\t-"
  | "cmp" :: mode :: op :: ta :: ha :: tb :: hb :: [] =>
    match parseCmp op, parseV ta ha, parseV tb hb with
    | some op, some a, some b =>
      let ev := mode == "ev"
      let m := showRes showB ev (compareFn native op a b)
      let s := showRes showB ev (specCompareFn native nativeCmp op a b)
      s!"{m}\t{s}"
    | _, _, _ => "bad-op\t-"
  | "ar" :: mode :: op :: rest =>
    let ev := mode == "ev"
    match parseVs rest with
    | some (a :: bs) =>
      if op == "mod" then
        match bs with
        | [b] => s!"{showRes showV ev (moduloDo native a b)}\t-"
        | _ => "bad-op\t-"
      else match parseAr op with
        | some aop =>
          let m := showRes showV ev (numericFold native aop a bs)
          let s := match bs with
            | [b] => specArith ev aop a b
            | _ => "-"
          s!"{m}\t{s}"
        | none => "bad-op\t-"
    | _ => "bad-op\t-"
  | _ => "bad-op\t-"

end ZygoVerif.Driver.Num

namespace ZygoVerif.Driver.Num

/-- `same <route> <op> <t> <hex>`: both operands are one object. Every route other than `api`
is answered by the `cmp` / `ar` machinery on the value pair (v, v). -/
def handle (toks : List String) : String :=
  match toks with
  | "same" :: route :: op :: t :: h :: [] =>
    if route == "api" then
      match parseGV t h with
      | some v => handleSameApi op v
      | none => "bad-op\t-"
    else
      let mode := if route == "fn" then "fn" else "ev"
      let kind := if (parseCmp op).isSome then "cmp" else "ar"
      handleCore [kind, mode, op, t, h, t, h]
  | _ => handleCore toks

end ZygoVerif.Driver.Num
