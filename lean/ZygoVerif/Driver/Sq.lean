/-
Channel `sq` (C15): runs the model (`SQ.genTop` + the stack machine) and the spec
(`Subst.subst`) on one op line. Op grammar: see harness/ch_sq.go.
-/
import ZygoVerif.Model.SQ
import ZygoVerif.Model.MacroCall
import ZygoVerif.Spec.Subst
import ZygoVerif.Driver.Proto
import ZygoVerif.Generated.SQCtx
namespace ZygoVerif.Driver.Sq
open ZygoVerif.SQ ZygoVerif.Subst

/-- the expression named by `U<k>` / `S<k>` -/
def exprOf (k : Nat) : Sexp := .atom (.sym s!"z{k}")

def pairUp : List Tmpl → Option (List (Tmpl × Tmpl))
  | [] => some []
  | k :: v :: r => (pairUp r).map ((k, v) :: ·)
  | _ => none

/-- What the op line holds. A dotted pair `( a b . c )` is not a list template: the spec is
silent about it (`toTmpl?` = none), the model says it is pushed as written. -/
inductive PT where
  | lit (a : Atom)
  | unq (k : Nat)
  | spl (k : Nat)
  | list (ts : List PT) (tail : Option PT)
  | arr (ts : List PT)
  | hash (ty : String) (ts : List PT)
  deriving Inhabited

mutual
partial def parseT (toks : List String) : Option (PT × List String) :=
  match toks with
  | [] => none
  | t :: rest =>
    if t.startsWith "s:" then some (.lit (.sym (t.drop 2).toString), rest)
    else if t.startsWith "q:" then some (.lit (.str (t.drop 2).toString), rest)
    else if t.startsWith "i:" then (t.drop 2).toString.toInt?.map (fun n => (.lit (.int n), rest))
    else if t == "(" then (parseSeq rest ")").map (fun (ts, tl, r) => (.list ts tl, r))
    else if t == "[" then (parseSeq rest "]").bind (fun (ts, tl, r) => if tl.isNone then some (.arr ts, r) else none)
    else if t == "{" then
      match rest with
      | ty :: rest' => (parseSeq rest' "}").bind (fun (ts, tl, r) => if tl.isNone then some (.hash ty ts, r) else none)
      | [] => none
    else if t.startsWith "U" then (t.drop 1).toString.toNat?.map (fun k => (.unq k, rest))
    else if t.startsWith "S" then (t.drop 1).toString.toNat?.map (fun k => (.spl k, rest))
    else none
partial def parseSeq (toks : List String) (closer : String) : Option (List PT × Option PT × List String) :=
  match toks with
  | [] => none
  | t :: rest =>
    if t == closer then some ([], none, rest)
    else if t == "." then do
      let (x, r) ← parseT rest
      match r with
      | c :: r' => if c == closer then some ([], some x, r') else none
      | [] => none
    else do
      let (x, r) ← parseT toks
      let (xs, tl, r') ← parseSeq r closer
      some (x :: xs, tl, r')
end

partial def PT.toTmpl? : PT → Option Tmpl
  | .lit a => some (.lit a)
  | .unq k => some (.unquote (exprOf k))
  | .spl k => some (.splice (exprOf k))
  | .list ts none => (ts.mapM PT.toTmpl?).map .list
  | .list _ (some _) => none
  | .arr ts => (ts.mapM PT.toTmpl?).map .arr
  | .hash ty ts => (ts.mapM PT.toTmpl?).bind (fun xs => (pairUp xs).map (.hash ty))

instance : Inhabited Sexp := ⟨.nil⟩

/-- the form as the reader / the Go API hands it to the generator -/
partial def PT.toSexp : PT → Sexp
  | .lit a => .atom a
  | .unq k => mkList [.atom (.sym "unquote"), exprOf k]
  | .spl k => mkList [.atom (.sym "unquote-splicing"), exprOf k]
  | .list ts tl => ts.foldr (fun t acc => .cons t.toSexp acc) (match tl with | some x => x.toSexp | none => .nil)
  | .arr ts => .arr (mkList (ts.map PT.toSexp))
  | .hash ty ts => .hash ty (mkList (ts.map PT.toSexp))

mutual
def showS : Sexp → List String
  | .atom (.sym n) => ["s:" ++ n]
  | .atom (.int n) => [s!"i:{n}"]
  | .atom (.str s) => ["q:" ++ s]
  | .nil => ["(", ")"]
  | .cons h t => ["("] ++ showS h ++ showTail t ++ [")"]
  | .arr xs => ["["] ++ showTail xs ++ ["]"]
  | .hash ty flat => ["{", ty] ++ showTail flat ++ ["}"]
def showTail : Sexp → List String
  | .nil => []
  | .cons h t => showS h ++ showTail t
  | s => "." :: showS s
end

def render (s : Sexp) : String := " ".intercalate (showS s)

/-- The ordered-map constructor used by the driver: keys are atoms; a repeated key keeps its
first position and takes the last value (hashutils.go HashSet). -/
def hashSet (m : List (Sexp × Sexp)) (k v : Sexp) : List (Sexp × Sexp) :=
  if m.any (fun p => p.1 == k) then m.map (fun p => if p.1 == k then (k, v) else p)
  else m ++ [(k, v)]

def pairVals : List Sexp → Option (List (Sexp × Sexp))
  | [] => some []
  | k :: v :: r => (pairVals r).map ((k, v) :: ·)
  | _ => none

def isAtom : Sexp → Bool
  | .atom _ => true
  | _ => false

def mkHashD (ty : String) (xs : List Sexp) : Option Sexp := do
  let ps ← pairVals xs
  if ps.all (fun p => isAtom p.1) then
    let m := ps.foldl (fun m p => hashSet m p.1 p.2) []
    some (.hash ty (mkList (m.flatMap (fun p => [p.1, p.2]))))
  else none

/-- entry k of the expression table: compiles?, value -/
abbrev Table := List (Bool × Option Sexp)

def hostOf (tab : Table) : Host where
  genOK := fun e => tab.zipIdx.any (fun (p, k) => exprOf k == e && p.1)
  eval := fun e => (tab.zipIdx.find? (fun (_, k) => exprOf k == e)).bind (fun (p, _) => p.2)
  mkHash := mkHashD

def bindingOf (tab : Table) : Binding where
  value := fun e => (tab.zipIdx.find? (fun (_, k) => exprOf k == e)).bind
    (fun (p, _) => if p.1 then p.2 else none)
  mkHash := mkHashD

/-- values in the table are templates without unquotes, read as data -/
partial def parseTable (toks : List String) (forms : Bool) : Option Table :=
  match toks with
  | [] => some []
  | f :: rest =>
    if forms && f == "c!" then (parseTable rest forms).map ((false, none) :: ·)
    else if forms && f == "r!" then (parseTable rest forms).map ((true, none) :: ·)
    else do
      let (v, r) ← parseT (if forms then rest else toks)
      let tl ← parseTable r forms
      some ((true, some v.toSexp) :: tl)

def splitAt (toks : List String) : List String × List String :=
  (toks.takeWhile (· ≠ ";"), (toks.dropWhile (· ≠ ";")).drop 1)

def wrap7 (v : Sexp) : Sexp := mkList [.atom (.int 7), v, .atom (.int 8)]

/-! ### `sq h`: one template evaluated k times, earlier results mutated in place -/

/-- the mutation the harness applies after evaluation `i` (1-based): `(aset c 0 <770+i>)` on a
non-empty array, `(hset c zz <770+i>)` on a hash -/
def mutationOf (i : Nat) : Mutation where
  arr := fun xs => match xs with
    | [] => []
    | _ :: r => .atom (.int (770 + i)) :: r
  hash := fun h => match h with
    | .hash ty flat =>
      match (listToArray flat).bind pairVals with
      | some ps => .hash ty (mkList ((hashSet ps (.atom (.sym "zz")) (.atom (.int (770 + i)))).flatMap (fun p => [p.1, p.2])))
      | none => h
    | _ => h

/-! ### `sq k`: a macro call in its context against the expansion written by hand -/

/-- replace the symbol HOLE -/
partial def fill (w : Sexp) : Sexp → Sexp
  | .atom (.sym "HOLE") => w
  | .cons h t => .cons (fill w h) (fill w t)
  | .arr xs => .arr (fill w xs)
  | s => s

/-- the listing as VerifCtxListing prints it; loops are numbered in order of appearance -/
def showKI (code : List KI) : String :=
  let step := fun (acc : List String × List Nat) (i : KI) =>
    let (out, seen) := acc
    let ord := fun (id : Nat) (seen : List Nat) =>
      match seen.idxOf? id with
      | some k => (k, seen)
      | none => (seen.length, seen ++ [id])
    match i with
    | .addScope => (out ++ ["A"], seen)
    | .remScope => (out ++ ["R"], seen)
    | .loopStart id => let (k, sn) := ord id seen; (out ++ [s!"L{k}"], sn)
    | .brk id p => let (k, sn) := ord id seen; (out ++ [s!"B{k}.{p}"], sn)
    | .cont id p => let (k, sn) := ord id seen; (out ++ [s!"C{k}.{p}"], sn)
    | .prepCall n => (out ++ [s!"P{n}"], seen)
    | .goto0 => (out ++ ["G"], seen)
    | .callX f n => (out ++ [s!"X:{f}/{n}"], seen)
    | .fnOpen => (out ++ ["F["], seen)
    | .fnClose => (out ++ ["]"], seen)
  " ".intercalate (code.foldl step ([], [])).1

/-- `( ( s:name [ s:p0 … ] T ) … )` -/
def macroTable (defs : PT) : Option (List (String × Macro)) :=
  match defs with
  | .list ms none => ms.mapM (fun m =>
      match m with
      | .list [.lit (.sym name), .arr ps, body] none =>
        body.toTmpl?.map (fun t => (name, { params := (List.range ps.length).map (fun k => s!"z{k}"), body := t.toSexp }))
      | _ => none)
  | _ => none

def builtinNames : List String := ["zztick", "list", "+", "-", "*", "<", ">", "==", "println", "not"]

def handle (toks : List String) : String :=
  match toks with
  | "t" :: _mode :: wrap :: rest =>
    let (tt, et) := splitAt rest
    match parseT tt, parseTable et true with
    | some (pt, []), some tab =>
      let H := hostOf tab
      let below : Stack := if wrap == "w" then [.val (.atom (.int 7))] else []
      let form := match pt.toTmpl? with
        | some t => t.toSexp
        | none => pt.toSexp
      let m := match evalOn H (genTop H form) below with
        | some (v, r) =>
          let v' := if wrap == "w" then wrap7 v else v
          s!"ok {render v'} d={r.length - below.length}"
        | none => "err"
      let s := match pt.toTmpl? with
        | none => "-"
        | some t => match subst (bindingOf tab) t with
          | some v => s!"ok {render (if wrap == "w" then wrap7 v else v)} d=0"
          | none => "err"
      s!"{m}\t{s}"
    | _, _ => "bad-op\t-"
  | "c" :: _mode :: _wrap :: rest =>
    let (tt, et) := splitAt rest
    match parseT tt, parseTable et true with
    | some (pt, []), some tab =>
      let H := hostOf tab
      let form := match pt.toTmpl? with
        | some t => t.toSexp
        | none => pt.toSexp
      let showI : Instr → String
        | .push v => s!"P {render v}"
        | .marker => "M"
        | .eval (.atom (.sym n)) => s!"G {n}"
        | .eval e => s!"G? {render e}"
        | .explode => "X"
        | .squash => "Q"
        | .vectorize => "V"
        | .hashize ty => s!"H {ty}"
      match genTop H form with
      | some code => s!"code {" , ".intercalate (code.map showI)}\t-"
      | none => "err\t-"
    | _, _ => "bad-op\t-"
  | "m" :: _site :: n :: rest =>
    let (tt, av) := splitAt rest
    match (parseT tt).bind (fun (pt, r) => if r.isEmpty then pt.toTmpl? else none), parseTable av false, n.toNat? with
    | some t, some tab, some np =>
      -- model: the macro call path of Model/MacroCall (parameters z0 … bound to the argument forms)
      let mac : Macro := { params := (List.range np).map (fun k => s!"z{k}"), body := t.toSexp }
      let args := tab.filterMap (·.2)
      let m := match expand mkHashD mac args with
        | some v => s!"x {render v} eq dep=ok"
        | none => "err"
      -- spec: substitution of the argument forms (defined only when the arity matches)
      let s := if args.length ≠ np then "err" else
        match subst (bindingOf tab) t with
        | some v => s!"x {render v} eq dep=ok"
        | none => "err"
      s!"{m}\t{s}"
    | _, _, _ => "bad-op\t-"
  | "h" :: _route :: n :: rest =>
    let (tt, et) := splitAt rest
    match parseT tt, parseTable et true, n.toNat? with
    | some (pt, []), some tab, some k =>
      let H := hostOf tab
      let idx := (List.range k).map (· + 1)
      let line := fun (rs fs : List Sexp) =>
        s!"ok {" // ".intercalate (rs.map render)} ;; {" // ".intercalate (fs.map render)}"
      let form := match pt.toTmpl? with
        | some t => t.toSexp
        | none => pt.toSexp
      let specHist := pt.toTmpl?.bind (fun t => history (bindingOf tab) (idx.map mutationOf) t)
      -- model: the same code run k times on the stack machine; by `sq_result_fresh` /
      -- `sq_code_pushes_no_container` every container of a result outside the unquoted values
      -- was allocated by that run, so a mutation of one result shows in that result only
      let m := match evalOn H (genTop H form) [] with
        | some (v, _) =>
          let rs := idx.map (fun _ => v)
          match specHist with
          | some (v' :: _, fs) => if v' = v then line rs fs else line rs rs
          | _ => line rs rs
        | none => "err"
      let s := match pt.toTmpl? with
        | none => "-"
        | some _ => match specHist with
          | some (rs, fs) => line rs fs
          | none => "err"
      s!"{m}\t{s}"
    | _, _, _ => "bad-op\t-"
  | op :: rest =>
    if op != "k" && op != "kc" then "bad-op\t-" else
    match parseT rest with
    | some (defs, r1) =>
      match parseT r1 with
      | some (.list argPTs none, r2) =>
        match parseT r2, macroTable defs with
        | some (.list progPTs none, []), some ((name, mac) :: more) =>
          let tab := (name, mac) :: more
          let E : CEnv := { mkHash := mkHashD, macros := fun f => (tab.find? (fun p => p.1 == f)).map (·.2),
                            builtin := fun f => builtinNames.contains f,
                            scanExpansions := Generated.SQCtx.rebindScansExpansions }
          let args := argPTs.map PT.toSexp
          let prog := progPTs.map PT.toSexp
          let call := Sexp.cons (.atom (.sym name)) (mkList args)
          let listing := fun (w : Sexp) => match genProgram E 200 (prog.map (fill w)) with
            | some code => some (showKI code)
            | none => none
          let show? := fun (o : Option String) => match o with | some l => l | none => "err"
          let lm := listing call
          if op == "kc" then
            -- the model generator's context listing of the program with the macro call
            s!"kc ctx= {show? lm}\t-"
          else
          -- spec: substitution of the argument forms for the parameters, written into the program by hand
          let tmpl := (match defs with
            | .list (.list [_, _, body] none :: _) none => body.toTmpl?
            | _ => none)
          let paramTab : Table := args.map (fun a => (true, some a))
          let byHand := if args.length ≠ mac.params.length then none else tmpl.bind (subst (bindingOf paramTab))
          match byHand with
          | none => s!"k noexp {if lm.isSome then "ok" else "err"}\tk noexp err"
          | some x =>
            -- model: the two programs compile to the same context listing (`macro_call_in_context`)
            let same := if lm == listing x then "k eq code=eq ctx=eq dep=ok" else "k ne:model code=ne ctx=ne dep=ok"
            s!"{same}\tk eq code=eq ctx=eq dep=ok"
        | _, _ => "bad-op\t-"
      | _ => "bad-op\t-"
    | none => "bad-op\t-"
  | [] => "bad-op\t-"

end ZygoVerif.Driver.Sq
