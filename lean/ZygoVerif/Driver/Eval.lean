/-
Channel `eval`: op = a history of program texts (blank written `~`) against one
interpreter. The driver reads each text with the small reader of `Model/Sexp.lean`,
elaborates it, and answers

  model column : the VM model (`Model/VM.lean`), one record per text in the harness format
                 `<class> <value> T[<trace>] D[<data>,<scope>,<addr>,<loop>]`
  spec column  : the reference evaluator (`Spec/RefEval.lean`):
                 `<class> <value> T[<trace>]` per text, or `-` from the first text on that
                 is outside the property's domain (not well-formed, or fuel ran out).
-/
import ZygoVerif.Model.CoreSexp
import ZygoVerif.Spec.RefEval
import ZygoVerif.Model.VM
import ZygoVerif.Driver.Proto
namespace ZygoVerif.Driver.Eval
open ZygoVerif.Core

def refFuel : Nat := 3000
def vmFuel : Nat := 30000

def showTrace (t : List String) : String := "T[" ++ ",".intercalate t ++ "]"

def specRecord : Ref.Outcome → String
  | .ok v t => s!"ok {v} {showTrace t}"
  | .err t => s!"err - {showTrace t}"
  | .timeout => "-"

/-- Spec side of a history. -/
def specHistory (strict : Bool) : List String → Ref.St → Bool → List String
  | [], _, _ => []
  | t :: ts, s, alive =>
    if !alive then "-" :: specHistory strict ts s false else
    match readAll t with
    | none => "-" :: specHistory strict ts s false
    | some sxs =>
      let es := elabProgram sxs
      if !Ref.wfList { strict } es then "-" :: specHistory strict ts s false
      else
        let (o, s') := Ref.runProgram refFuel es s
        match o with
        | .timeout => "-" :: specHistory strict ts s false
        | _ => specRecord o :: specHistory strict ts s' true

def modelRecord (o : VM.Outcome) : String :=
  match o with
  | .done cls v t d => s!"{cls} {v} {showTrace t} D[{d}]"
  | .dead => "dead"

def modelHistory : List String → VM.St → Bool → List String
  | [], _, _ => []
  | t :: ts, s, alive =>
    if !alive then "dead" :: modelHistory ts s false else
    match readAll t with
    | none => "cerr - T[] D[0,1,0,0]" :: modelHistory ts s true
    | some sxs =>
      let (o, s', alive') := VM.runText vmFuel (elabProgram sxs) s
      modelRecord o :: modelHistory ts s' alive'

def handle (toks : List String) : String :=
  -- `+argbrk` as the first token: judge with the non-strict domain (hand-written ops only)
  let (strict, toks) := match toks with
    | "+argbrk" :: rest => (false, rest)
    | _ => (true, toks)
  let m := " ;; ".intercalate (modelHistory toks VM.initSt true)
  let s := " ;; ".intercalate (specHistory strict toks Ref.initSt true)
  s!"{m}\t{s}"

end ZygoVerif.Driver.Eval
