/-
Channel `rest` (C04, depth oracle): op = what harness/ch_rest.go OBSERVED of the real
interpreter serving one history twice (texts as a whole / form by form):

  I:<d,s,a,l> {T|S:<cls>:<d,s,a,l>:<val>}+ E:<cls>:<d,s,a,l>:<val> … G:<d,s,a,l> C:<contract> / I:… S:… E:… G:… C:…

The driver evaluates the property as stated in Spec/AtRest.lean on the observation.

  model column : `-`
  spec column  : `holds`, or the demands of the property that the observation does not meet
-/
import ZygoVerif.Spec.AtRest
import ZygoVerif.Driver.Proto
namespace ZygoVerif.Driver.Rest
open ZygoVerif.AtRest

def parseDepths (s : String) : Option Depths :=
  match (s.splitOn ",").mapM String.toNat? with
  | some [d, sc, a, l] => some ⟨d, sc, a, l⟩
  | _ => none

def parseCls : String → Option Cls
  | "ok" => some .ok | "err" => some .err | "cerr" => some .cerr
  | "panic" => some .panic | "dead" => some .dead
  | "timeout" => some .timeout | "skipped" => some .skipped | _ => none

/-- `<cls>:<depths>:<val>` (the value may itself contain colons). -/
def parseObs (fields : List String) : Option Obs :=
  match fields with
  | c :: d :: v => do
    let cls ← parseCls c
    some { cls, depths := parseDepths d, val := ":".intercalate v }
  | _ => none

structure Acc where
  init : Option Depths := none
  texts : List TextObs := []
  cur : List Obs := []
  max : Option Depths := none
  contract : Option String := none

def stepTok (a : Acc) (tok : String) : Option Acc :=
  match tok.splitOn ":" with
  | "I" :: [d] => some { a with init := parseDepths d }
  | "G" :: [d] => some { a with max := parseDepths d }
  | "C" :: rest => some { a with contract := some (":".intercalate rest) }
  | "T" :: rest => (parseObs rest).map (fun o => { a with cur := a.cur ++ [o] })
  | "S" :: rest => (parseObs rest).map (fun o => { a with cur := a.cur ++ [o] })
  | "E" :: rest => (parseObs rest).map (fun o => { a with texts := a.texts ++ [{ evals := a.cur, empty := o }], cur := [] })
  | _ => none

def parseServe (toks : List String) : Option Serve := do
  let a ← toks.foldlM stepTok ({} : Acc)
  some { init := ← a.init, texts := a.texts, max := ← a.max, contract := ← a.contract }

def splitAtSlash (toks : List String) : List String × List String :=
  (toks.takeWhile (· ≠ "/"), (toks.dropWhile (· ≠ "/")).drop 1)

def handle (toks : List String) : String :=
  match toks with
  | ["hang"] => "-\thang"      -- did not terminate: nothing is demanded of it (counted by the check)
  | _ =>
    let (a, b) := splitAtSlash toks
    match parseServe a, parseServe b with
    | some ta, some tb =>
      match judge ta tb with
      | [] => "-\tholds"
      | rs => "-\t" ++ " || ".intercalate rs
    | _, _ => "-\tunreadable-observation"

end ZygoVerif.Driver.Rest
