/-
Channel `rt` (C12). Model column: the printer model (Model/PrintData), the reader model
(`parseChunks` of Model/Parser on the whole printed text) and the evaluation of JSON-like
forms (Model/EvalData). Spec column: the value itself when it lies in the property's domain
(`Spec.DataValue.isData` / `isJsonLike`), the verdict of `Spec.DataValue.require` for numeric
spellings, `litText` for hand-written string/character literals. Op `j`: the model column is
the specification's `mathValue`/`nearestF64` (compared with math/big in the harness).
-/
import ZygoVerif.Model.PrintData
import ZygoVerif.Model.EvalData
import ZygoVerif.Spec.DataValue
import ZygoVerif.Spec.LiteralHistory
import ZygoVerif.Driver.Proto
namespace ZygoVerif.Driver.Rt
open ZygoVerif ZygoVerif.Proto ZygoVerif.PrintData ZygoVerif.EvalData ZygoVerif.Spec.DataValue

/-- the value of an op as sent (strings as bytes: they need not be UTF-8) -/
inductive DV where
  | nil | bool (b : Bool) | int (v : Int) | uint (v : Nat)
  | flt (bits : Nat) (sci : Bool) (text : List Nat)
  | char (v : Int)
  | str (b : List Nat) | raw (b : List Nat) | sym (b : List Nat)
  | list (l : List DV) | dotted (l : List DV) (tail : DV) | arr (l : List DV)
  | hash (en : List (DV × DV))
  deriving Inhabited

def parseInt? (s : String) : Option Int :=
  if s.startsWith "-" then (s.drop 1).toString.toNat?.map (fun n => -(n : Int)) else s.toNat?.map (fun n => (n : Int))

mutual
partial def parseV : List String → Option (DV × List String)
  | "n" :: r => some (.nil, r)
  | "t" :: r => some (.bool true, r)
  | "f" :: r => some (.bool false, r)
  | "i" :: x :: r => (parseInt? x).map (fun v => (.int v, r))
  | "u" :: x :: r => x.toNat?.map (fun v => (.uint v, r))
  | "c" :: x :: r => (parseInt? x).map (fun v => (.char v, r))
  | "d" :: b :: t :: r => match parseHex? b, parseCodes? t with
    | some bb, some tt => some (.flt bb false tt, r)
    | _, _ => none
  | "e" :: b :: t :: r => match parseHex? b, parseCodes? t with
    | some bb, some tt => some (.flt bb true tt, r)
    | _, _ => none
  | "s" :: x :: r => (parseCodes? x).map (fun b => (.str b, r))
  | "r" :: x :: r => (parseCodes? x).map (fun b => (.raw b, r))
  | "y" :: x :: r => (parseCodes? x).map (fun b => (.sym b, r))
  | "l" :: n :: r => match n.toNat? with
    | some k => (parseN k r).map (fun (vs, r') => (.list vs, r'))
    | none => none
  | "a" :: n :: r => match n.toNat? with
    | some k => (parseN k r).map (fun (vs, r') => (.arr vs, r'))
    | none => none
  | "p" :: n :: r => match n.toNat? with
    | some k => match parseN k r with
      | some (vs, r') => (parseV r').map (fun (t, r'') => (.dotted vs t, r''))
      | none => none
    | none => none
  | "h" :: n :: r => match n.toNat? with
    | some k => match parseN (2 * k) r with
      | some (vs, r') =>
        let rec pairUp : List DV → List (DV × DV)
          | a :: b :: rest => (a, b) :: pairUp rest
          | _ => []
        some (.hash (pairUp vs), r')
      | none => none
    | none => none
  | _ => none
partial def parseN : Nat → List String → Option (List DV × List String)
  | 0, r => some ([], r)
  | k + 1, r => match parseV r with
    | some (v, r') => (parseN k r').map (fun (vs, r'') => (v :: vs, r''))
    | none => none
end

def bytesToChars? (b : List Nat) : Option (List Char) :=
  if b.any (· > 255) then none else
  (String.fromUTF8? (ByteArray.mk (b.map (·.toUInt8)).toArray)).map String.toList

def charsToBytes (cs : List Char) : List Nat := (String.ofList cs).toUTF8.toList.map (·.toNat)

/-- a rune sent as an `int32`: negative values become values ≥ 2^31 (all invalid) -/
def runeNat (v : Int) : Nat := if v < 0 then (v + 2 ^ 32).toNat else v.toNat

partial def hasHash : DV → Bool
  | .hash _ => true
  | .list l => l.any hasHash
  | .arr l => l.any hasHash
  | .dotted l t => l.any hasHash || hasHash t
  | _ => false

/-- the parser-level value (`none`: a string or name that is not UTF-8, or a hash) -/
partial def toSexp? : DV → Option Sexp
  | .nil => some .null
  | .bool b => some (.bool b)
  | .int v => some (.int v)
  | .uint v => some (.uint v)
  | .flt b sci _ => some (.float b sci)
  | .char v => some (.char (runeNat v))
  | .str b => (bytesToChars? b).map (.str · false)
  | .raw b => (bytesToChars? b).map (.str · true)
  | .sym b => (bytesToChars? b).map (fun n => .sym n false false)
  | .list l => (l.mapM toSexp?).map Sexp.mkList
  | .arr l => (l.mapM toSexp?).map (.array · false)
  | .dotted l t => match l.mapM toSexp?, toSexp? t with
    | some hs, some tl => some (hs.foldr Sexp.pair tl)
    | _, _ => none
  | .hash _ => none

partial def toJV? : DV → Option JV
  | .nil => some .nil
  | .bool b => some (.bool b)
  | .int v => some (.int v)
  | .flt b sci _ => some (.flt b sci)
  | .str b => (bytesToChars? b).map JV.str
  | .arr l => (l.mapM toJV?).map JV.arr
  | .hash en => (en.mapM fun (kv : DV × DV) =>
      let key : Option JKey := match kv.1 with
        | DV.sym b => (bytesToChars? b).map JKey.sym
        | DV.str b => (bytesToChars? b).map JKey.str
        | _ => none
      match key, toJV? kv.2 with
      | some kk, some vv => some (kk, vv)
      | _, _ => none).map JV.hash
  | _ => none

partial def floatTable : DV → List (Nat × Bool × List Char)
  | .flt b sci t => [(b, sci, t.map Char.ofNat)]
  | .list l => l.flatMap floatTable
  | .arr l => l.flatMap floatTable
  | .dotted l t => l.flatMap floatTable ++ floatTable t
  | .hash en => en.flatMap fun (kv : DV × DV) => floatTable kv.1 ++ floatTable kv.2
  | _ => []

/-- `strconv.FormatFloat` instantiated by the texts the op carries -/
def fmtOf (tab : List (Nat × Bool × List Char)) : FloatFmt := fun b sci =>
  match tab.find? (fun e => e.1 == b && e.2.1 == sci) with
  | some e => e.2.2
  | none => []

def floatCanon (b : Nat) : String := if isNaNBits b then "d nan" else "d " ++ toHex b

/-- canonical form of the value sent (spec side) -/
partial def canonDV : DV → String
  | .nil => "n"
  | .bool b => if b then "t" else "f"
  | .int v => s!"i {v}"
  | .uint v => s!"u {v}"
  | .flt b _ _ => floatCanon b
  | .char v => s!"c {v}"
  | .str b => "s " ++ showCodes b
  | .raw b => "r " ++ showCodes b
  | .sym b => "y " ++ showCodes b
  | .list l => if l.isEmpty then "n" else s!"l {l.length}" ++ String.join (l.map fun e => " " ++ canonDV e)
  | .arr l => s!"a {l.length}" ++ String.join (l.map fun e => " " ++ canonDV e)
  | .dotted l t => s!"p {l.length}" ++ String.join (l.map fun e => " " ++ canonDV e) ++ " " ++ canonDV t
  | .hash en => s!"h {en.length}" ++ String.join (en.map fun (kv : DV × DV) => " " ++ canonDV kv.1 ++ " " ++ canonDV kv.2)

/-- canonical form of a value the reader model built -/
partial def canonSexp : Sexp → String
  | .int v => s!"i {v}"
  | .uint v => s!"u {v}"
  | .float b _ => floatCanon b
  | .char v => s!"c {v}"
  | .str s raw => (if raw then "r " else "s ") ++ showCodes (charsToBytes s)
  | .sym n _ _ => "y " ++ showCodes (charsToBytes n)
  | .bool b => if b then "t" else "f"
  | .null => "n"
  | .endS => "sentinel"
  | .comment _ _ => "comment"
  | .comma => "other:*zygo.SexpComma"
  | .semicolon => "other:*zygo.SexpSemicolon"
  | .emptyHash => "h 0"
  | .array es inf => (if inf then "infix-" else "") ++ s!"a {es.length}" ++ String.join (es.map fun e => " " ++ canonSexp e)
  | .pair h t =>
    let rec heads : Sexp → List Sexp × Sexp
      | .pair h t => let (hs, tl) := heads t; (h :: hs, tl)
      | x => ([], x)
    let (hs, tl) := heads (.pair h t)
    let body := String.join (hs.map fun e => " " ++ canonSexp e)
    match tl with
    | .null => s!"l {hs.length}" ++ body
    | x => s!"p {hs.length}" ++ body ++ " " ++ canonSexp x

partial def canonJV : JV → String
  | .nil => "n"
  | .bool b => if b then "t" else "f"
  | .int v => s!"i {v}"
  | .flt b _ => floatCanon b
  | .str s => "s " ++ showCodes (charsToBytes s)
  | .arr es => s!"a {es.length}" ++ String.join (es.map fun e => " " ++ canonJV e)
  | .hash en => s!"h {en.length}" ++ String.join (en.map fun (k, v) =>
      (match k with
       | .sym n => " y " ++ showCodes (charsToBytes n)
       | .str s => " s " ++ showCodes (charsToBytes s)) ++ " " ++ canonJV v)

def showText (cs : List Char) : String := showCodes (cs.map Char.toNat)

def readAnswer (txt : List Char) : String :=
  match readAll txt with
  | none => "err"
  | some [] => "none"
  | some [e] => canonSexp e
  | some _ => "multi"

def isNumber : Sexp → Bool
  | .int _ | .uint _ | .float _ _ => true
  | _ => false

def literalAnswer (txt : List Char) : String :=
  match readAll txt with
  | none => "err"
  | some [e] => if isNumber e then canonSexp e else "nonnum"
  | some _ => "nonnum"

def verdictString : Verdict → String
  | .must (some v) => canonSexp v
  | .must none => "err"
  | .may (some v) => "?" ++ canonSexp v
  | .may none => "?err"
  | .notNumber => "!num"

def judgeString (txt : List Char) : String :=
  match mathValue txt with
  | none => "nonnum"
  | some (v, _) => match denote v with
    | some x => canonSexp x
    | none => "err"

def litSpec (txt : List Char) : String :=
  match litText txt with
  | (.runes l, '"') => "s " ++ showCodes (charsToBytes l)
  | (.runes l, '`') => "r " ++ showCodes (charsToBytes l)
  | (.runes [c], '\'') => s!"c {c.toNat}"
  | (.invalid, _) => "err"
  | _ => "-"

/-! ### `rt H <mode> <step>…` — histories on one long-lived reader (harness/ch_rt_hist.go)

Model column: every step read by the reader model FROM A FRESH STATE (`readAll`; Props/C12
`model_reader_history_independent`: the model's answer does not depend on the state a history leaves).
Spec column: `Spec.LiteralHistory.specAnswers` for the spellings (each judged by `require` alone), the
number itself for a print step. The implementation column is produced on ONE reader in order. -/

inductive HStep where
  | lit (txt : List Char)
  | pr (dv : DV)

def parseHStep (w : String) : Option HStep :=
  if w.startsWith "L:" then (parseCodes? (w.drop 2).toString).map (fun c => .lit (c.map Char.ofNat))
  else if w.startsWith "Pi:" then (parseInt? (w.drop 3).toString).map (fun v => .pr (.int v))
  else if w.startsWith "Pu:" then (w.drop 3).toString.toNat?.map (fun v => .pr (.uint v))
  else if w.startsWith "Pd:" then
    match (w.drop 3).toString.splitOn ":" with
    | [b, t] => match parseHex? b, parseCodes? t with
      | some bb, some tt => some (.pr (.flt bb false tt))
      | _, _ => none
    | _ => none
  else none

/-- modes r and e do not tell an error from a non-number -/
def coarse (interp : Bool) (a : String) : String :=
  if !interp then a
  else if a == "err" || a == "none" || a == "multi" then "nonnum"
  else if a == "?err" then "?nonnum"
  else if a.startsWith "i " || a.startsWith "u " || a.startsWith "d " || a.startsWith "?" || a == "!num" then a
  else "nonnum"

def hstepModel (interp : Bool) : HStep → String
  | .lit txt => coarse interp (literalAnswer txt)
  | .pr dv => match toSexp? dv with
    | some sx => coarse interp (match readAll (printSexp (fmtOf (floatTable dv)) sx) with
        | none => "err"
        | some [e] => if isNumber e then canonSexp e else "nonnum"
        | some _ => "nonnum")
    | none => "unmodelled"

def hstepSpec (interp : Bool) (v : Option Verdict) : HStep → String
  | .lit _ => coarse interp (match v with | some x => verdictString x | none => "-")
  | .pr dv => canonDV dv

def handleH (mode : String) (ws : List String) : String :=
  match ws.mapM parseHStep with
  | none => "bad-op\t-"
  | some steps =>
    if steps.isEmpty || !(mode == "p" || mode == "r" || mode == "e") then "bad-op\t-" else
    let interp := mode != "p"
    -- the spellings of the history, judged by the specification's (stateless) reader
    let lits := steps.filterMap (fun s => match s with | .lit t => some t | _ => none)
    let verdicts := Spec.LiteralHistory.specAnswers lits
    let rec zipV : List HStep → List Verdict → List String
      | [], _ => []
      | (.lit t) :: r, v :: vs => hstepSpec interp (some v) (.lit t) :: zipV r vs
      | (.lit t) :: r, [] => hstepSpec interp none (.lit t) :: zipV r []
      | s :: r, vs => hstepSpec interp none s :: zipV r vs
    let m := " | ".intercalate (steps.map (hstepModel interp))
    let s := " | ".intercalate (zipV steps verdicts)
    s!"{m}\t{s}"

def handle (toks : List String) : String :=
  match toks with
  | [] => "bad-op\t-"
  | "H" :: mode :: ws => handleH mode ws
  | op :: rest =>
    if op == "l" || op == "j" || op == "k" then
      match rest with
      | [c] =>
        (match (parseCodes? c).map (·.map Char.ofNat) with
         | none => "bad-op\t-"
         | some txt =>
           if op == "l" then s!"{literalAnswer txt}\t{verdictString (require txt)}"
           else if op == "j" then s!"{judgeString txt}\t-"
           else
             -- a `\xHH` byte ≥ 0x80 inside a string is kept as U+FFFD by the rune-level lexer model
             let m := readAnswer txt
             let m := if !txt.contains (Char.ofNat 0xFFFD) && (m.splitOn "239.191.189").length > 1 then "unmodelled" else m
             s!"{m}\t{litSpec txt}")
      | _ => "bad-op\t-"
    else
    match parseV rest with
    | some (dv, []) =>
      let ff := fmtOf (floatTable dv)
      if hasHash dv || op == "e" then
        match toJV? dv with
        | none => "unmodelled\t-"
        | some jv =>
          let txt := printJ ff jv
          if op == "p" then s!"{showText txt}\t-"
          else if op == "e" then
            let m := match readOne txt with
              | some e => (match evalData e with
                | some v => canonJV v
                | none => "err")
              | none => "err"
            let sp := if isJsonLike jv then canonDV dv else "-"
            s!"{m}\t{sp}"
          else if op == "r" then s!"{readAnswer txt}\t-"
          else "bad-op\t-"
      else
        match toSexp? dv with
        | none => "unmodelled\t-"
        | some sx =>
          let txt := printSexp ff sx
          if op == "p" then s!"{showText txt}\t-"
          else if op == "r" then
            let sp := if isData sx then canonDV dv else "-"
            s!"{readAnswer txt}\t{sp}"
          else "bad-op\t-"
    | _ => "bad-op\t-"

end ZygoVerif.Driver.Rt
