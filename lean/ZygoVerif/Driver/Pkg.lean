/-
Channel `pkg` (C18). One op = one self-contained history:

  pkg seq <item>*          item := def DECL | STEP
  DECL  := v NAME INT | g NAME TARGET | s NAME TARGET
         | p NAME PKGNAME N DECL^N | h NAME N ENTRY^N
  ENTRY := v KEY INT | h KEY N ENTRY^N | r KEY NAME        (r: the value of plain symbol NAME)
  STEP  := opnd PATH | call0 PATH | call1 PATH INT | arg PATH | rhs NAME PATH | rhsi NAME PATH
         | seti PATH INT | setp PATH INT | set PATH INT | setrhs PATH PATH
  PATH  := NAME(.NAME)*    names are raw UTF-8 without blanks or dots

Answer: one result per STEP joined by `;` — `ok <value>` or `err <class>` (model column),
`ok <value>` or `err` (spec column: the specification does not distinguish error classes).
`pkg upper <codepoint>` answers t/f from the regenerated unicode.IsUpper table.
The world builder below is the model of the construction forms (`def`, `defn`, `package`,
`hash`); it is part of what the correspondence validates.
-/
import ZygoVerif.Model.Pkg
import ZygoVerif.Model.LegacyPkg
import ZygoVerif.Spec.Visibility
import ZygoVerif.Driver.Proto
namespace ZygoVerif.Driver.Pkg
open ZygoVerif.Pkg ZygoVerif.Proto

def nameOf (s : String) : Name := s.toList.map Char.toNat
def showName (n : Name) : String := String.ofList (n.map Char.ofNat)
def pathOf (s : String) : List Name := (s.splitOn ".").map nameOf

def showVal (w : World) : Val → String
  | .int n => s!"i{n}"
  | .fn id => match w.fns[id]? with
    | some f => s!"fn:{showName f.name}"
    | none => "fn:?"
  | .pkg nm _ => s!"pkg:{showName nm}"
  | .hash id => "hash:" ++ ",".intercalate ((w.heap.hashObj id).map (fun kv => showName kv.1))
  | .sym _ => "sym"

def showErr : Err → String
  | .priv => "err private"
  | .notfound => "err notfound"
  | .notrecord => "err notrecord"
  | .panic => "panic"
  | .other => "err other"

def bind (w : World) (lex : List Nat) (nm : Name) (v : Val) : World :=
  match lex with
  | [] => w
  | top :: _ => { w with heap := w.heap.setScope top nm v }

mutual
  /-- `(hash k:v …)`: allocates the table, then fills it in order. -/
  partial def entries (n : Nat) (toks : List String) (w : World) (lex : List Nat) (hid : Nat) :
      Option (List String × World) :=
    match n with
    | 0 => some (toks, w)
    | n + 1 =>
      match toks with
      | "v" :: k :: i :: rest => do
        let z ← i.toInt?
        entries n rest { w with heap := w.heap.setHash hid (nameOf k) (.int z) } lex hid
      | "r" :: k :: nm :: rest => do
        let (v, _) ← lookupStack w.heap (nameOf nm) lex
        entries n rest { w with heap := w.heap.setHash hid (nameOf k) v } lex hid
      | "h" :: k :: cnt :: rest => do
        let c ← cnt.toNat?
        let sub := w.heap.hashes.length
        let w1 := { w with heap := { w.heap with hashes := w.heap.hashes ++ [[]] } }
        let (rest', w2) ← entries c rest w1 lex sub
        entries n rest' { w2 with heap := w2.heap.setHash hid (nameOf k) (.hash sub) } lex hid
      | _ => none

  partial def decl (toks : List String) (w : World) (lex : List Nat) : Option (List String × World) :=
    match toks with
    | "v" :: nm :: i :: rest => do
      let z ← i.toInt?
      some (rest, bind w lex (nameOf nm) (.int z))
    | "g" :: nm :: tgt :: rest =>
      let id := w.fns.length
      let w1 := { w with fns := w.fns ++ [{ name := nameOf nm, setter := false, target := nameOf tgt, stack := lex }] }
      some (rest, bind w1 lex (nameOf nm) (.fn id))
    | "s" :: nm :: tgt :: rest =>
      let id := w.fns.length
      let w1 := { w with fns := w.fns ++ [{ name := nameOf nm, setter := true, target := nameOf tgt, stack := lex }] }
      some (rest, bind w1 lex (nameOf nm) (.fn id))
    | "p" :: nm :: pn :: cnt :: rest => do
      let c ← cnt.toNat?
      -- AddScopeInstr: a fresh scope on top of the live stack; the body runs in it;
      -- PopScopeTransferToDataStackInstr: the value is a clone of the whole stack.
      let sid := w.heap.scopes.length
      let w1 := { w with heap := { w.heap with scopes := w.heap.scopes ++ [[]] } }
      let (rest', w2) ← decls c rest w1 (sid :: lex)
      some (rest', bind w2 lex (nameOf nm) (.pkg (nameOf pn) (sid :: lex)))
    | "h" :: nm :: cnt :: rest => do
      let c ← cnt.toNat?
      let hid := w.heap.hashes.length
      let w1 := { w with heap := { w.heap with hashes := w.heap.hashes ++ [[]] } }
      let (rest', w2) ← entries c rest w1 lex hid
      some (rest', bind w2 lex (nameOf nm) (.hash hid))
    | _ => none

  partial def decls (n : Nat) (toks : List String) (w : World) (lex : List Nat) : Option (List String × World) :=
    match n with
    | 0 => some (toks, w)
    | n + 1 => do
      let (rest, w1) ← decl toks w lex
      decls n rest w1 lex
end

def parseStep : List String → Option (Step × List String)
  | "opnd" :: p :: rest => some (.opnd (pathOf p), rest)
  | "call0" :: p :: rest => some (.call0 (pathOf p), rest)
  | "call1" :: p :: i :: rest => do some (.call1 (pathOf p) (← i.toInt?), rest)
  | "arg" :: p :: rest => some (.arg (pathOf p), rest)
  | "rhs" :: nm :: p :: rest => some (.rhs (nameOf nm) (pathOf p) false, rest)
  | "rhsi" :: nm :: p :: rest => some (.rhs (nameOf nm) (pathOf p) true, rest)
  | "seti" :: p :: i :: rest => do some (.set .infix (pathOf p) (← i.toInt?), rest)
  | "setp" :: p :: i :: rest => do some (.set .pre (pathOf p) (← i.toInt?), rest)
  | "set" :: p :: i :: rest => do some (.set .set (pathOf p) (← i.toInt?), rest)
  | "setrhs" :: p :: q :: rest => some (.setrhs (pathOf p) (pathOf q), rest)
  | _ => none

/-- The specification's answer for a step in world `w`: `Visibility` decides whether the
path may be read / assigned from outside; the route then does with the value what it does. -/
def specStep (w : World) (glob : Nat) (st : Step) : String :=
  let fin (st : Step) (v : Val) : String :=
    match afterGet w glob st v with
    | .ok (r, w') => "ok " ++ showVal w' r
    | .error _ => "err"
  match st with
  | .set _ p n =>
    if Visibility.assignableFrom w.heap [glob] p then "ok " ++ showVal w (.int n) else "err"
  | .setrhs p q =>
    match Visibility.readableFrom w.heap [glob] q with
    | none => "err"
    | some _ => if Visibility.assignableFrom w.heap [glob] p then "ok set" else "err"
  | .opnd p | .call0 p | .call1 p _ | .arg p | .rhs _ p _ =>
    match Visibility.readableFrom w.heap [glob] p with
    | none => "err"
    | some v => fin st v

partial def items (legacy : Bool) (toks : List String) (w : World) (accM accS : List String) : Option (List String × List String) :=
  match toks with
  | [] => some (accM.reverse, accS.reverse)
  | "def" :: rest => do
    let (rest', w1) ← decl rest w [0]
    items legacy rest' w1 accM accS
  | _ => do
    let (st, rest) ← parseStep toks
    let s := specStep w 0 st
    match (if legacy then runStepWith Legacy.dotGetSet w 0 st else runStep w 0 st) with
    | .ok (v, w1) =>
      let shown := match st with
        | .setrhs .. => "ok set"   -- the expression's own value is the unresolved right-hand symbol
        | _ => "ok " ++ showVal w1 v
      items legacy rest w1 (shown :: accM) (s :: accS)
    | .error e => items legacy rest w (showErr e :: accM) (s :: accS)

def handle (toks : List String) : String :=
  match toks with
  | "seq" :: rest =>
    match items false rest { heap := { scopes := [[]], hashes := [] }, fns := [] } [] [] with
    | some (m, s) => ";".intercalate m ++ "\t" ++ ";".intercalate s
    | none => "bad-op\t-"
  | "lseq" :: rest =>   -- the pre-fix walkers (Model/LegacyPkg.lean); validation of the legacy model only
    match items true rest { heap := { scopes := [[]], hashes := [] }, fns := [] } [] [] with
    | some (m, _) => ";".intercalate m ++ "\t-"
    | none => "bad-op\t-"
  | ["upper", c] =>
    match c.toNat? with
    | some n => (if isUpperRune n then "t" else "f") ++ "\t-"
    | none => "bad-op\t-"
  | _ => "bad-op\t-"

end ZygoVerif.Driver.Pkg
