/-
Channel `lazy` (property C16): the same op format and the same answers as channel `eval`
(a history of program texts against one interpreter), produced by `Driver.Eval.handle`.

One addition: a leading token `+std` marks a history that uses typed declarations
`(func name [p:type …] [r:type …] body…)`. Neither the VM model nor the reference evaluator
knows the `func` builder; for such a history every `func` form is rewritten to the `defn`
it abbreviates (parameter names without their `:type`, no return list), and every call of a
declared function that names its arguments (`(f n: 2 #x: e)`) to the positional call, before
both sides run it. The check compares the implementation with the *reference* column only for these
ops (the model column is the model of the `defn`, not of `FuncBuilder`).
-/
import ZygoVerif.Driver.Eval
namespace ZygoVerif.Driver.Lazy
open ZygoVerif.Core

/-- `#x:int64` ↦ `#x`. -/
def stripType (s : String) : String :=
  match s.splitOn ":" with
  | a :: _ :: _ => a
  | _ => s

/-- declared typed functions: name ↦ parameter names in order -/
abbrev Decls := List (String × List String)

mutual
partial def collect : Sx → Decls
  | .list (.sym "func" :: .sym name :: .arr ps :: .arr _ :: body) =>
    (name, ps.filterMap (fun p => match p with | .sym s => some (stripType s) | _ => none)) :: collectL body
  | .list xs => collectL xs
  | .arr xs => collectL xs
  | _ => []
partial def collectL : List Sx → Decls
  | [] => []
  | x :: xs => collect x ++ collectL xs
end

/-- the value written after `p:` in a `name: value …` argument list -/
def namedValue (p : String) : List Sx → Option Sx
  | .sym s :: v :: rest => if s == p ++ ":" then some v else namedValue p rest
  | _ => none

/-- `(f n: 2 #x: e)` ↦ `(f e 2)` for a declared `f [#x n]`: a call that names all its
arguments becomes the positional call (the harness writes the strict arguments in formal
order, so the order of their effects is the same). -/
def positional (ps : List String) (args : List Sx) : Option (List Sx) :=
  match args with
  | .sym s :: _ =>
    if s.endsWith ":" && ps.contains ((s.dropEnd 1).toString) && args.length == 2 * ps.length then ps.mapM (fun p => namedValue p args)
    else none
  | _ => none

mutual
partial def unfunc (d : Decls) : Sx → Sx
  | .list (.sym "func" :: .sym name :: .arr ps :: .arr _ :: body) =>
    .list (.sym "defn" :: .sym name :: .arr (ps.map (fun p => match p with | .sym s => .sym (stripType s) | q => q)) :: unfuncL d body)
  | .list (.sym f :: args) =>
    match (d.lookup f).bind (fun ps => positional ps args) with
    | some pos => .list (.sym f :: unfuncL d pos)
    | none => .list (.sym f :: unfuncL d args)
  | .list xs => .list (unfuncL d xs)
  | .arr xs => .arr (unfuncL d xs)
  | x => x
partial def unfuncL (d : Decls) : List Sx → List Sx
  | [] => []
  | x :: xs => unfunc d x :: unfuncL d xs
end

mutual
partial def showSx : Sx → String
  | .int v => toString v
  | .str s => "\"" ++ s ++ "\""
  | .sym s => s
  | .list xs => "(" ++ "~".intercalate (showSxL xs) ++ ")"
  | .arr xs => "[" ++ "~".intercalate (showSxL xs) ++ "]"
partial def showSxL : List Sx → List String
  | [] => []
  | x :: xs => showSx x :: showSxL xs
end

def declsOf (t : String) : Decls :=
  match readAll t with
  | none => []
  | some sxs => collectL sxs

def rewriteText (d : Decls) (t : String) : String :=
  match readAll t with
  | none => t
  | some sxs => if sxs.isEmpty then t else "~".intercalate (showSxL (unfuncL d sxs))

def handle (toks : List String) : String :=
  match toks with
  | "+std" :: rest =>
    let d := (rest.map declsOf).flatten
    Eval.handle (rest.map (rewriteText d))
  | _ => Eval.handle toks

end ZygoVerif.Driver.Lazy
