/-
Channel `lazy` (property C16): the same op format and the same answers as channel `eval`
(a history of program texts against one interpreter), produced by `Driver.Eval.handle`.

One addition: a leading token `+std` marks a history that uses typed declarations
`(func name [p:type …] [r:type …] body…)`. Neither the VM model nor the reference evaluator
knows the `func` builder; for such a history every `func` form is rewritten to the `defn`
it abbreviates (parameter names without their `:type`, no return list) before both sides
run it. The check compares the implementation with the *reference* column only for these
ops (the model column is the model of the `defn`, not of `FuncBuilder`).
-/
import ZygoVerif.Driver.Eval
namespace ZygoVerif.Driver.Lazy
open ZygoVerif.Core

/-- `#x:int64` ↦ `#x`. -/
def stripType (s : String) : String :=
  match s.splitOn ":" with
  | a :: _ :: _ => a
  | _ => s

mutual
partial def unfunc : Sx → Sx
  | .list (.sym "func" :: .sym name :: .arr ps :: .arr _ :: body) =>
    .list (.sym "defn" :: .sym name :: .arr (ps.map (fun p => match p with | .sym s => .sym (stripType s) | q => q)) :: unfuncL body)
  | .list xs => .list (unfuncL xs)
  | .arr xs => .arr (unfuncL xs)
  | x => x
partial def unfuncL : List Sx → List Sx
  | [] => []
  | x :: xs => unfunc x :: unfuncL xs
end

mutual
partial def showSx : Sx → String
  | .int v => toString v
  | .str s => "\"" ++ s ++ "\""
  | .sym s => s
  | .list xs => "(" ++ "~".intercalate (showSxL xs) ++ ")"
  | .arr xs => "[" ++ "~".intercalate (showSxL xs) ++ "]"
partial def showSxL : List Sx → List String
  | [] => []
  | x :: xs => showSx x :: showSxL xs
end

def rewriteText (t : String) : String :=
  match readAll t with
  | none => t
  | some sxs => if sxs.isEmpty then t else "~".intercalate (showSxL (unfuncL sxs))

def handle (toks : List String) : String :=
  match toks with
  | "+std" :: rest => Eval.handle (rest.map rewriteText)
  | _ => Eval.handle toks

end ZygoVerif.Driver.Lazy
