/-
Channel `hash` (C14): a whole history on one hash per line.

  hash <ev|pk> S=<sym>:<num>,… U=<rkey>,… <op> <op> …
    rkey : y.<name> | s.<letters> | i.<int> | c.<codepoint> | a.<one of these>   ([k])
    op   : set/<rkey>/<int> del/<rkey> get/<rkey> getd/<rkey> keys len hpair/<n> range ranged str json
           obs   (= every observer: get+getd of each U key, keys, len, hpair 0..|U|, range, str, json)
  answer : per op the observation(s) (`|` between the members of `obs`), `;` between ops; on
           route `pk` each op is followed by `@N<NumKeys>,K[<KeyOrder>],B[<code>:<bucket size>,…]`.
The spec column is computed from the ordered map alone; its `@` part is what the invariant
says the bookkeeping must be (NumKeys = number of entries, KeyOrder = their keys, one bucket
per code that occurs, as large as the number of entries with that code).
-/
import ZygoVerif.Model.Hash
import ZygoVerif.Model.HashKey
import ZygoVerif.Model.RangeBind
import ZygoVerif.Spec.OrderedMap
import ZygoVerif.Driver.Proto
namespace ZygoVerif.Driver.Hash
open ZygoVerif.Hash ZygoVerif.Proto

abbrev H := ZygoVerif.Hash.Hash Key Int
abbrev O := Op Key Int
abbrev Ob := Obs Key Int

def parseKey (syms : List (String × Int)) (t : String) : Option Key :=
  match t.splitOn "." with
  | ["y", n] => (syms.lookup n).map (Key.sym n)
  | ["s", s] => some (.str s)
  | ["i", v] => v.toInt?.map .int
  | ["c", v] => v.toNat?.map (fun n => .chr n)
  | _ => none

def parseRKey (syms : List (String × Int)) (t : String) : Option (RKey Key) :=
  if t.startsWith "a." then (parseKey syms (t.drop 2).toString).map .arr1
  else (parseKey syms t).map .plain

def showKeyTok : Key → String
  | .sym n _ => "y." ++ n
  | .str s => "s." ++ s
  | .int v => "i." ++ toString v
  | .chr v => "c." ++ toString v

def parseSyms (t : String) : Option (List (String × Int)) :=
  if t == "S=" then some [] else
  ((t.drop 2).toString.splitOn ",").mapM (fun e => match e.splitOn ":" with
    | [n, v] => v.toInt?.map (fun z => (n, z))
    | _ => none)

def parseUniverse (syms : List (String × Int)) (t : String) : Option (List (RKey Key)) :=
  if t == "U=" then some [] else
  ((t.drop 2).toString.splitOn ",").mapM (parseRKey syms)

def obsSuite (u : List (RKey Key)) : List O :=
  u.flatMap (fun k => [.hget k, .hgetd k]) ++ [.keys, .len] ++
  (List.range (u.length + 1)).map .hpair ++ [.range, .str, .json]

/-- one line-level op = a group of model ops -/
def parseOp (syms : List (String × Int)) (u : List (RKey Key)) (t : String) : Option (List O) :=
  match t.splitOn "/" with
  | ["set", k, v] => do let k ← parseRKey syms k; let v ← v.toInt?; some [.hset k v]
  | ["del", k] => (parseRKey syms k).map (fun k => [.hdel k])
  | ["get", k] => (parseRKey syms k).map (fun k => [.hget k])
  | ["getd", k] => (parseRKey syms k).map (fun k => [.hgetd k])
  | ["keys"] => some [.keys]
  | ["len"] => some [.len]
  | ["hpair", n] => n.toNat?.map (fun n => [.hpair n])
  | ["range"] => some [.range]
  | ["ranged"] => some [.range]     -- `k, v := range h`: the same iteration, defining form (`definingObs` below)
  | ["str"] => some [.str]
  | ["json"] => some [.json]
  | ["obs"] => some (obsSuite u)
  | _ => none

def showObs : Ob → String
  | .ok => "ok"
  | .val v => "v" ++ toString v
  | .dflt => "d"
  | .err => "err"
  | .panic => "panic"
  | .keys ks => "K[" ++ ",".intercalate (ks.map showKeyTok) ++ "]"
  | .num n => "n" ++ toString n
  | .pair k v => "P(" ++ showKeyTok k ++ "=" ++ toString v ++ ")"
  | .pairs l => "R[" ++ ",".intercalate (l.map (fun e => showKeyTok e.1 ++ "=" ++ toString e.2)) ++ "]"
  | .text r => "T" ++ (String.join r).replace " " "_"

def sortBuckets (l : List (Int × Nat)) : List (Int × Nat) :=
  (l.toArray.qsort (fun a b => a.1 < b.1)).toList

def showDump (numKeys : Int) (ko : List Key) (buckets : List (Int × Nat)) : String :=
  "@N" ++ toString numKeys ++ ",K[" ++ ",".intercalate (ko.map showKeyTok) ++ "],B[" ++
  ",".intercalate ((sortBuckets buckets).map (fun e => toString e.1 ++ ":" ++ toString e.2)) ++ "]"

def dumpModel (h : H) : String :=
  showDump h.numKeys h.keyOrder (h.map.map (fun e => (e.1, e.2.length)))

/-- what the invariant says the bookkeeping is, from the ordered map alone -/
def histogram (codes : List Int) : List (Int × Nat) :=
  codes.eraseDups.map (fun c => (c, codes.count c))

def dumpSpec (m : Spec.OMap Key Int) : String :=
  showDump m.length (m.map (·.1)) (histogram (m.map (fun e => e.1.code)))

/-- model column. `defining` marks the groups that stand for `ranged`: the pairs `range` reads
from the hash, bound by the defining loop (Model/RangeBind: one `mdef` per iteration). -/
def runModel (pk : Bool) (groups : List (List O × Bool)) : String :=
  let rec go (h : H) : List (List O × Bool) → List String
    | [] => []
    | (g, defining) :: rest =>
      let (h', obs) := g.foldl (fun (acc : H × List String) op =>
        let (h1, ob) := step keyOps keyShow acc.1 op
        (h1, acc.2 ++ [showObs (if defining then definingObs ob else ob)])) (h, [])
      ("|".intercalate obs ++ (if pk then dumpModel h' else "")) :: go h' rest
  ";".intercalate (go Hash.empty groups)

def runSpec (pk : Bool) (groups : List (List O)) : String :=
  let rec go (m : Spec.OMap Key Int) : List (List O) → List String
    | [] => []
    | g :: rest =>
      let (m', obs) := g.foldl (fun (acc : Spec.OMap Key Int × List String) op =>
        let (m1, ob) := Spec.step Key.keq keyShow acc.1 op
        (m1, acc.2 ++ [showObs ob])) (m, [])
      ("|".intercalate obs ++ (if pk then dumpSpec m' else "")) :: go m' rest
  ";".intercalate (go [] groups)

def handle (toks : List String) : String :=
  match toks with
  | route :: s :: u :: ops =>
    match (do
      let syms ← parseSyms s
      let univ ← parseUniverse syms u
      let groups ← ops.mapM (fun t => (parseOp syms univ t).map (fun g => (g, t == "ranged" && route == "ev")))
      some groups) with
    | some groups =>
      if route == "ev" ∨ route == "pk" then
        let pk := route == "pk"
        runModel pk groups ++ "\t" ++ runSpec pk (groups.map (·.1))
      else "bad-op\t-"
    | none => "bad-op\t-"
  | _ => "bad-op\t-"

end ZygoVerif.Driver.Hash
