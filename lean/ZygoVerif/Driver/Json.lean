/-
Channel `json` (C11): runs the model of SexpToJson / unjson (Model/Json.lean), of the
printer and of strconv.Quote (Model/Print.lean, Model/Quote.lean) and the spec side
(Spec/Rfc8259.lean parser, Spec/JsonData.lean denotation) on one op line.

  json enc <v>      model: bytes of (json v)
  json wf  <v>      model: canon (Rfc8259.parse (json v))      spec: canon (denote v) if v ∈ Dom
  json rt  <v>      model: canon (unjson (json v))             spec: canon (norm v) if v ∈ RtDom
  json mp  <v>      same answers as rt (msgpack = JSON → Go → msgpack; codec round-trip law)
  json print <v>    model: bytes of v.SexpString(nil)
  json quote <bytes>   model: strconv.Quote
  json qjs <bytes>  model: is Quote's output a JSON string literal (Rfc8259)   spec: the characterisation
  json qrune <int>  model: strconv.QuoteRune
  json hist <nv> <v>… <step>…   a history of encode/decode steps (harness/ch_json_hist.go):
                    model: answers of JsonHistory.modelRun (append-only store of encode results)
                    spec:  answers of JsonHistory.specRun (an encoded result is the value it was made from)
                    values outside the round-trip domain: `out-of-domain` on both sides

Value syntax (prefix): n | t | f | i <int> | u <nat> | d <hexbits> <ftext> <gtext> | e <hexbits> <etext> <gtext>
 | c <int> | s <bytes> | b <bytes> | y <bytes> | l <n> v… | a <n> v… | h <typename> <n> (k v)…
-/
import ZygoVerif.Model.Json
import ZygoVerif.Model.LegacyJson
import ZygoVerif.Model.JsonHistory
import ZygoVerif.Spec.JsonData
import ZygoVerif.Driver.Proto
namespace ZygoVerif.Driver.Json
open ZygoVerif.Proto ZygoVerif.Print ZygoVerif.Rfc8259

def parseInt? (s : String) : Option Int := s.toInt?

/-- parse the text of strconv.FormatFloat into the shape the law promises -/
def parseFloatText (t : Bytes) : FloatText :=
  let (neg, r0) := match t with
    | 0x2D :: r => (true, r)
    | r => (false, r)
  let (ip, r1) := takeDigits r0
  let (fp, r2) := match r1 with
    | 0x2E :: r => takeDigits r
    | r => ([], r)
  let dotOk := match r1 with
    | 0x2E :: _ => !fp.isEmpty
    | _ => true
  let res : Option (Option (Bool × List Nat)) := match r2 with
    | [] => some none
    | 0x65 :: 0x2D :: r => let (ed, r3) := takeDigits r; if r3.isEmpty && !ed.isEmpty then some (some (true, ed)) else none
    | 0x65 :: 0x2B :: r => let (ed, r3) := takeDigits r; if r3.isEmpty && !ed.isEmpty then some (some (false, ed)) else none
    | _ => none
  match res with
  | some ex => if !ip.isEmpty && dotOk then .dec neg ip fp ex else .raw t
  | none => .raw t

/-- parses one value; fuel bounds the nesting -/
def parseV : Nat → List String → Option (V × List String)
  | 0, _ => none
  | _ + 1, "n" :: r => some (.nil, r)
  | _ + 1, "t" :: r => some (.bool true, r)
  | _ + 1, "f" :: r => some (.bool false, r)
  | _ + 1, "i" :: x :: r => (parseInt? x).map fun n => (.int n, r)
  | _ + 1, "u" :: x :: r => x.toNat?.map fun n => (.uint n, r)
  | _ + 1, "c" :: x :: r => (parseInt? x).map fun n => (.char n, r)
  | _ + 1, "d" :: h :: t :: g :: r => do
    let b ← parseHex? h
    let tx ← parseCodes? t
    let gx ← parseCodes? g
    some (.flt { bits := b, text := parseFloatText tx, jtext := parseFloatText gx }, r)
  | _ + 1, "e" :: h :: t :: g :: r => do
    let b ← parseHex? h
    let tx ← parseCodes? t
    let gx ← parseCodes? g
    some (.flt { bits := b, text := parseFloatText tx, jtext := parseFloatText gx }, r)
  | _ + 1, "s" :: x :: r => (parseCodes? x).map fun b => (.str b false, r)
  | _ + 1, "b" :: x :: r => (parseCodes? x).map fun b => (.str b true, r)
  | _ + 1, "y" :: x :: r => (parseCodes? x).map fun b => (.sym b, r)
  | f + 1, "l" :: n :: r => do
    let n ← n.toNat?
    let (vs, r') ← many f n r
    some (.list vs, r')
  | f + 1, "a" :: n :: r => do
    let n ← n.toNat?
    let (vs, r') ← many f n r
    some (.arr vs, r')
  | f + 1, "h" :: tn :: n :: r => do
    let tn ← parseCodes? tn
    let n ← n.toNat?
    let (vs, r') ← many f (2 * n) r
    some (.hash tn (pairUp vs), r')
  | _, _ => none
where
  many (f : Nat) : Nat → List String → Option (List V × List String)
    | 0, r => some ([], r)
    | n + 1, r => match f with
      | 0 => none
      | f' + 1 => do
        let (v, r1) ← parseV f' r
        let (vs, r2) ← many f' n r1
        some (v :: vs, r2)
  pairUp : List V → List (V × V)
    | k :: v :: r => (k, v) :: pairUp r
    | _ => []

/-! canonical text of values -/

partial def canonV : V → String
  | .nil => "n"
  | .bool true => "t"
  | .bool false => "f"
  | .int n => s!"i {n}"
  | .uint n => s!"u {n}"
  | .flt f => s!"d {toHex f.bits}"
  | .char c => s!"c {c}"
  | .str s _ => s!"s {showCodes s}"
  | .sym s => s!"y {showCodes s}"
  | .list l => s!"l {l.length}" ++ String.join (l.map fun v => " " ++ canonV v)
  | .arr l => s!"a {l.length}" ++ String.join (l.map fun v => " " ++ canonV v)
  | .hash tn es => s!"h {showCodes tn} {es.length}" ++ String.join (es.map fun (k, v) => " " ++ canonV k ++ " " ++ canonV v)

partial def canonJ : JValue → String
  | .null => "N"
  | .bool true => "T"
  | .bool false => "F"
  | .num n => s!"#{if n.neg then "-" else "+"}{n.mant}e{n.exp}{if n.integral then "i" else "f"}"
  | .str s => s!"S{showCodes s}"
  | .arr l => s!"[ {l.length}" ++ String.join (l.map fun v => " " ++ canonJ v)
  | .obj l => "{ " ++ toString l.length ++ String.join (l.map fun (k, v) => " " ++ showCodes k ++ " " ++ canonJ v)

partial def floatsOf : V → List FloatLit
  | .flt f => [f]
  | .list l => (l.map floatsOf).flatten
  | .arr l => (l.map floatsOf).flatten
  | .hash _ es => (es.map fun (k, v) => floatsOf k ++ floatsOf v).flatten
  | _ => []

/-- `strconv.ParseFloat` instantiated from the floats of the op (the harness supplied the
text FormatFloat gave for each): a number parses to the float that printed as it. -/
def floatParseOf (v : V) : Json.FloatParse :=
  let table := (floatsOf v).map fun f => (JsonData.floatNumber f.jtext, f)
  fun n => match table.find? (fun e => decide (e.1 = n)) with
    | some e => e.2
    | none => { bits := 0, text := .raw [], jtext := .raw [] }

/-- a finite float (exponent bits not all ones) whose text does not have the promised shape -/
partial def shapeLawBroken : V → Bool
  | .flt f => (f.bits / 2 ^ 52 % 2048 != 2047) && !(JsonData.floatTextOk f.text && JsonData.floatTextOk f.jtext)
  | .list l => l.any shapeLawBroken
  | .arr l => l.any shapeLawBroken
  | .hash _ es => es.any fun (k, v) => shapeLawBroken k || shapeLawBroken v
  | _ => false

/-- the characterisation of `quote_is_json_string`, as an executable predicate
(the same definition as `Props.C11.quoteJsonOk`, stated there on the model). -/
def quoteStepOk (s : Bytes) : Bool :=
  match s with
  | [] => true
  | b0 :: r =>
    let (ru, w) := if b0 < 0x80 then (b0, 1) else Quote.decodeRune (b0 :: r)
    if w = 1 ∧ ru = Quote.runeError then false          -- invalid byte: \xNN
    else if ru = 0x22 ∨ ru = 0x5C then true
    else if Generated.IsPrint.isPrint ru then true
    else if ru = 0x08 ∨ ru = 0x0C ∨ ru = 0x0A ∨ ru = 0x0D ∨ ru = 0x09 then true
    else if ru < 0x20 ∨ ru = 0x7F then false            -- \a \v \xNN
    else ru < 0x10000                                    -- \uXXXX is JSON, \UXXXXXXXX is not

def quoteJsonOk : Nat → Bytes → Bool
  | 0, _ => true
  | _, [] => true
  | f + 1, s => quoteStepOk s && quoteJsonOk f (s.drop (Quote.quoteStep 0x22 s).2)

def showB (b : Bool) : String := if b then "t" else "f"

/-! history ops -/

open ZygoVerif.JsonHistory in
/-- step tokens of a `hist` op -/
def parseSteps : List String → Option (List Step)
  | [] => some []
  | "ej" :: ip :: i :: r => do some (.enc .json (← ip.toNat?) (← i.toNat?) :: (← parseSteps r))
  | "em" :: ip :: i :: r => do some (.enc .msgpack (← ip.toNat?) (← i.toNat?) :: (← parseSteps r))
  | "gj" :: i :: r => do some (.enc .gojson 0 (← i.toNat?) :: (← parseSteps r))
  | "gm" :: i :: r => do some (.enc .msgpack 0 (← i.toNat?) :: (← parseSteps r))
  | "d" :: ip :: s :: r => do some (.dec (← ip.toNat?) (← s.toNat?) :: (← parseSteps r))
  | "st" :: s :: r => do some (.stable (← s.toNat?) :: (← parseSteps r))
  | "zb" :: s :: r => do some (.clobber (← s.toNat?) :: (← parseSteps r))
  | "mu" :: x :: r => do some (.setFirst (← x.toNat?) :: (← parseSteps r))
  | "md" :: x :: r => do some (.setInner (← x.toNat?) :: (← parseSteps r))
  | "ad" :: x :: r => do some (.addKey (← x.toNat?) :: (← parseSteps r))
  | "sh" :: x :: r => do some (.show (← x.toNat?) :: (← parseSteps r))
  | "mv" :: ip :: i :: r => do some (.setVal (← ip.toNat?) (← i.toNat?) :: (← parseSteps r))
  | _ => none

def parseVals : Nat → List String → Option (List V × List String)
  | 0, r => some ([], r)
  | n + 1, r => do
    let (v, r1) ← parseV 64 r
    let (vs, r2) ← parseVals n r1
    some (v :: vs, r2)

def showOut : JsonHistory.Out → String
  | .ok => "ok" | .err => "err" | .dead => "dead" | .same => "same" | .changed => "changed"
  | .na => "na" | .sameAsFirst => "same-as-first" | .differs => "differs"
  | .val v => canonV v

def showOuts : Option (List JsonHistory.Out) → String
  | none => "bad-op"
  | some [] => "bad-op"
  | some l => " | ".intercalate (l.map showOut)

/-- The msgpack / JSON codec of the driver: the "bytes" of a Go value are its canonical
text, decoded by looking it up among the Go values of the op (an executable instance of the
codec law `dec (enc g) = g` on the values that occur; the real bytes never cross the line). -/
def tableCodec (tbl : List JValue) : Json.MsgpackCodec where
  enc g := (canonJ g).toList.map Char.toNat
  dec b := tbl.find? (fun g => (canonJ g).toList.map Char.toNat == b)

def handleHist (toks : List String) : String :=
  match toks with
  | nv :: rest =>
    match nv.toNat?.bind (fun n => parseVals n rest) with
    | some (vals, stepToks) =>
      match parseSteps stepToks with
      | none => "bad-op\t-"
      | some steps =>
        if vals.any shapeLawBroken then "float-shape-law-broken\t-" else
        -- histories are about values of the round-trip domain only
        if !(vals.all JsonData.inRtDom) then "out-of-domain\tout-of-domain" else
        let fp := floatParseOf (.arr vals)
        -- Go values that can occur: of the values and of the values after `mv`
        let cd := tableCodec ((vals ++ vals.filterMap JsonHistory.setFirstV).filterMap fun v => Rfc8259.parse (Json.sexpToJson v))
        let m := JsonHistory.modelRun { mp := cd, gj := cd } fp vals steps
        let s := JsonHistory.specRun vals steps
        s!"{showOuts m}\t{showOuts s}"
    | none => "bad-op\t-"
  | [] => "bad-op\t-"

def handle (toks : List String) : String :=
  match toks with
  | ["quote", x] => match parseCodes? x with
    | some b => s!"{showCodes (Quote.quote b)}\t-"
    | none => "bad-op\t-"
  | ["qjs", x] => match parseCodes? x with
    | some b => s!"{showB (isStringLiteral (Quote.quote b))}\t{showB (quoteJsonOk b.length b)}"
    | none => "bad-op\t-"
  | ["qrune", x] => match parseInt? x with
    | some r => s!"{showCodes (Quote.quoteRune r)}\t-"
    | none => "bad-op\t-"
  | "hist" :: rest => handleHist rest
  | mode :: rest =>
    match parseV 64 rest with
    | some (v, []) =>
      if shapeLawBroken v then "float-shape-law-broken\t-" else
      let js := Json.sexpToJson v
      match mode with
      | "enc" => s!"{showCodes js}\t-"
      | "legacy" => s!"{showCodes (LegacyJson.sexpToJson v)}\t-"
      | "print" => s!"{showCodes (sexpString v)}\t-"
      | "wf" =>
        let m := match Rfc8259.parse js with
          | some j => canonJ j
          | none => "malformed"
        let s := if JsonData.inDom v then canonJ (JsonData.denote v) else "-"
        s!"{m}\t{s}"
      | "rt" | "mp" =>
        let m := match Json.unjson (floatParseOf v) js with
          | some w => canonV w
          | none => "err"
        let s := if JsonData.inRtDom v then canonV (JsonData.norm v) else "-"
        s!"{m}\t{s}"
      | _ => "bad-op\t-"
    | _ => "bad-op\t-"
  | _ => "bad-op\t-"

end ZygoVerif.Driver.Json
