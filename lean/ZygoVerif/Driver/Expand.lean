/-
Channel `expand` (C06): one op = the token list of an infix block.
  expand tree <spacing> <tok>…   -> statements of `(infixExpand {…})`, canonical, joined by " | "; `err`
  expand val  <spacing> <tok>… => <prefix form codes>   (second phase, see checks/C06.py)
Token words: s:NAME sym, d:NAME dot-symbol, l:NAME `NAME:`, n:TEXT literal, o:TEXT unhandled
literal, `,` `;` `{}`; `[ … ]` array, `( … )` list, `{ … }` nested infix block.
Model column: Model/Pratt.lean with the regenerated table. Spec column: Spec/Stratified.lean
with the documented levels (`-` when the op uses `if`/`for`/`break`/`continue`, which the
property text names but does not define).
-/
import ZygoVerif.Model.Pratt
import ZygoVerif.Spec.Stratified
import ZygoVerif.Driver.Proto
namespace ZygoVerif.Driver.Expand
open ZygoVerif.Pratt ZygoVerif.Proto

/-- Parse token words up to a closing word; returns items and the remaining words. -/
def parseItems : Nat → List String → Option String → Option (List Sx × List String)
  | 0, _, _ => none
  | _+1, [], close => if close.isNone then some ([], []) else none
  | f+1, w :: ws, close =>
    if some w == close then some ([], ws) else
    let cont (x : Sx) (rest : List String) : Option (List Sx × List String) :=
      (parseItems f rest close).map (fun (xs, r) => (x :: xs, r))
    if w == "[" then
      match parseItems f ws (some "]") with
      | some (xs, r) => cont (.arr xs) r
      | none => none
    else if w == "(" then
      match parseItems f ws (some ")") with
      | some (xs, r) => cont (.list xs) r
      | none => none
    else if w == "{" then
      match parseItems f ws (some "}") with
      | some (xs, r) => cont (.list [.sym "infix", .arr xs]) r
      | none => none
    else if w == "," then cont .comma ws
    else if w == ";" then cont .semi ws
    else if w == "{}" then cont .hash ws
    else if w == "s:&&" then cont (.sym "and") ws      -- the lexer rewrites && / ||
    else if w == "s:||" then cont (.sym "or") ws
    else if w.startsWith "s:" then cont (.sym (w.drop 2).toString) ws
    else if w.startsWith "d:" then cont (.dot (w.drop 2).toString) ws
    else if w.startsWith "l:" then cont (.lab (w.drop 2).toString) ws
    else if w.startsWith "n:" then cont (.lit (w.drop 2).toString) ws
    else if w.startsWith "o:" then cont (.other (w.endsWith "ULL") (w.drop 2).toString) ws
    else none

mutual
partial def show1 : Sx → String
  | .sym n | .dot n | .lab n => n
  | .lit t | .other _ t => t
  | .arr xs => "[" ++ " ".intercalate (xs.map show1) ++ "]"
  | .list xs => "(" ++ " ".intercalate (xs.map show1) ++ ")"
  | .comma => ","
  | .semi => ";"
  | .hash => "{}"
  | .null => "nil"
end

def showStmts : Option (List Sx) → String
  | none => "err"
  | some xs => if xs.isEmpty then "-empty-" else " | ".intercalate (xs.map show1)

/-- Does the block (outside nested blocks and calls, but inside selectors) use a form the
spec does not define? -/
partial def usesSpecial (ts : List Sx) : Bool :=
  ts.any (fun t => match t with
    | .sym n | .dot n => n == "if" || n == "for" || n == "break" || n == "continue" || n == "else" || n == "range"
    | .lab _ => true
    | .arr xs => usesSpecial (xs.filter (fun x => match x with | .lab _ => false | _ => true))
    | _ => false)

/-- The operator table as the live interpreter lists it: name:bp:hasNud:hasLed, sorted. -/
def opsLine : String :=
  let T := Table.generated
  let names := T.entries.map (·.name) |>.eraseDups
  let rows := names.filterMap (fun n => (T.find? n).map (fun e =>
    let hasNud := if nudOfEntry T e == .atom then 0 else 1
    let hasLed := if ledOfEntry e == .drop then 0 else 1
    s!"{e.name}:{e.bp}:{hasNud}:{hasLed}"))
  let rows := s!"[]:{Generated.InfixTable.arrayOpBp}:0:{if Generated.InfixTable.arrayOpLed == "" then 0 else 1}" :: rows
  " ".intercalate (rows.toArray.qsort (· < ·)).toList

def handle (toks : List String) : String :=
  match toks with
  | ["ops"] => s!"{opsLine}\t-"
  | "tree" :: _sp :: ws =>
    match parseItems (ws.length + 1) ws none with
    | some (ts, _) =>
      let m := showStmts (expandBlock Table.generated ts)
      let s := if usesSpecial ts || !Stratified.inScope Stratified.documented ts then "-" else showStmts (Stratified.parseBlock Stratified.documented ts)
      s!"{m}\t{s}"
    | none => "bad-op\t-"
  | _ => "bad-op\t-"

end ZygoVerif.Driver.Expand
