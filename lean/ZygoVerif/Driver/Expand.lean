/-
Channel `expand` (C06): one op = the token list of an infix block.
  expand tree <spacing> <tok>…   -> statements of `(infixExpand {…})`, canonical, joined by " | "; `err`
  expand val  <spacing> <tok>… => <prefix form codes>   (second phase, see checks/C06.py)
  expand htree <hist> <spacing> <tok>…  -> as `tree` + ` ## ids-ok`; the history is not an argument of model or spec
  expand hval  <hist> <spacing> <tok>… => <codes>         (second phase under interference histories, checks/C06.py)
Token words: s:NAME sym, d:NAME dot-symbol, l:NAME `NAME:`, n:TEXT literal, o:TEXT unhandled
literal, `,` `;` `{}`; `[ … ]` array, `( … )` list, `{ … }` nested infix block.
Model column: Model/Pratt.lean with the regenerated table. Spec column: Spec/Stratified.lean
with the documented levels (`-` when the op uses `if`/`for`/`break`/`continue`, which the
property text names but does not define).
-/
import ZygoVerif.Model.Pratt
import ZygoVerif.Model.InfixFront
import ZygoVerif.Model.SpacingTok
import ZygoVerif.Spec.Stratified
import ZygoVerif.Spec.Spacing
import ZygoVerif.Driver.Proto
namespace ZygoVerif.Driver.Expand
open ZygoVerif.Pratt ZygoVerif.Proto

/-- Parse token words up to a closing word; returns items and the remaining words. -/
def parseItems : Nat → List String → Option String → Option (List Sx × List String)
  | 0, _, _ => none
  | _+1, [], close => if close.isNone then some ([], []) else none
  | f+1, w :: ws, close =>
    if some w == close then some ([], ws) else
    let cont (x : Sx) (rest : List String) : Option (List Sx × List String) :=
      (parseItems f rest close).map (fun (xs, r) => (x :: xs, r))
    if w == "[" then
      match parseItems f ws (some "]") with
      | some (xs, r) => cont (.arr xs) r
      | none => none
    else if w == "(" then
      match parseItems f ws (some ")") with
      | some (xs, r) => cont (if xs.isEmpty then .null else .list xs) r     -- `()` is nil
      | none => none
    else if w == "{" then
      match parseItems f ws (some "}") with
      | some (xs, r) => cont (.list [.sym "infix", .arr xs]) r
      | none => none
    else if w == "," then cont .comma ws
    else if w == ";" then cont .semi ws
    else if w == "{}" then cont .hash ws
    else if w == "s:&&" then cont (.sym "and") ws      -- the lexer rewrites && / ||
    else if w == "s:||" then cont (.sym "or") ws
    else if w.startsWith "s:" then cont (.sym (w.drop 2).toString) ws
    else if w.startsWith "d:" then cont (.dot (w.drop 2).toString) ws
    else if w.startsWith "l:" then cont (.lab (w.drop 2).toString) ws
    else if w.startsWith "n:" then cont (.lit (w.drop 2).toString) ws
    else if w.startsWith "o:" then cont (.other (w.endsWith "ULL") (w.drop 2).toString) ws
    else none

mutual
partial def show1 : Sx → String
  | .sym n | .dot n | .lab n => n
  | .lit t | .other _ t => t
  | .arr xs => "[" ++ " ".intercalate (xs.map show1) ++ "]"
  | .list xs => "(" ++ " ".intercalate (xs.map show1) ++ ")"
  | .comma => ","
  | .semi => ";"
  | .hash => "{}"
  | .null => "nil"
end

def showStmts : Option (List Sx) → String
  | none => "err"
  | some xs => if xs.isEmpty then "-empty-" else " | ".intercalate (xs.map show1)

/-- Does the block (outside nested blocks and calls, but inside selectors) use a form the
spec does not define? -/
partial def usesSpecial (ts : List Sx) : Bool :=
  ts.any (fun t => match t with
    | .sym n | .dot n => n == "if" || n == "for" || n == "break" || n == "continue" || n == "else" || n == "range"
    | .lab _ => true
    | .arr xs => usesSpecial (xs.filter (fun x => match x with | .lab _ => false | _ => true))
    | _ => false)

/-- The operator table as the live interpreter lists it: name:bp:hasNud:hasLed, sorted. -/
def opsLine : String :=
  let T := Table.generated
  let names := T.entries.map (·.name) |>.eraseDups
  let rows := names.filterMap (fun n => (T.find? n).map (fun e =>
    let hasNud := if nudOfEntry T e == .atom then 0 else 1
    let hasLed := if ledOfEntry e == .drop then 0 else 1
    s!"{e.name}:{e.bp}:{hasNud}:{hasLed}"))
  let rows := s!"[]:{Generated.InfixTable.arrayOpBp}:0:{if Generated.InfixTable.arrayOpLed == "" then 0 else 1}" :: rows
  " ".intercalate (rows.toArray.qsort (· < ·)).toList

/-! ### `ltoks` / `ltree`: the text goes through the lexer model (and the parser model)

  expand ltoks <spacing> <tok>…  -> the token queue of the fresh lexer after the rendered text and a newline
  expand ltree <spacing> <tok>…  -> as `tree`, but the model column lexes and parses the rendered text
Model column: Model/Lexer (+ Model/Parser + Model/Pratt). Spec column: when the spacing is a LEGAL
spacing of the token sequence (`Spec/Spacing.legal`), the token sequence itself (`ltoks`) or the
stratified parse of the token list (`ltree`); `-` when the spacing is not legal or a token is
outside the classes of Spec/Spacing (the specification is silent). -/

/-- text of one token word (as harness/ch_expand.go xpieces) -/
def pieceText (w : String) : String :=
  if w == "," || w == ";" || w == "{}" || w == "[" || w == "]" || w == "(" || w == ")" || w == "{" || w == "}" then w
  else if w.startsWith "l:" then (w.drop 2).toString ++ ":"
  else if w.startsWith "s:" || w.startsWith "d:" || w.startsWith "n:" || w.startsWith "o:" then (w.drop 2).toString
  else w

/-- the blanks of gap `i` (≥ 1) under a spacing string (as xrender) -/
def gapText (sp : String) (i : Nat) : List Char :=
  let c : Char := if sp == "S" then '1' else (sp.toList.getD i '1')
  if c == '0' then [] else if c == '2' then ['\n'] else if c == '3' then ['\t'] else if c == '4' then [' ', ' ']
  else if c == '5' then ['\r', '\n'] else [' ']

def gapsFor (sp : String) (n : Nat) : List (List Char) :=
  (List.range n).map (fun i => if i == 0 then [] else gapText sp i)

def renderWords (sp : String) (ws : List String) : List Char :=
  ((gapsFor sp ws.length).zip ws).flatMap (fun (g, w) => g ++ (pieceText w).toList)

def splitOnDot (cs : List Char) : List (List Char) :=
  cs.foldr (fun c acc => if c == '.' then [] :: acc else
    match acc with
    | [] => [[c]]
    | s :: rest => (c :: s) :: rest) [[]]

/-- a numeral text `[-]digits[.digits][e(+|-)digits]` as a specification token -/
def numTok? (cs : List Char) : Option Spacing.Tok :=
  let (neg, body) := match cs with
    | '-' :: r => (true, r)
    | _ => (false, cs)
  let ip := body.takeWhile Spacing.isDigit
  let r1 := body.dropWhile Spacing.isDigit
  let (fp, r2) : Option (List Char) × List Char := match r1 with
    | '.' :: r => (some (r.takeWhile Spacing.isDigit), r.dropWhile Spacing.isDigit)
    | _ => (none, r1)
  match r2 with
  | [] => some (.num neg ip fp none)
  | 'e' :: s :: ds => if ds.all Spacing.isDigit then some (.num neg ip fp (some (s, ds))) else none
  | _ => none

/-- the specification token of a token word, when it belongs to the classes of Spec/Spacing -/
def specTok? (w : String) : Option Spacing.Tok :=
  if w == "," || w == ";" || w == "[" || w == "]" || w == "(" || w == ")" || w == "{" || w == "}" then
    some (.punct (w.toList.headD ' '))
  else if w.startsWith "s:" then
    let n := (w.drop 2).toString.toList
    if Spacing.opTexts.contains n then some (.op n) else some (.name false [n])
  else if w.startsWith "d:" then
    let n := (w.drop 2).toString.toList
    match n with
    | '.' :: r => some (.name true (splitOnDot r))
    | _ => some (.name false (splitOnDot n))
  else if w.startsWith "n:" then numTok? (w.drop 2).toString.toList
  else none

def specItems? (sp : String) (ws : List String) : Option (List Spacing.Item) :=
  let toks := ws.map specTok?
  if toks.all Option.isSome then some ((gapsFor sp ws.length).zip (toks.filterMap id)) else none

def showLexTok (t : Lexer.Token) : String :=
  s!"{t.typ.toNat}:{showCodes (t.str.map Char.toNat)}"

def showLexToks (ts : List Lexer.Token) : String :=
  if ts.isEmpty then "-" else ",".intercalate (ts.map showLexTok)

/-- the fresh lexer model on `text`: the token queue and what is left pending -/
def lexAnswer (text : List Char) : String :=
  match Lexer.feed (.ok Lexer.LexCore.init) text with
  | .ok s => s!"{showLexToks s.tokens} | st={s.state.toNat} buf={showCodes (s.buffer.map Char.toNat)}"
  | .err e s => s!"{showLexToks s.tokens} | !{e.name}"

def handle (toks : List String) : String :=
  match toks with
  | ["ops"] => s!"{opsLine}\t-"
  | "ltoks" :: sp :: ws =>
    let text := renderWords sp ws ++ ['\n']
    let m := lexAnswer text
    let s := match specItems? sp ws with
      | some items =>
        if Spacing.legal '\x00' items then s!"{showLexToks (items.map (fun (it : Spacing.Item) => Lexer.expTok it.2))} | st=0 buf=-" else "-"
      | none => "-"
    s!"{m}\t{s}"
  | "ltree" :: sp :: ws =>
    let src := renderWords sp ws
    let m := showStmts ((InfixFront.blockOf ('{' :: (src ++ ['\n', '}']))).bind (expandBlock Table.generated))
    let legal := match specItems? sp ws with
      | some items => Spacing.legal '\x00' (([], Spacing.Tok.punct '{') :: items ++ [(['\n'], Spacing.Tok.punct '}')])
      | none => false
    let s := if !legal then "-" else
      match parseItems (ws.length + 1) ws none with
      | some (ts, _) =>
        if usesSpecial ts || !Stratified.inScope Stratified.documented ts then "-"
        else showStmts (Stratified.parseBlock Stratified.documented ts)
      | none => "-"
    s!"{m}\t{s}"
  | "tree" :: _sp :: ws =>
    match parseItems (ws.length + 1) ws none with
    | some (ts, _) =>
      let m := showStmts (expandBlock Table.generated ts)
      let s := if usesSpecial ts || !Stratified.inScope Stratified.documented ts then "-" else showStmts (Stratified.parseBlock Stratified.documented ts)
      s!"{m}\t{s}"
    | none => "bad-op\t-"
  | "htree" :: _hist :: _sp :: ws =>
    -- INTERFERENCE HISTORIES. `_hist` (which other interpreters were created and used in the process before A
    -- expands the block) is deliberately NOT an argument of the model or of the specification: the expansion is a
    -- function of the token list alone (`Stratified.parseBlock documented ts`), and it is built from A's OWN
    -- symbols (`ids-ok`: each symbol carries the number A gives to its name). The implementation column is
    -- produced under the history; impl ≠ spec is a failing history.
    match parseItems (ws.length + 1) ws none with
    | some (ts, _) =>
      let ids (s : String) : String := if s == "err" || s == "-empty-" || s == "-" then s else s ++ " ## ids-ok"
      let m := showStmts (expandBlock Table.generated ts)
      let s := if usesSpecial ts || !Stratified.inScope Stratified.documented ts then "-" else showStmts (Stratified.parseBlock Stratified.documented ts)
      s!"{ids m}\t{ids s}"
    | none => "bad-op\t-"
  | _ => "bad-op\t-"

end ZygoVerif.Driver.Expand
