/-
Channel `sym` (property C19).

  sym api <kind> <N0> <tok>…          history through the public Go API
  sym scr <kind> <N0> <tok>…          history of script statements (EvalString) + Duplicate/Clone
  sym judge <route> <kind> <N0> <tok>… => <answer tokens of the implementation>
                                      the Lean *spec* (Spec/SymTab.judge) judges a trace that
                                      the real code produced; answer `ok` / `bad:<clause>`
  sym base <kind> => <table dump>      (judge only) the tables of a fresh interpreter

`<N0>` = value of `nextsymbol` of the fresh interpreter (after the script prelude for `scr`);
the model starts from `initFamily (N0-1)`. Member indices in tokens count *visible* members
(root, then every d/c in order); macro expansions add hidden members to the model's family.

  api tokens  m<i>:<name> g<i>:<prefix> d<i> c<i>
  scr tokens  s<i>:<name>   (str2sym "name")            n<i>:<name>  (symnum (str2sym "name"))
              g<i>:<prefix> (gensym "prefix")           G<i>         (gensym)
              q<i>:<name>   (quote name)                r<i>:<name>  (read "name ")
              x<i>          (zzmac)   — macro calling (gensym)
              X<i>:<prefix> (zzmacp "prefix") — macro calling (gensym prefix)
              f<i>          (fn [] 7) — anonymous function, named by GenSymbol("__anon")
              e<i>:<a>:<b>  (== (str2sym a) (str2sym b))
              h<i>:<a>:<b>:<c>  fresh hash, a→1, b→2, look up c (default 0)
              d<i> c<i>     Duplicate / Clone through the Go API
  answers     <num>:<name>:<0|1> per symbol (1 = name or number was in the tables before),
              <num> for n, t|f for e, 0|1|2 for h, n<counter> for d/c, then
              `| c=<counters of visible members> s=<new symtable entries> r=<new revsymtable entries>`
-/
import ZygoVerif.Model.SymTab
import ZygoVerif.Spec.SymTab
import ZygoVerif.Driver.Proto
namespace ZygoVerif.Driver.Sym
open ZygoVerif.SymTab ZygoVerif.Proto

def str (s : String) : Name := s.toList.map Char.toNat

/-- One statement of a history, as sent on the line. -/
inductive Stmt where
  | intern (i : Nat) (name : Name)        -- m / s
  | symnum (i : Nat) (name : Name)        -- n
  | gensym (i : Nat) (pre : Name)         -- g / G
  | read (i : Nat) (name : Name)          -- q / r
  | macro (i : Nat) (pre : Name)          -- x / X
  | anon (i : Nat)                        -- f
  | eq (i : Nat) (a b : Name)
  | hash (i : Nat) (a b c : Name)
  | dup (i : Nat)
  | clone (i : Nat)

def parseTok (script : Bool) (tok : String) : Option Stmt := do
  let parts := tok.splitOn ":"
  let hd ← parts.head?
  let kind ← hd.toList.head?
  let i ← (String.ofList hd.toList.tail).toNat?
  let args ← parts.tail.mapM parseCodes?
  match script, kind, args with
  | false, 'm', [n] => some (.intern i n)
  | false, 'g', [p] => some (.gensym i p)
  | true, 's', [n] => some (.intern i n)
  | true, 'n', [n] => some (.symnum i n)
  | true, 'g', [p] => some (.gensym i p)
  | true, 'G', [] => some (.gensym i (str "__gensym"))
  | true, 'q', [n] => some (.read i n)
  | true, 'r', [n] => some (.read i n)
  | true, 'x', [] => some (.macro i (str "__gensym"))
  | true, 'X', [p] => some (.macro i p)
  | true, 'f', [] => some (.anon i)
  | true, 'e', [a, b] => some (.eq i a b)
  | true, 'h', [a, b, c] => some (.hash i a b c)
  | _, 'd', [] => some (.dup i)
  | _, 'c', [] => some (.clone i)
  | _, _, _ => none

/-- Driver state: the model family and the model indices of the visible members. -/
structure St where
  fam : Family
  vis : List Nat

def showObs : Obs → String
  | .sym num name ex => s!"{num}:{showCodes name}:{if ex then 1 else 0}"
  | .member c => s!"n{c}"
  | .bad => "bad-member"

def numOf : Obs → Option Nat
  | .sym n _ _ => some n
  | _ => none

/-- The script-level interning model: which table operations one statement performs, in
order, and what is printed. (Hidden operations — a macro expansion runs in a throw-away
`Duplicate` — were read off generator.go and are validated by the exact comparison.) -/
def execStmt (s : St) : Stmt → St × String
  | .intern i name =>
    match s.vis[i]? with
    | some m => let (F, o) := step s.fam (.mk m name); ({ s with fam := F }, showObs o)
    | none => (s, "bad-member")
  | .symnum i name =>
    match s.vis[i]? with
    | some m =>
      let (F, o) := step s.fam (.mk m name)
      ({ s with fam := F }, match numOf o with | some n => toString n | none => "bad-member")
    | none => (s, "bad-member")
  | .gensym i pre =>
    match s.vis[i]? with
    | some m => let (F, o) := step s.fam (.gen m pre); ({ s with fam := F }, showObs o)
    | none => (s, "bad-member")
  | .read i name =>
    match s.vis[i]? with
    | some m => let (F, o) := step s.fam (.read m name); ({ s with fam := F }, showObs o)
    | none => (s, "bad-member")
  | .macro i pre =>
    match s.vis[i]? with
    | some m =>
      let (F1, _) := step s.fam (.dup m)           -- gen.env.Duplicate()
      let hidden := s.fam.mem.length
      let (F2, o) := step F1 (.gen hidden pre)     -- (gensym …) inside the expansion
      ({ s with fam := F2 }, showObs o)
    | none => (s, "bad-member")
  | .anon i =>
    match s.vis[i]? with
    | some m => let (F, o) := step s.fam (.gen m (str "__anon")); ({ s with fam := F }, showObs o)
    | none => (s, "bad-member")
  | .eq i a b =>
    match s.vis[i]? with
    | some m =>
      let (F1, oa) := step s.fam (.mk m a)
      let (F2, ob) := step F1 (.mk m b)
      -- compareSymbol: by number
      ({ s with fam := F2 }, if numOf oa == numOf ob then "t" else "f")
    | none => (s, "bad-member")
  | .hash i a b c =>
    match s.vis[i]? with
    | some m =>
      let (F1, oa) := step s.fam (.mk m a)
      let (F2, ob) := step F1 (.mk m b)
      let (F3, oc) := step F2 (.mk m c)
      -- hashHelper: the key is the number; later store wins
      let r := if numOf oc == numOf ob then 2 else if numOf oc == numOf oa then 1 else 0
      ({ s with fam := F3 }, toString r)
    | none => (s, "bad-member")
  | .dup i | .clone i =>
    match s.vis[i]? with
    | some m =>
      let (F, o) := step s.fam (.dup m)
      ({ fam := F, vis := s.vis ++ [s.fam.mem.length] }, showObs o)
    | none => (s, "bad-member")

/-- First-match view of an association list (what a Go map holds), keys ≥ `lo` only. -/
def dedupKeys {α β} [DecidableEq α] : List (α × β) → List (α × β)
  | [] => []
  | (a, b) :: r => (a, b) :: (dedupKeys r).filter (fun p => p.1 ≠ a)

def insertSorted (lt : α → α → Bool) (x : α) : List α → List α
  | [] => [x]
  | y :: r => if lt x y then x :: y :: r else y :: insertSorted lt x r

def sortBy (lt : α → α → Bool) (l : List α) : List α := l.foldr (insertSorted lt) []

def nameLt : Name → Name → Bool
  | [], [] => false
  | [], _ => true
  | _, [] => false
  | a :: r, b :: s => a < b || (a == b && nameLt r s)

def entLt (x y : Nat × Name) : Bool := x.1 < y.1 || (x.1 == y.1 && nameLt x.2 y.2)

def showEntries (l : List (Nat × Name)) : String :=
  if l.isEmpty then "-" else ",".intercalate ((sortBy entLt l).map fun p => s!"{p.1}:{showCodes p.2}")

def isBase (n0 : Nat) (name : Name) (num : Nat) : Bool := num < n0 && name == baseName num

def finalDump (n0 : Nat) (s : St) : String :=
  let ctrs := s.vis.map fun m => toString ((s.fam.mem.getD m ⟨0, 0⟩).ctr)
  -- base entries sit at the tail and are never shadowed by what a history conses on top
  let sy := dedupKeys (s.fam.tab.sym.filter (fun p => !isBase n0 p.1 p.2)) |>.map fun p => (p.2, p.1)
  let rv := dedupKeys (s.fam.tab.rev.filter (fun p => !isBase n0 p.2 p.1))
  s!"| c={".".intercalate ctrs} s={showEntries sy} r={showEntries rv}"

def runModel (script : Bool) (n0 : Nat) (toks : List String) : String :=
  match toks.mapM (parseTok script) with
  | none => "bad-op"
  | some stmts =>
    let init : St := ⟨initFamily (n0 - 1), [0]⟩
    let (s, outs) := stmts.foldl (fun (acc : St × List String) st =>
      let (s', o) := execStmt acc.1 st; (s', o :: acc.2)) (init, [])
    " ".intercalate (outs.reverse ++ [finalDump n0 s])

/-! ### the spec side: judging a trace of the implementation -/

open ZygoVerif.SymSpec in
def parseSymAns (a : String) : Option (Sym × Bool) :=
  match a.splitOn ":" with
  | [n, c, e] => do
    let num ← n.toNat?
    let name ← parseCodes? c
    some (⟨num, name⟩, e == "1")
  | _ => none

open ZygoVerif.SymSpec in
/-- The event the spec sees for one statement and the implementation's answer to it. -/
def evOf : Stmt → String → Option Ev
  | .intern _ name, a => do let (g, _) ← parseSymAns a; some (.interned name g)
  | .read _ name, a => do let (g, _) ← parseSymAns a; some (.interned name g)
  | .symnum _ name, a => do let n ← a.toNat?; some (.interned name ⟨n, name⟩)
  | .gensym _ _, a => do let (g, e) ← parseSymAns a; some (.generated g e)
  | .macro _ _, a => do let (g, e) ← parseSymAns a; some (.generated g e)
  | .anon _, a => do let (g, e) ← parseSymAns a; some (.generated g e)
  | .eq _ x y, a => if a == "t" then some (.eqTest x y true) else if a == "f" then some (.eqTest x y false) else none
  | .hash _ x y z, a => do let n ← a.toNat?; some (.hashTest x y z n)
  | .dup _, a => if a.startsWith "n" then some .other else none
  | .clone _, a => if a.startsWith "n" then some .other else none

def parseEntries (s : String) : Option (List (Nat × Name)) :=
  if s == "-" then some [] else
  (s.splitOn ",").mapM fun e =>
    match e.splitOn ":" with
    | [n, c] => do let num ← n.toNat?; let name ← parseCodes? c; some (num, name)
    | _ => none

def zipEvs : List Stmt → List String → Option (List SymSpec.Ev)
  | [], [] => some []
  | s :: ss, a :: as => do let e ← evOf s a; let r ← zipEvs ss as; some (e :: r)
  | _, _ => none

def judgeLine (script : Bool) (toks ans : List String) : String :=
  match toks.mapM (parseTok script) with
  | none => "bad-op"
  | some stmts =>
    let n := stmts.length
    match zipEvs stmts (ans.take n), ans.drop n with
    | some evs, ["|", _, s, r] =>
      match parseEntries (s.drop 2).toString, parseEntries (r.drop 2).toString with
      | some sy, some rv => (SymSpec.judge evs (sy.map fun (p : Nat × Name) => (p.2, p.1)) rv).toString
      | _, _ => "bad:unreadable-table-dump"
    | _, _ => "bad:statement-failed-or-unreadable-answer"

def splitArrow (l : List String) : List String × List String :=
  (l.takeWhile (· ≠ "=>"), (l.dropWhile (· ≠ "=>")).drop 1)

def contiguous (rv : List (Nat × Name)) : Bool :=
  (sortBy (· < ·) (rv.map (·.1))) == (List.range rv.length).map (· + 1)

def handle (toks : List String) : String :=
  match toks with
  | "api" :: _kind :: n0 :: rest =>
    match n0.toNat? with
    | some n => s!"{runModel false n rest}\t-"
    | none => "bad-op\t-"
  | "scr" :: _kind :: n0 :: rest =>
    match n0.toNat? with
    | some n => s!"{runModel true n rest}\t-"
    | none => "bad-op\t-"
  | "judge" :: route :: _kind :: _n0 :: rest =>
    let (ops, ans) := splitArrow rest
    let v := judgeLine (route == "scr") ops ans
    s!"{v}\t{v}"
  | "base" :: _kind :: "=>" :: [s, r] =>
    -- first column: the spec's table clause; second column: the *model's* assumption about a
    -- fresh interpreter (numbers 1..n all in use) — not part of the property
    match parseEntries (s.drop 2).toString, parseEntries (r.drop 2).toString with
    | some sy, some rv =>
      let v := if SymSpec.tablesBijective (sy.map fun (p : Nat × Name) => (p.2, p.1)) rv then "ok"
               else "bad:tables-not-mutually-inverse"
      let c := if contiguous rv then "ok" else "base-numbers-not-1..n"
      s!"{v}\t{c}"
    | _, _ => "bad:unreadable-table-dump\t-"
  | "base" :: _ => "-\t-"
  | _ => "bad-op\t-"

end ZygoVerif.Driver.Sym
