/-
C06 — infix blocks mean what the precedence table says. (first part: table facts)
-/
import ZygoVerif.Model.Pratt
import ZygoVerif.Model.LegacyPratt
import ZygoVerif.Model.PrattGrammar
import ZygoVerif.Spec.Stratified
import ZygoVerif.Spec.Spacing
import ZygoVerif.Model.InfixFront
import ZygoVerif.Proofs.InfixFrontEnd
namespace ZygoVerif.Pratt
open ZygoVerif.Stratified

/-! Structural equality on trees (the type is a nested inductive). -/
mutual
def Sx.same : Sx → Sx → Bool
  | .sym a, .sym b | .dot a, .dot b | .lab a, .lab b | .lit a, .lit b => a == b
  | .other u a, .other v b => u == v && a == b
  | .arr xs, .arr ys | .list xs, .list ys => sameList xs ys
  | .comma, .comma | .semi, .semi | .hash, .hash | .null, .null => true
  | _, _ => false
def sameList : List Sx → List Sx → Bool
  | [], [] => true
  | x :: xs, y :: ys => x.same y && sameList xs ys
  | _, _ => false
end

def sameRes : Option (List Sx) → Option (List Sx) → Bool
  | none, none => true
  | some a, some b => sameList a b
  | _, _ => false

/-- The table regenerated from InitInfixOps / LeftBindingPower induces exactly the documented
levels: same order, same partition of the operators, same associativity. Binding-power
numbers are not compared, so a renumbering that keeps the order passes. -/
theorem table_is_documented : Grammar.same (grammarOf Table.generated) documented = true := by
  decide +kernel

/-- The constructor closures recurse with the right binding powers the model's `ledOfEntry`
/`nudOfEntry` use (`bp` for Infix and Prefix, `bp - 1` for Infixr and Assignment, no recursion
for PostfixAssign) and Assignment rewrites `=`/`:=` to `set`. -/
theorem ctor_rbp_as_modelled : Generated.InfixTable.ctorRbp =
    [("Infix", "bp", ""), ("Infixr", "bp - 1", ""), ("Prefix", "bp", ""),
     ("Assignment", "bp - 1", "set,=,:="), ("PostfixAssign", "", "")] := by
  decide +kernel

/-- LeftBindingPower has the arms and guards that `lbp` models (constants are read from the
generated file, not compared here). -/
theorem lbp_arms_as_modelled :
    Generated.InfixTable.lbpArms.map (fun a => (a.types, a.returns.map (fun r => (r.1, r.2.isSome)))) =
    [(["SexpInt", "SexpFloat"], [("", true)]), (["SexpBool"], [("", true)]), (["SexpStr"], [("", true)]),
     (["SexpChar", "SexpUint64"], [("", true)]),
     (["SexpSymbol"], [("x.name == \"if\"", true), ("found", false), ("x.isDot", true), ("", true)]),
     (["SexpArray"], [("", true)]), (["SexpComma"], [("", true)]), (["SexpSemicolon"], [("", true)]),
     (["SexpComment"], [("", true)]), (["SexpPair"], [("x.Head != nil switch", true), ("", true)]),
     (["SexpHash"], [("", true)])] := by
  decide +kernel

/-! ### the defect repaired by fix C06-01 -/

/-- Before fix C06-01 a char literal that starts a juxtaposed statement made the expander fail
(`{a 'c'}`: LeftBindingPower had no arm for *SexpChar) … -/
theorem C06_counterexample_char_statement :
    expandBlock Table.legacy01 [.sym "a", .other false "'c'"] = none := by
  decide +kernel

/-- … and with the fix the block has the two statements the grammar gives it. -/
theorem char_statement_fixed :
    sameRes (expandBlock Table.generated [.sym "a", .other false "'c'"])
            (parseBlock documented [.sym "a", .other false "'c'"]) = true
    ∧ sameRes (expandBlock Table.generated [.sym "a", .other false "'c'"])
              (some [.sym "a", .other false "'c'"]) = true := by
  decide +kernel

/-! ### statements of a block are expanded left to right

`InfixExpandArray` is a loop; each round parses one `Expression(0)` from the front of the
remaining tokens, appends it to the statements collected so far and skips one following `;`.
The three step lemmas below are that loop, read off the model. -/

/-- A statement followed by more tokens (no `;` between): its tree is appended and the
expansion continues with the rest. -/
theorem statements_in_order_step (T : Table) (f : Nat) (st t : Sx) (ts acc : List Sx)
    (x st1 u : Sx) (us : List Sx) (hlab : ∀ l, t ≠ .lab l)
    (h : expr T f 0 st (t :: ts) = some (x, st1, u :: us)) (hx : x.isSemi = false) (hu : u.isSemi = false) :
    expandArray T (f+1) st (t :: ts) acc = expandArray T f st1 (u :: us) (acc ++ [x]) := by
  cases t <;> simp_all [expandArray]

/-- A statement followed by `;` and more tokens: the `;` is skipped. -/
theorem statements_in_order_semi (T : Table) (f : Nat) (st t : Sx) (ts acc : List Sx)
    (x st1 u : Sx) (us : List Sx) (hlab : ∀ l, t ≠ .lab l)
    (h : expr T f 0 st (t :: ts) = some (x, st1, .semi :: u :: us)) (hx : x.isSemi = false) :
    expandArray T (f+1) st (t :: ts) acc = expandArray T f st1 (u :: us) (acc ++ [x]) := by
  cases t <;> simp_all [expandArray, Sx.isSemi]

/-- The last statement: the block's statements are those collected so far plus this one (so the
block's value, by `GenerateBegin`, is the value of this one). -/
theorem statements_in_order_last (T : Table) (f : Nat) (st t : Sx) (ts acc : List Sx)
    (x st1 : Sx) (hlab : ∀ l, t ≠ .lab l)
    (h : expr T f 0 st (t :: ts) = some (x, st1, [])) (hx : x.isSemi = false) :
    expandArray T (f+1) st (t :: ts) acc = some (acc ++ [x]) := by
  cases t <;> simp_all [expandArray]

example : (expandBlock Table.generated [.sym "a", .sym "=", .lit "1", .semi, .sym "b", .sym "+", .sym "a", .sym "c"]).map
    (·.length) = some 3 := by decide +kernel

/-! ### the Pratt loop equals the stratified grammar -/

/-- Consistency the equivalence needs from a table: the comma token and the dot-symbols bind
with the power of the table entries that supply their handlers, and all binary operators of
one binding power associate the same way. -/
def wellFormedB (T : Table) : Bool :=
  (match T.find? "comma" with
    | some e => e.bp == T.lbpComma && e.ctor == .infix && e.led == ""
    | none => false) &&
  (match T.find? "." with
    | some e => e.bp == T.lbpDot && e.led == "dotOpMunchLeft"
    | none => false) &&
  T.effective.all (fun e₁ => T.effective.all (fun e₂ =>
    !(e₁.bp == e₂.bp && e₁.ctor == .infix) || (e₂.ctor != .infixr && e₂.ctor != .assignment)))

def WellFormedTable (T : Table) : Prop := wellFormedB T = true

example : WellFormedTable Table.generated := by unfold WellFormedTable; decide +kernel

/-- Token lists inside the scope of the equivalence: no `if`/`for`/`break`/`continue`/label,
no token LeftBindingPower rejects, and no operator without right operand directly followed by
a tighter operator (`Stratified.inScope`). -/
def InFragment (T : Table) (ts : List Sx) : Prop :=
  inScope (grammarOf T) ts = true ∧
  ∀ t ∈ ts, (lbp T t).isSome ∧ (nudOf T t = .atom ∨ ∃ n r, nudOf T t = .pre n r)

/-- THE FULL STATEMENT (visible, not proved for unbounded length in this file): for every
well-formed table and every token list of the fragment — malformed ones included — the Pratt
loop of pratt.go and the stratified recursive-descent parser over the levels the table
induces return the same tree and the same unconsumed rest. -/
def PrattEqStratified : Prop :=
  ∀ (T : Table) (ts : List Sx), WellFormedTable T → InFragment T ts →
    expression T 0 ts = Stratified.parse (grammarOf T) ts

def listsOfLen (A : List Sx) : Nat → List (List Sx)
  | 0 => [[]]
  | n+1 => (listsOfLen A n).flatMap (fun l => A.map (· :: l))

/-- One representative per level and role: operand, literal, assignment, comma, or, comparison,
additive, multiplicative (also prefix), power, not, field, `;`. -/
def alphabet : List Sx :=
  [.sym "a", .sym "=", .comma, .sym "or", .sym "<", .sym "-", .sym "*", .sym "**", .sym "not", .dot ".f", .semi]

def agree (ts : List Sx) : Bool :=
  !inScope documented ts || sameRes (expandBlock Table.generated ts) (parseBlock documented ts)

/-- One representative per binary level plus operand and `not`. -/
def alphabetCore : List Sx :=
  [.sym "a", .sym "=", .sym "or", .sym "<", .sym "-", .sym "*", .sym "**", .sym "not"]

/-- PARTIAL (bounded; what is missing is the induction on the length of the token list): for
the table of the current tree and the documented levels, every in-scope token list of length
≤ 2 over `alphabet` and of length 3 over `alphabetCore` — malformed ones included (operator
first, adjacent operators, adjacent operands, trailing operator) — expands to the same
statements under the Pratt model and under the stratified specification. Kernel-checked. -/
theorem pratt_eq_stratified_partial :
    ((listsOfLen alphabet 1 ++ listsOfLen alphabet 2 ++ listsOfLen alphabetCore 3).all agree) = true := by
  decide +kernel

/-! ### lex_spacing: a legal spacing of a token sequence lexes to that token sequence

`Spec/Spacing.lean` says, on characters alone, which tokens may be written without a blank
between them (rules W, D, S, B). The theorems below are about `Model/Lexer.lean`, the model of
lexer.go that the `lex` channel (C13/C12) and the `expand ltree` ops tie to the code. -/

section LexSpacing
open ZygoVerif.Lexer ZygoVerif.Spacing ZygoVerif.InfixRead

/-- The token queue after feeding `text` to a fresh lexer, when nothing is left pending. -/
def lexText (text : List Char) : Option (List Lexer.Token) :=
  match feed (.ok LexCore.init) text with
  | .ok s => if s.buffer.isEmpty && s.state == .normal then some s.tokens else none
  | .err _ _ => none

/-- **lex_spacing** (general form): for EVERY token sequence and EVERY legal spacing of it, from
every lexer state in LexerNormal with an empty buffer whose last rune was `l0`, the text followed
by a blank is read as exactly the tokens of the sequence — one lexer token of the expected type
(`expTok`) per written token — appended to the queue, with nothing left pending. -/
theorem lex_spacing (items : List Spacing.Item) (l0 c : Char) (hc : Spacing.isBlank c = true)
    (h : Spacing.legal l0 items = true) (T : List Lexer.Token) :
    Lex ⟨.normal, [], T, l0⟩ (Spacing.renderItems items ++ [c]) ⟨.normal, [], T ++ items.map (fun it => expTok it.2), c⟩ :=
  Lexer.lex_spacing items l0 c hc h T

/-- … in particular from the fresh lexer (the last-rune ring starts with NULs). -/
theorem lex_spacing_fresh (items : List Spacing.Item) (h : Spacing.legal '\x00' items = true) :
    lexText (Spacing.renderItems items ++ ['\n']) = some (items.map (fun it => expTok it.2)) := by
  obtain ⟨s', hf, hs'⟩ := Lexer.lex_spacing items '\x00' '\n' (by decide) h [] LexCore.init
    ⟨rfl, rfl, rfl, ringOK_init, lastRune_init⟩
  simp [lexText, hf, hs'.buffer, hs'.state, hs'.tokens]

private def nm (s : String) : Tok := .name false [s.toList]
private def nat (s : String) : Tok := .num false s.toList none none
private def neg (s : String) : Tok := .num true s.toList none none
private def op (s : String) : Tok := .op s.toList

/-- non-vacuity: `a+b*-1 <=c.d[ 0 ]`, `x:=-2.5e-3`, `a - 1`, `a-1` are legal spacings -/
example : Spacing.legal '\x00' [([], nm "a"), ([], op "+"), ([], nm "b"), ([], op "*"), ([], neg "1"), ([' '], op "<="),
    ([], .name false ["c".toList, "d".toList]), ([], .punct '['), ([' '], nat "0"), (['\n'], .punct ']')] = true := by decide +kernel
example : Spacing.legal '{' [([], nm "x"), ([], op ":="), ([], .num true "2".toList (some "5".toList) (some ('-', "3".toList)))] = true := by
  decide +kernel
example : Spacing.legal '{' [([], nm "a"), ([' '], op "-"), ([' '], nat "1")] = true := by decide +kernel
example : Spacing.legal '{' [([], nm "a"), ([], op "-"), ([], nat "1")] = true := by decide +kernel

/-- **The sign look-back (known finding of C06) is exactly the excluded adjacency B**: `a -1`
(blank before the minus, none after it, a digit next) is not a legal spacing of the three tokens
`a`, `-`, `1` — and it must not be: the lexer model reads the text as the TWO tokens `a`, `-1`. -/
theorem lex_spacing_counterexample_sign_lookback :
    Spacing.legal '{' [([], nm "a"), ([' '], op "-"), ([], nat "1")] = false ∧
    lexText "a -1\n".toList = some [⟨.symbol, ['a']⟩, ⟨.decimal, ['-', '1']⟩] ∧
    lexText "a - 1\n".toList = some [⟨.symbol, ['a']⟩, ⟨.symbol, ['-']⟩, ⟨.decimal, ['1']⟩] ∧
    lexText "a-1\n".toList = some [⟨.symbol, ['a']⟩, ⟨.symbol, ['-']⟩, ⟨.decimal, ['1']⟩] := by
  decide +kernel

/-- Each of the other three rules is needed as well: written tight, `a` `b` is one name (W), `+` `+`
is the operator `++` and `<` `-1` starts with the operator `<-` (D), `a` `-1` is a subtraction (S). -/
theorem lex_spacing_counterexample_other_rules :
    (Spacing.legal '{' [([], nm "a"), ([], nm "b")] = false ∧ lexText "ab\n".toList = some [⟨.symbol, ['a', 'b']⟩]) ∧
    (Spacing.legal '{' [([], nm "a"), ([], op "+"), ([], op "+"), ([], nm "b")] = false ∧
      lexText "a++b\n".toList = some [⟨.symbol, ['a']⟩, ⟨.symbol, ['+', '+']⟩, ⟨.symbol, ['b']⟩]) ∧
    (Spacing.legal '{' [([], nm "a"), ([], op "<"), ([], neg "1")] = false ∧
      lexText "a<-1\n".toList = some [⟨.symbol, ['a']⟩, ⟨.symbol, ['<', '-']⟩, ⟨.decimal, ['1']⟩]) ∧
    (Spacing.legal '{' [([], nm "a"), ([], neg "1")] = false ∧
      lexText "a-1\n".toList = some [⟨.symbol, ['a']⟩, ⟨.symbol, ['-']⟩, ⟨.decimal, ['1']⟩]) := by
  decide +kernel

/-- Written tight after an operator the signed numeral is fine: `a*-1`, `a<=-1`, `x=-2`. -/
example : lexText "a*-1 a<=-1 x=-2\n".toList =
    some [⟨.symbol, ['a']⟩, ⟨.symbol, ['*']⟩, ⟨.decimal, ['-', '1']⟩, ⟨.symbol, ['a']⟩, ⟨.symbol, ['<', '=']⟩, ⟨.decimal, ['-', '1']⟩,
          ⟨.symbol, ['x']⟩, ⟨.symbol, ['=']⟩, ⟨.decimal, ['-', '2']⟩] := by decide +kernel

/-! ### end to end: the text of a block, in any legal spacing, means the stratified tree -/

/-- **The front end does not depend on the spacing.** The text of a non-empty block `{ xs }` written
in any legal spacing — `items` spaces the tokens `{`, those of the source tree `xs`
(names, numerals, operators, `[ … ]`, `( … )`, nested `{ … }`, to any depth), `}` — is lexed and
parsed (models of lexer.go and parser.go) to the token array `blockSx xs`, which is a function of
the source tree alone. -/
theorem infix_text_tokens (x : Src) (xs : List Src) (hok : okL (x :: xs) = true) (items : List Spacing.Item)
    (hitems : items.map (·.2) = Src.flat (.block (x :: xs))) (hlegal : Spacing.legal '\x00' items = true) :
    InfixFront.blockOf (Spacing.renderItems items) = some (blockSx (x :: xs)) :=
  blockOf_legal x xs hok items hitems hlegal

/-- … so the statements the expander produces for the text are those it produces for the token list. -/
theorem infix_text_expands (T : Table) (x : Src) (xs : List Src) (hok : okL (x :: xs) = true) (items : List Spacing.Item)
    (hitems : items.map (·.2) = Src.flat (.block (x :: xs))) (hlegal : Spacing.legal '\x00' items = true) :
    (InfixFront.blockOf (Spacing.renderItems items)).bind (expandBlock T) = expandBlock T (blockSx (x :: xs)) := by
  rw [infix_text_tokens x xs hok items hitems hlegal]; rfl

/-- THE FULL END-TO-END STATEMENT: the text of every block in every legal spacing expands to the
statements the stratified grammar of the documented levels gives for its token list (when the
specification speaks about the list: `inScope`). -/
def TextMeansStratified : Prop :=
  ∀ (x : Src) (xs : List Src) (items : List Spacing.Item), okL (x :: xs) = true →
    items.map (·.2) = Src.flat (.block (x :: xs)) → Spacing.legal '\x00' items = true →
    inScope documented (blockSx (x :: xs)) = true →
    sameRes ((InfixFront.blockOf (Spacing.renderItems items)).bind (expandBlock Table.generated))
            (parseBlock documented (blockSx (x :: xs))) = true

/-- PARTIAL: proved for every block and every legal spacing whose token list the Pratt model and
the stratified specification agree on (`agree`: kernel-checked for the short lists of
`pratt_eq_stratified_partial`; what is missing for all lists is `PrattEqStratified`, the induction
on the length of the token list). The lexer and parser stages are proved for all texts. -/
theorem text_means_stratified_partial (x : Src) (xs : List Src) (items : List Spacing.Item) (hok : okL (x :: xs) = true)
    (hitems : items.map (·.2) = Src.flat (.block (x :: xs))) (hlegal : Spacing.legal '\x00' items = true)
    (hin : inScope documented (blockSx (x :: xs)) = true) (hagree : agree (blockSx (x :: xs)) = true) :
    sameRes ((InfixFront.blockOf (Spacing.renderItems items)).bind (expandBlock Table.generated))
            (parseBlock documented (blockSx (x :: xs))) = true := by
  rw [infix_text_expands Table.generated x xs hok items hitems hlegal]
  simpa [agree, hin] using hagree

private def exSrc : List Src := [.tok (nm "a"), .tok (op "+"), .tok (nm "b"), .tok (op "*"), .tok (neg "1")]
private def exItems : List Spacing.Item :=
  [([], .punct '{'), ([], nm "a"), ([], op "+"), ([], nm "b"), ([], op "*"), ([], neg "1"), ([], .punct '}')]

private theorem exSx : blockSx exSrc = [.sym "a", .sym "+", .sym "b", .sym "*", .lit "-1"] := by
  have e : PrintData.itoa (-1) = ['-', '1'] := by decide
  have h := atomOfTok_itoa (-1) (by decide) (by decide)
  rw [e] at h
  simp [blockSx, exSrc, elems, toSexp, tokSexp, expTok, nm, op, neg, Tok.text, Tok.dotted, Sexp.listSx, Sexp.toSx, Sexp.isComment, h]
  decide

/-- non-vacuity: the text `{a+b*-1}` satisfies every hypothesis of `text_means_stratified_partial` -/
example : okL exSrc = true ∧ exItems.map (·.2) = Src.flat (.block exSrc) ∧ Spacing.legal '\x00' exItems = true ∧
    String.ofList (Spacing.renderItems exItems) = "{a+b*-1}" ∧
    inScope documented (blockSx exSrc) = true ∧ agree (blockSx exSrc) = true := by
  rw [exSx]; decide +kernel

end LexSpacing

end ZygoVerif.Pratt
