/-
C06 — infix blocks mean what the precedence table says. (first part: table facts)
-/
import ZygoVerif.Model.Pratt
import ZygoVerif.Generated.InfixHandlers
import ZygoVerif.Model.LegacyPratt
import ZygoVerif.Model.PrattGrammar
import ZygoVerif.Spec.Stratified
import ZygoVerif.Spec.Spacing
import ZygoVerif.Model.InfixFront
import ZygoVerif.Proofs.InfixFrontEnd
import ZygoVerif.Proofs.PrattStratBlock
import ZygoVerif.Proofs.FuelSuffices
namespace ZygoVerif.Pratt
open ZygoVerif.Stratified

/-! Structural equality on trees (the type is a nested inductive). -/
mutual
def Sx.same : Sx → Sx → Bool
  | .sym a, .sym b | .dot a, .dot b | .lab a, .lab b | .lit a, .lit b => a == b
  | .other u a, .other v b => u == v && a == b
  | .arr xs, .arr ys | .list xs, .list ys => sameList xs ys
  | .comma, .comma | .semi, .semi | .hash, .hash | .null, .null => true
  | _, _ => false
def sameList : List Sx → List Sx → Bool
  | [], [] => true
  | x :: xs, y :: ys => x.same y && sameList xs ys
  | _, _ => false
end

def sameRes : Option (List Sx) → Option (List Sx) → Bool
  | none, none => true
  | some a, some b => sameList a b
  | _, _ => false

/-- The table regenerated from InitInfixOps / LeftBindingPower induces exactly the documented
levels: same order, same partition of the operators, same associativity. Binding-power
numbers are not compared, so a renumbering that keeps the order passes. -/
theorem table_is_documented : Grammar.same (grammarOf Table.generated) documented = true := by
  decide +kernel

/-- The constructor closures recurse with the right binding powers the model's `ledOfEntry`
/`nudOfEntry` use (`bp` for Infix and Prefix, `bp - 1` for Infixr and Assignment, no recursion
for PostfixAssign) and Assignment rewrites `=`/`:=` to `set`. -/
theorem ctor_rbp_as_modelled : Generated.InfixTable.ctorRbp =
    [("Infix", "bp", ""), ("Infixr", "bp - 1", ""), ("Prefix", "bp", ""),
     ("Assignment", "bp - 1", "set,=,:="), ("PostfixAssign", "", "")] := by
  decide +kernel

/-- the arm fix C06-02 adds (nil, written `()`): optional, so that the theorem holds before and after the fix -/
def sentinelArm : List String × List (String × Bool) := (["SexpSentinel"], [("", true)])

/-- LeftBindingPower has the arms and guards that `lbp` models (constants are read from the
generated file, not compared here); the arm for nil of fix C06-02 may be present or not — the
model reads it from the generated file (`Table.lbpNull`). -/
theorem lbp_arms_as_modelled :
    (Generated.InfixTable.lbpArms.map (fun a => (a.types, a.returns.map (fun r => (r.1, r.2.isSome))))).filter (· != sentinelArm) =
    [(["SexpInt", "SexpFloat"], [("", true)]), (["SexpBool"], [("", true)]), (["SexpStr"], [("", true)]),
     (["SexpChar", "SexpUint64"], [("", true)]),
     (["SexpSymbol"], [("x.name == \"if\"", true), ("found", false), ("x.isDot", true), ("", true)]),
     (["SexpArray"], [("", true)]), (["SexpComma"], [("", true)]), (["SexpSemicolon"], [("", true)]),
     (["SexpComment"], [("", true)]), (["SexpPair"], [("x.Head != nil switch", true), ("", true)]),
     (["SexpHash"], [("", true)])] := by
  decide +kernel

/-! ### the defect repaired by fix C06-01 -/

/-- Before fix C06-01 a char literal that starts a juxtaposed statement made the expander fail
(`{a 'c'}`: LeftBindingPower had no arm for *SexpChar) … -/
theorem C06_counterexample_char_statement :
    expandBlock Table.legacy01 [.sym "a", .other false "'c'"] = none := by
  decide +kernel

/-- … and with the fix the block has the two statements the grammar gives it. -/
theorem char_statement_fixed :
    sameRes (expandBlock Table.generated [.sym "a", .other false "'c'"])
            (parseBlock documented [.sym "a", .other false "'c'"]) = true
    ∧ sameRes (expandBlock Table.generated [.sym "a", .other false "'c'"])
              (some [.sym "a", .other false "'c'"]) = true := by
  decide +kernel

/-! ### the defect repaired by fix C06-02 (proposed) -/

/-- Without an arm for nil in LeftBindingPower, `{a ()}` (nil as a juxtaposed statement) is an error … -/
theorem C06_counterexample_nil_statement :
    expandBlock Table.legacy02 [.sym "a", .null] = none := by
  decide +kernel

/-- … and once the arm is there (`Table.generated.lbpNull = some 0`) the block has the two statements the
grammar gives it. (Stated so that it holds on the tree before and after the fix.) -/
theorem nil_statement_fixed :
    (Table.generated.lbpNull != some 0 ||
     sameRes (expandBlock Table.generated [.sym "a", .null]) (parseBlock documented [.sym "a", .null])) = true := by
  decide +kernel

/-! ### statements of a block are expanded left to right

`InfixExpandArray` is a loop; each round parses one `Expression(0)` from the front of the
remaining tokens, appends it to the statements collected so far and skips one following `;`.
The three step lemmas below are that loop, read off the model. -/

/-- A statement followed by more tokens (no `;` between): its tree is appended and the
expansion continues with the rest. -/
theorem statements_in_order_step (T : Table) (f : Nat) (st t : Sx) (ts acc : List Sx)
    (x st1 u : Sx) (us : List Sx) (hlab : ∀ l, t ≠ .lab l)
    (h : expr T f 0 st (t :: ts) = some (x, st1, u :: us)) (hx : x.isSemi = false) (hu : u.isSemi = false) :
    expandArray T (f+1) st (t :: ts) acc = expandArray T f st1 (u :: us) (acc ++ [x]) := by
  cases t <;> simp_all [expandArray]

/-- A statement followed by `;` and more tokens: the `;` is skipped. -/
theorem statements_in_order_semi (T : Table) (f : Nat) (st t : Sx) (ts acc : List Sx)
    (x st1 u : Sx) (us : List Sx) (hlab : ∀ l, t ≠ .lab l)
    (h : expr T f 0 st (t :: ts) = some (x, st1, .semi :: u :: us)) (hx : x.isSemi = false) :
    expandArray T (f+1) st (t :: ts) acc = expandArray T f st1 (u :: us) (acc ++ [x]) := by
  cases t <;> simp_all [expandArray, Sx.isSemi]

/-- The last statement: the block's statements are those collected so far plus this one (so the
block's value, by `GenerateBegin`, is the value of this one). -/
theorem statements_in_order_last (T : Table) (f : Nat) (st t : Sx) (ts acc : List Sx)
    (x st1 : Sx) (hlab : ∀ l, t ≠ .lab l)
    (h : expr T f 0 st (t :: ts) = some (x, st1, [])) (hx : x.isSemi = false) :
    expandArray T (f+1) st (t :: ts) acc = some (acc ++ [x]) := by
  cases t <;> simp_all [expandArray]

example : (expandBlock Table.generated [.sym "a", .sym "=", .lit "1", .semi, .sym "b", .sym "+", .sym "a", .sym "c"]).map
    (·.length) = some 3 := by decide +kernel

/-! ### the Pratt loop equals the stratified grammar -/

/-- Consistency the equivalence needs from a table: the comma token and the dot-symbols bind
with the power of the table entries that supply their handlers, and all binary operators of
one binding power associate the same way. -/
def wellFormedB (T : Table) : Bool :=
  (match T.find? "comma" with
    | some e => e.bp == T.lbpComma && e.ctor == .infix && e.led == ""
    | none => false) &&
  (match T.find? "." with
    | some e => e.bp == T.lbpDot && e.led == "dotOpMunchLeft"
    | none => false) &&
  T.effective.all (fun e₁ => T.effective.all (fun e₂ =>
    !(e₁.bp == e₂.bp && e₁.ctor == .infix) || (e₂.ctor != .infixr && e₂.ctor != .assignment)))

def WellFormedTable (T : Table) : Prop := wellFormedB T = true

example : WellFormedTable Table.generated := by unfold WellFormedTable; decide +kernel

/-- Token lists inside the scope of the equivalence: no `if`/`for`/`break`/`continue`/label,
no token LeftBindingPower rejects, and no operator without right operand directly followed by
a tighter operator (`Stratified.inScope`). -/
def InFragment (T : Table) (ts : List Sx) : Prop :=
  inScope (grammarOf T) ts = true ∧
  ∀ t ∈ ts, (lbp T t).isSome ∧ (nudOf T t = .atom ∨ ∃ n r, nudOf T t = .pre n r)

/-- THE STATEMENT IN ITS ORIGINAL FORM (kept visible). As written it is FALSE — `PrattEqStratified_counterexample`
below: `InFragment` looks at the top-level tokens only, and inside a selector the two parsers differ on `if`
(`a[if b c]`: pratt.go builds `(cond b c ())`, the grammar has no `if`). Its honest repair is proved: the fragment
condition at every depth of selectors and the table/grammar correspondence as hypothesis —
`PrattEqStratifiedRepaired` / `pratt_eq_stratified` (every table and grammar in correspondence `Corr`, concrete fuel
of both executable models), `pratt_eq_stratified_generated` (regenerated table, documented levels). What the
original generality ("every well-formed table") still lacks: a proof that `wellFormedB T` implies
`Corr T (grammarOf T) (bpsOf T (grammarOf T))`; for the regenerated table `Corr` is established by `corr_generated`
on every run. -/
def PrattEqStratified : Prop :=
  ∀ (T : Table) (ts : List Sx), WellFormedTable T → InFragment T ts →
    expression T 0 ts = Stratified.parse (grammarOf T) ts

def listsOfLen (A : List Sx) : Nat → List (List Sx)
  | 0 => [[]]
  | n+1 => (listsOfLen A n).flatMap (fun l => A.map (· :: l))

/-- One representative per level and role: operand, literal, assignment, comma, or, comparison,
additive, multiplicative (also prefix), power, not, field, `;`. -/
def alphabet : List Sx :=
  [.sym "a", .sym "=", .comma, .sym "or", .sym "<", .sym "-", .sym "*", .sym "**", .sym "not", .dot ".f", .semi]

def agree (ts : List Sx) : Bool :=
  !inScope documented ts || sameRes (expandBlock Table.generated ts) (parseBlock documented ts)

/-- One representative per binary level plus operand and `not`. -/
def alphabetCore : List Sx :=
  [.sym "a", .sym "=", .sym "or", .sym "<", .sym "-", .sym "*", .sym "**", .sym "not"]

/-- PARTIAL (bounded; what is missing is the induction on the length of the token list): for
the table of the current tree and the documented levels, every in-scope token list of length
≤ 2 over `alphabet` and of length 3 over `alphabetCore` — malformed ones included (operator
first, adjacent operators, adjacent operands, trailing operator) — expands to the same
statements under the Pratt model and under the stratified specification. Kernel-checked. -/
theorem pratt_eq_stratified_partial :
    ((listsOfLen alphabet 1 ++ listsOfLen alphabet 2 ++ listsOfLen alphabetCore 3).all agree) = true := by
  decide +kernel

/-! ### the Pratt loop equals the stratified grammar — token lists of unbounded length

Fuel is an artefact of the models (pratt.go has none), so the statements are about what the two
parsers return "with enough fuel" (`PE`, `SS`, `Stmts`; more fuel never changes a result:
`Pratt.mono`, `Stratified.mono`). They are about the table REGENERATED from the current tree and
the documented levels; the link between the two (`corr_generated`: every operator of a documented
level has that level's binding power and the `MunchLeft` its role says, every other token binds
with 0, prefix operators recurse with their level's power) is re-established by `decide` on every
run, with the binding powers read off the table. -/

/-- The fragment, as a test: no token (at any depth of selectors) is `if`, `for`, `break`, `continue`
or unknown to `LeftBindingPower`, and the specification speaks about the list (`inScope`: an
operator without right operand is not directly followed by a tighter operator). -/
def inFragmentB (ts : List Sx) : Bool := fragList (okTok Table.generated) ts && inScope documented ts

theorem frag_of_B {ts : List Sx} (h : inFragmentB ts = true) : Frag Table.generated documented ts := by
  simp only [inFragmentB, inScope, Bool.and_eq_true] at h
  exact ⟨h.1, h.2.1, h.2.2⟩

theorem noFor_of_B {ts : List Sx} (h : inFragmentB ts = true) : noFor ts := by
  intro t ht
  have hok : okTok Table.generated t = true :=
    fragTok_top _ t (fragList_mem _ ts (frag_of_B h).1 t ht)
  cases hn : t.isNamed "for" with
  | false => rfl
  | true =>
    exfalso
    have hs : t.symName? = some "for" := by simpa [Sx.isNamed] using hn
    have hnud : nudOf Table.generated t = .forop := by
      unfold nudOf; rw [hs]; decide +kernel
    simp [okTok, okNudB, hnud] at hok

/-- **pratt_iff_stratified** (one expression): for EVERY token list of the fragment — any length,
selectors nested to any depth, malformed lists included — and every result (tree, unconsumed rest):
`Pratt.Expression(0)` of pratt.go (model, regenerated table) returns it iff the textbook stratified
recursive-descent parser over the documented levels returns it. Hence one of them fails or never
returns iff the other does. Proof: `Proofs/PrattStrat.lean` (`Expression(rbp)` = the parse at the
levels binding tighter than `rbp`; its loop = the chains of those levels, cut at each level's
binding power; the stop property of `Expression` lets a chain go on where the loop goes on). -/
theorem pratt_iff_stratified (ts : List Sx) (h : inFragmentB ts = true) (E : Sx) (r : Sx × List Sx) :
    (∃ f, expr Table.generated f 0 E ts = some (r.1, E, r.2)) ↔ (∃ f, strat documented E f documented ts = some r) :=
  pratt_iff_strat corr_generated ts (frag_of_B h) E r

/-- **The statements of a block**: `InfixExpandArray` (model) returns the statement list `out` iff
`out` is the list of stratified statements of the tokens (`Stmts`: one expression at the loosest
level, one `;` skipped, an expression that is just `;` is no statement). -/
theorem expand_iff_statements (ts : List Sx) (hne : ts ≠ []) (h : inFragmentB ts = true) (out : List Sx) :
    (∃ f, expandArray Table.generated f (staleOf ts) ts [] = some out) ↔ Stmts documented (staleOf ts) ts out := by
  rw [expandArray_iff (staleOf ts) ts hne (frag_of_B h) (noFor_of_B h) [] out]
  constructor
  · rintro ⟨xs, hst, rfl⟩; simpa using hst
  · intro hst; exact ⟨out, hst, by simp⟩

/-- With the fuel the driver uses: whenever `expandBlock` (Pratt model) and `parseBlock` (stratified
specification) both return, they return the same statements. (Superseded by
`expandBlock_eq_parseBlock_concrete` below: they are EQUAL, `none` included.) -/
theorem expandBlock_eq_parseBlock (ts : List Sx) (hne : ts ≠ []) (h : inFragmentB ts = true) (o1 o2 : List Sx)
    (h1 : expandBlock Table.generated ts = some o1) (h2 : parseBlock documented ts = some o2) : o1 = o2 := by
  have a := (expand_iff_statements ts hne h o1).1 ⟨_, h1⟩
  have b : Stmts documented (staleOf ts) ts o2 := statements_sound _ _ _ _ _ h2
  exact Stmts_det a b

/-! ### the fuel of the executable models always suffices

`Model/Pratt.lean` and `Spec/Stratified.lean` are fuel-indexed, so `none` could mean "error return" or "fuel
exhausted". With the fuel the DRIVER runs them with it never means the latter (`Proofs/FuelSuffices.lean`):
termination measures — every recursive call is on a token list of strictly smaller weight (a round of the loop
consumes a token; a selector recurses into its parts, which weigh less than the selector token; a label counts 2
because `splitColonTailSelectorSymbols` makes it two tokens), and `fuelFor` exceeds the weight. -/

theorem nudFrag_of_B {ts : List Sx} (h : inFragmentB ts = true) : fragList (okNudB Table.generated) ts = true :=
  (frag_of_B h).nudFrag

/-- **fuelFor_suffices** (model of pratt.go): for every token list of the fragment (any length, any nesting), every
`rbp` and stale token: run with ANY fuel `f ≥ fuelFor ts`, `Expression` returns exactly what it returns with
`fuelFor ts` — the same tree and rest, or the same error. So the outcome with `fuelFor ts` is THE outcome. -/
theorem fuelFor_suffices (ts : List Sx) (h : inFragmentB ts = true) (rbp : Nat) (st : Sx) (f : Nat) (hf : fuelFor ts ≤ f) :
    expr Table.generated f rbp st ts = expr Table.generated (fuelFor ts) rbp st ts :=
  expr_fuelFor Table.generated (Corr.colonNud corr_generated) ts (nudFrag_of_B h) rbp st f hf

/-- … a result obtained with any fuel at all is the result with `fuelFor ts` … -/
theorem fuelFor_suffices_some (ts : List Sx) (h : inFragmentB ts = true) (rbp : Nat) (st : Sx) (f : Nat) (r : Sx × Sx × List Sx)
    (hr : expr Table.generated f rbp st ts = some r) : expr Table.generated (fuelFor ts) rbp st ts = some r :=
  expr_fuelFor_some Table.generated (Corr.colonNud corr_generated) ts (nudFrag_of_B h) rbp st f r hr

/-- … and `none` with `fuelFor ts` is never a fuel shortage: no fuel gives a result (it is an error return of
`Expression`, e.g. `a[1:2:3]`). -/
theorem fuelFor_never_exhausted (ts : List Sx) (h : inFragmentB ts = true) (rbp : Nat) (st : Sx)
    (hn : expr Table.generated (fuelFor ts) rbp st ts = none) (f : Nat) : expr Table.generated f rbp st ts = none :=
  expr_fuelFor_none Table.generated (Corr.colonNud corr_generated) ts (nudFrag_of_B h) rbp st hn f

/-- the same for the statement loop `InfixExpandArray` as the driver runs it -/
theorem expandBlock_fuel_suffices (ts : List Sx) (h : inFragmentB ts = true) (f : Nat) (hf : fuelFor ts ≤ f) :
    expandArray Table.generated f (staleOf ts) ts [] = expandBlock Table.generated ts :=
  expandArray_fuelFor Table.generated (Corr.colonNud corr_generated) ts (nudFrag_of_B h) (noFor_of_B h) (staleOf ts) [] f hf

/-- **the specification's fuel suffices** — for EVERY grammar and EVERY token list (no fragment condition): with any
fuel `f ≥ Stratified.fuelFor G ts` the stratified parser returns what `Stratified.parse` computes. -/
theorem stratified_fuelFor_suffices (G : Grammar) (E : Sx) (ts : List Sx) (f : Nat) (hf : Stratified.fuelFor G ts ≤ f) :
    strat G E f G ts = strat G E (Stratified.fuelFor G ts) G ts :=
  strat_fuelFor G E ts f hf

/-- … and its statement loop never runs out: what `statements` returns with any fuel, `parseBlock` returns. -/
theorem parseBlock_fuel_suffices (G : Grammar) (ts : List Sx) (f : Nat) (out : List Sx)
    (h : statements G (staleOf ts) f ts = some out) : parseBlock G ts = some out :=
  statements_complete G (staleOf ts) ts out (statements_sound _ _ _ _ _ h) _ (Nat.le_refl _)

/-- non-vacuity: `statements` does return with a fuel other than `parseBlock`'s -/
example : (statements documented (staleOf [.sym "a", .semi, .sym "b"]) 7 [.sym "a", .semi, .sym "b"]).isSome = true := by
  decide +kernel

/-- The repaired full statement: every table and grammar in correspondence, every token list of the fragment
(at every depth), the CONCRETE fuel of both executable models. -/
def PrattEqStratifiedRepaired : Prop :=
  ∀ (T : Table) (G : Grammar) (bps : List Nat), Corr T G bps → ∀ ts : List Sx, Frag T G ts →
    expression T 0 ts = Stratified.parse G ts

/-- **pratt_eq_stratified**: `Pratt.Expression(0)` exactly as the driver runs the model (fuel `fuelFor ts`) EQUALS
the stratified parse exactly as the driver runs the specification (fuel `Stratified.fuelFor G ts`): the same tree and
unconsumed rest, or both `none` — and then neither returns with any fuel. From `pratt_iff_strat`, fuel monotonicity
and the two termination measures. -/
theorem pratt_eq_stratified : PrattEqStratifiedRepaired :=
  fun _ _ _ hC ts hfr => expression_eq_parse_of_corr hC ts hfr

/-- non-vacuity: a table/grammar pair in correspondence exists (the one of the working tree), with a token list of its fragment -/
example : Corr Table.generated documented bpsG ∧ Frag Table.generated documented [.sym "a", .sym "+", .sym "b", .arr [.lab "i"]] :=
  ⟨corr_generated, frag_of_B (by decide +kernel)⟩

/-- … for the table regenerated from the working tree and the documented levels. -/
theorem pratt_eq_stratified_generated (ts : List Sx) (h : inFragmentB ts = true) :
    expression Table.generated 0 ts = Stratified.parse documented ts :=
  expression_eq_parse_of_corr corr_generated ts (frag_of_B h)

/-- **The statements of a block, concrete fuel**: `expandBlock` (model of `InfixExpandArray`, as the driver runs it)
EQUALS `parseBlock` (specification, as the driver runs it) on every non-empty token list of the fragment — the same
statement list, or both `none`. The `err` column of the correspondence is therefore never a model artefact. -/
theorem expandBlock_eq_parseBlock_concrete (ts : List Sx) (hne : ts ≠ []) (h : inFragmentB ts = true) :
    expandBlock Table.generated ts = parseBlock documented ts :=
  expandBlock_eq_parseBlock_frag ts hne (frag_of_B h) (noFor_of_B h)

mutual
theorem Sx.same_refl : ∀ x : Sx, x.same x = true
  | .sym _ => by simp [Sx.same]
  | .dot _ => by simp [Sx.same]
  | .lab _ => by simp [Sx.same]
  | .lit _ => by simp [Sx.same]
  | .other _ _ => by simp [Sx.same]
  | .arr xs => by simp only [Sx.same]; exact sameList_refl xs
  | .list xs => by simp only [Sx.same]; exact sameList_refl xs
  | .comma => by simp [Sx.same]
  | .semi => by simp [Sx.same]
  | .hash => by simp [Sx.same]
  | .null => by simp [Sx.same]
theorem sameList_refl : ∀ xs : List Sx, sameList xs xs = true
  | [] => by simp [sameList]
  | x :: xs => by simp only [sameList, Bool.and_eq_true]; exact ⟨Sx.same_refl x, sameList_refl xs⟩
end

/-- The bounded theorem `pratt_eq_stratified_partial`, without its bounds: `agree` holds of EVERY non-empty token
list of the fragment. -/
theorem agree_of_fragment (ts : List Sx) (hne : ts ≠ []) (h : inFragmentB ts = true) : agree ts = true := by
  unfold agree
  rw [expandBlock_eq_parseBlock_concrete ts hne h]
  cases parseBlock documented ts with
  | none => simp [sameRes]
  | some o => simp [sameRes, sameList_refl]

/-- the selector holds one `cond` form -/
def selIsCond : Option (Sx × List Sx) → Bool
  | some (.list [_, _, .arr [.list (.sym "cond" :: _)]], _) => true
  | _ => false

/-- **The original statement `PrattEqStratified` is false**: `a[if b c]` satisfies `InFragment` (which looks at the
top-level tokens only), the table of the tree is well-formed, and the Pratt model builds `(arrayidx a [(cond b c ())])`
where the grammar of the table (no `if`) leaves the selector as written. -/
theorem PrattEqStratified_counterexample : ¬ PrattEqStratified := by
  intro hall
  have hfrag : InFragment Table.generated [.sym "a", .arr [.sym "if", .sym "b", .sym "c"]] := by
    refine ⟨by decide +kernel, ?_⟩
    intro t ht
    simp only [List.mem_cons, List.not_mem_nil, or_false] at ht
    rcases ht with rfl | rfl
    · exact ⟨by decide +kernel, Or.inl (by decide +kernel)⟩
    · exact ⟨by decide +kernel, Or.inl (by decide +kernel)⟩
  have heq := hall Table.generated _ (by unfold WellFormedTable; decide +kernel) hfrag
  have h1 : selIsCond (expression Table.generated 0 [.sym "a", .arr [.sym "if", .sym "b", .sym "c"]]) = true := by
    decide +kernel
  have h2 : selIsCond (Stratified.parse (grammarOf Table.generated) [.sym "a", .arr [.sym "if", .sym "b", .sym "c"]]) = false := by
    decide +kernel
  rw [heq, h2] at h1
  cases h1

/-- non-vacuity of the fuel theorems: selectors nested five deep with a label-made colon, a slice and prefix
operators are in the fragment, and both executable functions return (the same, by the theorem) -/
example :
    let ts : List Sx := [.sym "x", .sym "=", .sym "a", .arr [.sym "b", .arr [.sym "c", .arr [.sym "not", .sym "d",
      .arr [.lab "i", .sym "e", .arr [.lit "1", .sym "+", .sym "*", .sym "p"]]], .sym ":", .lit "2"]], .semi, .sym "y", .sym "++"]
    inFragmentB ts = true ∧ (expandBlock Table.generated ts).isSome = true ∧ (parseBlock documented ts).isSome = true ∧
      (expression Table.generated 0 ts).isSome = true := by
  decide +kernel

/-- … `none` does occur inside the fragment, as an ERROR of pratt.go (two colons in a selector), on both sides … -/
example :
    let ts : List Sx := [.sym "a", .arr [.lit "1", .sym ":", .lit "2", .sym ":", .lit "3"]]
    inFragmentB ts = true ∧ (expression Table.generated 0 ts).isNone = true ∧ (Stratified.parse documented ts).isNone = true ∧
      (expandBlock Table.generated ts).isNone = true ∧ (parseBlock documented ts).isNone = true := by
  decide +kernel

/-- … and fuel does matter below the measure: `a + b * c` needs more than 4 units (so the theorems are not about a
model that ignores its fuel). -/
example :
    let ts : List Sx := [.sym "a", .sym "+", .sym "b", .sym "*", .sym "c"]
    (expr Table.generated 4 0 .null ts).isNone = true ∧ (expr Table.generated (fuelFor ts) 0 .null ts).isSome = true ∧
    (strat documented .null 12 documented ts).isNone = true ∧ (Stratified.parse documented ts).isSome = true := by
  decide +kernel

/-- non-vacuity: a long mixed list is in the fragment, and both sides return -/
example : inFragmentB [.sym "a", .sym "=", .sym "b", .sym "or", .sym "not", .sym "c", .sym "<", .sym "d", .sym "+", .sym "e",
    .sym "*", .sym "-", .sym "f", .sym "**", .dot "g.h", .arr [.sym "i", .sym "+", .lit "1"], .dot ".k", .semi, .sym "x", .sym "++"] = true := by
  decide +kernel

/-! ### lex_spacing: a legal spacing of a token sequence lexes to that token sequence

`Spec/Spacing.lean` says, on characters alone, which tokens may be written without a blank
between them (rules W, D, S, B). The theorems below are about `Model/Lexer.lean`, the model of
lexer.go that the `lex` channel (C13/C12) and the `expand ltree` ops tie to the code. -/

section LexSpacing
open ZygoVerif.Lexer ZygoVerif.Spacing ZygoVerif.InfixRead

/-- The token queue after feeding `text` to a fresh lexer, when nothing is left pending. -/
def lexText (text : List Char) : Option (List Lexer.Token) :=
  match feed (.ok LexCore.init) text with
  | .ok s => if s.buffer.isEmpty && s.state == .normal then some s.tokens else none
  | .err _ _ => none

/-- **lex_spacing** (general form): for EVERY token sequence and EVERY legal spacing of it, from
every lexer state in LexerNormal with an empty buffer whose last rune was `l0`, the text followed
by a blank is read as exactly the tokens of the sequence — one lexer token of the expected type
(`expTok`) per written token — appended to the queue, with nothing left pending. -/
theorem lex_spacing (items : List Spacing.Item) (l0 c : Char) (hc : Spacing.isBlank c = true)
    (h : Spacing.legal l0 items = true) (T : List Lexer.Token) :
    Lex ⟨.normal, [], T, l0⟩ (Spacing.renderItems items ++ [c]) ⟨.normal, [], T ++ items.map (fun it => expTok it.2), c⟩ :=
  Lexer.lex_spacing items l0 c hc h T

/-- … in particular from the fresh lexer (the last-rune ring starts with NULs). -/
theorem lex_spacing_fresh (items : List Spacing.Item) (h : Spacing.legal '\x00' items = true) :
    lexText (Spacing.renderItems items ++ ['\n']) = some (items.map (fun it => expTok it.2)) := by
  obtain ⟨s', hf, hs'⟩ := Lexer.lex_spacing items '\x00' '\n' (by decide) h [] LexCore.init
    ⟨rfl, rfl, rfl, ringOK_init, lastRune_init⟩
  simp [lexText, hf, hs'.buffer, hs'.state, hs'.tokens]

private def nm (s : String) : Tok := .name false [s.toList]
private def nat (s : String) : Tok := .num false s.toList none none
private def neg (s : String) : Tok := .num true s.toList none none
private def op (s : String) : Tok := .op s.toList

/-- non-vacuity: `a+b*-1 <=c.d[ 0 ]`, `x:=-2.5e-3`, `a - 1`, `a-1` are legal spacings -/
example : Spacing.legal '\x00' [([], nm "a"), ([], op "+"), ([], nm "b"), ([], op "*"), ([], neg "1"), ([' '], op "<="),
    ([], .name false ["c".toList, "d".toList]), ([], .punct '['), ([' '], nat "0"), (['\n'], .punct ']')] = true := by decide +kernel
example : Spacing.legal '{' [([], nm "x"), ([], op ":="), ([], .num true "2".toList (some "5".toList) (some ('-', "3".toList)))] = true := by
  decide +kernel
example : Spacing.legal '{' [([], nm "a"), ([' '], op "-"), ([' '], nat "1")] = true := by decide +kernel
example : Spacing.legal '{' [([], nm "a"), ([], op "-"), ([], nat "1")] = true := by decide +kernel

/-- **The sign look-back (known finding of C06) is exactly the excluded adjacency B**: `a -1`
(blank before the minus, none after it, a digit next) is not a legal spacing of the three tokens
`a`, `-`, `1` — and it must not be: the lexer model reads the text as the TWO tokens `a`, `-1`. -/
theorem lex_spacing_counterexample_sign_lookback :
    Spacing.legal '{' [([], nm "a"), ([' '], op "-"), ([], nat "1")] = false ∧
    lexText "a -1\n".toList = some [⟨.symbol, ['a']⟩, ⟨.decimal, ['-', '1']⟩] ∧
    lexText "a - 1\n".toList = some [⟨.symbol, ['a']⟩, ⟨.symbol, ['-']⟩, ⟨.decimal, ['1']⟩] ∧
    lexText "a-1\n".toList = some [⟨.symbol, ['a']⟩, ⟨.symbol, ['-']⟩, ⟨.decimal, ['1']⟩] := by
  decide +kernel

/-- Each of the other three rules is needed as well: written tight, `a` `b` is one name (W), `+` `+`
is the operator `++` and `<` `-1` starts with the operator `<-` (D), `a` `-1` is a subtraction (S). -/
theorem lex_spacing_counterexample_other_rules :
    (Spacing.legal '{' [([], nm "a"), ([], nm "b")] = false ∧ lexText "ab\n".toList = some [⟨.symbol, ['a', 'b']⟩]) ∧
    (Spacing.legal '{' [([], nm "a"), ([], op "+"), ([], op "+"), ([], nm "b")] = false ∧
      lexText "a++b\n".toList = some [⟨.symbol, ['a']⟩, ⟨.symbol, ['+', '+']⟩, ⟨.symbol, ['b']⟩]) ∧
    (Spacing.legal '{' [([], nm "a"), ([], op "<"), ([], neg "1")] = false ∧
      lexText "a<-1\n".toList = some [⟨.symbol, ['a']⟩, ⟨.symbol, ['<', '-']⟩, ⟨.decimal, ['1']⟩]) ∧
    (Spacing.legal '{' [([], nm "a"), ([], neg "1")] = false ∧
      lexText "a-1\n".toList = some [⟨.symbol, ['a']⟩, ⟨.symbol, ['-']⟩, ⟨.decimal, ['1']⟩]) := by
  decide +kernel

/-- Written tight after an operator the signed numeral is fine: `a*-1`, `a<=-1`, `x=-2`. -/
example : lexText "a*-1 a<=-1 x=-2\n".toList =
    some [⟨.symbol, ['a']⟩, ⟨.symbol, ['*']⟩, ⟨.decimal, ['-', '1']⟩, ⟨.symbol, ['a']⟩, ⟨.symbol, ['<', '=']⟩, ⟨.decimal, ['-', '1']⟩,
          ⟨.symbol, ['x']⟩, ⟨.symbol, ['=']⟩, ⟨.decimal, ['-', '2']⟩] := by decide +kernel

/-! ### end to end: the text of a block, in any legal spacing, means the stratified tree -/

/-- **The front end does not depend on the spacing.** The text of a non-empty block `{ xs }` written
in any legal spacing — `items` spaces the tokens `{`, those of the source tree `xs`
(names, numerals, operators, `[ … ]`, `( … )`, nested `{ … }`, to any depth), `}` — is lexed and
parsed (models of lexer.go and parser.go) to the token array `blockSx xs`, which is a function of
the source tree alone. -/
theorem infix_text_tokens (x : Src) (xs : List Src) (hok : okL (x :: xs) = true) (items : List Spacing.Item)
    (hitems : items.map (·.2) = Src.flat (.block (x :: xs))) (hlegal : Spacing.legal '\x00' items = true) :
    InfixFront.blockOf (Spacing.renderItems items) = some (blockSx (x :: xs)) :=
  blockOf_legal x xs hok items hitems hlegal

/-- … so the statements the expander produces for the text are those it produces for the token list. -/
theorem infix_text_expands (T : Table) (x : Src) (xs : List Src) (hok : okL (x :: xs) = true) (items : List Spacing.Item)
    (hitems : items.map (·.2) = Src.flat (.block (x :: xs))) (hlegal : Spacing.legal '\x00' items = true) :
    (InfixFront.blockOf (Spacing.renderItems items)).bind (expandBlock T) = expandBlock T (blockSx (x :: xs)) := by
  rw [infix_text_tokens x xs hok items hitems hlegal]; rfl

/-- **text_means_stratified** — END TO END, unbounded: for every non-empty block `{ xs }` (source tree of
any size and depth), every legal spacing `items` of its tokens, when the token array is in the
fragment: the text is lexed and parsed (models of lexer.go, parser.go) to the token array
`blockSx xs`, and `InfixExpandArray` (model of pratt.go, regenerated table) returns the statement list
`out` for it iff `out` is the list of statements the stratified grammar of the documented levels
gives — whatever the spacing. -/
theorem text_means_stratified (x : Src) (xs : List Src) (items : List Spacing.Item) (hok : okL (x :: xs) = true)
    (hitems : items.map (·.2) = Src.flat (.block (x :: xs))) (hlegal : Spacing.legal '\x00' items = true)
    (hfrag : inFragmentB (blockSx (x :: xs)) = true) :
    InfixFront.blockOf (Spacing.renderItems items) = some (blockSx (x :: xs)) ∧
    ∀ out, (∃ f, expandArray Table.generated f (staleOf (blockSx (x :: xs))) (blockSx (x :: xs)) [] = some out) ↔
      Stmts documented (staleOf (blockSx (x :: xs))) (blockSx (x :: xs)) out :=
  ⟨infix_text_tokens x xs hok items hitems hlegal,
   fun out => expand_iff_statements _ (blockSx_ne_nil x xs hok) hfrag out⟩

/-- … and with the fuel the driver uses: the statements `expandBlock` returns for the TEXT are those
`parseBlock` returns for the token list, whenever both return. -/
theorem text_expandBlock_eq_parseBlock (x : Src) (xs : List Src) (items : List Spacing.Item) (hok : okL (x :: xs) = true)
    (hitems : items.map (·.2) = Src.flat (.block (x :: xs))) (hlegal : Spacing.legal '\x00' items = true)
    (hfrag : inFragmentB (blockSx (x :: xs)) = true) (o1 o2 : List Sx)
    (h1 : (InfixFront.blockOf (Spacing.renderItems items)).bind (expandBlock Table.generated) = some o1)
    (h2 : parseBlock documented (blockSx (x :: xs)) = some o2) : o1 = o2 := by
  rw [infix_text_expands Table.generated x xs hok items hitems hlegal] at h1
  exact expandBlock_eq_parseBlock _ (blockSx_ne_nil x xs hok) hfrag o1 o2 h1 h2

/-- … concrete fuel, full equality: the statements `expandBlock` computes for the TEXT are exactly what `parseBlock`
computes for the token list (`none` included). -/
theorem text_expandBlock_eq_parseBlock_concrete (x : Src) (xs : List Src) (items : List Spacing.Item) (hok : okL (x :: xs) = true)
    (hitems : items.map (·.2) = Src.flat (.block (x :: xs))) (hlegal : Spacing.legal '\x00' items = true)
    (hfrag : inFragmentB (blockSx (x :: xs)) = true) :
    (InfixFront.blockOf (Spacing.renderItems items)).bind (expandBlock Table.generated) = parseBlock documented (blockSx (x :: xs)) := by
  rw [infix_text_expands Table.generated x xs hok items hitems hlegal]
  exact expandBlock_eq_parseBlock_concrete _ (blockSx_ne_nil x xs hok) hfrag

private def exSrc : List Src := [.tok (nm "a"), .tok (op "+"), .tok (nm "b"), .tok (op "*"), .tok (neg "1")]
private def exItems : List Spacing.Item :=
  [([], .punct '{'), ([], nm "a"), ([], op "+"), ([], nm "b"), ([], op "*"), ([], neg "1"), ([], .punct '}')]

private theorem exSx : blockSx exSrc = [.sym "a", .sym "+", .sym "b", .sym "*", .lit "-1"] := by
  have e : PrintData.itoa (-1) = ['-', '1'] := by decide
  have h := atomOfTok_itoa (-1) (by decide) (by decide)
  rw [e] at h
  simp [blockSx, exSrc, elems, toSexp, tokSexp, expTok, nm, op, neg, Tok.text, Tok.dotted, Sexp.listSx, Sexp.toSx, Sexp.isComment, h]
  decide

/-- non-vacuity: the text `{a+b*-1}` satisfies every hypothesis of `text_means_stratified`, and both
sides return `(+ a (* b -1))` -/
example : okL exSrc = true ∧ exItems.map (·.2) = Src.flat (.block exSrc) ∧ Spacing.legal '\x00' exItems = true ∧
    String.ofList (Spacing.renderItems exItems) = "{a+b*-1}" ∧
    inFragmentB (blockSx exSrc) = true ∧ agree (blockSx exSrc) = true ∧
    sameRes (expandBlock Table.generated (blockSx exSrc))
      (some [.list [.sym "+", .sym "a", .list [.sym "*", .sym "b", .lit "-1"]]]) = true := by
  rw [exSx]; decide +kernel

end LexSpacing

/-! ## State of the Pratt machinery that outlives one interpreter (T1, Generated/InfixHandlers.lean)

Symbols resolve by NUMBER and numbers differ between interpreters with different builtin sets, so the
meaning of `{a[i]}` in interpreter A is a function of A alone only if nothing built from one interpreter
(an interned symbol, a closure over `env`, a table) is parked where every interpreter of the process reads
it. The extractor lists EVERY write to a package-level variable from every function of zygo/pratt.go and
from the interpreter constructors (NewZlisp, NewZlispSandbox, NewZlispWithFuncs, Clone, Duplicate). -/
namespace Handlers
open ZygoVerif.Generated.InfixHandlers

/-- the explicit allow-list: package-level variables the Pratt machinery and the constructors may write -/
def allowedPackageVars : List String := ["arrayOp"]

/-- what may be stored there: constants and bare top-level functions, mentioning nothing of the call -/
def Store.stateless (s : Store) : Bool := (s.kind == "const" || s.kind == "funcIdent") && !s.usesLocal

/-- **`package_level_state_allow_list`** — the package-level variables written by pratt.go / the constructors
(and those declared in pratt.go) are exactly the allow-list. -/
theorem package_level_state_allow_list :
    (packageStores.map (·.var)).eraseDups = allowedPackageVars ∧ prattPackageVars = allowedPackageVars := by
  decide +kernel

/-- **`no_interpreter_state_in_package_level_handlers`** — no handler (or anything else) stored in a package-level
variable by `InitInfixOps`/`NewZlisp*`/any function of pratt.go is a closure, the result of a call, or mentions a
parameter, the receiver or a local of the storing function: per-interpreter data never flows into process-wide
state. (The seeded change `arrayOp.MunchLeft = arrayOpMunchLeft(env.MakeSymbol("arrayidx"))` is `⟨…, "call", true⟩`.) -/
theorem no_interpreter_state_in_package_level_handlers : packageStores.all Store.stateless = true := by
  decide +kernel

/-- non-vacuity: the table is not empty (the array operator is there) and the scan covered pratt.go -/
example : packageStores.any (fun s => s.var == "arrayOp" && s.field == ".MunchLeft") = true ∧ scannedFunctions ≥ 40 := by
  decide +kernel

end Handlers

end ZygoVerif.Pratt
