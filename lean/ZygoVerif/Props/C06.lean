/-
C06 — infix blocks mean what the precedence table says. (first part: table facts)
-/
import ZygoVerif.Model.Pratt
import ZygoVerif.Model.LegacyPratt
import ZygoVerif.Model.PrattGrammar
import ZygoVerif.Spec.Stratified
namespace ZygoVerif.Pratt
open ZygoVerif.Stratified

/-- The table regenerated from InitInfixOps / LeftBindingPower induces exactly the documented
levels: same order, same partition of the operators, same associativity. Binding-power
numbers are not compared, so a renumbering that keeps the order passes. -/
theorem table_is_documented : Grammar.same (grammarOf Table.generated) documented = true := by
  decide +kernel

/-- The constructor closures recurse with the right binding powers the model's `ledOfEntry`
/`nudOfEntry` use (`bp` for Infix and Prefix, `bp - 1` for Infixr and Assignment, no recursion
for PostfixAssign) and Assignment rewrites `=`/`:=` to `set`. -/
theorem ctor_rbp_as_modelled : Generated.InfixTable.ctorRbp =
    [("Infix", "bp", ""), ("Infixr", "bp - 1", ""), ("Prefix", "bp", ""),
     ("Assignment", "bp - 1", "set,=,:="), ("PostfixAssign", "", "")] := by
  decide +kernel

/-- LeftBindingPower has the arms and guards that `lbp` models (constants are read from the
generated file, not compared here). -/
theorem lbp_arms_as_modelled :
    Generated.InfixTable.lbpArms.map (fun a => (a.types, a.returns.map (fun r => (r.1, r.2.isSome)))) =
    [(["SexpInt", "SexpFloat"], [("", true)]), (["SexpBool"], [("", true)]), (["SexpStr"], [("", true)]),
     (["SexpChar", "SexpUint64"], [("", true)]),
     (["SexpSymbol"], [("x.name == \"if\"", true), ("found", false), ("x.isDot", true), ("", true)]),
     (["SexpArray"], [("", true)]), (["SexpComma"], [("", true)]), (["SexpSemicolon"], [("", true)]),
     (["SexpComment"], [("", true)]), (["SexpPair"], [("x.Head != nil switch", true), ("", true)]),
     (["SexpHash"], [("", true)])] := by
  decide +kernel

end ZygoVerif.Pratt
