/-
C06 — infix blocks mean what the precedence table says. (first part: table facts)
-/
import ZygoVerif.Model.Pratt
import ZygoVerif.Model.LegacyPratt
import ZygoVerif.Model.PrattGrammar
import ZygoVerif.Spec.Stratified
namespace ZygoVerif.Pratt
open ZygoVerif.Stratified

/-! Structural equality on trees (the type is a nested inductive). -/
mutual
def Sx.same : Sx → Sx → Bool
  | .sym a, .sym b | .dot a, .dot b | .lab a, .lab b | .lit a, .lit b => a == b
  | .other u a, .other v b => u == v && a == b
  | .arr xs, .arr ys | .list xs, .list ys => sameList xs ys
  | .comma, .comma | .semi, .semi | .hash, .hash | .null, .null => true
  | _, _ => false
def sameList : List Sx → List Sx → Bool
  | [], [] => true
  | x :: xs, y :: ys => x.same y && sameList xs ys
  | _, _ => false
end

def sameRes : Option (List Sx) → Option (List Sx) → Bool
  | none, none => true
  | some a, some b => sameList a b
  | _, _ => false

/-- The table regenerated from InitInfixOps / LeftBindingPower induces exactly the documented
levels: same order, same partition of the operators, same associativity. Binding-power
numbers are not compared, so a renumbering that keeps the order passes. -/
theorem table_is_documented : Grammar.same (grammarOf Table.generated) documented = true := by
  decide +kernel

/-- The constructor closures recurse with the right binding powers the model's `ledOfEntry`
/`nudOfEntry` use (`bp` for Infix and Prefix, `bp - 1` for Infixr and Assignment, no recursion
for PostfixAssign) and Assignment rewrites `=`/`:=` to `set`. -/
theorem ctor_rbp_as_modelled : Generated.InfixTable.ctorRbp =
    [("Infix", "bp", ""), ("Infixr", "bp - 1", ""), ("Prefix", "bp", ""),
     ("Assignment", "bp - 1", "set,=,:="), ("PostfixAssign", "", "")] := by
  decide +kernel

/-- LeftBindingPower has the arms and guards that `lbp` models (constants are read from the
generated file, not compared here). -/
theorem lbp_arms_as_modelled :
    Generated.InfixTable.lbpArms.map (fun a => (a.types, a.returns.map (fun r => (r.1, r.2.isSome)))) =
    [(["SexpInt", "SexpFloat"], [("", true)]), (["SexpBool"], [("", true)]), (["SexpStr"], [("", true)]),
     (["SexpChar", "SexpUint64"], [("", true)]),
     (["SexpSymbol"], [("x.name == \"if\"", true), ("found", false), ("x.isDot", true), ("", true)]),
     (["SexpArray"], [("", true)]), (["SexpComma"], [("", true)]), (["SexpSemicolon"], [("", true)]),
     (["SexpComment"], [("", true)]), (["SexpPair"], [("x.Head != nil switch", true), ("", true)]),
     (["SexpHash"], [("", true)])] := by
  decide +kernel

/-! ### the defect repaired by fix C06-01 -/

/-- Before fix C06-01 a char literal that starts a juxtaposed statement made the expander fail
(`{a 'c'}`: LeftBindingPower had no arm for *SexpChar) … -/
theorem C06_counterexample_char_statement :
    expandBlock Table.legacy01 [.sym "a", .other false "'c'"] = none := by
  decide +kernel

/-- … and with the fix the block has the two statements the grammar gives it. -/
theorem char_statement_fixed :
    sameRes (expandBlock Table.generated [.sym "a", .other false "'c'"])
            (parseBlock documented [.sym "a", .other false "'c'"]) = true
    ∧ sameRes (expandBlock Table.generated [.sym "a", .other false "'c'"])
              (some [.sym "a", .other false "'c'"]) = true := by
  decide +kernel

/-! ### statements of a block are expanded left to right

`InfixExpandArray` is a loop; each round parses one `Expression(0)` from the front of the
remaining tokens, appends it to the statements collected so far and skips one following `;`.
The three step lemmas below are that loop, read off the model. -/

/-- A statement followed by more tokens (no `;` between): its tree is appended and the
expansion continues with the rest. -/
theorem statements_in_order_step (T : Table) (f : Nat) (st t : Sx) (ts acc : List Sx)
    (x st1 u : Sx) (us : List Sx) (hlab : ∀ l, t ≠ .lab l)
    (h : expr T f 0 st (t :: ts) = some (x, st1, u :: us)) (hx : x.isSemi = false) (hu : u.isSemi = false) :
    expandArray T (f+1) st (t :: ts) acc = expandArray T f st1 (u :: us) (acc ++ [x]) := by
  cases t <;> simp_all [expandArray]

/-- A statement followed by `;` and more tokens: the `;` is skipped. -/
theorem statements_in_order_semi (T : Table) (f : Nat) (st t : Sx) (ts acc : List Sx)
    (x st1 u : Sx) (us : List Sx) (hlab : ∀ l, t ≠ .lab l)
    (h : expr T f 0 st (t :: ts) = some (x, st1, .semi :: u :: us)) (hx : x.isSemi = false) :
    expandArray T (f+1) st (t :: ts) acc = expandArray T f st1 (u :: us) (acc ++ [x]) := by
  cases t <;> simp_all [expandArray, Sx.isSemi]

/-- The last statement: the block's statements are those collected so far plus this one (so the
block's value, by `GenerateBegin`, is the value of this one). -/
theorem statements_in_order_last (T : Table) (f : Nat) (st t : Sx) (ts acc : List Sx)
    (x st1 : Sx) (hlab : ∀ l, t ≠ .lab l)
    (h : expr T f 0 st (t :: ts) = some (x, st1, [])) (hx : x.isSemi = false) :
    expandArray T (f+1) st (t :: ts) acc = some (acc ++ [x]) := by
  cases t <;> simp_all [expandArray]

example : (expandBlock Table.generated [.sym "a", .sym "=", .lit "1", .semi, .sym "b", .sym "+", .sym "a", .sym "c"]).map
    (·.length) = some 3 := by decide +kernel

/-! ### the Pratt loop equals the stratified grammar -/

/-- Consistency the equivalence needs from a table: the comma token and the dot-symbols bind
with the power of the table entries that supply their handlers, and all binary operators of
one binding power associate the same way. -/
def wellFormedB (T : Table) : Bool :=
  (match T.find? "comma" with
    | some e => e.bp == T.lbpComma && e.ctor == .infix && e.led == ""
    | none => false) &&
  (match T.find? "." with
    | some e => e.bp == T.lbpDot && e.led == "dotOpMunchLeft"
    | none => false) &&
  T.effective.all (fun e₁ => T.effective.all (fun e₂ =>
    !(e₁.bp == e₂.bp && e₁.ctor == .infix) || (e₂.ctor != .infixr && e₂.ctor != .assignment)))

def WellFormedTable (T : Table) : Prop := wellFormedB T = true

example : WellFormedTable Table.generated := by unfold WellFormedTable; decide +kernel

/-- Token lists inside the scope of the equivalence: no `if`/`for`/`break`/`continue`/label,
no token LeftBindingPower rejects, and no operator without right operand directly followed by
a tighter operator (`Stratified.inScope`). -/
def InFragment (T : Table) (ts : List Sx) : Prop :=
  inScope (grammarOf T) ts = true ∧
  ∀ t ∈ ts, (lbp T t).isSome ∧ (nudOf T t = .atom ∨ ∃ n r, nudOf T t = .pre n r)

/-- THE FULL STATEMENT (visible, not proved for unbounded length in this file): for every
well-formed table and every token list of the fragment — malformed ones included — the Pratt
loop of pratt.go and the stratified recursive-descent parser over the levels the table
induces return the same tree and the same unconsumed rest. -/
def PrattEqStratified : Prop :=
  ∀ (T : Table) (ts : List Sx), WellFormedTable T → InFragment T ts →
    expression T 0 ts = Stratified.parse (grammarOf T) ts

def listsOfLen (A : List Sx) : Nat → List (List Sx)
  | 0 => [[]]
  | n+1 => (listsOfLen A n).flatMap (fun l => A.map (· :: l))

/-- One representative per level and role: operand, literal, assignment, comma, or, comparison,
additive, multiplicative (also prefix), power, not, field, `;`. -/
def alphabet : List Sx :=
  [.sym "a", .sym "=", .comma, .sym "or", .sym "<", .sym "-", .sym "*", .sym "**", .sym "not", .dot ".f", .semi]

def agree (ts : List Sx) : Bool :=
  !inScope documented ts || sameRes (expandBlock Table.generated ts) (parseBlock documented ts)

/-- One representative per binary level plus operand and `not`. -/
def alphabetCore : List Sx :=
  [.sym "a", .sym "=", .sym "or", .sym "<", .sym "-", .sym "*", .sym "**", .sym "not"]

/-- PARTIAL (bounded; what is missing is the induction on the length of the token list): for
the table of the current tree and the documented levels, every in-scope token list of length
≤ 2 over `alphabet` and of length 3 over `alphabetCore` — malformed ones included (operator
first, adjacent operators, adjacent operands, trailing operator) — expands to the same
statements under the Pratt model and under the stratified specification. Kernel-checked. -/
theorem pratt_eq_stratified_partial :
    ((listsOfLen alphabet 1 ++ listsOfLen alphabet 2 ++ listsOfLen alphabetCore 3).all agree) = true := by
  decide +kernel

end ZygoVerif.Pratt
