/-
C03 — lexical scoping: closures capture where they were made, never the caller.

Theorems about the scope machinery of the VM model (`Model/VM.lean`: `lexLookup` =
`LexicalLookupSymbol`, `lookupUntilFn` = `LookupSymbolUntilFunction`, `lookupChain` =
`LookupSymbolInParentChainOfClosures`, `closingNow` = `NewClosing`, the instructions
`addScope`/`addFuncScope`/`removeScope`/`createClosure`), for **all** states, programs,
histories and amounts of fuel. The model is tied to zygo/{environment,scopes,closing,vm,
generator}.go by the correspondence channel `scope` (checks/C03.py); the reference semantics
(closures by environment pointer) is `Spec/RefEval.lean`.

1. `shadowing_innermost_first`  lookup returns the FIRST scope binding the name along an
                                explicit search list (`lexChain`): live scopes of the current
                                activation down to its function scope, then the captured
                                scopes of the running closure and of its creators, then the
                                template's captured scopes.
2. `no_dynamic_leak`            the scope found is above the innermost live function boundary,
                                or captured (by the running closure, a creator of it, or its
                                template) — never a `CallerLocal`: a live scope below the
                                boundary that was not captured. `closure_captures_no_caller_local`:
                                what `CreateClosure` captures is exactly the part of the live
                                stack above the boundary.
3. `fresh_activation`           `AddScope`/`AddFuncScope` allocate a scope id held by no stack,
                                no closure and no lazy argument, with no variables; proved
                                from the invariant `WF` (all ids below the table size), which
                                every function of the VM preserves (`wf_preserved`,
                                `wf_reachable`); function bodies start with `AddFuncScope` and a
                                self tail call re-enters at instruction 0.
4. `capture_by_reference`       closures created while the live stack is the same hold the same
                                scope ids; an assignment made through one is what the other
                                reads (`shared_update`).
5. `capture_outlives`           no function of the VM ever removes a scope cell, changes its
                                boundary flag, or changes the captured stack / parent of an
                                existing closure (`Ext`); popping a scope changes neither the
                                table nor what a captured stack reads.
6. `lookup_sound`               simulation statement against the reference environment (`Sim`),
                                with the preserved part named in `sim_preserved_partial`.
7. (Props/C03Sim.lean)          on the fragment proved by the C02 simulation: lexical scoping end
                                to end (`lexical_scoping_on_fragment`), `Sim` from `Sim.RelF`.
-/
import ZygoVerif.Proofs.ScopeGen
import ZygoVerif.Proofs.ScopeSim
import ZygoVerif.Spec.RefEval
namespace ZygoVerif.C03
open ZygoVerif.Core ZygoVerif.VM ZygoVerif.Scope

/-! ## 1. Shadowing follows the search list, innermost first -/

/-- `LexicalLookupSymbol` returns the first scope of `lexChain` that binds the name, and the
value bound there; no scope searched before it binds the name. -/
theorem shadowing_innermost_first {s : St} {x : String} {id : Nat} {v : Val}
    (h : lexLookup s x = some (id, v)) :
    ∃ pre post, lexChain s = pre ++ id :: post ∧
      (∀ j ∈ pre, (scopeOf s j).vars.lookup x = none) ∧ (scopeOf s id).vars.lookup x = some v := by
  rw [lexLookup_eq] at h
  exact firstBinding_some h

/-- …and reports "not found" only when no searched scope binds the name. -/
theorem lookup_none_iff (s : St) (x : String) :
    lexLookup s x = none ↔ ∀ j ∈ lexChain s, (scopeOf s j).vars.lookup x = none := by
  rw [lexLookup_eq]
  constructor
  · exact firstBinding_none
  · intro h
    cases hf : firstBinding s x (lexChain s) with
    | none => rfl
    | some r =>
      obtain ⟨id, v⟩ := r
      obtain ⟨pre, post, he, _, hv⟩ := firstBinding_some hf
      have := h id (by simp [he])
      rw [this] at hv
      cases hv

/-- A live scope of the current activation shadows every captured one: stage 1 wins. -/
theorem live_scope_shadows_captured {s : St} {x : String} {id : Nat} {v : Val}
    (h : firstBinding s x (aboveBoundary s s.linear) = some (id, v)) : lexLookup s x = some (id, v) := by
  rw [lexLookup_eq, lexChain, List.append_assoc, firstBinding_append, h]
  rfl

/-! ### Concrete states (non-vacuity)

`(def x 1) (defn f [] x) (defn g [x] (f)) (g 2)`, stopped inside `f`: scope 0 is the global
scope (x ↦ 1), scope 1 the function scope of `g`'s activation (x ↦ 2), scope 2 the function
scope of `f`'s activation; function objects 2/3 are `f`'s template and closure, 4/5 `g`'s. -/
def inF : St :=
  { fns := [{ name := "__main", closing := [some 0] }, { name := "builtin", user := true },
            { name := "f", closing := [some 0] }, { name := "f", closing := [some 0], parent := some 0 },
            { name := "g", nargs := 1, params := ["x"], closing := [some 0] },
            { name := "g", nargs := 1, params := ["x"], closing := [some 0], parent := some 0 }],
    scopes := [{ vars := [("x", .int 1#64)] },
               { vars := [("x", .int 2#64)], isFunction := true, myFunction := some 4 },
               { vars := [], isFunction := true, myFunction := some 2 }],
    linear := [some 2, some 1, some 0], curfunc := 3 }

/-- Inside `g`'s own activation, before the call of `f`. -/
def inG : St := { inF with linear := [some 1, some 0], curfunc := 5 }

example : lexLookup inF "x" = some (0, .int 1#64) := by decide
example : lexLookup inG "x" = some (1, .int 2#64) := by decide
example : lexChain inF = [2, 0, 2, 0] := by decide
example : lexLookup inF "y" = none := by decide

/-! ## 2. No dynamic-scope leak -/

/-- A *caller's local*: a scope that is on the live stack strictly below the innermost
function boundary (so it belongs to an activation further down the call stack, or is the
global scope) and that the running function did not capture — neither through its own
captured stack, nor through the captured stacks of the closures that created it, nor
through the template recorded on its function scope. -/
def CallerLocal (s : St) (id : Nat) : Prop :=
  id ∈ belowBoundary s s.linear ∧ id ∉ capturedChain s ∧ id ∉ templateCaptured s s.linear

/-- Where a name can be found. -/
theorem no_dynamic_leak {s : St} {x : String} {id : Nat} {v : Val} (h : lexLookup s x = some (id, v)) :
    id ∈ aboveBoundary s s.linear ∨ id ∈ capturedChain s ∨ id ∈ templateCaptured s s.linear := by
  rw [lexLookup_eq] at h
  have hm := firstBinding_mem h
  simp only [lexChain, List.mem_append] at hm
  rcases hm with (h1 | h2) | (h1 | h3)
  · exact Or.inl h1
  · exact Or.inr (Or.inl h2)
  · exact Or.inl h1
  · exact Or.inr (Or.inr h3)

/-- …and therefore never in a caller's local (scope ids on a stack are distinct). -/
theorem never_a_callers_local {s : St} {x : String} {id : Nat} {v : Val} (h : lexLookup s x = some (id, v))
    (hnd : (idsOf s.linear).Nodup) : ¬ CallerLocal s id := by
  rintro ⟨hb, hc, ht⟩
  rcases no_dynamic_leak h with h1 | h2 | h3
  · exact boundary_disjoint s s.linear hnd id h1 hb
  · exact hc h2
  · exact ht h3

/-- The hypotheses are satisfiable and the statement is not empty: in `inF` the scope of
`g`'s activation is a caller's local that binds `x`, and the lookup of `x` passes it by. -/
example : CallerLocal inF 1 ∧ (scopeOf inF 1).vars.lookup "x" = some (.int 2#64) ∧
    lexLookup inF "x" = some (0, .int 1#64) ∧ (idsOf inF.linear).Nodup := by
  unfold CallerLocal; decide

/-- What a closure captures: `CreateClosure` stores the scope ids of the live stack from its
top down to and including the innermost function scope (the whole stack when there is no
function scope above the bottom element: code running at top level), and the running
function as parent. -/
theorem createClosure_captures (n : Nat) (t : Nat) (s : St) :
    let s' := ((exec (n+1) (.createClosure t)).run s).2
    s'.fns = s.fns ++ [{ (fnOf s t) with closing := closingNow s, parent := some s.curfunc }] ∧
    s'.scopes = s.scopes ∧ s'.linear = s.linear := by
  refine ⟨?_, ?_, ?_⟩ <;> simp only [VM.exec, run_bind, incPc, run_modify, run_get, run_set, pushData] <;> rfl

/-- The captured ids are exactly the part of the live stack above the boundary whenever a
function scope is live above the bottom of the stack — so, the ids on a stack being
distinct, no scope below the boundary (no caller's local) is ever captured. -/
theorem closure_captures_no_caller_local (s : St) (htrim : trims (isFnScope s) s.linear = true)
    (hnd : (idsOf s.linear).Nodup) :
    idsOf (closingNow s) = aboveBoundary s s.linear ∧
    ∀ id ∈ belowBoundary s s.linear, id ∉ idsOf (closingNow s) := by
  have h1 : idsOf (closingNow s) = aboveBoundary s s.linear := by rw [idsOf_closingNow, htrim]; rfl
  refine ⟨h1, fun id hb hc => ?_⟩
  rw [h1] at hc
  exact boundary_disjoint s s.linear hnd id hc hb

example : trims (isFnScope inF) inF.linear = true ∧ idsOf (closingNow inF) = [2] ∧
    belowBoundary inF inF.linear = [1, 0] := by decide

/-- What the running closure will read from the captured stack later is what a lookup up to
the boundary reads from the live stack now. -/
theorem captured_reads_as_live (s : St) : aboveBoundary s (closingNow s) = aboveBoundary s s.linear :=
  aboveBoundary_closingNow s

/-! ## 3. Fresh activations -/

/-- Every function of the VM (every instruction, `Run`, calls, `Apply`, `Force`, …), at
every fuel, from every state, preserves `WF`: all scope ids held anywhere are below the size
of the scope table, i.e. below the id the next `AddScope`/`AddFuncScope` will hand out. -/
theorem wf_preserved (fuel : Nat) (i : Instr) (s : St) (w : WF s) : WF ((exec fuel i).run s).2 :=
  ((allSafe' fuel).exec i s).2 w

theorem wf_preserved_run (fuel : Nat) (s : St) (w : WF s) : WF ((run fuel).run s).2 :=
  ((allSafe' fuel).run s).2 w

theorem wf_preserved_text (fuel : Nat) (es : List Expr) (s : St) (w : WF s) : WF (runText fuel es s).2.1 :=
  (runText_step fuel es s).2 w

/-- States reachable from the initial interpreter by whole texts and by any function of the
VM's mutual block. -/
inductive Reachable : St → Prop
  | init : Reachable initSt
  | text (fuel : Nat) (es : List Expr) {s : St} : Reachable s → Reachable (runText fuel es s).2.1
  | exec (fuel : Nat) (i : Instr) {s : St} : Reachable s → Reachable ((exec fuel i).run s).2
  | run (fuel : Nat) {s : St} : Reachable s → Reachable ((run fuel).run s).2
  | apply (fuel : Nat) (f : Val) (args : List Val) {s : St} : Reachable s → Reachable ((applyFn fuel f args).run s).2
  | force (fuel : Nat) (id : Nat) {s : St} : Reachable s → Reachable ((forceLazy fuel id).run s).2

theorem wf_reachable {s : St} (h : Reachable s) : WF s := by
  induction h with
  | init => exact wf_initSt
  | text fuel es _ ih => exact wf_preserved_text fuel es _ ih
  | exec fuel i _ ih => exact wf_preserved fuel i _ ih
  | run fuel _ ih => exact wf_preserved_run fuel _ ih
  | apply fuel f args _ ih => exact ((allSafe' fuel).applyFn f args _).2 ih
  | force fuel id _ ih => exact ((allSafe' fuel).forceLazy id _).2 ih

/-- `AddScopeInstr` (entering `let`, `letseq`, `newScope`, `for`) and `AddFuncScopeInstr`
(entering a function body — by a call, by `apply`/`map`, or again after a self tail call)
push a scope whose id no live or suspended stack, no closure and no lazy argument holds,
and which has no variables yet. -/
theorem fresh_activation (n : Nat) (s : St) (w : WF s) (i : Instr)
    (hi : i = .addScope ∨ ∃ t, i = .addFuncScope t) :
    let s' := ((exec (n+1) i).run s).2
    let new := s.scopes.length
    s'.linear = some new :: s.linear ∧ (scopeOf s' new).vars = [] ∧
    new ∉ idsOf s.linear ∧ (∀ l ∈ s.suspended, new ∉ idsOf l) ∧
    (∀ f ∈ s.fns, new ∉ idsOf f.closing) ∧ (∀ z ∈ s.lazies, new ∉ idsOf z.stack) ∧
    (∀ id, id < new → scopeOf s' id = scopeOf s id) := by
  have hfresh : s.scopes.length ∉ idsOf s.linear ∧ (∀ l ∈ s.suspended, s.scopes.length ∉ idsOf l) ∧
      (∀ f ∈ s.fns, s.scopes.length ∉ idsOf f.closing) ∧ (∀ z ∈ s.lazies, s.scopes.length ∉ idsOf z.stack) :=
    ⟨fun h => Nat.lt_irrefl _ (w.linear _ h), fun l hl h => Nat.lt_irrefl _ (w.suspended l hl _ h),
     fun f hf h => Nat.lt_irrefl _ (w.closing f hf _ h), fun z hz h => Nat.lt_irrefl _ (w.lazies z hz _ h)⟩
  rcases hi with rfl | ⟨t, rfl⟩
  all_goals
    refine ⟨?_, ?_, hfresh.1, hfresh.2.1, hfresh.2.2.1, hfresh.2.2.2, fun id hid => ?_⟩
    · simp only [VM.exec, run_modify]
    · simp [VM.exec, run_modify, scopeOf]
    · simp [VM.exec, run_modify, scopeOf, List.getD_eq_getElem?_getD, List.getElem?_append_left hid]

example : WF inF ∧ (inF.scopes.length = 3) := by
  refine ⟨⟨?_, ?_, ?_, ?_⟩, rfl⟩ <;> decide

/-- The code of every compiled function starts with `AddFuncScope` (`buildSexpFun`): every
way of entering a function body — `CallFunction`, `Apply`, the `goto 0` of a self tail
call — runs it first. -/
theorem function_code_starts_with_addFuncScope (t : Nat) (b : List Instr) (gs gs' : GS)
    (h : (finishTemplate t b).run gs = .ok ((), gs')) (ht : t < gs.fns.length) :
    (gs'.fns.getD t {}).code.head? = some (.addFuncScope t) := by
  simp only [finishTemplate, grun_modify, Except.ok.injEq, Prod.mk.injEq, true_and] at h
  subst h
  simp [List.getD_eq_getElem?_getD, ht]

/-- A call in tail position to the function's own name is compiled either as an ordinary
call (when the number of arguments does not fit the known template: fix of C02-K5) or as a
self tail call, which (behind a guard that checks that the name still denotes the running
function, fix C09-02) jumps with `goto 0` after leaving every scope opened since the function
was entered, the function scope included: the next iteration runs `AddFuncScope` again and
gets a fresh scope (fix fc05fc7); behind the jump sits the ordinary call the guard skips to. -/
theorem self_tail_call_reenters_at_zero (isFn : Nat → Bool) (c : Ctx) (h : String) (args : List Expr)
    (hc : (c.tail && h == c.funcname) = true) (gs gs' : GS) (code : List Instr) (t : Bool)
    (hr : (compile isFn c (.call (.sym h) args)).run gs = .ok ((code, t), gs')) :
    code = [.callExpr (.sym h) args] ∨
    ∃ argcode, code = [.tailGuard h (argcode.length + c.scopes + 4)] ++ argcode ++ [.prepareCall h args.length] ++
        List.replicate (c.scopes + 1) .removeScope ++ [.goto 0, .callExpr (.sym h) args] := by
  have key : ∀ (b : Bool) (f : Option FnObj),
      (if b = true then (do
          let code ← compileCallArgs isFn { c with tail := false } f 0 args
          pure ([.tailGuard h (code.length + c.scopes + 4)] ++ code ++ [.prepareCall h args.length] ++
                List.replicate (c.scopes + 1) .removeScope ++ [.goto 0, .callExpr (.sym h) args], c.tail)
          : G (List Instr × Bool))
        else pure ([.callExpr (.sym h) args], c.tail)).run gs = .ok ((code, t), gs') →
      code = [.callExpr (.sym h) args] ∨
      ∃ argcode, code = [.tailGuard h (argcode.length + c.scopes + 4)] ++ argcode ++ [.prepareCall h args.length] ++
        List.replicate (c.scopes + 1) .removeScope ++ [.goto 0, .callExpr (.sym h) args] := by
    intro b f hb
    cases b with
    | false =>
      simp only [Bool.false_eq_true, if_false, grun_pure, Except.ok.injEq, Prod.mk.injEq] at hb
      exact Or.inl hb.1.1.symm
    | true =>
      simp only [if_true, grun_bind] at hb
      split at hb
      · rename_i a gs1 _
        simp only [grun_pure, Except.ok.injEq, Prod.mk.injEq] at hb
        exact Or.inr ⟨a, hb.1.1.symm⟩
      · cases hb
  unfold compile at hr
  simp only [hc, if_true, grun_bind, grun_get] at hr
  exact key _ _ hr

/-! ## 4. Capture by reference -/

/-- The captured stack is a function of the live stack and of the boundary flags only. -/
theorem closingNow_congr {s s' : St} (hl : s'.linear = s.linear) (hf : ∀ id, isFnScope s' id = isFnScope s id) :
    closingNow s' = closingNow s := by
  have : isFnScope s' = isFnScope s := funext hf
  simp only [closingNow, hl, this]

/-- Two closures created in one activation hold the same scope ids: if the VM went from `s`
to `s'` (any instructions, any nested calls) and the live stack is the same again, a
closure created in `s'` captures exactly the stack a closure created in `s` captured. -/
theorem capture_by_reference {s s' : St} (w : WF s) (hstep : Ext s s') (hl : s'.linear = s.linear) :
    closingNow s' = closingNow s := by
  -- only the flags of ids on the live stack matter, and those are old ids
  have key : ∀ (l : List (Option Nat)), (∀ id ∈ idsOf l, id < s.scopes.length) →
      newClosing (isFnScope s') l = newClosing (isFnScope s) l := by
    intro l hb
    have hflag : ∀ id ∈ idsOf l, isFnScope s' id = isFnScope s id :=
      fun id hid => (hstep.flags id (hb id hid)).1
    have ht : ∀ (l : List (Option Nat)), (∀ id ∈ idsOf l, isFnScope s' id = isFnScope s id) →
        trims (isFnScope s') l = trims (isFnScope s) l ∧
        takeToBoundary (isFnScope s') l = takeToBoundary (isFnScope s) l := by
      intro l
      induction l with
      | nil => intro _; exact ⟨rfl, rfl⟩
      | cons o rest ih =>
        intro h
        cases o with
        | none =>
          have := ih (fun id hid => h id (by simpa [idsOf] using hid))
          simp [trims, takeToBoundary, isFnElem, this.1, this.2]
        | some j =>
          have hj := h j (by simp [idsOf])
          have := ih (fun id hid => h id (by simp [idsOf, hid]))
          simp only [trims, takeToBoundary, isFnElem, hj, this.1, this.2]
          exact ⟨rfl, rfl⟩
    rw [newClosing_eq, newClosing_eq, (ht l hflag).1, (ht l hflag).2]
  simp only [closingNow, hl]
  exact key s.linear w.linear

/-- Closures that hold the same captured stack read the same binding in every later state,
and an assignment made through the scope one of them finds is what the other one reads. -/
theorem shared_update (s : St) (x : String) (v w : Val) (id : Nat) (hid : id < s.scopes.length)
    (closingA closingB : List (Option Nat)) (hsame : closingA = closingB)
    (hfound : lookupUntilFn s x false closingA = some (id, w)) :
    lookupUntilFn (setVarSt s id x v) x false closingB = some (id, v) := by
  subst hsame
  rw [lookupUntilFn_false_eq] at hfound ⊢
  rw [aboveBoundary_congr (isFnScope_setVarSt s id x v)]
  exact firstBinding_after_set s id x v hid _ w hfound

/-- Counter: `(defn mk [x] [(fn [] (set x (+ x 1))) (fn [] x)])` — both closures of one
activation hold `[3]`; after the first one assigns through it, the second one reads the new
value. -/
def counterSt : St :=
  { fns := [{ name := "__main", closing := [some 0] }, { name := "builtin", user := true },
            { name := "inc", closing := [some 3], parent := some 1 }, { name := "get", closing := [some 3], parent := some 1 }],
    scopes := [{ vars := [] }, {}, {}, { vars := [("x", .int 5#64)], isFunction := true }],
    linear := [some 0] }

example : lookupUntilFn (setVarSt counterSt 3 "x" (.int 6#64)) "x" false (fnOf counterSt 3).closing
    = some (3, .int 6#64) := by decide

/-! ## 5. Captured variables outlive their activation -/

/-- No function of the VM removes a scope cell, changes the function-boundary flag or the
template of a cell, or changes the captured stack or the parent of an existing function
object (or the scope stack of an existing lazy argument): the tables only grow. -/
theorem capture_outlives (fuel : Nat) (i : Instr) (s : St) : Ext s ((exec fuel i).run s).2 :=
  ((allSafe' fuel).exec i s).1

theorem capture_outlives_run (fuel : Nat) (s : St) : Ext s ((run fuel).run s).2 := ((allSafe' fuel).run s).1

theorem capture_outlives_text (fuel : Nat) (es : List Expr) (s : St) : Ext s (runText fuel es s).2.1 :=
  (runText_step fuel es s).1

/-- Leaving a scope (`RemoveScopeInstr`, also the epilogue of every function) pops the live
stack and touches nothing else: the cell stays in the table with its variables, and every
captured stack reads exactly what it read before. -/
theorem pop_keeps_cells (n : Nat) (s : St) :
    let s' := ((exec (n+1) .removeScope).run s).2
    s'.scopes = s.scopes ∧ s'.fns = s.fns ∧
    ∀ x cc l, lookupUntilFn s' x cc l = lookupUntilFn s x cc l := by
  have hs : ((exec (n+1) .removeScope).run s).2.scopes = s.scopes ∧ ((exec (n+1) .removeScope).run s).2.fns = s.fns := by
    simp only [VM.exec, run_bind, incPc, run_modify, popScope, run_get]
    split <;> exact ⟨rfl, rfl⟩
  refine ⟨hs.1, hs.2, fun x cc l => ?_⟩
  have hfn : ∀ id, isFnScope ((exec (n+1) .removeScope).run s).2 id = isFnScope s id := by
    intro id; simp only [isFnScope, scopeOf, hs.1]
  cases cc with
  | false =>
    rw [lookupUntilFn_false_eq, lookupUntilFn_false_eq, aboveBoundary_congr hfn, firstBinding_congr hs.1]
  | true =>
    rw [lookupUntilFn_true_eq, lookupUntilFn_true_eq, aboveBoundary_congr hfn, firstBinding_congr hs.1]
    congr 2
    induction l with
    | nil => rfl
    | cons o rest ih =>
      cases o with
      | none => simpa [templateCaptured] using ih
      | some j => simp only [templateCaptured, hfn, scopeOf, fnOf, hs.1, hs.2, ih]

example : ((exec 1 .removeScope).run inF).2.scopes = inF.scopes ∧
    (scopeOf ((exec 1 .removeScope).run inF).2 2).isFunction = true := by
  have h := (pop_keeps_cells 0 inF).1
  exact ⟨h, by simp only [scopeOf, h]; decide⟩

/-! ## 6. Simulation against the reference environments

`Sim ρ φ s rs env` (`Proofs/ScopeSim.lean`): along stages 1 and 2 of the VM's search list
(`lexCore`), scope by scope, the reference state `rs` has the corresponding frames on the
static chain of `env` (first occurrences, `ρ` maps scope ids to frame ids) with the
corresponding variables (`φ` translates values), and the template's captured scopes add
nothing. -/

/-- In related states the VM's `LexicalLookupSymbol` and the reference evaluator's walk of
the static chain find corresponding bindings, and fail together. -/
theorem lookup_sound {ρ : Nat → Nat} {φ : Val → Val} {s : St} {rs : Ref.St} {env : Nat}
    (h : Sim ρ φ s rs env) (x : String) :
    (lexLookup s x).map (fun p => (ρ p.1, φ p.2)) = Ref.lookup rs env x :=
  ZygoVerif.Scope.lookup_sound h x

/-- `Sim` is satisfiable: `inF` (inside `f`, called from `g`) against the reference state
with the global frame and `f`'s activation frame — whose parent is the global frame, not the
frame of the caller `g`. -/
def refInF : Ref.St :=
  { frames := [{ vars := [("x", .int 1#64)] }, { vars := [("x", .int 2#64)], parent := some 0 }, { parent := some 0 }] }

example : Sim (fun id => if id = 2 then 2 else if id = 1 then 1 else 0) id inF refInF 2 :=
  ⟨by decide, by decide, by decide⟩

example : Ref.lookup refInF 2 "x" = some (0, .int 1#64) := by decide

/-- The full preservation statement: every step of the VM that the reference evaluator
mirrors keeps the two related. -/
def SimPreservedFull : Prop :=
  ∀ (ρ : Nat → Nat) (φ : Val → Val) (s : St) (rs : Ref.St) (env : Nat), Sim ρ φ s rs env → WF s →
    ∀ (fuel : Nat) (i : Instr), ∃ ρ' φ' rs' env', Sim ρ' φ' ((exec fuel i).run s).2 rs' env'

/-- What is proved of it: entering a scope (`AddScopeInstr`: `let`, `letseq`, `newScope`,
`for`) against the reference evaluator's `newFrame`. **Missing**: leaving a scope
(`RemoveScopeInstr` — needs `ρ` injective on the chain), `def`/`set` (variables of one scope
change on both sides), `CreateClosure` (needs the heap-wide invariant "the captured stack +
parent chain of every closure corresponds to the environment of the reference closure" and a
value translation `φ` that grows), call / return / self tail call (`AddFuncScope` on the
callee's captured chain), `apply`/`map`, lazy arguments. Per instruction those are held by
the 3-way correspondence of channel `scope`, not by a theorem. Per EXPRESSION, on the fragment
of the language for which the C02 simulation proofs hold, they are theorems: see
`Props/C03Sim.lean` (`simX_of_relF`: the relation `Sim.RelF` maintained there implies `Sim`
up to the order of bindings inside a frame; `sim_preserved_on_fragment`;
`lexical_scoping_on_fragment` and its corollaries). -/
theorem sim_preserved_partial {ρ : Nat → Nat} {φ : Val → Val} {s : St} {rs : Ref.St} {env : Nat} (n : Nat)
    (h : Sim ρ φ s rs env) (w : WF s)
    (hrange : ∀ id ∈ lexCore s, ρ id < rs.frames.length)
    (hparents : ∀ (i : Nat) (fr : Ref.Frame), rs.frames[i]? = some fr → ∀ p, fr.parent = some p → p < i)
    (henv : env < rs.frames.length) :
    Sim (fun id => if id = s.scopes.length then rs.frames.length else ρ id) φ
      ((exec (n+1) .addScope).run s).2 (Ref.newFrame rs env).2 (Ref.newFrame rs env).1 := by
  have : ((exec (n+1) .addScope).run s).2 = addScopeSt s := by simp only [VM.exec, run_modify]; rfl
  rw [this]
  exact sim_addScope h w hrange hparents henv

/-! ## Fix C03-01: a shadowed self name is an ordinary call -/

/-- Pre-fix `buildSexpFun`: `gen.funcname` was the function's name whatever the body binds.
With that context the call `(f 1)` inside `(defn f [f] (f 1))` — where `f` is the
parameter — was compiled as a jump back into the function itself. -/
def hasGoto : List Instr → Bool
  | [] => false
  | .goto _ :: _ => true
  | _ :: r => hasGoto r

def codeOf (r : Except Unit ((List Instr × Bool) × GS)) : List Instr :=
  match r with
  | .ok ((code, _), _) => code
  | .error _ => []

theorem selfname_shadowed_counterexample :
    hasGoto (codeOf ((compile (fun _ => false) { tail := true, funcname := "f" } (.call (.sym "f") [.int 1])).run
      { fns := [] })) = true := by decide

/-- The repaired generator clears `funcname` when the function binds its own name
(`rebindsOwnName`), and then no call in the body is a self tail call. -/
theorem selfname_shadowed_is_ordinary_call :
    rebindsOwnName "f" ["f"] none [.call (.sym "f") [.int 1]] = true ∧
    hasGoto (codeOf ((compile (fun _ => false) { tail := true, funcname := "" } (.call (.sym "f") [.int 1])).run
      { fns := [] })) = false := by decide

/-- Using the name as a value binds nothing: the jump is kept. -/
theorem selfname_as_value_keeps_jump :
    rebindsOwnName "lp" ["n", "acc"] none
      [.cond [(.call (.sym "==") [.sym "n", .int 0], .sym "acc")]
        (.call (.sym "lp") [.call (.sym "-") [.sym "n", .int 1], .call (.sym "cons") [.sym "lp", .sym "acc"]])] = false := by
  decide

end ZygoVerif.C03
