/- C03 — lexical scoping (stub; theorems follow). -/
import ZygoVerif.Model.VM
import ZygoVerif.Spec.RefEval
namespace ZygoVerif.C03
end ZygoVerif.C03
