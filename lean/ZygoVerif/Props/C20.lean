/-
C20 — evaluation is deterministic: independent of Go's randomised map iteration order.

1. `inventory_complete`: every `for … range` over a map in package zygo (table regenerated
   from the source by extract/ex_mapranges.go) carries a hand-written justification, none is
   `observable`, and the syntactic shape the extractor sees is one the justification admits.
2. `perm_invariant_<walk>`: each modelled walk (Model/MapWalk.lean; the Go map is an
   association list whose ORDER is the iteration order) gives the same result for every
   permutation of the list.
3. `…_counterexample`: the walks as they were before fixes/C20-01, C20-02 do depend on
   the permutation (two orders, two results).
The rest of the interpreter model is a function of the program text, so these are the only
places where a second run could differ (apart from random/time/pointer printing).
-/
import ZygoVerif.Model.MapWalk
import ZygoVerif.Model.LegacyMapWalk
import ZygoVerif.Spec.OrderFree
import ZygoVerif.Generated.MapRanges
import Mathlib.Data.String.Basic
import Mathlib.Data.List.Nodup

namespace ZygoVerif.Props.C20
open ZygoVerif ZygoVerif.MapWalk ZygoVerif.Generated.MapRanges

/-! ## 1. The inventory -/

/-- Why a walk cannot make two runs differ. -/
inductive Just where
  /-- collected into a slice that is sorted (distinct keys) before anything reads it
  — `perm_invariant_collectSort` -/
  | sortedBeforeUse
  /-- only stores `dst[k] = v` into another map, distinct keys — `perm_invariant_copyInto` -/
  | mapCopy
  /-- folds a commutative, associative operation — `perm_invariant_hashCountKeys` -/
  | commutativeFold
  /-- leaves the loop early but with a constant — `perm_invariant_hashIsEmpty` -/
  | constantOnHit
  /-- builds a Go map / fills struct fields element by element (distinct keys, the
  per-element conversions do not see each other); the *successful* result is order-free.
  When two elements are both unconvertible, WHICH one the error names follows the walk:
  recorded as known finding (notes/C20.known.json); not modelled, rerun-tested only -/
  | errorChoiceOnly
  /-- Go-level debugging / command-line statistics output, not reachable from evaluation -/
  | debugOnly
  /-- the iteration order reaches the script: never acceptable -/
  | observable
  deriving DecidableEq, Repr

structure Entry where
  func : String
  ord : Nat
  just : Just
  deriving DecidableEq, Repr

/-- Hand-written: site id → justification. -/
def Classified : List Entry := [
  ⟨"sortedKeys", 0, .sortedBeforeUse⟩,                 -- fix 02: NewZlispWithFuncs, ImportBaseTypes, EnvAvail
  ⟨"makeSortedSlicesFromMap", 0, .sortedBeforeUse⟩,
  ⟨"init", 0, .sortedBeforeUse⟩,                       -- liner.go completion keywords
  ⟨"Scope.Show", 0, .sortedBeforeUse⟩,
  ⟨"MergeFuncMap", 0, .mapCopy⟩,
  ⟨"SexpHash.CloneFrom", 0, .mapCopy⟩,
  ⟨"SexpHash.CloneFrom", 1, .mapCopy⟩,
  ⟨"SexpHash.CopyMap", 0, .mapCopy⟩,
  ⟨"Scope.CloneScope", 0, .mapCopy⟩,
  ⟨"HashCountKeys", 0, .commutativeFold⟩,
  ⟨"HashIsEmpty", 0, .constantOnHit⟩,
  ⟨"fillHashByKind", 0, .constantOnHit⟩,               -- fix C10-04: struct held by value; the hit value ignores the loop variable
  ⟨"SexpToGo", 0, .errorChoiceOnly⟩,
  ⟨"SexpToGoStructs", 0, .errorChoiceOnly⟩,
  ⟨"SexpToGoStructs", 1, .errorChoiceOnly⟩,
  ⟨"SexpToGoStructs", 2, .errorChoiceOnly⟩,
  ⟨"SexpToGoStructs", 3, .errorChoiceOnly⟩,
  ⟨"SexpToGoStructs", 4, .errorChoiceOnly⟩,
  ⟨"Zlisp.DumpSymTable", 0, .debugOnly⟩,
  ⟨"PrintState.Dump", 0, .debugOnly⟩,
  ⟨"runScript", 0, .debugOnly⟩,
  ⟨"runScript", 1, .debugOnly⟩
]

/-- Which body shapes (computed by the extractor) a justification admits. -/
def admits : Just → Shape → Bool
  | .sortedBeforeUse, .collectSort => true
  | .mapCopy, .mapWrite => true
  | .commutativeFold, .counts => true
  | .constantOnHit, .firstHit => true
  | .errorChoiceOnly, .mapWrite => true
  | .errorChoiceOnly, .firstHit => true
  | .errorChoiceOnly, .emits => true
  | .debugOnly, .emits => true
  | _, _ => false

/-- The justification of a site, `observable` when nobody classified it. -/
def classOf (s : Site) : Just :=
  match Classified.find? (fun e => e.func = s.func ∧ e.ord = s.ord) with
  | some e => e.just
  | none => .observable

def isClassified (s : Site) : Bool :=
  Classified.any (fun e => e.func = s.func ∧ e.ord = s.ord)

/-- Every map walk of the package is classified, none as observable, and its body still
has a shape its justification admits. A new `for … range` over a map anywhere in
package zygo — or an old one whose body changes class — breaks this until a person
looks at it. (The quantifier is the whole regenerated table: a proof, not a sample.) -/
theorem inventory_complete :
    ∀ site ∈ mapRanges, isClassified site = true ∧ classOf site ≠ .observable
      ∧ admits (classOf site) site.shape = true := by
  decide

/-- Value-position calls (a conversion of each element that could carry state from one
element to the next) occur only in walks whose justification accounts for them. -/
theorem inventory_valueCalls :
    ∀ site ∈ mapRanges, site.valueCalls = true →
      classOf site = .errorChoiceOnly ∨ site.func = "Scope.Show" ∨ site.func = "fillHashByKind" := by
  decide

/-- The table is not empty and ids are unique (otherwise `classOf` would be ambiguous). -/
theorem inventory_ids_unique : (mapRanges.map Site.id).Nodup ∧ mapRanges ≠ [] := by
  decide

/-! ## 2. Permutation invariance of the modelled walks -/

section lemmas
universe u v
variable {K : Type u} {V : Type v}

/-- In a map (distinct keys) two entries with the same key are the same entry. -/
theorem entry_eq_of_key_eq {l : List (K × V)} (hn : (l.map (·.1)).Nodup)
    {x y : K × V} (hx : x ∈ l) (hy : y ∈ l) (h : x.1 = y.1) : x = y :=
  List.inj_on_of_nodup_map hn hx hy h

theorem lookup_eq_some_iff [DecidableEq K] {l : List (K × V)} (hn : (l.map (·.1)).Nodup) (k : K) (v : V) :
    lookup k l = some v ↔ (k, v) ∈ l := by
  induction l with
  | nil => simp [lookup]
  | cons p rest ih =>
    obtain ⟨k', v'⟩ := p
    simp only [List.map_cons, List.nodup_cons] at hn
    by_cases hk : k' = k
    · subst hk
      simp only [lookup, if_true, List.mem_cons, Option.some.injEq, Prod.mk.injEq, true_and]
      constructor
      · intro h; exact Or.inl h.symm
      · rintro (h | h)
        · exact h.symm
        · exact absurd (List.mem_map_of_mem (f := (·.1)) h) hn.1
    · simp only [lookup, if_neg hk, List.mem_cons, Prod.mk.injEq]
      rw [ih hn.2]
      constructor
      · intro h; exact Or.inr h
      · rintro (h | h)
        · exact absurd h.1.symm hk
        · exact h

end lemmas

/-- `m[k]` does not depend on the iteration order (used by every walk that only looks up). -/
theorem perm_invariant_lookup {K V} [DecidableEq K] {l₁ l₂ : List (K × V)} (p : l₁.Perm l₂)
    (hn : (l₁.map (·.1)).Nodup) (k : K) : lookup k l₁ = lookup k l₂ := by
  have hn₂ : (l₂.map (·.1)).Nodup := (p.map _).nodup_iff.mp hn
  apply Option.ext
  intro v
  rw [lookup_eq_some_iff hn, lookup_eq_some_iff hn₂]
  exact p.mem_iff

/-- What the sort comparison must satisfy on keys (true of `<` on Go strings). -/
structure StrictTotal {K} (lt : K → K → Bool) : Prop where
  trans : ∀ a b c, lt a b = true → lt b c = true → lt a c = true
  asymm : ∀ a b, lt a b = true → lt b a = false
  total : ∀ a b, a ≠ b → lt a b = true ∨ lt b a = true

theorem insertByKey_comm {K V} {lt : K → K → Bool} (h : StrictTotal lt) (p q : K × V) (hpq : p.1 ≠ q.1)
    (l : List (K × V)) :
    insertByKey lt p (insertByKey lt q l) = insertByKey lt q (insertByKey lt p l) := by
  induction l with
  | nil =>
    rcases h.total _ _ hpq with hlt | hlt
    · have := h.asymm _ _ hlt
      simp [insertByKey, hlt, this]
    · have := h.asymm _ _ hlt
      simp [insertByKey, hlt, this]
  | cons r rest ih =>
    by_cases hp : lt p.1 r.1 = true <;> by_cases hq : lt q.1 r.1 = true
    · rcases h.total _ _ hpq with hlt | hlt
      · have := h.asymm _ _ hlt
        simp [insertByKey, hp, hq, hlt, this]
      · have := h.asymm _ _ hlt
        simp [insertByKey, hp, hq, hlt, this]
    · have hqp : lt q.1 p.1 = false := by
        cases hc : lt q.1 p.1 with
        | false => rfl
        | true => exact absurd (h.trans _ _ _ hc hp) hq
      simp [insertByKey, hp, hq, hqp]
    · have hpq' : lt p.1 q.1 = false := by
        cases hc : lt p.1 q.1 with
        | false => rfl
        | true => exact absurd (h.trans _ _ _ hc hq) hp
      simp [insertByKey, hp, hq, hpq']
    · simp [insertByKey, hp, hq, ih]

/-- **Sort-after-collect** (`makeSortedSlicesFromMap`, `sortedKeys`, `Scope.Show`, the
completion keywords): whatever order the map yields its entries in, the sorted slice is
the same. Needs what Go guarantees: map keys are distinct. -/
theorem perm_invariant_collectSort {K V} {lt : K → K → Bool} (h : StrictTotal lt)
    {l₁ l₂ : List (K × V)} (p : l₁.Perm l₂) (hn : (l₁.map (·.1)).Nodup) :
    collectSort lt l₁ = collectSort lt l₂ := by
  unfold collectSort
  apply p.foldr_eq'
  intro x hx y hy z
  by_cases hxy : x = y
  · subst hxy; rfl
  · have hk : y.1 ≠ x.1 := fun hk => hxy (entry_eq_of_key_eq hn hx hy hk.symm)
    exact insertByKey_comm h y x hk z

/-- Go's `<` on strings is a strict total order. -/
theorem strLt_strictTotal : StrictTotal (fun a b : String => decide (a < b)) where
  trans := by
    intro a b c h1 h2
    simp only [decide_eq_true_eq] at *
    exact lt_trans h1 h2
  asymm := by
    intro a b h1
    simp only [decide_eq_true_eq, decide_eq_false_iff_not] at *
    exact lt_asymm h1
  total := by
    intro a b hne
    simp only [decide_eq_true_eq]
    exact lt_or_gt_of_ne hne

theorem perm_invariant_makeSortedSlicesFromMap {V} {l₁ l₂ : List (String × V)} (p : l₁.Perm l₂)
    (hn : (l₁.map (·.1)).Nodup) : makeSortedSlicesFromMap l₁ = makeSortedSlicesFromMap l₂ := by
  simp only [makeSortedSlicesFromMap, perm_invariant_collectSort strLt_strictTotal p hn]

theorem perm_invariant_sortedKeys {V} {l₁ l₂ : List (String × V)} (p : l₁.Perm l₂)
    (hn : (l₁.map (·.1)).Nodup) : sortedKeys l₁ = sortedKeys l₂ := by
  simp only [sortedKeys, perm_invariant_collectSort strLt_strictTotal p hn]

/-- `Scope.Show`, *assuming* that symbol names are distinct (`revsymtable` is injective on
the scope's keys) and that rendering a value is a pure function of the value. The second
assumption is the partial part: `val.SexpString(ps)` threads a PrintState whose seen-set
makes a scope/hash that is reachable from two bindings print in full only the first time
it is met — see notes/C20.md. -/
theorem perm_invariant_scopeShow_partial {V} (name : Nat → String) (render : V → String)
    {s₁ s₂ : List (Nat × V)} (p : s₁.Perm s₂)
    (hn : ((s₁.map fun (n, v) => (name n, render v)).map (·.1)).Nodup) :
    scopeShow name render s₁ = scopeShow name render s₂ := by
  simp only [scopeShow, perm_invariant_collectSort strLt_strictTotal (p.map _) hn]

theorem copyInto_eq_foldl {K V} [DecidableEq K] (l : List (K × V)) (dst : K → Option V) :
    copyInto dst l = l.foldl (fun d p => fun k' => if k' = p.1 then some p.2 else d k') dst := by
  induction l generalizing dst with
  | nil => rfl
  | cons p rest ih => obtain ⟨k, v⟩ := p; simp only [copyInto, List.foldl_cons]; exact ih _

/-- **Map copy** (`CopyMap`, `CloneFrom`'s JsonTagMap and ZMethods, `CloneScope`,
`MergeFuncMap`, the `m[key] = val` walks): the destination map ends up with the same
content whatever the order. -/
theorem perm_invariant_copyInto {K V} [DecidableEq K] {l₁ l₂ : List (K × V)} (p : l₁.Perm l₂)
    (hn : (l₁.map (·.1)).Nodup) (dst : K → Option V) : copyInto dst l₁ = copyInto dst l₂ := by
  rw [copyInto_eq_foldl, copyInto_eq_foldl]
  apply p.foldl_eq'
  intro x hx y hy z
  by_cases hxy : x = y
  · subst hxy; rfl
  · have hk : x.1 ≠ y.1 := fun hk => hxy (entry_eq_of_key_eq hn hx hy hk)
    funext k'
    by_cases h1 : k' = y.1 <;> by_cases h2 : k' = x.1
    · exact absurd (h2.symm.trans h1) hk
    · subst h1; simp [Ne.symm hk]
    · subst h2; simp [hk]
    · simp [h1, h2]

theorem perm_invariant_copyMap {K V} [DecidableEq K] {l₁ l₂ : List (K × V)} (p : l₁.Perm l₂)
    (hn : (l₁.map (·.1)).Nodup) : copyMap l₁ = copyMap l₂ :=
  perm_invariant_copyInto p hn _

/-- **HashCountKeys**: a sum. -/
theorem perm_invariant_hashCountKeys {P} {b₁ b₂ : List (Nat × List P)} (p : b₁.Perm b₂) :
    hashCountKeys b₁ = hashCountKeys b₂ := by
  unfold hashCountKeys
  apply p.foldl_eq'
  intro x _ y _ z
  omega

theorem hashIsEmpty_iff {P} (b : List (Nat × List P)) :
    hashIsEmpty b = true ↔ ∀ x ∈ b, x.2.length = 0 := by
  induction b with
  | nil => simp [hashIsEmpty]
  | cons x rest ih =>
    obtain ⟨n, arr⟩ := x
    by_cases h : arr.length > 0
    · simp only [hashIsEmpty, if_pos h, List.mem_cons, forall_eq_or_imp]
      constructor
      · intro hf; exact absurd hf (by simp)
      · intro hf; omega
    · simp only [hashIsEmpty, if_neg h, List.mem_cons, forall_eq_or_imp, ih]
      constructor
      · intro hf; exact ⟨by omega, hf⟩
      · intro hf; exact hf.2

/-- **HashIsEmpty**: returns on the first non-empty bucket, but with a constant. -/
theorem perm_invariant_hashIsEmpty {P} {b₁ b₂ : List (Nat × List P)} (p : b₁.Perm b₂) :
    hashIsEmpty b₁ = hashIsEmpty b₂ := by
  rw [Bool.eq_iff_iff, hashIsEmpty_iff, hashIsEmpty_iff]
  constructor
  · intro h x hx; exact h x (p.mem_iff.mpr hx)
  · intro h x hx; exact h x (p.mem_iff.mp hx)

theorem structByValueScan_eq {R} (reg : List (String × (Bool × Nat))) (goType : Nat) (onHit miss : R) :
    structByValueScan reg goType onHit miss
      = if reg.any (fun e => e.2.1 && e.2.2 == goType) then onHit else miss := by
  induction reg with
  | nil => simp [structByValueScan]
  | cons x rest ih =>
    obtain ⟨n, hs, tc⟩ := x
    by_cases h : (hs && tc == goType) = true
    · simp [structByValueScan, h]
    · simp only [structByValueScan, h, List.any_cons, ih, Bool.false_or]
      rfl

/-- **fillHashByKind, struct held by value**: the walk leaves on the first matching
registration, but what it returns (`fillHashHelper` of the value itself) does not depend on
which registration matched, so any iteration order of the registry gives the same result —
for every registry, also one that registers a Go type under several names. The call in value
position that the extractor flags (`valueCalls`) is that `onHit`. -/
theorem perm_invariant_structByValueScan {R} {r₁ r₂ : List (String × (Bool × Nat))}
    (p : r₁.Perm r₂) (goType : Nat) (onHit miss : R) :
    structByValueScan r₁ goType onHit miss = structByValueScan r₂ goType onHit miss := by
  rw [structByValueScan_eq, structByValueScan_eq, p.any_eq]

example : structByValueScan [("a", (false, 3)), ("B", (true, 3)), ("b", (true, 3))] 3 "rec" "nil" = "rec"
    ∧ structByValueScan [("b", (true, 3)), ("a", (false, 3)), ("B", (true, 3))] 3 "rec" "nil" = "rec" := by
  decide

/-- **fillHashHelper after fix 01**: the record's type name does not depend on the order
in which the registry map would be iterated — the walk goes over the registration-ordered
slice and only looks the map up. -/
theorem perm_invariant_fillHashTypeName (order : List String) {r₁ r₂ : List (String × RegType)}
    (p : r₁.Perm r₂) (hn : (r₁.map (·.1)).Nodup) (goType : Nat) :
    fillHashTypeName order r₁ goType = fillHashTypeName order r₂ goType := by
  induction order with
  | nil => rfl
  | cons name rest ih => simp only [fillHashTypeName, perm_invariant_lookup p hn, ih]

/-- **CallGoMethodFunction after fix 01**. -/
theorem perm_invariant_callGoTypeName (order : List String) {r₁ r₂ : List (String × RegType)}
    (p : r₁.Perm r₂) (hn : (r₁.map (·.1)).Nodup) (goType : Nat) :
    callGoTypeName order r₁ goType = callGoTypeName order r₂ goType := by
  induction order with
  | nil => rfl
  | cons name rest ih => simp only [callGoTypeName, perm_invariant_lookup p hn, ih]

/-- **Symbol numbering after fix 02**: the table after interning the builtins (hence
every `symnum`, symbol comparison and gensym name) does not depend on the order in which
the function map is iterated. -/
theorem perm_invariant_internBuiltins {V} (table : List String) {f₁ f₂ : List (String × V)}
    (p : f₁.Perm f₂) (hn : (f₁.map (·.1)).Nodup) :
    internBuiltins table f₁ = internBuiltins table f₂ := by
  simp only [internBuiltins, perm_invariant_sortedKeys p hn]

/-! ### model = order-free spec, where that is cheap -/

theorem lookup_eq_spec {K V} [DecidableEq K] (k : K) (l : List (K × V)) :
    lookup k l = Spec.OrderFree.bound l k := by
  induction l with
  | nil => rfl
  | cons p rest ih =>
    obtain ⟨k', v⟩ := p
    by_cases h : k' = k
    · simp [lookup, Spec.OrderFree.bound, h]
    · simp only [lookup, if_neg h, ih, Spec.OrderFree.bound]
      rw [List.find?_cons_of_neg]
      simpa using h

theorem hashCountKeys_eq_spec {P} (b : List (Nat × List P)) :
    hashCountKeys b = Spec.OrderFree.pairCount b := by
  have gen : ∀ (l : List (Nat × List P)) (a : Nat),
      l.foldl (fun num x => num + x.2.length) a = a + (l.map (·.2.length)).sum := by
    intro l
    induction l with
    | nil => intro a; simp
    | cons x rest ih => intro a; simp only [List.foldl_cons, List.map_cons, List.sum_cons, ih]; omega
  simp [hashCountKeys, Spec.OrderFree.pairCount, gen]

theorem hashIsEmpty_eq_spec {P} (b : List (Nat × List P)) :
    hashIsEmpty b = Spec.OrderFree.isEmpty b := by
  induction b with
  | nil => rfl
  | cons x rest ih =>
    obtain ⟨n, arr⟩ := x
    cases arr with
    | nil => simp [hashIsEmpty, Spec.OrderFree.isEmpty, ih]
    | cons a as => simp [hashIsEmpty, Spec.OrderFree.isEmpty]

/-- The fixed scan picks the earliest-registered matching name, as the spec says. -/
theorem fillHashTypeName_eq_spec (order : List String) (r : List (String × RegType)) (t : Nat) :
    fillHashTypeName order r t
      = Spec.OrderFree.typeNameFor order (fun n => (lookup n r).map (·.goType)) t := by
  induction order with
  | nil => rfl
  | cons name rest ih =>
    simp only [fillHashTypeName, Spec.OrderFree.typeNameFor] at *
    cases hl : lookup name r with
    | none => simp [hl, ih]
    | some rt =>
      by_cases ht : rt.goType = t
      · simp [hl, ht]
      · simp [hl, ht, ih]

/-! ### the hypotheses are satisfiable -/

example : perm_invariant_collectSort strLt_strictTotal
    (List.Perm.swap ("b", 2) ("a", 1) []) (by decide)
    = (rfl : collectSort _ [("a", 1), ("b", 2)] = collectSort _ [("a", 1), ("b", 2)] ) := rfl

example : makeSortedSlicesFromMap [("zKeyOrder", 0), ("Atype", 1), ("b", 2)]
    = (["Atype", "b", "zKeyOrder"], [1, 2, 0]) := by decide

example : fillHashTypeName ["vinner", "main.VInner", "VInner"]
    [("main.VInner", ⟨7, "VInner"⟩), ("VInner", ⟨7, "VInner"⟩), ("vinner", ⟨7, "vinner"⟩)] 7 = some "vinner" := by
  decide

/-! ## 3. The pinned tree: the legacy walks depend on the order -/

/-- Before fix 01 a struct registered under its script name and its reflect name decodes
to a record named after whichever key the registry map yields first. -/
theorem fillHashTypeName_counterexample :
    ∃ (r₁ r₂ : List (String × RegType)) (t : Nat), r₁.Perm r₂ ∧ (r₁.map (·.1)).Nodup ∧
      Legacy.fillHashTypeName r₁ t ≠ Legacy.fillHashTypeName r₂ t :=
  ⟨[("vinner", ⟨7, "vinner"⟩), ("main.VInner", ⟨7, "vinner"⟩)],
   [("main.VInner", ⟨7, "vinner"⟩), ("vinner", ⟨7, "vinner"⟩)], 7,
   List.Perm.swap _ _ _, by decide, by decide⟩

/-- Before fix 01 `_method` names a returned struct after whichever of two registrations
of the same Go type (e.g. `nestinner` / `NestInner`) comes first. -/
theorem callGoTypeName_counterexample :
    ∃ (r₁ r₂ : List (String × RegType)) (t : Nat), r₁.Perm r₂ ∧ (r₁.map (·.1)).Nodup ∧
      Legacy.callGoTypeName r₁ t ≠ Legacy.callGoTypeName r₂ t :=
  ⟨[("vinner", ⟨7, "vinner"⟩), ("VInner", ⟨7, "VInner"⟩)],
   [("VInner", ⟨7, "VInner"⟩), ("vinner", ⟨7, "vinner"⟩)], 7,
   List.Perm.swap _ _ _, by decide, by decide⟩

/-- Before fix 02 `(symnum (quote car))` depends on the order in which the builtin map
is iterated when the interpreter is created. -/
theorem symnum_counterexample :
    ∃ (f₁ f₂ : List (String × Unit)), f₁.Perm f₂ ∧ (f₁.map (·.1)).Nodup ∧
      Legacy.symnum (Legacy.internBuiltins ["null", "nil"] f₁) "car"
        ≠ Legacy.symnum (Legacy.internBuiltins ["null", "nil"] f₂) "car" :=
  ⟨[("car", ()), ("cdr", ())], [("cdr", ()), ("car", ())], List.Perm.swap _ _ _, by decide, by decide⟩

end ZygoVerif.Props.C20
