/-
C08 — a sandboxed interpreter cannot reach the outside world.

Model  = `Generated/CallGraph.lean`, the reference graph of package zygo + cmd/zygo,
         regenerated from /repo's working tree on every run (extract/ex_callgraph.go): an
         edge f → g whenever g is called OR mentioned in f, function literals as nodes,
         interface calls resolved by method name, one node per referenced object of any
         other package.
Spec   = `Spec/Prims.lean`: which of those external objects are the outside world (files,
         processes, environment, process exit, …), written from the property text; and which
         edges exist in which configuration.
Proved = for each configuration {bare sandbox, sandbox + StandardSetup, cmd/zygo -sandbox}:
         NO path of ANY length leads from a root of the configuration to a primitive
         (`c08_bare`, `c08_std`, `c08_cli`). The kernel checks a closure certificate
         (`decide +kernel`), the general lemma `Reach.closed_contains_reach` (induction on
         paths) turns it into the statement about all paths.
Side conditions that the reading of the graph rests on are theorems over generated tables
as well (flag protocol, host sites of the wrapper, start-up calls, unsafe / function-type
assertions, extractor problems).

What is NOT proved here (trusted, see checks/C08.py META): that "no path in the reference
graph" implies "no execution reaches the primitive" — the soundness of reference edges for
Go without unsafe function pointers, reflect.Value.Call or assembly; the extractor itself;
the classification in Spec/Prims.lean.
-/
import ZygoVerif.Generated.CallGraph
import ZygoVerif.Spec.Prims
import ZygoVerif.Proofs.Reach
import ZygoVerif.Model.LegacySandbox

namespace ZygoVerif.Props.C08
open ZygoVerif ZygoVerif.Reach ZygoVerif.Spec.Prims
open ZygoVerif.Generated

/-! ## The graph of a configuration -/

/-- the edge relation of configuration `c` (labels contradicted by `c` dropped) -/
def Edge (c : Config) : Nat → Nat → Prop := EdgeIn (keepEdge c) CallGraph.adj

def rootsOf : Config → List Nat
  | .bare => CallGraph.rootsBare
  | .std => CallGraph.rootsStd
  | .cli => CallGraph.rootsCli

def certOf : Config → Nat
  | .bare => CallGraph.certBare
  | .std => CallGraph.certStd
  | .cli => CallGraph.certCli

/-- The property on the graph, full strength: from no root of the configuration is there a
path — of any length, through any functions, closures, interface dispatch — to any external
object that Spec/Prims classifies as outside world (or does not classify at all). -/
def Unreachable (c : Config) : Prop :=
  ∀ r ∈ rootsOf c, ∀ g ∈ CallGraph.extGroups, ∀ x ∈ g.2,
    forbidden g.1 x.2.1 = true → ¬ Path (Edge c) r x.1

/-! ## Certificates (re-checked by the kernel against the regenerated graph) -/

def outsideAll (id : Nat) : Bool :=
  !CallGraph.certBare.testBit id && !CallGraph.certStd.testBit id && !CallGraph.certCli.testBit id

/-- (is the class forbidden, is it `unknown`) -/
def baseFlags : Class → Bool × Bool
  | .prim => (true, false)
  | .unknown => (true, true)
  | _ => (false, false)

theorem baseFlags_spec (c : Class) : baseFlags c = (isForbiddenClass c, c == Class.unknown) := by
  cases c <;> decide

/-- one member of a package that member rules mention: classified, and outside all three
certificates when forbidden (`bf`, `bu` = flags of the package's own class) -/
def memberScan (pkg : String) (bf bu : Bool) (x : Nat × String × String) : Bool :=
  if (pkg, x.2.1) ∈ primMembers then outsideAll x.1
  else if (pkg, x.2.1) ∈ consoleMembers then true
  else !bu && (!bf || outsideAll x.1)

/-- One pass over a package group: every member is classified, and every forbidden member
lies outside all three certified sets. The package is classified once (string comparisons
are what the kernel is slow at); members are looked at one by one only where a member rule
mentions the package. -/
def groupScan (g : String × List (Nat × String × String)) : Bool :=
  match baseFlags (pkgClass g.1) with
  | (bf, bu) =>
    match hasMemberRules g.1 with
    | false => !bu && (!bf || g.2.all fun x => outsideAll x.1)
    | true => g.2.all (memberScan g.1 bf bu)

theorem groupScan_sound {g : String × List (Nat × String × String)} (h : groupScan g = true)
    (x : Nat × String × String) (hx : x ∈ g.2) :
    classify g.1 x.2.1 ≠ Class.unknown ∧ (forbidden g.1 x.2.1 = true → outsideAll x.1 = true) := by
  unfold groupScan at h
  rw [baseFlags_spec] at h
  simp only at h
  split at h
  · next hno =>
    simp only [Bool.and_eq_true, Bool.not_eq_true', Bool.or_eq_true, beq_eq_false_iff_ne, ne_eq] at h
    rw [forbidden, classify_eq_pkgClass hno]
    refine ⟨h.1, fun hf => ?_⟩
    rcases h.2 with hnf | hall
    · rw [hf] at hnf; cases hnf
    · exact List.all_eq_true.mp hall x hx
  · have hm := List.all_eq_true.mp h x hx
    unfold memberScan at hm
    unfold forbidden classify
    split at hm
    · next hp => simp only [hp, if_true]; exact ⟨by decide, fun _ => hm⟩
    · next hp =>
      simp only [hp, if_false]
      split at hm
      · next hc => simp only [hc, if_true]; exact ⟨by decide, fun hf => by cases hf⟩
      · next hc =>
        simp only [hc, if_false]
        simp only [Bool.and_eq_true, Bool.not_eq_true', Bool.or_eq_true, beq_eq_false_iff_ne, ne_eq] at hm
        refine ⟨hm.1, fun hf => ?_⟩
        rcases hm.2 with hnf | ho
        · rw [hf] at hnf; cases hnf
        · exact ho

/-- the scan succeeds on every group of the regenerated table -/
theorem scan_all : CallGraph.extGroups.all groupScan = true := by decide +kernel

theorem roots_bare : containsB CallGraph.certBare CallGraph.rootsBare = true := by decide +kernel
theorem roots_std : containsB CallGraph.certStd CallGraph.rootsStd = true := by decide +kernel
theorem roots_cli : containsB CallGraph.certCli CallGraph.rootsCli = true := by decide +kernel

theorem closed_bare : closedB CallGraph.certBare (keepEdge .bare) CallGraph.adj = true := by
  decide +kernel
theorem closed_std : closedB CallGraph.certStd (keepEdge .std) CallGraph.adj = true := by
  decide +kernel
theorem closed_cli : closedB CallGraph.certCli (keepEdge .cli) CallGraph.adj = true := by
  decide +kernel

theorem outside_of_forbidden {g : String × List (Nat × String × String)} {x : Nat × String × String}
    (hg : g ∈ CallGraph.extGroups) (hx : x ∈ g.2) (hf : forbidden g.1 x.2.1 = true) :
    outsideAll x.1 = true :=
  (groupScan_sound (List.all_eq_true.mp scan_all g hg) x hx).2 hf

/-! ## The theorems -/

/-- bare `NewZlispSandbox()` -/
theorem c08_bare : Unreachable .bare := by
  intro r hr g hg x hx hf
  have h := outside_of_forbidden hg hx hf
  simp only [outsideAll, Bool.and_eq_true, Bool.not_eq_true'] at h
  exact no_path_of_cert roots_bare closed_bare r hr x.1 h.1.1

/-- `NewZlispSandbox()` + `StandardSetup()` -/
theorem c08_std : Unreachable .std := by
  intro r hr g hg x hx hf
  have h := outside_of_forbidden hg hx hf
  simp only [outsideAll, Bool.and_eq_true, Bool.not_eq_true'] at h
  exact no_path_of_cert roots_std closed_std r hr x.1 h.1.2

/-- `cmd/zygo -sandbox` -/
theorem c08_cli : Unreachable .cli := by
  intro r hr g hg x hx hf
  have h := outside_of_forbidden hg hx hf
  simp only [outsideAll, Bool.and_eq_true, Bool.not_eq_true'] at h
  exact no_path_of_cert roots_cli closed_cli r hr x.1 h.2

theorem c08_all (c : Config) : Unreachable c := by
  cases c
  · exact c08_bare
  · exact c08_std
  · exact c08_cli

/-! ### Non-vacuity: there are roots, there are forbidden objects in the graph, and the same
graph DOES lead to one when the interpreter is not sandboxed -/

example : CallGraph.rootsBare ≠ [] ∧ CallGraph.rootsStd ≠ [] ∧ CallGraph.rootsCli ≠ [] := by decide +kernel

/-- the edges that exist when the interpreter's sandbox flag is false -/
def keepFull (lab : Nat) : Bool := lab &&& 2 == 0

/-- The analysis has teeth: in the full interpreter (`NewZlisp` + `StandardSetup`) the
extractor's witness is a genuine path of the same graph, and it ends in an object that
Spec/Prims forbids. (Also the non-vacuity of `Unreachable`: forbidden objects exist.) -/
theorem full_interpreter_reaches_a_primitive :
    -- the witness's last node is the external object named by `witnessFullTarget` …
    (CallGraph.extGroups.any fun g => g.1 == CallGraph.witnessFullTarget.1 &&
        g.2.any fun x => x.1 == CallGraph.witnessFull.getLastD 0 && x.2.1 == CallGraph.witnessFullTarget.2) = true
    -- … which Spec/Prims forbids …
    ∧ forbidden CallGraph.witnessFullTarget.1 CallGraph.witnessFullTarget.2 = true
    -- … and the witness is a path of the graph
    ∧ Path (EdgeIn keepFull CallGraph.adj) (CallGraph.witnessFull.headD 0) (CallGraph.witnessFull.getLastD 0) :=
  ⟨by decide +kernel, by decide +kernel,
   path_of_walk (l := CallGraph.witnessFull.tail) (by decide +kernel)⟩

/-! ## Side conditions of the reading of the graph (generated tables, whole-table `decide`) -/

/-- the extractor could read everything it needs (no cgo, no linkname, no body-less function,
every root found, tables in the expected shape) -/
theorem extractor_read_everything : CallGraph.extractorProblems = [] := by decide +kernel

/-- closed world: every object of another package that the code references is classified -/
theorem externals_classified :
    ∀ g ∈ CallGraph.extGroups, ∀ x ∈ g.2, classify g.1 x.2.1 ≠ Class.unknown :=
  fun g hg x hx => (groupScan_sound (List.all_eq_true.mp scan_all g hg) x hx).1

/-- Flag protocol. Label-1 edges (code under `!env.<flag>`) are dropped for the sandbox
configurations; that is justified only if a sandboxed interpreter always carries the flag:
it is written `true` by `NewZlispSandbox` and nowhere else, otherwise only copied from another
interpreter (`Clone`, `Duplicate`), its address is never taken, and every place that
allocates a `Zlisp` other than the constructor copies it. On a tree without such a flag no edge
may carry label 1 or 2. -/
def flagProtocolOk : Bool :=
  if CallGraph.sandboxFlag == "" then
    -- no flag in this tree: then no edge may claim to depend on one
    CallGraph.adj.all (fun e => e.2.1 &&& 3 == 0)
  else
    CallGraph.flagAssignSites.all (fun s =>
      (s.2 == "constTrue" && s.1 == "zygo.NewZlispSandbox") || s.2 == "copy")
    && CallGraph.zlispAllocSites.all (fun s => s.2 == "copiesFlag" || s.1 == "zygo.NewZlispWithFuncs")
    && CallGraph.flagAssignSites.contains ("zygo.NewZlispSandbox", "constTrue")

theorem flag_protocol : flagProtocolOk = true := by decide +kernel

/-- Gates and script bindings. No `if` that cuts a function short asks a bool-valued function
from which a constant-name lookup (`FindObject "source"`, `MakeSymbol "…"` …) is reachable:
what a name resolves to is state the sandboxed script controls (`(def source 0)`), so such a
gate is not a sandbox boundary. (Table `scriptGates`; the constant names themselves are in
`nameSites` and feed the two-text histories of the failing-input search.) -/
theorem gates_do_not_depend_on_script_bindings :
    ∀ g ∈ CallGraph.scriptGates, g.2 ∈ allowedGatePredicates := by decide +kernel

/-- The sandbox gates read the flag FIELD. (1) The generator function of every special form in
Spec.Prims.flagGatedForms, while it is still inside the certified set of a sandbox, contains an
`if` whose condition reads the field itself; (2) StandardSetup registers the builders of
Spec.Prims.flagGatedBindings only under `!flag` (label 1, which only a read of the field or of
its trivial accessor produces). Replacing the field by a computed predicate (`mayReadFiles()`,
a name lookup, a table size …) breaks this fact by name. Only demanded on a tree that has the
flag. -/
def sandboxGatesOk : Bool :=
  CallGraph.sandboxFlag == "" ||
  ((CallGraph.specialForms.all fun sf =>
      !(flagGatedForms.contains sf.1) || !(CallGraph.certStd.testBit sf.2.2.1) ||
      CallGraph.flagGuards.any fun g => g.2.1 == sf.2.2.1 && g.2.2 == "field")
   && (CallGraph.stdBindings.all fun b => !(flagGatedBindings.contains b.1) || b.2.2.2 &&& 1 == 1))

theorem sandbox_gates_read_the_flag_field : sandboxGatesOk = true := by decide +kernel

/-- Host sites. What the command line wrapper (`main`, `usage`, `ReplMain`, `Repl`,
`runScript` and the literals inside them) does to the outside world directly while
`cfg.Sandboxed` holds is on the hand-written list of host behaviour (end of input, the script
file and profile files named on the command line, exit codes). -/
theorem host_sites_allowed :
    ∀ s ∈ CallGraph.hostSites, s ∈ hostAllowed ∨ forbidden s.2.1 s.2.2 = false := by decide +kernel

def wrapperMask : Nat := CallGraph.wrapperNodes.foldl (fun m i => m ||| (1 <<< i)) 0

/-- … and nothing but the wrapper itself refers to a wrapper function, so dropping the
wrapper's host sites in the `cli` configuration cannot hide a call made by script-driven code -/
theorem wrappers_not_called_back :
    (CallGraph.adj.all fun e => CallGraph.wrapperNodes.contains e.1 || e.2.2 &&& wrapperMask == 0) = true := by
  decide +kernel

/-- REPL guards: the dot commands that act on the host sit under `!cfg.Sandboxed`, and
`ReplMain` calls no constructor other than `NewZlispSandbox` unless under `!cfg.Sandboxed`. -/
theorem repl_guards :
    (∀ d ∈ CallGraph.replDotCommands, d.1 ∈ hostOnlyDotCommands → d.2 &&& 4 = 4)
    ∧ (∀ c ∈ CallGraph.replMainCtors, c.1 ≠ "NewZlispSandbox" → c.2 &&& 4 = 4) := by
  decide +kernel

/-- the REPL really has those dot commands (the guard statement is not vacuous) -/
example : ∀ n ∈ hostOnlyDotCommands, n ∈ CallGraph.replDotCommands.map (·.1) := by decide +kernel

/-- Start-up. A function called by an `init` function / package-level initialiser that could
create function values (something reachable from it mentions a function in value position)
is either a root of every configuration — so whatever it leaves behind is covered by the
certificates — or on the hand-justified list Spec.Prims.startupDiscards. Function values
MENTIONED by start-up code itself are roots through node INIT. -/
theorem startup_calls_covered :
    ∀ c ∈ CallGraph.startupCalls, c.2.1 = true →
      (c.1 ∈ startupDiscards ∧ c.2.2.2 = false)
      ∨ (c.2.2.1 ∈ CallGraph.rootsBare ∧ c.2.2.1 ∈ CallGraph.rootsStd ∧ c.2.2.1 ∈ CallGraph.rootsCli) := by
  decide +kernel

/-- No other way to obtain a callable value: package unsafe is used only by the two known
data-pointer helpers, and nothing asserts an interface value to a function type
(`reflect.Value.Call`, `CallSlice`, `MakeFunc` are primitives in Spec/Prims). -/
theorem no_fabricated_function_values :
    (∀ u ∈ CallGraph.unsafeUsers, u ∈ knownUnsafe) ∧ CallGraph.funcAssertions = [] := by
  decide +kernel

/-- Name tables vs certificate: the Go function behind every name that the source binds in a
sandbox (function tables merged by `SandboxSafeFunctions`, `Add*` calls of `StandardSetup`
that are not under `!env.<flag>`) and behind every special form lies inside the certified
reachable set — the certificate covers what a script can name. -/
theorem bindings_inside_certificate :
    (CallGraph.bareBindings.all fun b => !(b.2.2.1 < CallGraph.numNodes) || CallGraph.certBare.testBit b.2.2.1) = true
    ∧ (CallGraph.stdBindings.all fun b =>
        !(b.2.2.1 < CallGraph.numNodes) || b.2.2.2 &&& 1 != 0 || CallGraph.certStd.testBit b.2.2.1) = true
    ∧ (CallGraph.specialForms.all fun b => !(b.2.2.1 < CallGraph.numNodes) || CallGraph.certBare.testBit b.2.2.1) = true := by
  decide +kernel

example : CallGraph.bareBindings ≠ [] ∧ CallGraph.stdBindings ≠ [] ∧ CallGraph.specialForms ≠ [] := by
  decide +kernel

/-! ## The tree before fixes/C08-01 and C08-02: counterexamples (Model/LegacySandbox.lean) -/

def LegacyEdge : Nat → Nat → Prop := EdgeIn (fun _ => true) LegacySandbox.adj

/-- bare sandbox, pre-fix: `(include "file")` compiles straight into `os.Open` -/
theorem c08_bare_counterexample :
    ∃ r ∈ LegacySandbox.rootsBare, ∃ p ∈ LegacySandbox.prims, Path LegacyEdge r p :=
  ⟨0, by decide, 8, by decide, path_of_walk (l := [1, 2, 3, 4, 5, 6, 7, 8]) (by decide)⟩

/-- sandbox + StandardSetup, pre-fix: the `sys` builder reaches `exec.Command` -/
theorem c08_std_sys_counterexample :
    ∃ r ∈ LegacySandbox.rootsStd, ∃ p ∈ LegacySandbox.prims, Path LegacyEdge r p :=
  ⟨9, by decide, 13, by decide, path_of_walk (l := [10, 11, 12, 13]) (by decide)⟩

/-- sandbox + StandardSetup, pre-fix: the `import` builder reaches `os.Open` and `os.Stat` -/
theorem c08_std_import_counterexample :
    (∃ r ∈ LegacySandbox.rootsStd, Path LegacyEdge r 8 ∧ 8 ∈ LegacySandbox.prims)
    ∧ (∃ r ∈ LegacySandbox.rootsStd, Path LegacyEdge r 18 ∧ 18 ∈ LegacySandbox.prims) :=
  ⟨⟨9, by decide, path_of_walk (l := [10, 14, 15, 16, 8]) (by decide), by decide⟩,
   ⟨9, by decide, path_of_walk (l := [10, 14, 17, 18]) (by decide), by decide⟩⟩

end ZygoVerif.Props.C08
