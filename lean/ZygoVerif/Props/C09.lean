/-
C09 — tail calls are free and invisible.

  "A function that calls itself in tail position (directly, or as the last form of cond arms,
   begin, let, letseq, newScope bodies or the last arm of and/or, nested in any combination)
   runs in space independent of the recursion depth … The optimisation is invisible: the call
   returns the same value and has the same effects, including what closures created during
   earlier iterations observe, as the same function evaluated without the optimisation."

The model is `Model/Gen.lean` (generator) + `Model/VM.lean` (VM), following /repo with the
fixes fc05fc7 (fresh function scope per iteration), 5554b40 + 8aa1632 (tail flag cleared for let
initialisers, array elements, assignment targets, …), c9a2ccf (a self call with the wrong
number of operands is an ordinary call) and d5acb02 (C09-02: guard in front of the tail sequence). Tail position is defined independently in `Spec/TailPos.lean`.

Proved here, for programs of every size, every nesting of the contexts and every depth:

 (a) `tail_position_gets_tail_sequence`   a self call in tail position of the body (through any
                                          nesting of the listed contexts) is compiled to the
                                          tail sequence — operands, `PrepareCall`,
                                          `RemoveScope × (k+1)`, `Goto 0`;
     `tail_flag_only_in_tail_position`    a call reached through at least one non-tail step is
                                          compiled to one ordinary `CallExpr`, never to a jump;
     `self_call_dichotomy`                every inline occurrence is one or the other.
 (b) `tail_sequence_layout`               the number of `RemoveScope` is the number of scopes
                                          open on entry of the compiled form + the number of
                                          `let`/`letseq`/`newScope` crossed + 1 (function scope).
 (c) `tail_call_reenters_at_entry_depths` segment lemma on the real loop `VM.runLoop`: from the
                                          tail sequence the machine reaches instruction 0 of the
                                          same function with the data, scope and address stack
                                          depths of the first entry;
     `tail_call_constant_space_partial`   hence, by induction on the number of iterations, every
                                          re-entry has those depths — assuming each body stretch
                                          between an entry and the next tail sequence is balanced
                                          (that is C04's theorem about generated code; here it is a
                                          hypothesis, checked dynamically by the `probe` oracle of
                                          channel `tail`).
     `bodyBalanced_of_matched`            that hypothesis DERIVED from C04's verifier (`Bal.tail_site_depths`:
                                          in any verified function a tail sequence stands under exactly
                                          k+1 scopes and, behind `PrepareCall`, the formals' worth of
                                          operands) for body stretches that are matched by a run of the
                                          stack-effect machine (`MatchedBody`);
     `tail_call_constant_space`           the induction without the balance hypothesis (what `MatchedBody`
                                          still assumes per iteration is the refinement VM.exec ⊑ Bal.CStep);
     `verified_of_generated`              every `fn`/`defn` the model generator makes is verified (C04
                                          `gen_balanced`), so `MatchedBody.verified` holds for them.
     `tail_call_constant_space_same_activation`, `reentry_has_entry_depths`
                                          NO balance hypothesis, NO refinement hypothesis: for every entry
                                          state that satisfies the run-time invariant of C04's calling
                                          contract (`RunInv.WF`, `RunInv.Running`), every re-entry of that
                                          activation at instruction 0 — after any number of tail sequences,
                                          nested calls, callees — has the depths of the entry.
     `TailCallConstantSpace_asFirstStated` the statement over all loaded programs as first written: FALSE
                                          (a later activation at the same address depth passes for the same
                                          one); kept visible, counterexample in its docstring.
     `TailCallConstantSpace`              the repaired full statement (same activation: the address stack is
                                          never shorter in between; programs of the generator's grammar);
     `tail_call_constant_space_full`      PROVED: `loaded_invariant` (every state a loaded program reaches
                                          satisfies the run-time invariant, the top-level text being the
                                          bottom activation) + the same-activation theorem.
     `tail_guard_passes`                  (fix C09-02) the sequence starts with a guard that looks the
                                          name up before the operands; it lets the jump happen exactly
                                          when the name still denotes the function object that is running;
     `tail_call_falls_back_to_ordinary_call`
                                          otherwise one step leads, with nothing but `pc` changed, to the
                                          ordinary `CallExpr` of the same call emitted behind the jump.
                                          The body stretch of `BodyBalanced` therefore contains a passed
                                          guard: constant space is claimed for the iterations in which the
                                          name still denotes the running function, and only for those.
 (d) `TcoTransparent`                     full statement (VM model = reference evaluator), NOT proved;
     `tco_transparent_partial`            the parts proved: the continuation is never dropped
                                          (only tail positions jump), the tail sequence changes
                                          nothing but pc / scope stack / packed operands, and the
                                          next iteration binds its parameters in a scope that did
                                          not exist before — so no scope captured by a closure of
                                          an earlier iteration is written.
     `legacy_tail_call_rebinds_captured_scope_counterexample`
                                          the pre-fc05fc7 sequence (`Goto 1`) does write it.
-/
import ZygoVerif.Proofs.Tail
import ZygoVerif.Proofs.TailVM
import ZygoVerif.Proofs.TailSite
import ZygoVerif.Proofs.GenBalancedAll
import ZygoVerif.Proofs.VMRefine
import ZygoVerif.Proofs.RunAct
import ZygoVerif.Proofs.RunMain
import ZygoVerif.Model.LegacyTail
import ZygoVerif.Spec.RefEval
namespace ZygoVerif.C09
open ZygoVerif.Core ZygoVerif.VM ZygoVerif.TailSpec ZygoVerif.Tail ZygoVerif.TailVM

/-! ## (a), (b): the generator -/

/-- `buildSexpFun` compiles a body as a `begin` with `Tail` on, no extra scope, under the
function's own name. -/
def bodyCtx (f : String) (known : List (String × Nat)) : Ctx := ⟨true, 0, f, known⟩

/-- What the generator emits for a self call in tail position (after fix C09-02): the guard,
the operands, the tail sequence proper (`TailVM.tailSeq`: `PrepareCall`, `RemoveScope × (k+1)`,
`Goto 0`) and, behind the jump, the ordinary call the guard skips to. -/
def selfTailCode (f : String) (args : List Expr) (k : Nat) (argcode : List Instr) : List Instr :=
  [Instr.tailGuard f (argcode.length + k + 4)] ++ argcode ++ tailSeq f args.length k ++ [Instr.callExpr (.sym f) args]

/-- the guard's `skip` is exactly the distance to the ordinary call -/
theorem selfTailCode_skip (f : String) (args : List Expr) (k : Nat) (argcode : List Instr) :
    (selfTailCode f args k argcode)[argcode.length + k + 4]? = some (Instr.callExpr (.sym f) args) := by
  have hlen : ([Instr.tailGuard f (argcode.length + k + 4)] ++ argcode ++ tailSeq f args.length k).length
      = argcode.length + k + 4 := by
    simp [tailSeq]; omega
  unfold selfTailCode
  rw [List.getElem?_append_right (by omega), hlen]
  simp

/-- (b) The tail sequence pops exactly the scopes open at that point: those open when the
enclosing form `e` was entered (`k0`), those crossed inside it (`k`), and the function scope.
A self call in tail position is handled by the tail-call arm of `GenerateCallBySymbol` (under a
context with `Tail` on and `scopes = k0 + k`, in some generator state `gs1`); that arm emits
the tail sequence when the number of operands fits the function registered under the name at
that point (`ArityOk`, fix c9a2ccf) and one ordinary call — which reports the arity error at
run time — when it does not. -/
theorem tail_sequence_layout {isFn : Nat → Bool} {f : String} {kn : List (String × Nat)} {e : Expr}
    {args : List Expr} {k0 k : Nat} {gs : GS} {r}
    (hpos : TailAt k e (.call (.sym f) args))
    (hc : compile isFn ⟨true, k0, f, kn⟩ e gs = .ok r) :
    ∃ gs1 : GS,
      (ArityOk ((kn.lookup f).bind fun t => gs1.fns[t]?) args.length = true →
        ∃ argcode, Seg r.1.1 (selfTailCode f args (k0 + k) argcode)) ∧
      (ArityOk ((kn.lookup f).bind fun t => gs1.fns[t]?) args.length = false →
        Seg r.1.1 [Instr.callExpr (.sym f) args]) := by
  obtain ⟨gs1, r1, h1, hseg⟩ := tailAt_emits hpos hc
  refine ⟨gs1, ?_, ?_⟩
  · intro harity
    obtain ⟨argcode, hcode⟩ := self_call_tail h1 harity
    refine ⟨argcode, ?_⟩
    rw [hcode] at hseg
    simpa [selfTailCode, tailSeq, List.append_assoc] using hseg
  · intro harity
    rw [self_call_wrong_arity h1 harity] at hseg
    exact hseg

/-- (a, converse) A self call in tail position of a function body, with a number of operands
that fits the function (in whatever state the function table is), is compiled to the tail
sequence, with `k+1` `RemoveScope` for `k` crossed scopes. -/
theorem tail_position_gets_tail_sequence {isFn : Nat → Bool} {f : String} {kn : List (String × Nat)}
    {body : List Expr} {args : List Expr} {k : Nat} {gs : GS} {r}
    (hpos : TailAt k (.begin_ body) (.call (.sym f) args))
    (harity : ∀ gs1 : GS, ArityOk ((kn.lookup f).bind fun t => gs1.fns[t]?) args.length = true)
    (hc : compileBegin isFn (bodyCtx f kn) body gs = .ok r) :
    ∃ argcode, Seg r.1.1 (selfTailCode f args k argcode) := by
  have hne : body ≠ [] := by
    intro h; subst h
    cases hpos with
    | step st _ => cases st with | beginLast hl => cases hl
  have hc' : compile isFn ⟨true, 0, f, kn⟩ (.begin_ body) gs = .ok r := by
    cases body with
    | nil => exact absurd rfl hne
    | cons x xs => simpa [compile, bodyCtx] using hc
  obtain ⟨gs1, h1, _⟩ := tail_sequence_layout (k0 := 0) hpos hc'
  simpa using h1 (harity gs1)

/-- (a) The tail flag reaches tail positions only: a call (to the function itself or to
anything else) reached through at least one non-tail step is compiled, as an occurrence of its
own, to exactly one ordinary `CallExpr` — no `PrepareCall`, no `Goto`. -/
theorem tail_flag_only_in_tail_position {isFn : Nat → Bool} {f h : String} {kn : List (String × Nat)}
    {body : List Expr} {args : List Expr} {gs : GS} {r}
    (hpos : NonTailAt (.begin_ body) (.call (.sym h) args))
    (hc : compileBegin isFn (bodyCtx f kn) body gs = .ok r) :
    ∃ k' gs1 r1, compile isFn ⟨false, k', f, kn⟩ (.call (.sym h) args) gs1 = .ok r1 ∧
      r1.1.1 = [Instr.callExpr (.sym h) args] ∧ Seg r.1.1 r1.1.1 := by
  have hc' : compile isFn ⟨true, 0, f, kn⟩ (.begin_ body) gs = .ok r := by
    cases body with
    | nil =>
      cases hpos with
      | nonTail st _ => cases st with | beginInner hm => cases hm
      | tail st _ => cases st with | beginLast hl => cases hl
    | cons x xs => simpa [compile, bodyCtx] using hc
  obtain ⟨k', gs1, r1, h1, hseg⟩ := nonTailAt_emits hpos hc'
  exact ⟨k', gs1, r1, h1, call_off h1, hseg⟩

/-- Every inline occurrence of a self call is compiled one way or the other, and which one is
decided by the path alone. -/
theorem self_call_dichotomy {isFn : Nat → Bool} {f : String} {kn : List (String × Nat)}
    {body : List Expr} {args : List Expr} {gs : GS} {r}
    (hpos : Inline (.begin_ body) (.call (.sym f) args))
    (harity : ∀ gs1 : GS, ArityOk ((kn.lookup f).bind fun t => gs1.fns[t]?) args.length = true)
    (hc : compileBegin isFn (bodyCtx f kn) body gs = .ok r) :
    (∃ k argcode, TailAt k (.begin_ body) (.call (.sym f) args) ∧ Seg r.1.1 (selfTailCode f args k argcode)) ∨
    (NonTailAt (.begin_ body) (.call (.sym f) args) ∧ Seg r.1.1 [Instr.callExpr (.sym f) args]) := by
  rcases inline_dichotomy hpos with ⟨k, hk⟩ | hn
  · obtain ⟨argcode, h⟩ := tail_position_gets_tail_sequence hk harity hc
    exact .inl ⟨k, argcode, hk, h⟩
  · obtain ⟨_, _, r1, _, h2, h3⟩ := tail_flag_only_in_tail_position hn hc
    exact .inr ⟨hn, h2 ▸ h3⟩

/-! ### Non-vacuity -/

/-- `(cond (== n 0) a (let [x 1] (newScope x (and true (f (- n 1) (+ a n))))))` -/
def exBody : List Expr :=
  [.cond [(.call (.sym "==") [.sym "n", .int 0], .sym "a")]
    (.let_ false [("x", .int 1)]
      [.newScope [.sym "x", .and_ [.bool true, .call (.sym "f") [.call (.sym "-") [.sym "n", .int 1], .call (.sym "+") [.sym "a", .sym "n"]]]]])]

def exArgs : List Expr := [.call (.sym "-") [.sym "n", .int 1], .call (.sym "+") [.sym "a", .sym "n"]]

def exCall : Expr := .call (.sym "f") [.call (.sym "-") [.sym "n", .int 1], .call (.sym "+") [.sym "a", .sym "n"]]

/-- the self call of `exBody` is in tail position under two scopes -/
example : TailAt 2 (.begin_ exBody) exCall :=
  TailAt.step (sc := false) (TailStep.beginLast rfl) <|
  TailAt.step (sc := false) TailStep.condDefault <|
  TailAt.step (sc := true) (TailStep.letLast rfl) <|
  TailAt.step (sc := true) (TailStep.newScopeLast rfl) <|
  TailAt.step (sc := false) (TailStep.andLast rfl) TailAt.here

/-- and the generator accepts the body: the hypotheses of the theorems above are satisfiable. -/
example : ∃ r, compileBegin (fun _ => false) (bodyCtx "f" []) exBody ⟨[], [], [], []⟩ = .ok r ∧
    r.1.1.length = 25 ∧ r.1.1 = r.1.1.take 14 ++ selfTailCode "f" exArgs 2 (r.1.1.drop 15 |>.take 2) ++ r.1.1.drop 23 := ⟨_, rfl, by decide, rfl⟩

/-- `(cond (f (- n 1)) 1 2)`: the cond test is reached by a non-tail step -/
example : NonTailAt (.begin_ [.cond [(.call (.sym "f") [.sym "n"], .int 1)] (.int 2)]) (.call (.sym "f") [.sym "n"]) :=
  NonTailAt.tail (TailStep.beginLast rfl) (NonTailAt.nonTail (NonTailStep.condTest (List.mem_singleton.mpr rfl)) Inline.here)

/-! ## (c): space -/

/-- `s` stands at the tail sequence of a self call of `x`: `PrepareCall` succeeds and leaves
the operands `data'` (`np` of them above `d` older slots); `ext` — the `k` extra scopes and the
function scope — lies above `L` on the scope stack; `a` return addresses. -/
structure TailSite (s : St) (x : String) (nargs k np d a : Nat) (L : List (Option Nat)) (data' : List (Option Val)) : Prop where
  code : ∃ p rest, At s p (tailSeq x nargs k ++ rest)
  prep : ∀ n, (exec (n + 1) (.prepareCall x nargs)).run s = (.ok (), { s with pc := s.pc + 1, data := data' })
  operands : data'.length = d + np
  scopes : ∃ ext, s.linear = ext ++ L ∧ ext.length = k + 1
  addr : s.addr.length = a

/-- `s` stands at instruction 0 of function `f` with `np` operands above `d` data slots,
`l` scopes and `a` return addresses: the state right after `CallFunction`. -/
structure Entry (s : St) (f np d l a : Nat) : Prop where
  pc : s.pc = 0
  cur : s.curfunc = f
  data : s.data.length = d + np
  scopes : s.linear.length = l
  addr : s.addr.length = a

/-- the state the tail sequence leads to -/
def reentry (s : St) (L : List (Option Nat)) (data' : List (Option Val)) : St :=
  { s with pc := 0, linear := L, data := data' }

/-- (c) **Segment lemma.** Executing the tail sequence on the real loop: `k+3` steps later the
machine stands at instruction 0 of the same function, with the same data-stack depth
(`d + np`), scope-stack depth (`|L|`) and address-stack depth (`a`) as after the original
call's entry; the scope table, the heap, the trace are untouched. -/
theorem tail_call_reenters_at_entry_depths {s : St} {x : String} {nargs k np d a : Nat}
    {L : List (Option Nat)} {data' : List (Option Val)} (h : TailSite s x nargs k np d a L data') :
    (∀ fuel st, (runLoop (fuel + 1 + (k + 3)) st).run s = (runLoop (fuel + 1) st).run (reentry s L data')) ∧
    Entry (reentry s L data') s.curfunc np d L.length a ∧
    (reentry s L data').scopes = s.scopes ∧ (reentry s L data').heap = s.heap ∧
    (reentry s L data').trace = s.trace ∧ (reentry s L data').fns = s.fns := by
  obtain ⟨p, rest, hat⟩ := h.code
  obtain ⟨ext, hlin, he⟩ := h.scopes
  refine ⟨fun fuel st => tail_sequence st fuel s p x nargs k rest ext L data' hat h.prep hlin he,
    ⟨rfl, rfl, h.operands, rfl, h.addr⟩, rfl, rfl, rfl, rfl⟩

/-- The balance assumption about a body (a relation `body E T`: "from the entry state `E` the
body runs to the tail sequence, reached in state `T`"): started at an entry with the depths
`(d+np, l, a)` it reaches a tail sequence of the same function with the operands above the
same `d` slots, the function scope and some `k` extra scopes above the same `l` scopes, and
the same `a` return addresses. This is what C04's `gen_balanced`/`checker_sound` say about
generated code; the `probe` oracle of channel `tail` checks it on the implementation (and on
the model) at every iteration. -/
def BodyBalanced (body : St → St → Prop) (f np d l a : Nat) : Prop :=
  ∀ E T, Entry E f np d l a → body E T →
    T.curfunc = f ∧ ∃ x nargs k L data', TailSite T x nargs k np d a L data' ∧ L.length = l

/-- `n` iterations of a tail-recursive function: from an entry state the body runs to a tail
sequence (state `T`), and the tail sequence leads to the next entry state — `reentry T L data'`
for whatever tail site `T` is (by `tail_call_reenters_at_entry_depths` that is where the
real loop `runLoop` continues). -/
inductive Iterations (body : St → St → Prop) (np d a : Nat) : Nat → St → St → Prop
  | zero {E : St} : Iterations body np d a 0 E E
  | succ {n : Nat} {E E' T E'' : St} :
      Iterations body np d a n E E' → body E' T →
      (∀ x nargs k L data', TailSite T x nargs k np d a L data' → E'' = reentry T L data') →
      Iterations body np d a (n + 1) E E''

/-- one successful step of the loop `runLoop` -/
def VmStep (s s' : St) : Prop :=
  ∃ fuel i, ¬ (s.pc = -1 ∨ s.pc ≥ curSize s) ∧ (fnOf s s.curfunc).code[s.pc.toNat]? = some i ∧
    (exec (fuel + 1) i).run s = (.ok (), s')

inductive VmReach : St → St → Prop
  | refl {s : St} : VmReach s s
  | step {s s' s'' : St} : VmStep s s' → VmReach s' s'' → VmReach s s''

/-- the body stretch of one activation of `f`, as the machine runs it: from `E` to a state
of the same activation (same function, same address-stack depth) that stands at a tail sequence -/
def vmBody (f : Nat) (E T : St) : Prop :=
  VmReach E T ∧ T.curfunc = f ∧ T.addr.length = E.addr.length ∧
    ∃ x nargs k p rest, At T p (tailSeq x nargs k ++ rest)

/-- `s0` is the initial interpreter with the program `p` loaded (as `VM.runText` does it) -/
def Loaded (p : List Expr) (s0 : St) : Prop :=
  ∃ code t s1, (runGen (compileBegin (isFnScope initSt) {} p)).run initSt = (.ok (code, t), s1) ∧
    s0 = { s1 with fns := s1.fns.set mainFn { (fnOf s1 mainFn) with code := (fnOf s1 mainFn).code ++ code }, curfunc := mainFn }

/-- The statement of (c) **as first written. It is FALSE**, for two reasons, both in
`Iterations (vmBody f)`:

* `vmBody f E T` only asks `T` to be a later state in function `f` at the address-stack depth of
  `E`. That does not make `T` a state of the activation entered at `E`: the activation may have
  returned and `f` been called again from the same caller. With
  `(defn f [n] (cond (== n 0) 0 (f (- n 1))))` and the top-level text `(let [a (f 1) b (f 2)] a)`
  the second call of `f` is made with the value of `(f 1)` still on the data stack below its
  operand (the initialisers of a parallel `let` are all pushed before any is bound), so the tail
  site `T` of the second activation has one more data slot below its operands than the entry `E`
  of the first — and `vmBody f E T` holds.
* for such a `T` no `TailSite T x nargs k np d a L data'` with the `np`, `d` of the iteration
  exists (`operands` fails), so the premise of `Iterations.succ` that ties `E''` to the tail
  site is vacuous: `Iterations (vmBody f) np d a 1 E E''` then holds for EVERY state `E''`.

The repaired statement is `TailCallConstantSpace` below (`vmBodyAct`, `TailIterations`: the run
never goes below the address depth of the entry in between, and the successor state is the
state the tail sequence leads to). A machine-checked refutation of this one needs a concrete
run of the program above (some forty VM steps through `callExpr`'s nested runs); it is not
given. -/
def TailCallConstantSpace_asFirstStated : Prop :=
  ∀ (p : List Expr) (s0 : St), Loaded p s0 →
    ∀ (f np d l a n : Nat) (E E' : St), VmReach s0 E → Entry E f np d l a →
      Iterations (vmBody f) np d a n E E' → Entry E' f np d l a

/-- (c) By induction on the number of iterations: the data, scope and address stack depths at
every re-entry equal those of the first entry — space is independent of the recursion depth.
Partial: `BodyBalanced` (the body between an entry and the next tail sequence is balanced)
is a hypothesis here; it is not derived from the generator (that derivation is C04's
`gen_balanced` + `checker_sound`). -/
theorem tail_call_constant_space_partial (body : St → St → Prop) (f np d l a : Nat)
    (hbal : BodyBalanced body f np d l a) :
    ∀ n E E', Entry E f np d l a → Iterations body np d a n E E' → Entry E' f np d l a := by
  intro n E E' hE hit
  induction hit with
  | zero => exact hE
  | succ _ hb hnext ih =>
    obtain ⟨hcur, x, nargs, k, L, data', hsite, hL⟩ := hbal _ _ (ih hE) hb
    rw [hnext x nargs k L data' hsite]
    have := (tail_call_reenters_at_entry_depths hsite).2.1
    rw [hcur, hL] at this
    exact this


/-! ### (c) with the balance of the body derived from C04 -/

/- `Refine.cellOf`, `Refine.absC`, `Refine.fnB` (Proofs/VMRefine.lean): the state of the stack-effect
machine a VM state stands for (pc, kinds of the cells on the data stack, depths of the scope and
address stacks) and entry `f` of the function table as the balance checker sees it. -/
open ZygoVerif.Refine

/-- The body stretch `E → T` of one activation of `f` as the VM runs it (`vmBody`), **matched by
a run of the stack-effect machine** of the same function: the function is one the verifier
accepts (C04 `gen_balanced_functions`: every template the generator makes is), it was entered
with its `np` formals' worth of values on top, it is still the same function at `T`, the
abstraction of `T` is reachable from the abstraction of `E` in the stack-effect machine, and
`PrepareCall` at the tail site succeeds as a step of that machine. `run` and `prep` are the
refinement "every `VM.exec` step of an activation is a `Bal.CStep`" (calls as one step, by the
calling contract) — proved instruction by instruction in Proofs/VMRefine.lean
(`Refine.exec_refines_partial` and the `refines_*` lemmas: every instruction but `callArr`,
`callExpr`, `ret`), NOT for the VM model as a whole (nested runs); `prep_of_fixed` below proves
`prep` for functions without a rest parameter, `Refine.refines_prepareCall` in general. -/
structure MatchedBody (f np : Nat) (E T : St) : Prop where
  vm : vmBody f E T
  verified : ∃ ann, Bal.verify (fnB E f) ann = true
  arity : (fnOf E f).params.length = np
  args : ∃ D, (absC E).data = List.replicate np .val ++ D
  same : fnOf T f = fnOf E f ∧ T.loops = E.loops
  run : Bal.Reach (fnB E f) (absC E) (absC T)
  prep : ∀ x nargs, (fnOf T T.curfunc).code[T.pc.toNat]? = some (.prepareCall x nargs) →
    ∃ data', (∀ n, (exec (n + 1) (.prepareCall x nargs)).run T = (.ok (), { T with pc := T.pc + 1, data := data' })) ∧
      Bal.CStep (fnB E f) (absC T) (absC { T with pc := T.pc + 1, data := data' })

theorem B_tailSeq (T : List LoopRec) (x : String) (nargs k : Nat) :
    Bal.B T (tailSeq x nargs k) = [.prepareCall nargs] ++ List.replicate (k + 1) .removeScope ++ [.goto 0] := by
  simp [tailSeq, Bal.B, Bal.toB, List.map_replicate]

/-- **C09's balance hypothesis, discharged by C04.** For a body stretch that is matched by the
stack-effect machine, `BodyBalanced` holds — from `Bal.tail_site_depths` (any verified
function: at a tail sequence `k+1` scopes are open above the caller's, behind `PrepareCall`
exactly the formals' worth of operands lie on the caller's data). -/
theorem bodyBalanced_of_matched (f np d l a : Nat) : BodyBalanced (MatchedBody f np) f np d l a := by
  intro E T hE hm
  obtain ⟨hreach, hcur, haddr, x, nargs, k, p, rest, hat⟩ := hm.vm
  obtain ⟨ann, hv⟩ := hm.verified
  obtain ⟨D, hD⟩ := hm.args
  obtain ⟨h1, h2, h3⟩ := hat.code.head
  have hfetch : (fnOf T T.curfunc).code[T.pc.toNat]? = some (.prepareCall x nargs) := by
    rw [hat.pc]; simpa [tailSeq] using h1
  obtain ⟨data', hprep, hcstep⟩ := hm.prep x nargs hfetch
  -- the tail sequence sits in the checker's listing at the abstract pc
  have hcode : Bal.CodeAtB (fnB E f).code (absC T).pc
      ([.prepareCall nargs] ++ List.replicate (k + 1) .removeScope ++ [.goto 0]) := by
    obtain ⟨pre, post, hc, hpl⟩ := hat.code
    have hcodeT : (fnOf E f).code = pre ++ (tailSeq x nargs k ++ rest) ++ post := by
      rw [← hm.same.1, ← hcur]; exact hc
    intro i hi
    have hpc : (absC T).pc = pre.length := by
      show T.pc.toNat = _
      rw [hat.pc, hpl]; simp
    rw [hpc]
    show (Bal.B E.loops (fnOf E f).code)[pre.length + i]? = _
    rw [hcodeT]
    simp only [Bal.B, List.map_append]
    rw [List.append_assoc, List.getElem?_append_right (by simp)]
    simp only [List.length_map, Nat.add_sub_cancel_left]
    rw [List.append_assoc, List.getElem?_append_left (by
      have := B_tailSeq E.loops x nargs k
      simp only [Bal.B] at this
      rw [this]; exact hi)]
    have := B_tailSeq E.loops x nargs k
    simp only [Bal.B] at this
    rw [this]
  have hE0 : (absC E).pc = 0 := by show E.pc.toNat = 0; rw [hE.pc]; rfl
  have hent : (fnB E f).entryCount = np := hm.arity
  obtain ⟨hsc, _, _, hnext⟩ := Bal.tail_site_depths (fnB E f) ann hv D l a (absC E) (absC T) hE0
    (by rw [hent]; exact hD) hE.scopes hE.addr hm.run nargs k hcode
  obtain ⟨_, hdata', _, _⟩ := hnext _ hcstep
  have hlenE : d + np = np + D.length := by
    have := congrArg List.length hD
    simp only [absC, List.length_map, List.length_append, List.length_replicate] at this
    rw [← this, hE.data]
  have hlenT : data'.length = np + D.length := by
    have := congrArg List.length hdata'
    simp only [absC, List.length_map, List.length_append, List.length_replicate, hent] at this
    exact this
  have hlin : T.linear.length = l + (k + 1) := hsc
  refine ⟨hcur, x, nargs, k, T.linear.drop (k + 1), data', ⟨⟨p, rest, hat⟩, hprep, by omega,
    ⟨T.linear.take (k + 1), (List.take_append_drop _ _).symm, by rw [List.length_take]; omega⟩,
    by rw [haddr]; exact hE.addr⟩, by rw [List.length_drop]; omega⟩

/-- **(c) without the balance hypothesis**: by induction on the number of iterations, with the
balance of every body stretch derived from the verifier (C04) instead of assumed. What is
still assumed, per iteration, is inside `MatchedBody`: that the VM's run of the stretch is a
run of the stack-effect machine (the refinement of `VM.exec` by `Bal.CStep`). See
`tail_call_constant_space_same_activation` below for the version in which that refinement is
proved (C04's calling contract) instead of assumed. -/
theorem tail_call_constant_space (f np d l a : Nat) :
    ∀ n E E', Entry E f np d l a → Iterations (MatchedBody f np) np d a n E E' → Entry E' f np d l a :=
  tail_call_constant_space_partial (MatchedBody f np) f np d l a (bodyBalanced_of_matched f np d l a)

/-- the `prep` field of `MatchedBody` for a function without a rest parameter: `PrepareCall`
leaves the operands alone, which is the step `prepareFix` of the stack-effect machine -/
theorem prep_of_fixed (f : Nat) (E T : St) (hcur : T.curfunc = f) (hsame : fnOf T f = fnOf E f ∧ T.loops = E.loops)
    (hpc : 0 ≤ T.pc) (hv : (fnOf T T.curfunc).varargs = false) (x : String) (nargs : Nat)
    (hf : (fnOf T T.curfunc).code[T.pc.toNat]? = some (.prepareCall x nargs)) :
    ∃ data', (∀ n, (exec (n + 1) (.prepareCall x nargs)).run T = (.ok (), { T with pc := T.pc + 1, data := data' })) ∧
      Bal.CStep (fnB E f) (absC T) (absC { T with pc := T.pc + 1, data := data' }) := by
  refine ⟨T.data, fun n => by simpa using exec_prepareCall_fixed n T x nargs hv, ?_⟩
  have hcode : (fnB E f).code[(absC T).pc]? = some (.prepareCall nargs) := by
    show (Bal.B E.loops (fnOf E f).code)[T.pc.toNat]? = _
    rw [← hsame.1, ← hcur]
    simp only [Bal.B, List.getElem?_map, hf]
    rfl
  have hva : (fnB E f).varargs = false := by
    show (fnOf E f).varargs = false
    rw [← hsame.1, ← hcur]; exact hv
  have := Bal.CStep.prepareFix (f := fnB E f) (absC T) (.prepareCall nargs) nargs hcode rfl hva
  have hst : absC { T with pc := T.pc + 1, data := T.data } = { absC T with pc := (absC T).pc + 1 } := by
    simp only [absC]
    congr 1
    omega
  rw [hst]
  exact this

/-- the `verified` field of `MatchedBody` for every function object that has the signature and the
code of a template the model generator produced (closures are copies of their template): C04's
`gen_balanced` — by induction over the expression grammar, every `fn`/`defn` body of the covered
grammar (`Bal.okLs`: all core forms, loops, break/continue, nested functions, self tail calls)
is a verified function. -/
theorem verified_of_generated (isFn : Nat → Bool) (es : List Expr) (gs gs' : GS) (code : List Instr) (t : Bool)
    (hok : Bal.okLs es = true) (hgs : Bal.GSok gs)
    (h : compileBegin isFn {} es gs = Except.ok ((code, t), gs'))
    (i : Nat) (tm : FnObj) (hi : gs.fns.length ≤ i) (htm : gs'.fns[i]? = some tm)
    (E : St) (f : Nat) (hc : (fnOf E f).code = tm.code) (hp : (fnOf E f).params.length = tm.params.length)
    (hva : (fnOf E f).varargs = tm.varargs) (hna : (fnOf E f).nargs = tm.nargs) (hl : E.loops = gs'.loops) :
    ∃ ann, Bal.verify (fnB E f) ann = true := by
  have := (Bal.program_verified isFn es gs gs' code t gs'.loops hok hgs (Bal.TOk.self gs gs') h).2 i tm hi htm
  unfold Bal.FnVerified at this
  unfold fnB
  rw [hc, hp, hva, hna, hl]
  exact this

open ZygoVerif.LegacyTail in
/-- Non-vacuity of `MatchedBody`: the concrete tail site `LegacyTail.atTailCall` (function 2 =
`(defn f [n] … (f (- n 1)))` with the guard of fix C09-02, one operand pushed) as a stretch of
zero steps: the verifier accepts the function as the checker sees it (`decide`), one value lies
on top, `PrepareCall` succeeds as a `prepareFix` step. -/
example : MatchedBody 2 1 atTailCall atTailCall where
  vm := ⟨VmReach.refl, rfl, rfl, "f", 1, 0, 4, [.callExpr (.sym "f") [.sym "n"], .removeScope, .ret],
    ⟨rfl, rfl, [.addFuncScope 2, .popStackPutEnv "n", .tailGuard "f" 5, .envToStack "n"], [], rfl, rfl⟩⟩
  verified := by
    apply Bal.check_verifies
    have hb : Bal.checkB (fnB atTailCall 2) = true := by decide
    unfold Bal.checkB at hb
    split at hb
    · rename_i u hu; cases u; exact hu
    · cases hb
  arity := rfl
  args := ⟨[], rfl⟩
  same := ⟨rfl, rfl⟩
  run := Bal.Reach.refl _
  prep := fun x nargs hf => prep_of_fixed 2 atTailCall atTailCall rfl ⟨rfl, rfl⟩ (by decide) rfl x nargs hf

/-! ### (c) repaired: the same activation, with the refinement proved

`RunInv.ReachAbove a s s'` (Proofs/RunAct.lean): `s'` is reached from `s` by successful steps of
the loop, and no state on the way — `s`, `s'` included — has fewer than `a` return addresses.
A `Ret` of the activation entered with `a` return addresses pops one of them, so a stretch that
stays above `a` never leaves that activation (it may call, and come back; it may take the tail
sequence any number of times). -/

theorem vmStep_iff (s s' : St) : VmStep s s' ↔ RunInv.VmStep s s' := Iff.rfl

theorem vmReach_of_above {a : Nat} {s s' : St} (h : RunInv.ReachAbove a s s') : VmReach s s' := by
  induction h with
  | refl _ => exact .refl
  | step _ hv _ ih => exact .step hv ih

/-- the body stretch of ONE activation of `f`: as `vmBody`, and the address stack is never
shorter than at the entry `E` in between -/
def vmBodyAct (f : Nat) (E T : St) : Prop :=
  RunInv.ReachAbove E.addr.length E T ∧ T.curfunc = f ∧ T.addr.length = E.addr.length ∧
    ∃ x nargs k p rest, At T p (tailSeq x nargs k ++ rest)

theorem vmBody_of_act {f : Nat} {E T : St} (h : vmBodyAct f E T) : vmBody f E T :=
  ⟨vmReach_of_above h.1, h.2.1, h.2.2.1, h.2.2.2⟩

/-- `n` iterations of one activation through its tail sequence: from the entry `E` the run
reaches — without ever going below the address depth of `E` — a state `T` that stands at a tail
sequence whose `PrepareCall` succeeds (`TailSite`, with whatever depths), and the next entry is
the state that tail sequence leads to. Unlike `Iterations`, the successor is a state the
machine really reaches (`tailIterations_reach`), never an arbitrary one. -/
inductive TailIterations (E : St) : Nat → St → Prop
  | zero : TailIterations E 0 E
  | succ {n : Nat} {E' T : St} {x : String} {nargs k np d a : Nat} {L : List (Option Nat)} {data' : List (Option Val)} :
      TailIterations E n E' → RunInv.ReachAbove E.addr.length E' T → T.addr.length = E.addr.length →
      TailSite T x nargs k np d a L data' → TailIterations E (n + 1) (reentry T L data')

/-- what `TailIterations` relates are states of the run: the machine gets from `E` to `E'` by
successful steps without going below the address depth of `E`, and `E'` is again at
instruction 0 at that depth. -/
theorem tailIterations_reach {E : St} (hpc : E.pc = 0) :
    ∀ {n E'}, TailIterations E n E' →
      RunInv.ReachAbove E.addr.length E E' ∧ E'.addr.length = E.addr.length ∧ E'.pc = 0 := by
  intro n E' h
  induction h with
  | zero => exact ⟨.refl (Nat.le_refl _), rfl, hpc⟩
  | succ _ hb ha hs ih =>
    obtain ⟨p, rest, hat⟩ := hs.code
    obtain ⟨ext, hlin, he⟩ := hs.scopes
    have := RunInv.tailSeq_reachAbove _ p _ _ _ rest ext _ _ hat hs.prep hlin he
    rw [ha] at this
    exact ⟨ih.1.trans (hb.trans this), ha, rfl⟩

/-- **The full statement of (c), repaired**: in every run of every program of the model
generator's grammar (`Bal.okLs`), every re-entry of an activation through its tail sequence has
the data, scope and address stack depths of the entry `E` of that activation (`0 < a`: a called
function, not the top-level text, which has no return address) — whatever the number of iterations, whatever the body does in between (calls, callees that take tail sequences
of their own, closures, loops). PROVED: `tail_call_constant_space_full`, from
`tail_call_constant_space_same_activation` (the same conclusion for every entry state that
satisfies C04's run-time invariant `RunInv.WF` + `RunInv.Running`) and `loaded_invariant` (every
state a loaded program of the grammar reaches satisfies that invariant: the top-level text is
the bottom activation, C04's `run_at_rest` machinery). -/
def TailCallConstantSpace : Prop :=
  ∀ (p : List Expr) (s0 : St), Bal.okLs p = true → Loaded p s0 →
    ∀ (f np d l a n : Nat) (E E' : St), VmReach s0 E → Entry E f np d l a → 0 < a →
      TailIterations E n E' → Entry E' f np d l a

/-- (c) for the same activation, **no balance hypothesis, no refinement hypothesis**: `E` is the
entry (instruction 0) of the running activation `top` of a state that satisfies the run-time
invariant of C04's calling contract — every function object verified by the balance checker,
the activations below described by `Running`'s chain. Then every state the run is in at
instruction 0 at the address depth of `E`, without having gone below it, is in the same
function with exactly the data and scope stack depths of `E`. By `RunInv.reentry_depths`: the
invariant is kept by every step (`RunInv.allSpec'`, all 13 functions of the VM's mutual block,
nested runs included), an activation pushed above `top` has a longer address stack, and at
instruction 0 the verifier's entry annotation fixes the depths. -/
theorem reentry_has_entry_depths (b : RunInv.Base) (E E' : St) (top : RunInv.Act) (rest : List RunInv.Act)
    (hw : RunInv.WF E) (hr : RunInv.Running b E top rest) (f np d l a : Nat) (hE : Entry E f np d l a) (ha0 : 0 < a)
    (hreach : RunInv.ReachAbove a E E') (ha : E'.addr.length = a) (hpc : E'.pc = 0) :
    Entry E' f np d l a ∧ RunInv.WF E' ∧ RunInv.Running b E' top rest := by
  obtain ⟨h1, h2, h3, h4, h5⟩ := RunInv.reentry_depths b E E' top rest hw hr hE.pc
    (by intro h; have := hE.addr; rw [h] at this; simp at this; omega)
    (by rw [hE.addr]; exact hreach) (by rw [ha, hE.addr]) hpc
  exact ⟨⟨hpc, h3.trans hE.cur, h4.trans hE.data, h5.trans hE.scopes, ha⟩, h1, h2⟩

/-- (c), by the number of iterations: every re-entry of the activation through a tail sequence
has the depths of its first entry. -/
theorem tail_call_constant_space_same_activation (b : RunInv.Base) (E : St) (top : RunInv.Act) (rest : List RunInv.Act)
    (hw : RunInv.WF E) (hr : RunInv.Running b E top rest) (f np d l a : Nat) (hE : Entry E f np d l a) (ha0 : 0 < a) :
    ∀ n E', TailIterations E n E' → Entry E' f np d l a := by
  intro n E' hit
  obtain ⟨h1, h2, h3⟩ := tailIterations_reach hE.pc hit
  rw [hE.addr] at h1 h2
  exact (reentry_has_entry_depths b E E' top rest hw hr f np d l a hE ha0 h1 h2 h3).1

/-- from the same-activation theorem to `TailCallConstantSpace`: the invariant at the entry
states of loaded programs (discharged by `loaded_invariant` below). -/
theorem tailCallConstantSpace_of_invariant
    (hinv : ∀ (p : List Expr) (s0 : St), Bal.okLs p = true → Loaded p s0 → ∀ E, VmReach s0 E → E.pc = 0 →
      RunInv.WF E ∧ ∃ b top rest, RunInv.Running b E top rest) :
    TailCallConstantSpace := by
  intro p s0 hok hl f np d l a n E E' hreach hE ha0 hit
  obtain ⟨hw, b, top, rest, hr⟩ := hinv p s0 hok hl E hreach hE.pc
  exact tail_call_constant_space_same_activation b E top rest hw hr f np d l a hE ha0 n E' hit

/-- the fresh interpreter satisfies the table invariant -/
theorem wf_initSt : RunInv.WF initSt := by
  refine ⟨fun id h2 hl => ?_, by decide, rfl, ?_, (fun a ha => by cases ha), (fun lz hlz => by cases hlz), (fun c hc => by cases hc)⟩
  · have : initSt.fns.length = 2 := rfl
    omega
  · intro sc hsc p hp
    simp only [initSt, List.mem_cons, List.mem_nil_iff, or_false] at hsc
    subst hsc
    simp only [List.mem_append, List.mem_cons, List.mem_nil_iff, or_false, List.mem_map] at hp
    rcases hp with (rfl | rfl) | ⟨nm, _, rfl⟩ <;> rfl

/-- **Every state a loaded program of the grammar reaches satisfies the run-time invariant**: the
table invariant holds and the loop is `Running`, with the top-level text (`mainfunc` from its
old end on) as the bottom activation. From C04's `RunInv.load_ok` (the generator keeps the table
invariant and the text's code is a balanced fragment), `RunInv.loaded_running` (the fragment
placed in `mainfunc`) and the calling contract step by step (`RunInv.holds_step`). -/
theorem loaded_invariant (p : List Expr) (s0 : St) (hok : Bal.okLs p = true) (hl : Loaded p s0) :
    ∀ E, VmReach s0 E → RunInv.WF E ∧ ∃ b top rest, RunInv.Running b E top rest := by
  obtain ⟨code, t, s1, hload, rfl⟩ := hl
  obtain ⟨hw1, he1, d1, l1, a1, c1, p1, _, hcode, hids, as, τ, hfrag, h0, _⟩ :=
    RunInv.load_ok (isFnScope initSt) p code t wf_initSt hok hload
  have hfo : fnOf s1 mainFn = fnOf initSt mainFn := he1.fnOf mainFn (by decide)
  obtain ⟨b, a0, _, hA, _, hh⟩ := RunInv.loaded_running (s1 := s1) code as initSt.loops.length hw1 (by rw [d1]; rfl) (by rw [a1]; rfl)
    (by rw [hfo]; rfl) (by rw [hfo]; exact Bal.AllOK.nil _) (by rw [hfo]; exact Bal.idsIn_nil _ _) hids he1.loops_len
    (by rw [p1, hfo]; rfl) hcode hfrag h0
  intro E hreach
  have : RunInv.Holds b a0 [] E := by
    change VmReach (RunInv.loaded s1 code) E at hreach
    generalize RunInv.loaded s1 code = s at hh hreach
    induction hreach with
    | refl => exact hh
    | step hv _ ih => exact ih (RunInv.holds_step hh hv (by rw [hA]; exact Nat.zero_le _))
  obtain ⟨hw, _, top, rest, hr, _⟩ := this
  exact ⟨hw, b, top, rest, hr⟩

/-- **(c), the repaired full statement, proved**: in every run of every program of the model
generator's grammar, every re-entry of a function activation through its tail sequence has the
data, scope and address stack depths of the entry of that activation, whatever the number of
iterations. -/
theorem tail_call_constant_space_full : TailCallConstantSpace :=
  tailCallConstantSpace_of_invariant (fun p s0 hok hl E hr _ => loaded_invariant p s0 hok hl E hr)

/-- the repaired body relation is the old one plus the condition on the way -/
example (f : Nat) (E T : St) (h : vmBodyAct f E T) : vmBody f E T := vmBody_of_act h

/-! #### Non-vacuity of the hypotheses of `tail_call_constant_space_same_activation` -/

/-- `(defn f [n] … (f (- n 1)))` just called from the top level with the operand `3`: the state
right after `CallFunction` -/
def exEntry : St :=
  { fns := [ { name := "__main", closing := [some 0] },
             { name := "builtin", user := true },
             { name := "f", nargs := 1, params := ["n"], closing := [some 0],
               code := [.addFuncScope 2, .popStackPutEnv "n", .tailGuard "f" 5, .envToStack "n", .prepareCall "f" 1, .removeScope, .goto 0,
                        .callExpr (.sym "f") [.sym "n"], .removeScope, .ret] } ],
    scopes := [ { vars := [("f", .fn 2)] } ],
    linear := [some 0],
    data := [some (intOfLit 3)],
    addr := [some (0, 5)],
    curfunc := 2, pc := 0 }

theorem exEntry_good : RunInv.FnGood exEntry 2 where
  user := rfl
  sig := rfl
  code := by
    intro i hi
    have hc : (fnOf exEntry 2).code = [.addFuncScope 2, .popStackPutEnv "n", .tailGuard "f" 5, .envToStack "n", .prepareCall "f" 1, .removeScope, .goto 0,
                        .callExpr (.sym "f") [.sym "n"], .removeScope, .ret] := rfl
    rw [hc] at hi
    simp only [List.mem_cons, List.not_mem_nil, or_false] at hi
    rcases hi with rfl | rfl | rfl | rfl | rfl | rfl | rfl | rfl | rfl | rfl <;> decide +kernel
  verified := by
    apply Bal.check_verifies
    have hb : Bal.checkB (fnB exEntry 2) = true := by decide
    unfold Bal.checkB at hb
    split at hb
    · rename_i u hu; cases u; exact hu
    · cases hb

theorem exEntry_wf : RunInv.WF exEntry where
  fns := by
    intro id h2 h3
    have : id = 2 := by simp only [exEntry, List.length_cons, List.length_nil] at h3; omega
    subst this
    exact exEntry_good
  two := by decide
  loopstack := rfl
  scopes := by
    intro sc hsc p hp
    simp only [exEntry, List.mem_cons, List.not_mem_nil, or_false] at hsc
    subst hsc
    simp only [List.mem_cons, List.not_mem_nil, or_false] at hp
    subst hp
    decide
  heap := by intro a ha; cases ha
  lazies := by intro lz hlz; cases hlz
  data := by
    intro c hc
    simp only [exEntry, List.mem_cons, List.not_mem_nil, or_false] at hc
    subst hc
    rfl

/-- the hypotheses of `tail_call_constant_space_same_activation` hold of `exEntry`: it is
well-formed, it is the entry of an activation of function 2 (one operand above nothing, one
scope, one return address) running above the top level (`Base`: at instruction 4 of `__main`). -/
example : ∃ b top rest, RunInv.WF exEntry ∧ RunInv.Running b exEntry top rest ∧ Entry exEntry 2 1 0 1 1 ∧
    TailIterations exEntry 0 exEntry := by
  obtain ⟨ann, hV, hact⟩ := RunInv.actOK_of_good exEntry_good (by decide)
  refine ⟨⟨[], [some 0], [], 0, 4, false⟩, ⟨2, ann, [], 1, 1⟩, [], exEntry_wf, ?_, ⟨rfl, rfl, rfl, rfl, rfl⟩, .zero⟩
  exact ⟨rfl, by decide, Bal.inv_entry _ ann hV [] 1 1 _ rfl rfl rfl rfl, hact _ _ _, ⟨rfl, rfl, rfl⟩, List.suffix_refl _⟩

open ZygoVerif.LegacyTail in
/-- and the step of `TailIterations` is taken at the concrete tail site `LegacyTail.atTailCall`
(the same function three instructions later: guard passed, operand pushed): `PrepareCall`
succeeds there, the function scope lies above the caller's, and the next state is the
re-entry at instruction 0. -/
example : TailIterations atTailCall 1 (reentry atTailCall [some 0] [some (intOfLit 2)]) :=
  .succ (x := "f") (nargs := 1) (k := 0) (np := 1) (d := 0) (a := 1) .zero (.refl (Nat.le_refl _)) rfl
    ⟨⟨4, [.callExpr (.sym "f") [.sym "n"], .removeScope, .ret],
        ⟨rfl, rfl, [.addFuncScope 2, .popStackPutEnv "n", .tailGuard "f" 5, .envToStack "n"], [], rfl, rfl⟩⟩,
      fun n => exec_prepareCall_fixed n atTailCall "f" 1 rfl, rfl, ⟨[some 1], rfl, rfl⟩, rfl⟩

/-! ### The guard (fix C09-02): jump only while the name still denotes the running function -/

/-- The guard falls through — and the tail sequence is taken, in constant space — exactly when
the name, looked up before the operands are evaluated (as an ordinary call resolves its callee
first), denotes the function object that is running. One step of the real loop; nothing but
`pc` changes. -/
theorem tail_guard_passes (st : CtlState) (fuel : Nat) (s : St) (p : Nat) (x : String) (args : List Expr)
    (k : Nat) (argcode rest : List Instr) (sid : Nat)
    (hat : At s p (selfTailCode x args k argcode ++ rest))
    (hself : lexLookup s x = some (sid, .fn s.curfunc)) :
    (runLoop (fuel + 2) st).run s = (runLoop (fuel + 1) st).run { s with pc := s.pc + 1 } ∧
    At { s with pc := s.pc + 1 } (p + 1) (argcode ++ tailSeq x args.length k ++ [Instr.callExpr (.sym x) args] ++ rest) := by
  have hat' : At s p (Instr.tailGuard x (argcode.length + k + 4) ::
      (argcode ++ tailSeq x args.length k ++ [Instr.callExpr (.sym x) args] ++ rest)) := by
    simpa [selfTailCode, List.append_assoc] using hat
  exact ⟨runLoop_at (fuel + 1) st hat' (exec_tailGuard_self fuel s x _ sid hself),
    hat'.next rfl rfl rfl⟩

/-- **Fallback.** When the name no longer denotes the running function — it was rebound, at
run time, to a non-function, to another function, to another closure of the same template, or
unbound — the guard skips the operands, `PrepareCall`, every `RemoveScope` and the `Goto`: one
step later the machine stands, with all four stacks, the scope table and the heap untouched,
at the instruction `CallExpr x args` — the very instruction the generator emits for the same
call in a non-tail position (`Tail.call_off`). From there on the tail call *is* the ordinary
call: callee resolved again, operands evaluated by it, arity and type errors as usual, the
value left on the stack, the enclosing forms' epilogues, `RemoveScope` of the function scope
and `Return` still ahead. -/
theorem tail_call_falls_back_to_ordinary_call (st : CtlState) (fuel : Nat) (s : St) (p : Nat) (x : String)
    (args : List Expr) (k : Nat) (argcode rest : List Instr)
    (hat : At s p (selfTailCode x args k argcode ++ rest))
    (hother : ∀ sid, lexLookup s x ≠ some (sid, .fn s.curfunc)) :
    (runLoop (fuel + 2) st).run s =
      (runLoop (fuel + 1) st).run { s with pc := s.pc + ((argcode.length + k + 4 : Nat) : Int) } ∧
    At { s with pc := s.pc + ((argcode.length + k + 4 : Nat) : Int) } (p + (argcode.length + k + 4))
      (Instr.callExpr (.sym x) args :: rest) := by
  have hat' : At s p (Instr.tailGuard x (argcode.length + k + 4) ::
      (argcode ++ tailSeq x args.length k ++ [Instr.callExpr (.sym x) args] ++ rest)) := by
    simpa [selfTailCode, List.append_assoc] using hat
  refine ⟨runLoop_at (fuel + 1) st hat' (exec_tailGuard_other fuel s x _ hother), ?_⟩
  obtain ⟨pre, post, hcode, hlen⟩ := hat.code
  refine ⟨by simp [hat.pc], hat.compiled, ?_⟩
  refine ⟨pre ++ ([Instr.tailGuard x (argcode.length + k + 4)] ++ argcode ++ tailSeq x args.length k), post, ?_, ?_⟩
  · show (fnOf s s.curfunc).code = _
    rw [hcode]
    simp [selfTailCode, List.append_assoc]
  · simp [tailSeq, hlen]; omega

open ZygoVerif.LegacyTail in
/-- `atTailCall` moved back to its guard, operands not yet pushed -/
def atGuard : St := { atTailCall with pc := 2, data := [] }

/-- the same, after someone outside the body did `(set f 7)` -/
def atGuardRebound : St :=
  { atGuard with scopes := [ { vars := [("f", intOfLit 7)] },
                             { vars := [("n", intOfLit 3)], isFunction := true, myFunction := some 2 } ] }

/-- the hypotheses of `tail_guard_passes` are satisfiable … -/
example : At atGuard 2 (selfTailCode "f" [.sym "n"] 0 [.envToStack "n"] ++ [.removeScope, .ret]) ∧
    lexLookup atGuard "f" = some (0, .fn atGuard.curfunc) :=
  ⟨⟨rfl, rfl, [.addFuncScope 2, .popStackPutEnv "n"], [], rfl, rfl⟩, by decide⟩

/-- … and so are those of `tail_call_falls_back_to_ordinary_call` -/
example : At atGuardRebound 2 (selfTailCode "f" [.sym "n"] 0 [.envToStack "n"] ++ [.removeScope, .ret]) ∧
    ∀ sid, lexLookup atGuardRebound "f" ≠ some (sid, .fn atGuardRebound.curfunc) := by
  refine ⟨⟨rfl, rfl, [.addFuncScope 2, .popStackPutEnv "n"], [], rfl, rfl⟩, ?_⟩
  intro sid h
  have h7 : lexLookup atGuardRebound "f" = some (0, intOfLit 7) := by decide
  rw [h7] at h
  cases h

/-! ### Non-vacuity of (c): a concrete tail site -/

open ZygoVerif.LegacyTail in
/-- `LegacyTail.atTailCall` (the body of `(defn f [n] … (f (- n 1)))` at its tail sequence, the
operand pushed) satisfies every hypothesis of the segment lemma: `np = 1` operand above `d = 0`
slots, `k = 0` extra scopes, the function scope above `L = [global]`, one return address. -/
example : TailSite atTailCall "f" 1 0 1 0 1 [some 0] atTailCall.data where
  code := ⟨4, [.callExpr (.sym "f") [.sym "n"], .removeScope, .ret], ⟨rfl, rfl, [.addFuncScope 2, .popStackPutEnv "n", .tailGuard "f" 5, .envToStack "n"], [], rfl, rfl⟩⟩
  prep := fun n => by
    have := exec_prepareCall_fixed n atTailCall "f" 1 rfl
    simpa using this
  operands := rfl
  scopes := ⟨[some 1], rfl, rfl⟩
  addr := rfl

/-! ## (d): transparency -/

/-- what a run shows to the host, common to both sides -/
inductive Obs where
  | ok (value : String) (trace : List String)
  | err (trace : List String)
deriving DecidableEq, Repr

def obsOfRef : Ref.Outcome → Option Obs
  | .ok v t => some (.ok v t)
  | .err t => some (.err t)
  | .timeout => none

def obsOfVM : VM.Outcome → Option Obs
  | .done "ok" v t _ => some (.ok v t)
  | .done "err" _ t _ => some (.err t)
  | _ => none

/-- **The full statement of (d)**: the optimisation is invisible. The reference evaluator
(`Spec/RefEval.lean`) has no tail-call optimisation — every call is a call, every call gets a
fresh frame: it is "the same function evaluated without the optimisation". For every
well-formed program on which it terminates, the VM model (whose generator compiles self tail
calls to jumps) reports the same class, value and effect trace — including what closures
created in earlier iterations observe when they are called later. NOT proved (it contains
C02's `CompileCorrect` for the tail-call fragment F3); held by the 3-way correspondence of
channel `tail`. -/
def TcoTransparent : Prop :=
  ∀ (p : List Expr), Ref.wfList {} p = true →
    ∀ fuel o, obsOfRef (Ref.runProgram fuel p Ref.initSt).1 = some o →
      ∃ fuel', obsOfVM (VM.runText fuel' p VM.initSt).1 = some o

/-- the parameter-binding part of the prologue, faults ignored (only the state matters) -/
def bindParams (n : Nat) (ps : List String) (s : St) : St :=
  ps.foldl (fun s x => ((exec (n + 1) (.popStackPutEnv x)).run s).2) s

theorem bindParams_frame (n : Nat) (ps : List String) :
    ∀ (s : St) (top : Nat) (rest : List (Option Nat)), s.linear = some top :: rest →
      ∀ sid, sid ≠ top → (bindParams n ps s).scopes[sid]? = s.scopes[sid]? := by
  induction ps with
  | nil => intro s top rest _ sid _; rfl
  | cons x xs ih =>
    intro s top rest hl sid hne
    simp only [bindParams, List.foldl_cons]
    have hlin := exec_popStackPutEnv_linear n s x
    have := ih ((exec (n + 1) (.popStackPutEnv x)).run s).2 top rest (by rw [hlin]; exact hl) sid hne
    simp only [bindParams] at this
    rw [this]
    exact exec_popStackPutEnv_frame n s x top rest hl sid hne

/-- (d), the parts that are proved.
1. Only tail positions jump: a self call whose value the enclosing form still needs is an
   ordinary call (`tail_flag_only_in_tail_position`), so no pending computation is dropped.
2. The tail sequence changes nothing but `pc`, the scope *stack* and the packed operands:
   scope table, heap, trace and function table are those of the call site
   (`tail_call_reenters_at_entry_depths`).
3. Per-iteration bindings: at re-entry `AddFuncScope` creates a scope whose id is the old size
   of the scope table, and binding the parameters (any number, whatever the outcome of each
   `PopStackPutEnv`) writes that scope only. Every scope that existed before — in particular
   every scope captured by a closure created in an earlier iteration — is left exactly as it
   was: the scope captured in iteration i is never written by iteration j > i.
Missing for `TcoTransparent`: the simulation of arbitrary body code (C02's `CompileCorrect`). -/
theorem tco_transparent_partial :
    (∀ {isFn : Nat → Bool} {f h : String} {kn : List (String × Nat)} {body args : List Expr} {gs : GS} {r},
        NonTailAt (.begin_ body) (.call (.sym h) args) → compileBegin isFn (bodyCtx f kn) body gs = .ok r →
        ∃ k' gs1 r1, compile isFn ⟨false, k', f, kn⟩ (.call (.sym h) args) gs1 = .ok r1 ∧
          r1.1.1 = [Instr.callExpr (.sym h) args] ∧ Seg r.1.1 r1.1.1) ∧
    (∀ {s : St} {x : String} {nargs k np d a : Nat} {L : List (Option Nat)} {data' : List (Option Val)},
        TailSite s x nargs k np d a L data' →
        (reentry s L data').scopes = s.scopes ∧ (reentry s L data').heap = s.heap ∧
        (reentry s L data').trace = s.trace ∧ (reentry s L data').fns = s.fns ∧ (reentry s L data').addr = s.addr) ∧
    (∀ (n : Nat) (E : St) (t : Nat) (ps : List String) (sid : Nat), sid < E.scopes.length →
        (bindParams n ps ((exec (n + 1) (.addFuncScope t)).run E).2).scopes[sid]? = E.scopes[sid]?) := by
  refine ⟨fun hpos hc => tail_flag_only_in_tail_position hpos hc, fun _ => ⟨rfl, rfl, rfl, rfl, rfl⟩, ?_⟩
  intro n E t ps sid hsid
  obtain ⟨hlin, _, hold⟩ := exec_addFuncScope_fresh n E t
  rw [bindParams_frame n ps _ E.scopes.length E.linear hlin sid (by omega)]
  exact hold sid hsid

/-! ### The behaviour before fc05fc7 -/

open ZygoVerif.LegacyTail in
/-- Before the fix the tail sequence kept the function scope and jumped past `AddFuncScope`
(`Goto 1`): the first prologue instruction re-binds `n` in the scope that the closure of this
iteration captured. The closure made while `n = 3` sees `2` afterwards. -/
theorem legacy_tail_call_rebinds_captured_scope_counterexample :
    capturedN atTailCall = some (intOfLit 3) ∧
    succeeded (straight 5 (legacyTailSeq "f" 1 0 ++ [.popStackPutEnv "n"]) atTailCall) = true ∧
    capturedN (straight 5 (legacyTailSeq "f" 1 0 ++ [.popStackPutEnv "n"]) atTailCall).2 = some (intOfLit 2) := by
  decide +kernel

open ZygoVerif.LegacyTail in
/-- The sequence emitted today, from the same state: the next iteration binds `n` in a new
scope (id 2) and the captured one keeps `n = 3`. -/
theorem current_tail_call_keeps_captured_scope :
    succeeded (straight 5 (tailSeq "f" 1 0 ++ [.addFuncScope 2, .popStackPutEnv "n"]) atTailCall) = true ∧
    capturedN (straight 5 (tailSeq "f" 1 0 ++ [.addFuncScope 2, .popStackPutEnv "n"]) atTailCall).2 = some (intOfLit 3) ∧
    (scopeOf (straight 5 (tailSeq "f" 1 0 ++ [.addFuncScope 2, .popStackPutEnv "n"]) atTailCall).2 2).vars.lookup "n" = some (intOfLit 2) := by
  decide +kernel

end ZygoVerif.C09
