/-
C09 — tail calls are free and invisible. (being built)
-/
import ZygoVerif.Model.Gen
import ZygoVerif.Model.VM
namespace ZygoVerif.C09
open ZygoVerif.Core ZygoVerif.VM

theorem placeholder : (1 : Nat) = 1 := rfl

end ZygoVerif.C09
