/-
C17 — declared struct types are enforced on every write.

Model: `Model/Rec.lean` (the Go code after fixes/C17-01..03; `legacy` = the pinned tree).
Spec:  `Spec/WellTyped.lean` (views of instances; written from the property text).

Main results
* `welltyped_preserved`       one step of ANY operation (declaration, redeclaration, failed
                              declaration, construction, every write route, derefSet, decoding)
                              preserves "every live instance is well typed w.r.t. the definition
                              it was created under".
* `welltyped_all_histories`   hence after every history from the empty interpreter.
* `rejected_write_unchanged`  an operation that reports an error leaves every instance (and
                              every variable binding) unchanged.
* `instances_keep_definition` no operation changes the struct name / definition of a live instance.
* `*_counterexample`          the three holes of the pinned tree, on the pre-fix model.
* `welltyped_strong_counterexample`  the element-wise reading fails even after the fixes
                              (`[1 "a"]` is a `[]int64`): kept visible, not claimed.
-/
import ZygoVerif.Model.Rec
import ZygoVerif.Spec.WellTyped
namespace ZygoVerif.Rec
open Spec

/-! ## views of a model state -/

def valView (s : St) (v : Val) : ValView := ⟨v.isNil, typeOf fixed s v, ""⟩

def instView (s : St) (i : Inst) : InstView :=
  ⟨"", i.tname, i.defn, i.fields.map (fun kv => (kv.1, valView s kv.2))⟩

/-- what the property talks about: all live instances, each with the definition it carries -/
def snapshot (s : St) : List InstView := s.heap.map (instView s)

def InstOK (s : St) (i : Inst) : Prop := WellTypedInst s.defs (instView s i)

/-- The invariant at step number `k`: all instances well typed; all definitions made so far
have generation numbers below those of step `k`. -/
structure Inv (k : Nat) (s : St) : Prop where
  wt : WellTyped s.defs (snapshot s)
  fresh : ∀ p ∈ s.defs, p.1 < 2 * k
  regOK : ∀ p ∈ s.reg, ∃ fs, s.defs.lookup p.2 = some fs

/-! ## small list facts -/

theorem lookup_cons_ne {α} (g g' : Nat) (x : α) (l : List (Nat × α)) (h : g ≠ g') :
    List.lookup g ((g', x) :: l) = List.lookup g l := by
  have hb : (g == g') = false := by simp [h]
  simp [List.lookup, hb]

theorem lookup_some_mem {α} (g : Nat) (x : α) (l : List (Nat × α)) (h : l.lookup g = some x) :
    ∃ p ∈ l, p.1 = g := by
  induction l with
  | nil => simp [List.lookup] at h
  | cons p rest ih =>
    obtain ⟨g', y⟩ := p
    by_cases hg : g = g'
    · exact ⟨(g', y), by simp, hg.symm⟩
    · rw [lookup_cons_ne g g' y rest hg] at h
      obtain ⟨q, hq, hq1⟩ := ih h
      exact ⟨q, by simp [hq], hq1⟩

theorem mem_setField (fs : List (Key × Val)) (k : Key) (v : Val) (kv : Key × Val)
    (h : kv ∈ setField fs k v) : kv ∈ fs ∨ kv = (k, v) := by
  induction fs with
  | nil => simp [setField] at h; exact Or.inr h
  | cons p rest ih =>
    obtain ⟨k', v'⟩ := p
    simp only [setField] at h
    split at h
    · rcases List.mem_cons.1 h with h | h
      · exact Or.inr h
      · exact Or.inl (List.mem_cons_of_mem _ h)
    · rcases List.mem_cons.1 h with h | h
      · exact Or.inl (h ▸ List.mem_cons_self ..)
      · rcases ih h with h | h
        · exact Or.inl (List.mem_cons_of_mem _ h)
        · exact Or.inr h

/-! ## the type of a value is stable as long as live instances keep name and definition -/

def SameKind (i i' : Inst) : Prop := i.tname = i'.tname ∧ i.defn = i'.defn

/-- every instance of `h` is still there in `h'` with the same struct name and definition -/
def HeapExt (h h' : List Inst) : Prop :=
  ∀ (n : Nat) (i : Inst), h[n]? = some i → ∃ i', h'[n]? = some i' ∧ SameKind i i'

theorem instTy_fixed (r r' : List (Nat × Nat)) (i i' : Inst) (h : SameKind i i') :
    instTy fixed r i = instTy fixed r' i' := by
  obtain ⟨h1, h2⟩ := h
  unfold instTy
  rw [← h1, ← h2]
  cases i.tname <;> simp [fixed]

theorem typeOf_mono (s s' : St) (hx : HeapExt s.heap s'.heap) (v : Val) (t : Ty)
    (h : typeOf fixed s v = some t) : typeOf fixed s' v = some t := by
  induction v generalizing t with
  | recd id =>
    simp only [typeOf] at h ⊢
    cases hi : s.heap[id]? with
    | none => simp [hi] at h
    | some i =>
      obtain ⟨i', hi', hk⟩ := hx id i hi
      simp only [hi, Option.map_some] at h
      simp only [hi', Option.map_some]
      rw [← instTy_fixed s.reg s'.reg i i' hk]; exact h
  | arr f r ih =>
    simp only [typeOf] at h ⊢
    cases hf : typeOf fixed s f with
    | none => simp [hf] at h
    | some tf =>
      rw [ih tf hf]
      simpa [hf] using h
  | _ => simpa [typeOf] using h

theorem accepts_mono (s s' : St) (hx : HeapExt s.heap s'.heap) (dt : Ty) (v : Val)
    (h : Accepts dt (valView s v)) : Accepts dt (valView s' v) := by
  rcases h with h | h | ⟨h, h2⟩
  · exact Or.inl h
  · exact Or.inr (Or.inl (typeOf_mono s s' hx v _ h))
  · exact Or.inr (Or.inr ⟨typeOf_mono s s' hx v _ h, h2⟩)

theorem instOK_mono (s s' : St) (hx : HeapExt s.heap s'.heap)
    (hd : ∀ g fs, s.defs.lookup g = some fs → s'.defs.lookup g = some fs)
    (i : Inst) (h : InstOK s i) : InstOK s' i := by
  unfold InstOK WellTypedInst instView at *
  cases hg : i.defn with
  | none => simp
  | some g =>
    simp only [hg] at h ⊢
    obtain ⟨fs, hl, hall⟩ := h
    refine ⟨fs, hd g fs hl, ?_⟩
    intro kv hkv
    obtain ⟨⟨k, v⟩, hmem, rfl⟩ := List.mem_map.1 hkv
    obtain ⟨f, dt, hk, hf, ha⟩ := hall (k, valView s v) (List.mem_map.2 ⟨(k, v), hmem, rfl⟩)
    exact ⟨f, dt, hk, hf, accepts_mono s s' hx dt v ha⟩

theorem heapExt_refl (h : List Inst) : HeapExt h h := fun _ i hi => ⟨i, hi, rfl, rfl⟩

theorem heapExt_append (h : List Inst) (i : Inst) : HeapExt h (h ++ [i]) := by
  intro id j hj
  refine ⟨j, ?_, rfl, rfl⟩
  have hlt : id < h.length := by
    rcases Nat.lt_or_ge id h.length with hlt | hge
    · exact hlt
    · rw [List.getElem?_eq_none hge] at hj; cases hj
  rw [List.getElem?_append_left hlt]; exact hj

theorem heapExt_set (h : List Inst) (id : Nat) (i i' : Inst) (hi : h[id]? = some i) (hk : SameKind i i') :
    HeapExt h (h.set id i') := by
  intro j x hx
  by_cases hj : id = j
  · subst hj
    have hlt : id < h.length := by
      rcases Nat.lt_or_ge id h.length with hlt | hge
      · exact hlt
      · rw [List.getElem?_eq_none hge] at hi; cases hi
    refine ⟨i', by simp [List.getElem?_set, hlt], ?_⟩
    rw [hi] at hx; cases hx; exact hk
  · exact ⟨x, by rw [List.getElem?_set_ne hj]; exact hx, rfl, rfl⟩

/-- only record values of a user struct have a non-zero generation -/
theorem typeOf_gen0 (s : St) (v : Val) (t : Ty) (h : typeOf fixed s v = some t) (hn : t.name = .emptyArr) :
    t.gen = 0 := by
  cases v with
  | recd id =>
    simp only [typeOf] at h
    cases hi : s.heap[id]? with
    | none => simp [hi] at h
    | some i =>
      simp only [hi, Option.map_some, Option.some.injEq] at h
      subst h
      unfold instTy at hn ⊢
      cases hname : i.tname <;> simp_all [fixed]
  | arr f r =>
    simp only [typeOf] at h
    cases hf : typeOf fixed s f with
    | none => simp [hf] at h
    | some tf =>
      simp only [hf] at h
      split at h
      · cases h
      · simp only [Option.some.injEq] at h; subst h; rfl
  | _ => (simp [typeOf] at h) <;> (subst h; first | rfl | simp at hn)

/-! ## a checked write yields a well-typed field -/

theorem checkField_sound (s : St) (i : Inst) (g : Nat) (hg : i.defn = some g) (k : Key) (v : Val)
    (h : checkField fixed s i k v = true) :
    ∃ fs, s.defs.lookup g = some fs ∧ FieldOK fs (k, valView s v) := by
  unfold checkField checkField3 at h
  simp only [hg] at h
  cases hl : s.defs.lookup g with
  | none => simp [hl] at h
  | some fs =>
    refine ⟨fs, rfl, ?_⟩
    simp only [hl] at h
    cases k with
    | sym f =>
      simp only at h
      cases hf : fs.lookup f with
      | none => simp [hf] at h
      | some dt =>
        simp only [hf] at h
        refine ⟨f, dt, rfl, hf, ?_⟩
        cases ht : typeOf fixed s v with
        | none =>
          simp only [ht] at h
          cases v <;> simp_all [Accepts, valView, Val.isNil]
        | some ot =>
          simp only [ht] at h
          split at h
          · rename_i hc
            simp only [Bool.or_eq_true, Bool.and_eq_true, beq_iff_eq] at hc
            rcases hc with hc | ⟨hc1, hc2⟩
            · exact Or.inr (Or.inl (by simp [valView, ht, hc]))
            · refine Or.inr (Or.inr ⟨?_, hc2⟩)
              have : ot = ⟨.emptyArr, 0⟩ := by
                have hg0 := typeOf_gen0 s v ot ht hc1
                cases ot; simp_all
              simp [valView, ht, this]
          · simp at h
    | str _ => simp [fixed] at h
    | int _ => simp [fixed] at h

theorem hashSet_ok (s : St) (i i' : Inst) (k : Key) (v : Val) (hok : InstOK s i)
    (h : hashSet fixed s i k v = some i') : InstOK s i' ∧ SameKind i i' := by
  unfold hashSet at h
  split at h
  · rename_i hc
    cases h
    refine ⟨?_, rfl, rfl⟩
    unfold InstOK WellTypedInst instView at *
    cases hg : i.defn with
    | none => simp
    | some g =>
      simp only [hg] at hok ⊢
      obtain ⟨fs, hl, hall⟩ := hok
      obtain ⟨fs', hl', hfok⟩ := checkField_sound s i g hg k v hc
      rw [hl] at hl'; cases hl'
      refine ⟨fs, hl, ?_⟩
      intro kv hkv
      obtain ⟨⟨k0, v0⟩, hmem, rfl⟩ := List.mem_map.1 hkv
      rcases mem_setField _ _ _ _ hmem with hm | hm
      · exact hall _ (List.mem_map.2 ⟨_, hm, rfl⟩)
      · cases hm; exact hfok
  · cases h

theorem fillHash_ok (s : St) (ps : List (Key × Val)) (i i' : Inst) (hok : InstOK s i)
    (h : fillHash fixed s i ps = .inr i') : InstOK s i' ∧ SameKind i i' := by
  induction ps generalizing i with
  | nil => simp only [fillHash] at h; cases h; exact ⟨hok, rfl, rfl⟩
  | cons p rest ih =>
    obtain ⟨k, v⟩ := p
    simp only [fillHash] at h
    cases hs : hashSet fixed s i k v with
    | none => simp [hs] at h
    | some i1 =>
      simp only [hs] at h
      obtain ⟨h1, hk1⟩ := hashSet_ok s i i1 k v hok hs
      obtain ⟨h2, hk2⟩ := ih i1 h1 h
      exact ⟨h2, hk1.1.trans hk2.1, hk1.2.trans hk2.2⟩

theorem empty_ok (s : St) (tn : TyName) (d : Option Nat)
    (hd : ∀ g, d = some g → ∃ fs, s.defs.lookup g = some fs) : InstOK s ⟨tn, d, []⟩ := by
  unfold InstOK WellTypedInst instView
  cases d with
  | none => simp
  | some g =>
    obtain ⟨fs, hl⟩ := hd g rfl
    exact ⟨fs, hl, by simp⟩

theorem makeHash_ok (s : St) (tn : TyName) (d : Option Nat) (ps : List (Key × Val)) (i : Inst)
    (hd : ∀ g, d = some g → ∃ fs, s.defs.lookup g = some fs)
    (h : makeHash fixed s tn d ps = some i) : InstOK s i ∧ i.tname = tn ∧ i.defn = d := by
  unfold makeHash at h
  split at h
  · cases h
  · rename_i i0 hf
    split at h
    · cases h
    · cases h
      obtain ⟨h1, hk⟩ := fillHash_ok s ps _ i (empty_ok s tn d hd) hf
      exact ⟨h1, hk.1.symm, hk.2.symm⟩

theorem lookup_mem (l : List (Key × Val)) (k : Key) (v : Val) (h : l.lookup k = some v) : (k, v) ∈ l := by
  induction l with
  | nil => simp [List.lookup] at h
  | cons p rest ih =>
    obtain ⟨k', v'⟩ := p
    simp only [List.lookup] at h
    split at h
    · rename_i hb
      have hk : k = k' := by simpa using hb
      cases h; subst hk; exact List.mem_cons_self ..
    · exact List.mem_cons_of_mem _ (ih h)

theorem reorder_ok (s : St) (i : Inst) (o : List Nat) (hok : InstOK s i) :
    InstOK s { i with fields := reorder i.fields o } := by
  unfold InstOK WellTypedInst instView at *
  cases hg : i.defn with
  | none => simp
  | some g =>
    simp only [hg] at hok ⊢
    obtain ⟨fs, hl, hall⟩ := hok
    refine ⟨fs, hl, ?_⟩
    intro kv hkv
    obtain ⟨⟨k0, v0⟩, hmem, rfl⟩ := List.mem_map.1 hkv
    unfold reorder at hmem
    obtain ⟨f, _, hf⟩ := List.mem_filterMap.1 hmem
    cases hlk : List.lookup (Key.sym f) i.fields with
    | none => simp [hlk] at hf
    | some v =>
      simp only [hlk, Option.map_some, Option.some.injEq] at hf
      have hm := lookup_mem i.fields (Key.sym f) v hlk
      rw [hf] at hm
      exact hall _ (List.mem_map.2 ⟨_, hm, rfl⟩)

/-! ## the invariant is preserved -/

theorem inv_succ (k : Nat) (s : St) (h : Inv k s) : Inv (k + 1) s :=
  ⟨h.wt, fun p hp => by have := h.fresh p hp; omega, h.regOK⟩

/-- a step that keeps the declarations and only extends / updates the heap with instances that
are well typed in the old state -/
theorem inv_heap_change (k : Nat) (s s' : St) (hinv : Inv k s) (hd : s'.defs = s.defs) (hr : s'.reg = s.reg)
    (hx : HeapExt s.heap s'.heap) (hnew : ∀ i' ∈ s'.heap, i' ∈ s.heap ∨ InstOK s i') : Inv (k + 1) s' := by
  refine ⟨?_, ?_, ?_⟩
  · intro iv hiv
    obtain ⟨i', hi', rfl⟩ := List.mem_map.1 hiv
    have hold : InstOK s i' := by
      rcases hnew i' hi' with h | h
      · exact hinv.wt _ (List.mem_map.2 ⟨i', h, rfl⟩)
      · exact h
    exact instOK_mono s s' hx (fun g fs h => by rw [hd]; exact h) i' hold
  · intro p hp; rw [hd] at hp; have := hinv.fresh p hp; omega
  · intro p hp; rw [hr] at hp; rw [hd]; exact hinv.regOK p hp

theorem inv_alloc (k : Nat) (s : St) (slot : Nat) (i : Inst) (hinv : Inv k s) (hok : InstOK s i) :
    Inv (k + 1) (alloc s slot i) := by
  refine inv_heap_change k s (alloc s slot i) hinv rfl rfl (heapExt_append s.heap i) ?_
  intro i' hi'
  simp only [alloc, List.mem_append, List.mem_singleton] at hi'
  rcases hi' with h | h
  · exact Or.inl h
  · exact Or.inr (h ▸ hok)

theorem inv_set (k : Nat) (s : St) (id : Nat) (i i' : Inst) (hinv : Inv k s) (hi : s.heap[id]? = some i)
    (hk : SameKind i i') (hok : InstOK s i') : Inv (k + 1) { s with heap := s.heap.set id i' } := by
  refine inv_heap_change k s { s with heap := s.heap.set id i' } hinv rfl rfl (heapExt_set s.heap id i i' hi hk) ?_
  intro j hj
  rcases List.mem_or_eq_of_mem_set hj with h | h
  · exact Or.inl h
  · exact Or.inr (h ▸ hok)

theorem inv_writeAt (k : Nat) (s s' : St) (id : Nat) (key : Key) (v : Val) (hinv : Inv k s)
    (h : writeAt fixed s id key v = some s') : Inv (k + 1) s' := by
  unfold writeAt at h
  cases hi : s.heap[id]? with
  | none => simp [hi] at h
  | some i =>
    simp only [hi] at h
    cases hs : hashSet fixed s i key v with
    | none => simp [hs] at h
    | some i' =>
      simp only [hs, Option.some.injEq] at h
      subst h
      have hok : InstOK s i := hinv.wt _ (List.mem_map.2 ⟨i, List.mem_of_getElem? hi, rfl⟩)
      obtain ⟨h1, hk⟩ := hashSet_ok s i i' key v hok hs
      exact inv_set k s id i i' hinv hi hk h1

theorem lookup_memN {β} (l : List (Nat × β)) (k : Nat) (v : β) (h : l.lookup k = some v) : (k, v) ∈ l := by
  induction l with
  | nil => simp [List.lookup] at h
  | cons p rest ih =>
    obtain ⟨k', v'⟩ := p
    simp only [List.lookup] at h
    split at h
    · rename_i hb
      have hk : k = k' := by simpa using hb
      cases h; subst hk; exact List.mem_cons_self ..
    · exact List.mem_cons_of_mem _ (ih h)

theorem lookup_self {β} (g : Nat) (x : β) (l : List (Nat × β)) : List.lookup g ((g, x) :: l) = some x := by
  simp [List.lookup]

theorem inv_decl (k : Nat) (s s' : St) (hinv : Inv k s) (hheap : s'.heap = s.heap)
    (hdefs : ∀ g fs, s.defs.lookup g = some fs → s'.defs.lookup g = some fs)
    (hfresh : ∀ p ∈ s'.defs, p.1 < 2 * (k + 1))
    (hreg : ∀ p ∈ s'.reg, ∃ fs, s'.defs.lookup p.2 = some fs) : Inv (k + 1) s' := by
  refine ⟨?_, hfresh, hreg⟩
  intro iv hiv
  unfold snapshot at hiv
  rw [hheap] at hiv
  obtain ⟨i, hi, rfl⟩ := List.mem_map.1 hiv
  have hx : HeapExt s.heap s'.heap := by rw [hheap]; exact heapExt_refl _
  exact instOK_mono s s' hx hdefs i (hinv.wt _ (List.mem_map.2 ⟨i, hi, rfl⟩))

theorem regGen_ok (k : Nat) (s : St) (hinv : Inv k s) (n g : Nat) (h : s.reg.lookup n = some g) :
    ∀ g', some g = some g' → ∃ fs, s.defs.lookup g' = some fs := by
  intro g' hg'; cases hg'
  exact hinv.regOK (n, g) (lookup_memN _ _ _ h)

/-- **welltyped_preserved.** Whatever the operation — declaration, redeclaration, failed
declaration, construction, a write through any route, derefSet, decoding — if every live
instance was well typed (w.r.t. the definition it was created under) before, so it is after. -/
theorem welltyped_preserved (k : Nat) (s : St) (op : Op) (hinv : Inv k s) :
    Inv (k + 1) (step fixed k s op).1 := by
  cases op with
  | decl n fields =>
    have hold : ∀ g fs, s.defs.lookup g = some fs → g < 2 * k := by
      intro g fs h
      obtain ⟨p, hp, hp1⟩ := lookup_some_mem g fs s.defs h
      have := hinv.fresh p hp; omega
    simp only [step]
    split
    · -- failed declaration: the empty placeholder stays registered
      refine inv_decl k s _ hinv rfl ?_ ?_ ?_
      · intro g fs h
        have := hold g fs h
        show List.lookup g ((placeholderGen k, []) :: s.defs) = some fs
        rw [lookup_cons_ne g _ _ _ (by unfold placeholderGen; omega)]; exact h
      · intro p hp
        rcases List.mem_cons.1 hp with h | h
        · subst h; show placeholderGen k < _; unfold placeholderGen; omega
        · have := hinv.fresh p h; omega
      · intro p hp
        rcases List.mem_cons.1 hp with h | h
        · subst h; exact ⟨[], lookup_self _ _ _⟩
        · obtain ⟨fs, hfs⟩ := hinv.regOK p h
          have := hold _ fs hfs
          refine ⟨fs, ?_⟩
          show List.lookup p.2 ((placeholderGen k, []) :: s.defs) = some fs
          rw [lookup_cons_ne _ _ _ _ (by unfold placeholderGen; omega)]; exact hfs
    · rename_i fs0 _
      refine inv_decl k s _ hinv rfl ?_ ?_ ?_
      · intro g fs h
        have := hold g fs h
        show List.lookup g ((finalGen k, fs0) :: (placeholderGen k, []) :: s.defs) = some fs
        rw [lookup_cons_ne g _ _ _ (by unfold finalGen; omega),
            lookup_cons_ne g _ _ _ (by unfold placeholderGen; omega)]; exact h
      · intro p hp
        rcases List.mem_cons.1 hp with h | h
        · subst h; show finalGen k < _; unfold finalGen; omega
        · rcases List.mem_cons.1 h with h | h
          · subst h; show placeholderGen k < _; unfold placeholderGen; omega
          · have := hinv.fresh p h; omega
      · intro p hp
        rcases List.mem_cons.1 hp with h | h
        · subst h; exact ⟨fs0, lookup_self _ _ _⟩
        · rcases List.mem_cons.1 h with h | h
          · subst h
            refine ⟨[], ?_⟩
            show List.lookup (placeholderGen k) ((finalGen k, fs0) :: (placeholderGen k, []) :: s.defs) = some []
            rw [lookup_cons_ne _ _ _ _ (by unfold placeholderGen finalGen; omega)]; exact lookup_self _ _ _
          · obtain ⟨fs, hfs⟩ := hinv.regOK p h
            have := hold _ fs hfs
            refine ⟨fs, ?_⟩
            show List.lookup p.2 ((finalGen k, fs0) :: (placeholderGen k, []) :: s.defs) = some fs
            rw [lookup_cons_ne _ _ _ _ (by unfold finalGen; omega),
                lookup_cons_ne _ _ _ _ (by unfold placeholderGen; omega)]; exact hfs
  | mk slot n pairs =>
    simp only [step]
    split
    · rename_i vs g _ hreg
      split
      · rename_i i hm
        exact inv_alloc k s slot i hinv (makeHash_ok s _ _ vs i (regGen_ok k s hinv n g hreg) hm).1
      · exact inv_succ k s hinv
    · exact inv_succ k s hinv
  | mkHash slot pairs =>
    simp only [step]
    split
    · rename_i vs _
      split
      · rename_i i hm
        exact inv_alloc k s slot i hinv (makeHash_ok s _ _ vs i (fun g h => by cases h) hm).1
      · exact inv_succ k s hinv
    · exact inv_succ k s hinv
  | write route slot key e =>
    simp only [step]
    split
    · rename_i id v _ _
      split
      · exact inv_succ k s hinv
      · split
        · rename_i s' hw
          exact inv_writeAt k s s' id key v hinv hw
        · exact inv_succ k s hinv
    · exact inv_succ k s hinv
  | path route slot p e =>
    simp only [step]
    split
    · rename_i id v last _ _ _
      split
      · rename_i id' _
        split
        · rename_i s' hw
          exact inv_writeAt k s s' id' (.sym last) v hinv hw
        · exact inv_succ k s hinv
      · exact inv_succ k s hinv
    · exact inv_succ k s hinv
  | derefSet slot n pairs =>
    simp only [step]
    split
    · rename_i id vs g _ _ hreg
      split
      · rename_i tgt payload htgt hm
        split
        · rename_i hty
          obtain ⟨hok, htn, hdf⟩ := makeHash_ok s _ _ vs payload (regGen_ok k s hinv n g hreg) hm
          refine inv_set k s id tgt payload hinv htgt ?_ hok
          -- equal types of target and payload: same struct name and same definition
          simpa [sameType, fixed, SameKind] using hty
        · exact inv_succ k s hinv
      · exact inv_succ k s hinv
    · exact inv_succ k s hinv
  | decode fmt slot n order pairs =>
    simp only [step]
    split
    · rename_i vs g _ hreg
      split
      · rename_i i hf
        exact inv_alloc k s slot i hinv (fillHash_ok s _ _ i (empty_ok s _ _ (regGen_ok k s hinv n g hreg)) hf).1
      · rename_i i o hf
        exact inv_alloc k s slot _ hinv (reorder_ok s i o (fillHash_ok s _ _ i (empty_ok s _ _ (regGen_ok k s hinv n g hreg)) hf).1)
      · exact inv_succ k s hinv
      · simp only [fixed, Bool.true_or, if_true]
        exact inv_succ k s hinv
    · exact inv_succ k s hinv

theorem inv_init : Inv 1 ({} : St) :=
  ⟨by intro i hi; simp [snapshot] at hi, by intro p hp; simp at hp, by intro p hp; simp at hp⟩

theorem inv_exec (ops : List Op) (k : Nat) (s : St) (h : Inv k s) : ∃ k', Inv k' (exec fixed k s ops) := by
  induction ops generalizing k s with
  | nil => exact ⟨k, h⟩
  | cons op rest ih => exact ih (k + 1) _ (welltyped_preserved k s op h)

/-- **welltyped_all_histories.** After every history of operations from the empty interpreter
(declarations, redeclarations, constructions, writes through every route, decodes, in any order)
every live instance is well typed with respect to the definition it was created under. -/
theorem welltyped_all_histories (ops : List Op) :
    WellTyped (exec fixed 1 {} ops).defs (snapshot (exec fixed 1 {} ops)) :=
  (inv_exec ops 1 {} inv_init).choose_spec.wt

/-- the hypotheses of `welltyped_preserved` are satisfiable (and by a non-empty state) -/
example : Inv 4 (exec fixed 1 {} [.decl 0 [(0, .base .int64)], .mk 0 0 [(.sym 0, .int 1)], .write 0 0 (.sym 0) (.str 1)]) :=
  welltyped_preserved 3 _ _ (welltyped_preserved 2 _ _ (welltyped_preserved 1 _ _ inv_init))

/-- **rejected_write_unchanged.** An operation that reports an error leaves every instance and
every variable binding exactly as it was (a failed declaration only changes the registry). -/
theorem rejected_write_unchanged (k : Nat) (s : St) (op : Op) (h : (step fixed k s op).2 = false) :
    (step fixed k s op).1.heap = s.heap ∧ (step fixed k s op).1.slots = s.slots := by
  cases op with
  | write route slot key e =>
    cases hA : s.slots.lookup slot with
    | none => simp [step, hA]
    | some id =>
      cases hB : evalV s e with
      | none => simp [step, hA, hB]
      | some v =>
        by_cases hc : route = 1 ∧ ∃ a, s.heap[id]? = some a ∧ a.tname = TyName.hash
        · simp [step, hA, hB, hc]
        · cases hW : writeAt fixed s id key v with
          | none => simp [step, hA, hB, hc, hW]
          | some s' => simp [step, hA, hB, hc, hW] at h
  | _ => simp only [step] at h ⊢ <;> (repeat' split) <;> simp_all [alloc, writeAt]

/-! ## the pinned tree (pre-fix model) violates the property: three counterexamples -/

/-- (struct S0 [f0:int64]) (def v0 (S0)) (hset v0 "f5" 3): reported ok -/
def cexKey : List Op := [.decl 0 [(0, .base .int64)], .mk 0 0 [], .write 0 0 (.str 5) (.int 3)]

/-- D1 (fix C17-01): on the pinned tree a non-symbol key adds an undeclared field. -/
theorem nonsymbol_key_counterexample :
    (run legacy 1 {} cexKey).map (·.2) = [true, true, true] ∧
    wellTypedB (exec legacy 1 {} cexKey).defs (snapshot (exec legacy 1 {} cexKey)) = false ∧
    (run fixed 1 {} cexKey).map (·.2) = [true, true, false] := by decide

/-- S0{f0:int64}; v0 := (S0 f0:1); S0 redeclared {f0:string}; S1{f0:S0}; v1 := (S1 f0:v0) -/
def cexRedecl : List Op :=
  [.decl 0 [(0, .base .int64)], .mk 0 0 [(.sym 0, .int 1)], .decl 0 [(0, .base .string)],
   .decl 1 [(0, .ref 0)], .mk 1 1 [(.sym 0, .var 0)]]

/-- D2 (fix C17-02): on the pinned tree an instance of the OLD S0 is accepted into a field
declared with the NEW S0 (types compared by name). -/
theorem redeclared_type_counterexample :
    ((run legacy 1 {} cexRedecl).map (·.2)).getLast? = some true ∧
    wellTypedB (exec legacy 1 {} cexRedecl).defs (snapshot (exec legacy 1 {} cexRedecl)) = false ∧
    ((run fixed 1 {} cexRedecl).map (·.2)).getLast? = some false := by decide

/-- S0{f0:int64}; v0 := unjson {"Atype":"S0","f0":"s1","zKeyOrder":["f0"]} -/
def cexDecode : List Op := [.decl 0 [(0, .base .int64)], .decode 0 0 0 (some [0]) [(0, .str 1)]]

/-- D3 (fix C17-03): on the pinned tree decoding a wrongly typed field reports success and
silently drops the field; after the fix it is an error. -/
theorem decode_swallows_error_counterexample :
    (run legacy 1 {} cexDecode).map (·.2) = [true, true] ∧
    (exec legacy 1 {} cexDecode).heap.map (·.fields.length) = [0] ∧
    (run fixed 1 {} cexDecode).map (·.2) = [true, false] := by decide

/-! ## the stronger, element-wise reading does not hold (not claimed) -/

/-- the tails that the channel appends to an array literal: `rest = 2` is the string "a" -/
def restKinds : Nat → List TyName
  | 1 => [.int64] | 2 => [.string] | _ => []

/-- element-wise typing of an array value against a slice type -/
def elementwise (s : St) (dt : Ty) : Val → Bool
  | .arr f r => (typeOf fixed s f).map (fun t => TyName.slice t.name) == some dt.name &&
      (restKinds r).all (fun e => TyName.slice e == dt.name)
  | _ => true

/-- S0{f0:[]int64}; (S0 f0:[1 "a"]) is accepted by the repaired code as well: the language
types an array by its first element. `welltyped_strong` (every element has the element type)
is therefore false; the property is stated — and proved — for the language's own Type(). -/
theorem welltyped_strong_counterexample :
    let ops : List Op := [.decl 0 [(0, .slice (.base .int64))], .mk 0 0 [(.sym 0, .arr (.int 1) 2)]]
    (run fixed 1 {} ops).map (·.2) = [true, true] ∧
    elementwise (exec fixed 1 {} ops) ⟨.slice .int64, 0⟩ (.arr (.int 1) 2) = false := by decide

end ZygoVerif.Rec
