/-
C07 — numbers compare and compute exactly as specified.

Property theorems only (helper lemmas are local and small). The model (`Model/Num.lean`)
follows zygo/comparisons.go + zygo/numerictower.go; the spec (`Spec/MathOrder.lean`) is
the mathematical order / arithmetic in ℤ. Integer, unsigned and char statements hold for
all 2^64 (2^32) values with no assumption; float statements are relative to `IEEELaws`.
-/
import ZygoVerif.Model.Num
import ZygoVerif.Model.Legacy
import ZygoVerif.Model.GoSem
import ZygoVerif.Generated.NumGo
import ZygoVerif.Spec.MathOrder
set_option linter.unusedSimpArgs false
namespace ZygoVerif.Num

/-! ### exactness of the integer three-way compares -/

theorem cmpInt64_exact (a b : BitVec 64) : cmpInt64 a b = ordToInt (cmpZ a.toInt b.toInt) := by
  unfold cmpInt64 cmpZ
  simp only [BitVec.slt, decide_eq_true_eq]
  split
  · rfl
  · split <;> rfl

theorem cmpUint64_exact (a b : BitVec 64) :
    cmpUint64 a b = ordToInt (cmpZ a.toNat b.toNat) := by
  unfold cmpUint64 cmpZ
  simp only [BitVec.ult, decide_eq_true_eq, Int.ofNat_lt]
  split
  · rfl
  · split <;> rfl

theorem runeToInt64_toInt (c : BitVec 32) : (runeToInt64 c).toInt = c.toInt := by
  unfold runeToInt64
  exact BitVec.toInt_signExtend_of_le (by decide)

/-! ### `Compare` agrees with the mathematical order (headline) -/

/-- The three-way result of the model's `Compare`, read as "what the spec says". -/
def decode : Int → Option Ordering
  | -1 => some .lt
  | 0 => some .eq
  | 1 => some .gt
  | _ => none

theorem decode_ordToInt (o : Ordering) : decode (ordToInt o) = some o := by
  cases o <;> rfl

variable {fs : FloatSem}

/-- **cmp_exact**: for every pair of numeric operands the model of `Compare` returns the
error exactly when the spec says "not comparable", a NaN code (> 1) exactly when the spec
says "unordered", and otherwise the mathematical order. Integers/unsigned/chars: all
values, unconditionally. Floats: relative to `IEEELaws`. -/
theorem cmp_exact (L : IEEELaws fs) (a b : NumV fs.F) :
    (compare fs a b).map (fun r => if r > 1 then none else decode r) = specCmp fs L.cmp a b := by
  cases a <;> cases b <;> simp only [compare, specCmp, Option.map]
  case int.int a b => simp [cmpInt64_exact, decode_ordToInt]; cases cmpZ a.toInt b.toInt <;> decide
  case int.char a b =>
    simp [cmpInt64_exact, decode_ordToInt, runeToInt64_toInt]
    cases cmpZ a.toInt b.toInt <;> decide
  case char.int a b =>
    simp [cmpInt64_exact, decode_ordToInt, runeToInt64_toInt]
    cases cmpZ a.toInt b.toInt <;> decide
  case char.char a b =>
    simp [cmpInt64_exact, decode_ordToInt, runeToInt64_toInt]
    cases cmpZ a.toInt b.toInt <;> decide
  case uint.uint a b =>
    simp [cmpUint64_exact, decode_ordToInt]
    cases cmpZ (a.toNat : Int) b.toNat <;> decide
  case int.flt a e =>
    cases h : fs.isNaN e
    · simp [floatOfInt64, L.signum_sub _ _ (L.ofInt_notNaN _) h, decode_ordToInt]
      cases L.cmp (fs.ofInt a.toInt) e <;> decide
    · simp
  case char.flt a e =>
    cases h : fs.isNaN e
    · simp [floatOfRune, L.signum_sub _ _ (L.ofInt_notNaN _) h, decode_ordToInt]
      cases L.cmp (fs.ofInt a.toInt) e <;> decide
    · simp
  case flt.int f b =>
    cases h : fs.isNaN f
    · simp [floatOfInt64, L.signum_sub _ _ h (L.ofInt_notNaN _), decode_ordToInt]
      cases L.cmp f (fs.ofInt b.toInt) <;> decide
    · simp
  case flt.char f b =>
    cases h : fs.isNaN f
    · simp [floatOfRune, L.signum_sub _ _ h (L.ofInt_notNaN _), decode_ordToInt]
      cases L.cmp f (fs.ofInt b.toInt) <;> decide
    · simp
  case flt.flt f e =>
    cases hf : fs.isNaN f <;> cases he : fs.isNaN e <;> simp
    · simp [L.signum_sub _ _ hf he, decode_ordToInt]
      cases L.cmp f e <;> decide
  all_goals rfl

theorem cmpInt64_range (a b : BitVec 64) :
    cmpInt64 a b = -1 ∨ cmpInt64 a b = 0 ∨ cmpInt64 a b = 1 := by
  unfold cmpInt64; split
  · exact Or.inl rfl
  · split
    · exact Or.inr (Or.inr rfl)
    · exact Or.inr (Or.inl rfl)

theorem cmpUint64_range (a b : BitVec 64) :
    cmpUint64 a b = -1 ∨ cmpUint64 a b = 0 ∨ cmpUint64 a b = 1 := by
  unfold cmpUint64; split
  · exact Or.inl rfl
  · split
    · exact Or.inr (Or.inr rfl)
    · exact Or.inr (Or.inl rfl)

theorem signumFloat_range (f : fs.F) :
    signumFloat fs f = -1 ∨ signumFloat fs f = 0 ∨ signumFloat fs f = 1 := by
  unfold signumFloat; split
  · exact Or.inr (Or.inr rfl)
  · split
    · exact Or.inl rfl
    · exact Or.inr (Or.inl rfl)

private theorem range_of_tri {x r : Int} (hx : x = -1 ∨ x = 0 ∨ x = 1) (h : some x = some r) :
    r = -1 ∨ r = 0 ∨ r = 1 ∨ r = 2 ∨ r = 3 := by
  injection h with h; subst h
  rcases hx with h | h | h <;> simp [h]

private theorem range_of_nan {c : Bool} {x r : Int} (hx : x = -1 ∨ x = 0 ∨ x = 1)
    (h : (if c = true then some 2 else some x) = some r) :
    r = -1 ∨ r = 0 ∨ r = 1 ∨ r = 2 ∨ r = 3 := by
  cases c
  · exact range_of_tri hx h
  · injection h with h; subst h; simp

/-- `Compare` only ever answers -1, 0, 1 (ordered) or 2, 3 (NaN codes). -/
theorem compare_range (a b : NumV fs.F) (r : Int) (h : compare fs a b = some r) :
    r = -1 ∨ r = 0 ∨ r = 1 ∨ r = 2 ∨ r = 3 := by
  cases a <;> cases b <;> simp only [compare] at h
  case int.int => exact range_of_tri (cmpInt64_range _ _) h
  case int.char => exact range_of_tri (cmpInt64_range _ _) h
  case char.int => exact range_of_tri (cmpInt64_range _ _) h
  case char.char => exact range_of_tri (cmpInt64_range _ _) h
  case uint.uint => exact range_of_tri (cmpUint64_range _ _) h
  case int.flt => exact range_of_nan (signumFloat_range _) h
  case char.flt => exact range_of_nan (signumFloat_range _) h
  case flt.int => exact range_of_nan (signumFloat_range _) h
  case flt.char => exact range_of_nan (signumFloat_range _) h
  case flt.flt x y =>
    cases hx : fs.isNaN x <;> cases hy : fs.isNaN y <;> simp [hx, hy] at h
    · exact range_of_tri (signumFloat_range (fs.sub x y)) (congrArg some h)
    all_goals (subst h; simp)
  all_goals exact absurd h (by simp)

/-- **compareFn_spec**: every comparison operator, on every pair of numeric operands,
answers what the mathematical order says (`CompareFunction` = `specCompareFn`). -/
theorem compareFn_spec (L : IEEELaws fs) (op : CmpOp) (a b : NumV fs.F) :
    compareFn fs op a b = specCompareFn fs L.cmp op a b := by
  have h := cmp_exact L a b
  unfold compareFn specCompareFn
  rw [← h]
  cases hc : compare fs a b with
  | none => rfl
  | some r =>
    simp only [Option.map]
    rcases compare_range a b r hc with rfl | rfl | rfl | rfl | rfl <;> cases op <;> decide

/-! ### corollaries named in the property -/

/-- NaN is unequal to and unordered against everything, from either side. -/
theorem nan_unordered (L : IEEELaws fs) (op : CmpOp) (a b : NumV fs.F)
    (hn : (∃ f, a = .flt f ∧ fs.isNaN f = true) ∨ (∃ f, b = .flt f ∧ fs.isNaN f = true))
    (hcomp : specCmp fs L.cmp a b ≠ none) :
    compareFn fs op a b = .ok (op == .ne) := by
  rw [compareFn_spec L]
  unfold specCompareFn
  rcases hn with ⟨f, rfl, hf⟩ | ⟨f, rfl, hf⟩
  · cases b <;> simp_all [specCmp, specOp]
  · cases a <;> simp_all [specCmp, specOp]

/-- … including ITSELF: the model (and, by `genCompareFn_eq_model`, the translated code) is a
function of the two operand VALUES, so an operand pair that is one NaN object is answered like
any other NaN pair (`Spec.compare_is_value_level`). An identity shortcut in `Compare`
(`if a == b { return 0 }`) is not expressible at value level: the translator refuses it, and
the `same` ops of channel `num` feed one object as both operands to the real code. -/
theorem nan_self_unordered (L : IEEELaws fs) (op : CmpOp) (store : Nat → NumV fs.F) (i : Nat)
    (f : fs.F) (hs : store i = .flt f) (hn : fs.isNaN f = true) :
    compareFn fs op (store i) (store i) = specCompareRef fs L.cmp op store i i ∧
    compareFn fs op (store i) (store i) = .ok (op == .ne) := by
  have h := compareFn_spec L op (store i) (store i)
  refine ⟨h, ?_⟩
  rw [h]
  exact spec_nan_self_unordered fs L.cmp op store i f hs hn

/-- For ordered (non-NaN, comparable) operands exactly one of `<`, `==`, `>` holds. -/
theorem trichotomy (L : IEEELaws fs) (a b : NumV fs.F) (o : Ordering)
    (h : specCmp fs L.cmp a b = some (some o)) :
    ∃ x y z, compareFn fs .lt a b = .ok x ∧ compareFn fs .eq a b = .ok y ∧
      compareFn fs .gt a b = .ok z ∧
      ((x = true ∧ y = false ∧ z = false) ∨ (x = false ∧ y = true ∧ z = false) ∨
       (x = false ∧ y = false ∧ z = true)) := by
  simp only [compareFn_spec L, specCompareFn, h]
  cases o <;> simp [specOp]

theorem cmpZ_swap (a b : Int) : cmpZ a b = (cmpZ b a).swap := by
  unfold cmpZ
  split <;> split <;> first | rfl | omega

theorem specCmp_swap (L : IEEELaws fs) (a b : NumV fs.F) :
    specCmp fs L.cmp a b = (specCmp fs L.cmp b a).map (fun r => r.map Ordering.swap) := by
  cases a <;> cases b <;> simp only [specCmp, Option.map]
  case int.int a b => rw [cmpZ_swap]
  case int.char a b => rw [cmpZ_swap]
  case char.int a b => rw [cmpZ_swap]
  case char.char a b => rw [cmpZ_swap]
  case uint.uint a b => rw [cmpZ_swap]
  case int.flt a e => cases fs.isNaN e <;> simp [L.cmp_swap e]
  case char.flt a e => cases fs.isNaN e <;> simp [L.cmp_swap e]
  case flt.int f b => cases fs.isNaN f <;> simp [L.cmp_swap f]
  case flt.char f b => cases fs.isNaN f <;> simp [L.cmp_swap f]
  case flt.flt f e =>
    cases hf : fs.isNaN f <;> cases he : fs.isNaN e <;> simp [L.cmp_swap f e]

/-- `(< a b)` always equals `(> b a)` (all numeric pairs, NaN included). -/
theorem lt_gt_swap (L : IEEELaws fs) (a b : NumV fs.F) :
    compareFn fs .lt a b = compareFn fs .gt b a := by
  simp only [compareFn_spec L, specCompareFn]
  rw [specCmp_swap L a b]
  cases specCmp fs L.cmp b a with
  | none => rfl
  | some r =>
    cases r with
    | none => rfl
    | some o => cases o <;> rfl

/-! ### arithmetic -/

/-- Integer `+ - *` wrap modulo 2^64, as in Go. -/
theorem int_arith_wraps (op : ArOp) (a b : BitVec 64) (z : Int)
    (h : specIntArith op a.toInt b.toInt = some z) :
    intDo fs op a b = .ok (.int (BitVec.ofInt 64 z)) := by
  cases op <;> simp only [specIntArith] at h <;> try (injection h with h; subst h)
  · simp [intDo, BitVec.ofInt_add]
  · simp [intDo, Int.sub_eq_add_neg, BitVec.ofInt_add, BitVec.ofInt_neg, BitVec.sub_eq_add_neg]
  · simp [intDo, BitVec.ofInt_mul]
  · exact absurd h (by simp)

theorem uint_arith_wraps (op : ArOp) (a b : BitVec 64) (z : Int)
    (h : specIntArith op a.toNat b.toNat = some z) :
    uintDo fs op a b = .ok (.uint (BitVec.ofInt 64 z)) := by
  cases op <;> simp only [specIntArith] at h <;> try (injection h with h; subst h)
  · simp [uintDo, BitVec.ofInt_add]
  · simp [uintDo, Int.sub_eq_add_neg, BitVec.ofInt_add, BitVec.ofInt_neg, BitVec.sub_eq_add_neg]
  · simp [uintDo, BitVec.ofInt_mul]
  · exact absurd h (by simp)

/-- Integer division is exact when it divides (barring the one quotient, 2^63, that
int64 cannot hold: `minInt / -1` wraps like every other integer result) … -/
theorem int_div_exact (a b : BitVec 64) (hb : b ≠ 0#64) (hdvd : b.toInt ∣ a.toInt)
    (hov : a ≠ BitVec.intMin 64 ∨ b ≠ -1#64) :
    ∃ q : BitVec 64, intDo fs .div a b = .ok (.int q) ∧ q.toInt * b.toInt = a.toInt := by
  have hrem : a.srem b = 0#64 := by
    apply BitVec.eq_of_toInt_eq
    rw [BitVec.toInt_srem]
    simp only [BitVec.toInt_zero]
    exact Int.tmod_eq_zero_of_dvd hdvd
  refine ⟨a.sdiv b, ?_, ?_⟩
  · simp [intDo, hb, hrem]
  · rw [BitVec.toInt_sdiv_of_ne_or_ne _ _ hov]
    exact Int.tdiv_mul_cancel hdvd

/-- … and floating otherwise. -/
theorem int_div_inexact (a b : BitVec 64) (hb : b ≠ 0#64) (hndvd : ¬ b.toInt ∣ a.toInt) :
    intDo fs .div a b = .ok (.flt (fs.div (fs.ofInt a.toInt) (fs.ofInt b.toInt))) := by
  have hrem : a.srem b ≠ 0#64 := by
    intro h
    apply hndvd
    have := congrArg BitVec.toInt h
    rw [BitVec.toInt_srem] at this
    simp only [BitVec.toInt_zero] at this
    exact Int.dvd_of_tmod_eq_zero this
  simp [intDo, hb, hrem, floatOfInt64]

/-- Division or modulo by zero is an error for the script, never a crash: the Go panic is
caught by the builtin-call wrapper (`recovered` models `CallUserFunction`'s `recover`). -/
theorem div_mod_zero_is_error (a : BitVec 64) :
    recovered (intDo fs .div a 0#64) = .err ∧ recovered (uintDo fs .div a 0#64) = .err ∧
    recovered (moduloDo fs (.int a) (.int 0#64)) = .err ∧
    recovered (moduloDo fs (.uint a) (.uint 0#64)) = .err := by
  simp [intDo, uintDo, moduloDo, recovered]

/-- Mixed integer/float arithmetic is carried out in float64. -/
theorem mixed_is_float (op : ArOp) (a : BitVec 64) (f : fs.F) :
    numericDo fs op (.int a) (.flt f) = .ok (floatDo fs op (fs.ofInt a.toInt) f) ∧
    numericDo fs op (.flt f) (.int a) = .ok (floatDo fs op f (fs.ofInt a.toInt)) := by
  simp [numericDo, floatOfInt64]

/-! ### tie T1: the code as TRANSLATED from today's Go source equals the hand-written model

`Generated/NumGo.lean` is regenerated on every run by `extract/ex_numtrans.go` from the
go/ast + go/types form of zygo/comparisons.go and zygo/numerictower.go. The three
`generated_eq_model_*` theorems below say that the translated entry points `Compare`,
`NumericDo` and `IntegerDo` (with every helper they call, whatever it is called today) are
extensionally equal to `Model/Num.lean` on all numeric operands, so every theorem above is a
theorem about the translated code (`gen_*` restate the headline ones). A source change that
alters behaviour breaks these proofs; one that does not (and stays inside the translated
subset) leaves them intact. The proof scripts name no helper function and no local variable
of the Go code: `numgo_unfold` (generated) unfolds whatever definitions exist. -/

open ZygoVerif.GoSem

/-- The model's numeric values as operands of the translated code. -/
def sx : NumV fs.F → Sx fs.F
  | .int v => .int v
  | .uint v => .uint v
  | .char v => .char v
  | .flt f => .flt f

/-- The model's three-way result (`Option Int`) as the translated code returns it
(`(int, error)` with Go's 64-bit `int`). -/
def resOfCmp : Option Int → Res (BitVec 64)
  | none => .err
  | some z => .ok (BitVec.ofInt 64 z)

def arOp : ArOp → NumericOp
  | .add => .Add
  | .sub => .Sub
  | .mul => .Mult
  | .div => .Div

/-- What the translator could neither translate nor fall back on (missing entry point,
missing last-good copy, operand struct or enum constant that left its expected shape). -/
theorem translator_problems_empty : NumGo.problems = [] := rfl

/-- closes the goals left after both sides are unfolded on constructor operands: split every
`if`, then the hypotheses decide each branch -/
local macro "tie_close" : tactic =>
  `(tactic| ((repeat' split) <;>
      first | rfl | (simp_all [resOfCmp, mapRes, sx]; done) | (simp_all [resOfCmp, mapRes, sx]; decide)))

/-- **generated_eq_model (Compare)**: the translated `(*Zlisp).Compare` — with `compareInt`,
`compareUint64`, `compareChar`, `compareFloat`, `cmpInt64`, `signumFloat` as they are today —
equals the model on every pair of numeric operands (all 2^128 integer pairs included). -/
theorem generated_eq_model_compare (a b : NumV fs.F) :
    NumGo.Compare fs (sx a) (sx b) = resOfCmp (compare fs a b) := by
  cases a <;> cases b <;> simp only [sx] <;> numgo_unfold <;>
    simp only [compare, cmpInt64, cmpUint64, signumFloat, runeToInt64, floatOfInt64, floatOfRune,
      floatOfUint64] <;>
    tie_close

/-- **generated_eq_model (NumericDo)**: the translated `NumericDo` with `NumericMatch*` and
`Numeric{Int,Uint64,Float}Do` equals the model for `+ - * /` on every pair of numeric operands. -/
theorem generated_eq_model_numericDo (op : ArOp) (a b : NumV fs.F) :
    NumGo.NumericDo fs (arOp op) (sx a) (sx b) = mapRes sx (numericDo fs op a b) := by
  cases op <;> cases a <;> cases b <;> simp only [sx, arOp] <;> numgo_unfold <;>
    simp only [numericDo, intDo, uintDo, floatDo, runeToInt64, floatOfInt64, floatOfRune,
      floatOfUint64, apply_ite (charBack fs), apply_ite (mapRes sx)] <;>
    (try simp only [charBack, mapRes, sx]) <;>
    tie_close

/-- **generated_eq_model (IntegerDo Modulo)**: the translated `IntegerDo`/`UintegerDo` at
`Modulo` (the `mod` builtin) equals the model. -/
theorem generated_eq_model_modulo (a b : NumV fs.F) :
    NumGo.IntegerDo fs .Modulo (sx a) (sx b) = mapRes sx (moduloDo fs a b) := by
  cases a <;> cases b <;> simp only [sx] <;> numgo_unfold <;>
    simp only [moduloDo, runeToInt64, apply_ite (mapRes sx)] <;>
    (try simp only [mapRes, sx]) <;>
    tie_close

/-- The translated `compareBool` (reached through `Compare`): `true > false`; a bool is not
comparable with a number. -/
theorem generated_compareBool (x y : Bool) (n : NumV fs.F) :
    NumGo.Compare fs (.bool x) (.bool y) =
      .ok (if x = y then 0#64 else if x then 1#64 else (-1#64)) ∧
    NumGo.Compare fs (.bool x) (sx n) = .err ∧ NumGo.Compare fs (sx n) (.bool x) = .err := by
  refine ⟨?_, ?_, ?_⟩
  · cases x <;> cases y <;> numgo_unfold <;> rfl
  · cases n <;> simp only [sx] <;> numgo_unfold
  · cases n <;> simp only [sx] <;> numgo_unfold

/-! #### the headline theorems, restated on the translated code -/

private theorem ofInt_toInt_small (z : Int) (h : z = -1 ∨ z = 0 ∨ z = 1 ∨ z = 2 ∨ z = 3) :
    (BitVec.ofInt 64 z).toInt = z := by
  rcases h with rfl | rfl | rfl | rfl | rfl <;> decide

/-- How `CompareFunction` reads the `(int, error)` of `Compare`. -/
def decodeRes : Res (BitVec 64) → Option (Option Ordering)
  | .ok v => some (if v.toInt > 1 then none else decode v.toInt)
  | _ => none

/-- **gen_cmp_exact**: the translated `Compare` returns an error exactly when the operand
types are not comparable, a NaN code exactly when the spec says "unordered", and otherwise
the mathematical order — for every pair of numeric operands. -/
theorem gen_cmp_exact (L : IEEELaws fs) (a b : NumV fs.F) :
    decodeRes (NumGo.Compare fs (sx a) (sx b)) = specCmp fs L.cmp a b := by
  rw [generated_eq_model_compare, ← cmp_exact L a b]
  cases h : compare fs a b with
  | none => rfl
  | some r => simp only [resOfCmp, decodeRes, Option.map, ofInt_toInt_small r (compare_range a b r h)]

/-- The body of `CompareFunction(name)` (hand-modelled glue: argument count, operator name)
applied to the translated `Compare`. -/
def genCompareFn (op : CmpOp) (a b : NumV fs.F) : Res Bool :=
  match NumGo.Compare fs (sx a) (sx b) with
  | .ok res =>
    if res.toInt > 1 then .ok (op == .ne)
    else .ok (match op with
      | .lt => res.toInt < 0
      | .gt => res.toInt > 0
      | .le => res.toInt ≤ 0
      | .ge => res.toInt ≥ 0
      | .eq => res.toInt == 0
      | .ne => res.toInt != 0)
  | .err => .err
  | .panic => .panic

theorem genCompareFn_eq_model (op : CmpOp) (a b : NumV fs.F) :
    genCompareFn op a b = compareFn fs op a b := by
  unfold genCompareFn compareFn
  rw [generated_eq_model_compare]
  cases h : compare fs a b with
  | none => rfl
  | some r => simp only [resOfCmp, ofInt_toInt_small r (compare_range a b r h)]; rfl

/-- **gen_compareFn_spec**: every comparison operator over the translated `Compare` answers
what the mathematical order says. (`nan_unordered`, `trichotomy`, `lt_gt_swap` follow by
rewriting with `genCompareFn_eq_model`; the first and last are restated below.) -/
theorem gen_compareFn_spec (L : IEEELaws fs) (op : CmpOp) (a b : NumV fs.F) :
    genCompareFn op a b = specCompareFn fs L.cmp op a b := by
  rw [genCompareFn_eq_model, compareFn_spec L]

theorem gen_lt_gt_swap (L : IEEELaws fs) (a b : NumV fs.F) :
    genCompareFn .lt a b = genCompareFn .gt b a := by
  rw [genCompareFn_eq_model, genCompareFn_eq_model, lt_gt_swap L]

theorem gen_nan_unordered (L : IEEELaws fs) (op : CmpOp) (a b : NumV fs.F)
    (hn : (∃ f, a = .flt f ∧ fs.isNaN f = true) ∨ (∃ f, b = .flt f ∧ fs.isNaN f = true))
    (hcomp : specCmp fs L.cmp a b ≠ none) :
    genCompareFn op a b = .ok (op == .ne) := by
  rw [genCompareFn_eq_model, nan_unordered L op a b hn hcomp]

/-- Integer `+ - *` of the translated `NumericDo` wrap modulo 2^64. -/
theorem gen_int_arith_wraps (op : ArOp) (a b : BitVec 64) (z : Int)
    (h : specIntArith op a.toInt b.toInt = some z) :
    NumGo.NumericDo fs (arOp op) (.int a) (.int b) = .ok (.int (BitVec.ofInt 64 z)) := by
  have := generated_eq_model_numericDo (fs := fs) op (.int a) (.int b)
  simp only [sx, numericDo, int_arith_wraps op a b z h, mapRes] at this
  exact this

theorem gen_uint_arith_wraps (op : ArOp) (a b : BitVec 64) (z : Int)
    (h : specIntArith op a.toNat b.toNat = some z) :
    NumGo.NumericDo fs (arOp op) (.uint a) (.uint b) = .ok (.uint (BitVec.ofInt 64 z)) := by
  have := generated_eq_model_numericDo (fs := fs) op (.uint a) (.uint b)
  simp only [sx, numericDo, uint_arith_wraps op a b z h, mapRes] at this
  exact this

/-- Division and modulo by zero in the translated code are the outcome `panic` (which the
builtin-call wrapper reports as an error), never a value. -/
theorem gen_div_mod_zero_is_error (a : BitVec 64) :
    recovered (NumGo.NumericDo fs .Div (.int a) (.int 0#64)) = .err ∧
    recovered (NumGo.NumericDo fs .Div (.uint a) (.uint 0#64)) = .err ∧
    recovered (NumGo.IntegerDo fs .Modulo (.int a) (.int 0#64)) = .err ∧
    recovered (NumGo.IntegerDo fs .Modulo (.uint a) (.uint 0#64)) = .err := by
  have h1 := generated_eq_model_numericDo (fs := fs) .div (.int a) (.int 0#64)
  have h2 := generated_eq_model_numericDo (fs := fs) .div (.uint a) (.uint 0#64)
  have h3 := generated_eq_model_modulo (fs := fs) (.int a) (.int 0#64)
  have h4 := generated_eq_model_modulo (fs := fs) (.uint a) (.uint 0#64)
  simp only [sx, arOp] at h1 h2 h3 h4
  rw [h1, h2, h3, h4]
  simp [numericDo, intDo, uintDo, moduloDo, mapRes, recovered]

/-- Mixed integer/float arithmetic of the translated code is carried out in float64. -/
theorem gen_mixed_is_float (op : ArOp) (a : BitVec 64) (f : fs.F) :
    NumGo.NumericDo fs (arOp op) (.int a) (.flt f) = .ok (sx (floatDo fs op (fs.ofInt a.toInt) f)) ∧
    NumGo.NumericDo fs (arOp op) (.flt f) (.int a) = .ok (sx (floatDo fs op f (fs.ofInt a.toInt))) := by
  have h1 := generated_eq_model_numericDo (fs := fs) op (.int a) (.flt f)
  have h2 := generated_eq_model_numericDo (fs := fs) op (.flt f) (.int a)
  simp only [sx] at h1 h2
  rw [h1, h2]
  simp [numericDo, floatOfInt64, mapRes]

/-- A FloatSem with a one-point carrier: enough to run the integer arms in `example`s. -/
def unitFloat : FloatSem where
  F := Unit
  isNaN := fun _ => false
  lt := fun _ _ => false
  add := fun _ _ => ()
  sub := fun _ _ => ()
  mul := fun _ _ => ()
  div := fun _ _ => ()
  ofInt := fun _ => ()
  zero := ()

example : NumGo.Compare unitFloat (.int (BitVec.intMin 64)) (.int 1#64) = .ok (-1#64) := by decide
example : NumGo.Compare unitFloat (.uint 1#64) (.uint (BitVec.allOnes 64)) = .ok (-1#64) := by decide
example : NumGo.NumericDo unitFloat .Div (.int 7#64) (.int 0#64) = .panic := by rfl
example : NumGo.NumericDo unitFloat .Add (.int (BitVec.intMax 64)) (.int 1#64) = .ok (.int (BitVec.intMin 64)) := by rfl

/-! ### non-vacuity: the hypotheses are met by concrete operands next to the limits -/

example : cmpInt64 (BitVec.intMin 64) 1#64 = -1 := by decide
example : cmpUint64 1#64 2#64 = -1 := by decide
example : cmpUint64 (BitVec.allOnes 64) 0#64 = 1 := by decide
example : (specIntArith .add (BitVec.intMax 64).toInt (1#64).toInt).isSome := by decide

/-! ### the pinned (pre-fix) code violated the property: kernel-checked witnesses -/

/-- `(< -9223372036854775808 1)` was false: sign of a wrapping difference. -/
theorem legacy_cmpInt_counterexample :
    Legacy.cmpIntBySub (BitVec.intMin 64) 1#64 = 1 ∧
    ordToInt (cmpZ (BitVec.intMin 64).toInt (1#64).toInt) = -1 := by decide

/-- `(< 1ULL 2ULL)` was false: an unsigned difference is never negative. -/
theorem legacy_cmpUint_never_less (a b : BitVec 64) : Legacy.cmpUintBySub a b ≠ -1 := by
  simp only [Legacy.cmpUintBySub]; split <;> omega

theorem legacy_cmpUint_counterexample : Legacy.cmpUintBySub 1#64 2#64 = 1 := by decide

end ZygoVerif.Num
