/-
C14 — hashes are insertion-ordered maps under every history. (skeleton; grown below)
-/
import ZygoVerif.Model.Hash
import ZygoVerif.Model.HashKey
import ZygoVerif.Model.LegacyHash
import ZygoVerif.Spec.OrderedMap
import ZygoVerif.Proofs.HashBasic
namespace ZygoVerif.Hash

/-- The channel's concrete keys satisfy the hypotheses of the theorems. -/
theorem concrete_laws : KeyLaws keyOps where
  refl a := by cases a <;> simp [keyOps, Key.keq]
  symm a b := by cases a <;> cases b <;> simp [keyOps, Key.keq] <;> intro h <;> exact h.symm
  trans a b c := by
    cases a <;> cases b <;> cases c <;> simp [keyOps, Key.keq] <;> intro h1 h2 <;> exact h1.trans h2
  code_congr a b := by cases a <;> cases b <;> simp [keyOps, Key.keq, Key.code] <;> intro h <;> simp [h]

end ZygoVerif.Hash
