/-
C14 — hashes are insertion-ordered maps under every operation history.

Model: `Model/Hash.lean` (Go map of buckets + KeyOrder + NumKeys, arm by arm after
fixes/C14-01, C14-02), generic in the key type `K`, the hash-code function `o.code` and the
key equality `o.keq` (= `Compare == 0` without error). Spec: `Spec/OrderedMap.lean`, an
association list in first-insertion order. Everything below holds for EVERY history, every
key type, every `code` with `keq a b → code a = code b` (collisions arbitrary) and every
`keq` that is an equivalence (`KeyLaws`, in Proofs/HashBasic.lean). The lemmas are in
`Proofs/Hash{Basic,Get,Inv,Refine,Text}.lean`.
-/
import ZygoVerif.Model.Hash
import ZygoVerif.Model.HashKey
import ZygoVerif.Model.LegacyHash
import ZygoVerif.Model.RangeBind
import ZygoVerif.Model.LegacyRangeBind
import ZygoVerif.Spec.OrderedMap
import ZygoVerif.Proofs.HashText
namespace ZygoVerif.Hash
variable {K V : Type} {o : KeyOps K}

/-! ### the hypotheses are satisfiable: the channel's concrete keys -/

/-- symbols, strings, ints and chars under `Compare == 0` (int and char compare numerically
with each other: `'x'` and `120` are one key) with the codes of `hashHelper`. -/
theorem concrete_laws : KeyLaws keyOps where
  refl a := by cases a <;> simp [keyOps, Key.keq]
  symm a b := by cases a <;> cases b <;> simp [keyOps, Key.keq] <;> intro h <;> exact h.symm
  trans a b c := by
    cases a <;> cases b <;> cases c <;> simp [keyOps, Key.keq] <;> intro h1 h2 <;> exact h1.trans h2
  code_congr a b := by cases a <;> cases b <;> simp [keyOps, Key.keq, Key.code] <;> intro h <;> simp [h]

example : ∃ o : KeyOps Key, KeyLaws o := ⟨keyOps, concrete_laws⟩

/-- `'x'` and `120` are one key; a symbol and the integer equal to its number are two keys in
one bucket. -/
theorem concrete_aliases :
    keyOps.keq (.chr 120) (.int 120) = true ∧
    keyOps.keq (.sym "zk0" 268) (.int 268) = false ∧ keyOps.code (.sym "zk0" 268) = keyOps.code (.int 268) := by
  decide

/-! ### invariant -/

/-- a fresh `(hash)` satisfies the invariant -/
theorem inv_init : Inv o (Hash.empty : Hash K V) := inv_empty

/-- every builtin keeps the invariant: hset and hdel by `inv_set` / `inv_del`, the eight
observers because they do not change the state -/
theorem inv_step (L : KeyLaws o) (sh : Show K V) (h : Hash K V) (I : Inv o h) (op : Op K V) :
    Inv o (step o sh h op).1 := by
  cases op with
  | hset k v => exact inv_set L h k.norm v I
  | hdel k => exact inv_del L h k.norm I
  | _ => exact I

/-- … hence after every history -/
theorem inv_exec (L : KeyLaws o) (sh : Show K V) (ops : List (Op K V)) (h : Hash K V) (I : Inv o h) :
    Inv o (exec o sh h ops) := by
  induction ops generalizing h with
  | nil => exact I
  | cons op rest ih => exact ih _ (inv_step L sh h I op)

example : Inv keyOps (exec keyOps keyShow Hash.empty [.hset (.plain (.chr 120)) 1, .hdel (.arr1 (.int 120))]) :=
  inv_exec concrete_laws _ _ _ inv_init

/-- What the invariant means for the key list: KeyOrder mentions a key (in some spelling)
exactly when that key resolves, and mentions no key twice. -/
theorem keyOrder_exactly_live (L : KeyLaws o) (h : Hash K V) (I : Inv o h) (k : K) :
    (∃ k0 ∈ h.keyOrder, o.keq k0 k = true) ↔ (get? o h k).isSome = true := by
  constructor
  · rintro ⟨k0, h0, hq⟩
    rw [← get?_congr L h hq]; exact I.koLive k0 h0
  · exact I.rep k

theorem keyOrder_once_each (h : Hash K V) (I : Inv o h) :
    h.keyOrder.Pairwise (fun a b => o.keq a b = false) := I.koPw

/-- NumKeys = total bucket length = number of live keys: `HashCountKeys` never panics. -/
theorem counters_agree (h : Hash K V) (I : Inv o h) :
    h.numKeys = msum h.map ∧ msum h.map = (abs o h).length := by
  refine ⟨I.numKeys_eq, ?_⟩
  rw [I.count, abs_length h I]

/-! ### refinement -/

/-- One step: same observation, and the abstraction commutes. -/
theorem step_refines (L : KeyLaws o) (sh : Show K V) (h : Hash K V) (I : Inv o h) (op : Op K V) :
    (step o sh h op).2 = (Spec.step o.keq sh (abs o h) op).2 ∧
    abs o (step o sh h op).1 = (Spec.step o.keq sh (abs o h) op).1 := by
  cases op with
  | hset k v => exact ⟨rfl, abs_set L h I k.norm v⟩
  | hdel k => exact ⟨rfl, abs_del L h I k.norm⟩
  | hget k => simp [step, Spec.step, abs_lookup L h I]; cases get? o h k.norm <;> rfl
  | hgetd k => simp [step, Spec.step, abs_lookup L h I]; cases get? o h k.norm <;> rfl
  | keys => simp [step, Spec.step, abs_keys h I]
  | len => simp [step, Spec.step, countKeys_inv h I]
  | hpair pos =>
    simp [step, Spec.step, hpair_inv h I]
    cases (abs o h)[pos]? with
    | none => rfl
    | some e => cases e; rfl
  | range => simp [step, Spec.step, range_inv h I]
  | str => simp [step, Spec.step, strRope_inv L sh h I]
  | json => simp [step, Spec.step, jsonRope_inv sh h I]

theorem run_refines (L : KeyLaws o) (sh : Show K V) (ops : List (Op K V)) (h : Hash K V) (I : Inv o h) :
    run o sh h ops = Spec.run o.keq sh (abs o h) ops := by
  induction ops generalizing h with
  | nil => rfl
  | cons op rest ih =>
    have hs := step_refines L sh h I op
    simp only [run, Spec.run]
    rw [hs.1, ih _ (inv_step L sh h I op), hs.2]

/-- **Refinement.** For every history, what the bucket/KeyOrder/NumKeys implementation lets a
script observe — the result of every hset, hdel, hget, 3-argument hget, keys, len, hpair,
two-variable range, str and json, step by step — is what the ordered association list answers. -/
theorem refines (L : KeyLaws o) (sh : Show K V) (ops : List (Op K V)) :
    run o sh Hash.empty ops = Spec.run o.keq sh [] ops :=
  run_refines L sh ops Hash.empty inv_init

/-- … and the state reached stands for the association list reached. -/
theorem refines_state (L : KeyLaws o) (sh : Show K V) (ops : List (Op K V)) (h : Hash K V) (I : Inv o h) :
    abs o (exec o sh h ops) = Spec.exec o.keq sh (abs o h) ops := by
  induction ops generalizing h with
  | nil => rfl
  | cons op rest ih =>
    simp only [exec, Spec.exec]
    rw [ih _ (inv_step L sh h I op), (step_refines L sh h I op).2]

example : run keyOps keyShow Hash.empty [.hset (.plain (.chr 120)) 1, .hset (.arr1 (.int 120)) 2, .keys] =
    [.ok, .ok, .keys [.chr 120]] := by decide

/-! ### a missing key -/

/-- Deleting a key that is not in the hash (whether or not its bucket exists), and any lookup,
leave the whole state — map, KeyOrder, NumKeys — exactly as it was; so every later
observation of every other key is unchanged. No invariant is needed. -/
theorem missing_key_noop (sh : Show K V) (h : Hash K V) (k : RKey K) (hn : get? o h k.norm = none) :
    (step o sh h (.hdel k)).1 = h ∧ (step o sh h (.hget k)).1 = h ∧ (step o sh h (.hgetd k)).1 = h ∧
    (step o sh h (.hget k)).2 = .err ∧ (step o sh h (.hgetd k)).2 = .dflt := by
  refine ⟨del_missing h k.norm hn, rfl, rfl, ?_, ?_⟩ <;> simp [step, hn]

/-- the same on the specification side: a missing key's delete is the identity -/
theorem spec_missing_key_noop (keq : K → K → Bool) (m : Spec.OMap K V) (k : K)
    (hn : Spec.lookup keq m k = none) : Spec.del keq m k = m := by
  unfold Spec.del
  rw [List.filter_eq_self]
  intro e he
  unfold Spec.lookup at hn
  simp only [Option.map_eq_none_iff, List.find?_eq_none] at hn
  simpa using hn e he

/-! ### the pinned tree (before the fixes) violated the property -/

namespace LegacyWitness
/-- keys are numbers, equal when equal, ALL in one bucket (code 0): the worst collision pattern -/
def oc : KeyOps Nat := ⟨fun _ => 0, fun a b => a == b⟩
/-- … and each in a bucket of its own -/
def od : KeyOps Nat := ⟨fun k => k, fun a b => a == b⟩
def sh : Show Nat Nat := ⟨toString, toString, toString, toString⟩
def carr : Nat → Int := fun k => 1000 + k
abbrev O := Op Nat Nat
end LegacyWitness
open LegacyWitness

example : KeyLaws oc where
  refl a := by simp [oc]
  symm a b h := by simp [oc] at *; omega
  trans a b c h1 h2 := by simp [oc] at *; omega
  code_congr a b _ := rfl

/-- `(hset h 1 7) (hdel h 1) (keys h)`: the deleted key was still listed -/
theorem legacy_stale_key_counterexample :
    Legacy.Hash.run od sh carr Hash.empty ([.hset (.plain 1) 7, .hdel (.plain 1), .keys] : List O)
      ≠ Spec.run od.keq sh [] [.hset (.plain 1) 7, .hdel (.plain 1), .keys] := by decide

/-- delete then re-insert: the key was listed twice, and `len` panicked -/
theorem legacy_reinsert_counterexample :
    Legacy.Hash.run od sh carr Hash.empty
      ([.hset (.plain 1) 7, .hset (.plain 2) 8, .hdel (.plain 1), .hdel (.plain 1), .hset (.plain 1) 9, .keys, .len] : List O)
      = [.ok, .ok, .ok, .ok, .ok, .keys [1, 2, 1], .panic] := by decide

/-- deleting a MISSING key that shares a bucket with a live one broke the counter: `len` panicked -/
theorem legacy_missing_key_counterexample :
    Legacy.Hash.run oc sh carr Hash.empty ([.hset (.plain 1) 7, .hdel (.plain 2), .len] : List O)
      ≠ Spec.run oc.keq sh [] [.hset (.plain 1) 7, .hdel (.plain 2), .len] := by decide

/-- hpair after a delete answered two positions with the same pair -/
theorem legacy_hpair_counterexample :
    Legacy.Hash.run od sh carr Hash.empty
      ([.hset (.plain 1) 7, .hset (.plain 2) 8, .hdel (.plain 1), .hpair 0, .hpair 1] : List O)
      = [.ok, .ok, .ok, .pair 2 8, .pair 2 8] := by decide

/-- `(hset h [1] 7) (hdel h [1]) (hget h 1)` still found the key; `(hget h [1] d)` never did -/
theorem legacy_array_key_counterexample :
    Legacy.Hash.run od sh carr Hash.empty
      ([.hset (.arr1 1) 7, .hgetd (.arr1 1), .hdel (.arr1 1), .hget (.plain 1)] : List O)
      = [.ok, .dflt, .ok, .val 7] ∧
    Spec.run od.keq sh [] ([.hset (.arr1 1) 7, .hgetd (.arr1 1), .hdel (.arr1 1), .hget (.plain 1)] : List O)
      = [.ok, .val 7, .ok, .err] := by decide

/-- the repaired model on the same histories agrees with the specification (instances of `refines`) -/
example : run od sh Hash.empty
      ([.hset (.plain 1) 7, .hset (.plain 2) 8, .hdel (.plain 1), .hdel (.plain 1), .hset (.plain 1) 9, .keys, .len] : List O)
      = [.ok, .ok, .ok, .ok, .ok, .keys [2, 1], .num 2] := by decide

/-! ### the defining range loop `for k, v := range h` (Model/RangeBind; repo fix C14-03)

Not an operation of the hash: the loop reads the hash through `__rangeLen`/`__rangePair` (the
`range` observation above, which `refines` covers) and binds `k`, `v` with one `mdef` per
iteration in the loop's scope. -/

/-- **Full statement** for the defining form (FALSE, recorded finding `… ranged`; see
`defining_range_known_counterexample`): the body sees every pair. -/
def DefiningRangePresentsAll : Prop :=
  ∀ ps : List (Key × Int), definingRange ps = some ps

/-- all keys of the pairs have the kind of `c` -/
def sameKind (c : Key) (ps : List (Key × Int)) : Prop := ∀ e ∈ ps, e.1.kind = c.kind

theorem definingRangeFrom_same (c : Key) (ps : List (Key × Int)) (h : sameKind c ps) :
    definingRangeFrom c ps = some ps := by
  induction ps generalizing c with
  | nil => rfl
  | cons e rest ih =>
    obtain ⟨k, v⟩ := e
    have hk : k.kind = c.kind := h (k, v) (by simp)
    have hr : sameKind k rest := fun e he => (h e (by simp [he])).trans hk.symm
    simp [definingRangeFrom, hk, ih k hr]

/-- **`defining_range_partial`** — the proved part: when the keys the loop meets all have one
type (the values are integers on this channel), the defining form presents exactly the pairs
of `range` — by `refines` the live keys once each, in first-insertion order, with their latest
values. Missing from the full statement: hashes whose keys have different types. -/
theorem defining_range_partial (k : Key) (v : Int) (rest : List (Key × Int)) (h : sameKind k rest) :
    definingRange ((k, v) :: rest) = some ((k, v) :: rest) := by
  simp [definingRange, definingRangeFrom_same k rest h]

example : sameKind (.int 5) [(.int 6, 2), (.int 7, 3)] := by
  intro e he; simp at he; rcases he with rfl | rfl <;> rfl

/-- … and when it does not present them it SAYS so (fix C14-03): the answer is the whole list or
an error, never a list that differs from what the hash holds. -/
theorem defining_range_never_wrong (ps l : List (Key × Int)) (h : definingRange ps = some l) : l = ps := by
  have from_ : ∀ (c : Key) (ps l : List (Key × Int)), definingRangeFrom c ps = some l → l = ps := by
    intro c ps
    induction ps generalizing c with
    | nil => intro l h; simpa [definingRangeFrom] using h.symm
    | cons e rest ih =>
      intro l h
      obtain ⟨k, v⟩ := e
      unfold definingRangeFrom at h
      split at h
      · cases hr : definingRangeFrom k rest with
        | none => simp [hr] at h
        | some l' => simp [hr] at h; rw [← h, ih k l' hr]
      · cases h
  cases ps with
  | nil => simpa [definingRange] using h.symm
  | cons e rest =>
    obtain ⟨k, v⟩ := e
    cases hr : definingRangeFrom k rest with
    | none => simp [definingRange, hr] at h
    | some l' => simp [definingRange, hr] at h; rw [← h, from_ k rest l' hr]

example : definingRange [(.int 5, 1), (.int 6, 2)] = some [(.int 5, 1), (.int 6, 2)] := by decide

/-- the recorded finding on the CURRENT model: over `(hash 5 1 "ab" 2)` the defining loop stops
with an error at the second key (a name bound to an int64 cannot be re-bound to a string in the
same scope); the full statement fails. -/
theorem defining_range_known_counterexample :
    definingRange [(.int 5, 1), (.str "ab", 2)] = none ∧ ¬ DefiningRangePresentsAll := by
  refine ⟨by decide, fun h => ?_⟩
  have := h [(.int 5, 1), (.str "ab", 2)]
  revert this; decide

/-- before fix C14-03 the error was swallowed and the body saw the FIRST key again, silently:
`[[5 1] [5 2]]` for `(hash 5 1 "ab" 2)`, and a later key of the first type resumed -/
theorem defining_range_counterexample :
    Legacy.Hash.definingRange [(.int 5, 1), (.str "ab", 2)] = [(.int 5, 1), (.int 5, 2)] ∧
    Legacy.Hash.definingRange [(.int 5, 1), (.str "ab", 2), (.int 7, 3)] = [(.int 5, 1), (.int 5, 2), (.int 7, 3)] := by
  decide

/-! ### the map laws a script relies on, stated on the model itself

`refines` says the implementation is the association list; these say, without the reader having
to run the list in their head, what a script may assume about ONE key across an arbitrary history
of operations on OTHER keys (collisions and aliases included). -/

/-- does this builtin write the key `k` (in any spelling that compares equal)? -/
def touches (o : KeyOps K) (k : K) : Op K V → Bool
  | .hset k' _ => o.keq k'.norm k
  | .hdel k' => o.keq k'.norm k
  | _ => false

/-- read-after-write, one step -/
theorem get_after_set (L : KeyLaws o) (h : Hash K V) (k k' : K) (v : V) :
    get? o (set o h k v) k' = if o.keq k k' then some v else get? o h k' := get?_set L h k k' v

theorem get_after_del (L : KeyLaws o) (h : Hash K V) (I : Inv o h) (k k' : K) :
    get? o (del o h k) k' = if o.keq k k' then none else get? o h k' := get?_del L h k k' I.bucketPw

/-- **a key nobody writes keeps its binding through every history** — whatever else is set,
deleted (same bucket or not), listed, printed or encoded meanwhile -/
theorem get_stable (L : KeyLaws o) (sh : Show K V) (k : K) (ops : List (Op K V)) (h : Hash K V) (I : Inv o h)
    (hnt : ∀ op ∈ ops, touches o k op = false) :
    get? o (exec o sh h ops) k = get? o h k := by
  induction ops generalizing h with
  | nil => rfl
  | cons op rest ih =>
    have hop : touches o k op = false := hnt op (List.mem_cons_self ..)
    have hrest : ∀ op' ∈ rest, touches o k op' = false := fun op' hm => hnt op' (List.mem_cons_of_mem _ hm)
    simp only [exec]
    rw [ih _ (inv_step L sh h I op) hrest]
    cases op with
    | hset k' v' => simp only [touches] at hop; simp [step, get_after_set L, hop]
    | hdel k' => simp only [touches] at hop; simp [step, get_after_del L h I, hop]
    | _ => rfl

/-- **the latest write wins**: after `hset k v`, any history that does not write `k` again, then
`hget k` (in any spelling `k'` of the key) answers `v` -/
theorem latest_write_wins (L : KeyLaws o) (sh : Show K V) (k : RKey K) (v : V) (k' : RKey K)
    (hq : o.keq k.norm k'.norm = true)
    (ops : List (Op K V)) (h : Hash K V) (I : Inv o h)
    (hnt : ∀ op ∈ ops, touches o k'.norm op = false) :
    (step o sh (exec o sh h (.hset k v :: ops)) (.hget k')).2 = .val v := by
  have I1 : Inv o (step o sh h (.hset k v)).1 := inv_step L sh h I _
  have := get_stable L sh k'.norm ops _ I1 hnt
  simp only [exec, step] at this ⊢
  rw [this, get_after_set L, hq]; rfl

/-- … and a deleted key stays gone until somebody sets it again -/
theorem deleted_stays_gone (L : KeyLaws o) (sh : Show K V) (k k' : RKey K)
    (hq : o.keq k.norm k'.norm = true)
    (ops : List (Op K V)) (h : Hash K V) (I : Inv o h)
    (hnt : ∀ op ∈ ops, touches o k'.norm op = false) :
    (step o sh (exec o sh h (.hdel k :: ops)) (.hget k')).2 = .err := by
  have I1 : Inv o (step o sh h (.hdel k)).1 := inv_step L sh h I _
  have := get_stable L sh k'.norm ops _ I1 hnt
  simp only [exec, step] at this ⊢
  rw [this, get_after_del L h I, hq]; rfl

/-- overwriting keeps the key's place in `keys`; a new key goes last -/
theorem overwrite_keeps_place (h : Hash K V) (k : K) (v : V) (hs : (get? o h k).isSome = true) :
    (set o h k v).keyOrder = h.keyOrder := by simp [set_keyOrder, hs]

theorem insert_goes_last (h : Hash K V) (k : K) (v : V) (hn : get? o h k = none) :
    (set o h k v).keyOrder = h.keyOrder ++ [k] := by simp [set_keyOrder, hn]

/-- delete, then set again: the key moves to the end, everything else keeps its order -/
theorem reinsert_moves_last (L : KeyLaws o) (h : Hash K V) (I : Inv o h) (k : K) (v : V)
    (hs : (get? o h k).isSome = true) :
    (set o (del o h k) k v).keyOrder = koRemove o h.keyOrder k ++ [k] := by
  rw [set_keyOrder, get_after_del L h I, L.refl]
  simp [del_keyOrder, hs]

/-- no builtin reorders the keys that stay: `hdel` leaves a sublist, `hset` an extension -/
theorem del_keeps_relative_order (h : Hash K V) (k : K) : (del o h k).keyOrder.Sublist h.keyOrder := by
  rw [del_keyOrder]; split
  · exact koRemove_sublist _ _
  · exact List.Sublist.refl _

theorem set_keeps_relative_order (h : Hash K V) (k : K) (v : V) : h.keyOrder <+: (set o h k v).keyOrder := by
  rw [set_keyOrder]; split
  · exact List.prefix_refl _
  · exact List.prefix_append _ _

/-- the hypotheses are met by a real history with a code collision and an alias:
`x` is set, then the char `'x'`'s alias `[120]` and two other keys are written and one deleted -/
example : (step keyOps keyShow
    (exec keyOps keyShow Hash.empty
      [.hset (.plain (.sym "x" 120)) 7, .hset (.plain (.int 120)) 1, .hset (.plain (.str "x")) 2, .hdel (.arr1 (.int 120)), .keys])
    (.hget (.plain (.sym "x" 120)))).2 = .val 7 := by decide


end ZygoVerif.Hash
