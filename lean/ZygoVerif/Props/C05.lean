/-
C05 — errors are contained: a failed evaluation restores the interpreter.

What is proved here, about the model `Model/Control.lean` of capture/restore:
  * `restore_depths`  : after `restore (capture st)` the three depths, `curfunc`, `pc` and the
    scope-stack identity are those of `st` — for ANY intermediate state (no hypothesis).
  * `restore_exact`   : if execution only worked above the captured depths (`Extends`), the
    restored control state is *equal* to the captured one, contents included.
  * `run_error_at_rest` / `run_error_exact` : the error branch of `Run` puts an interpreter
    that was at rest back at rest, whatever happened in between, at any call depth.
  * the structural facts regenerated from the source (T1): the capture record and the
    restore routine cover the same six components, and every error exit of every function
    that captures the control state restores it first.
What is NOT proved (held by the `contain` correspondence: failure injection at every
reachable call + twin interpreter): that `Extends` holds for the real instruction set (it
is exactly what the C04 balance discipline provides), and that globals equal those of the
prefix run. Full statement kept visible as `C05_full_statement`.
-/
import ZygoVerif.Model.Control
import ZygoVerif.Generated.Control
import ZygoVerif.Generated.ErrDiscard
namespace ZygoVerif.Control

variable {D S A F : Type}

theorem truncate_length {α : Type} (n : Nat) (l : List (Option α)) :
    (truncateToSize n l).length = n := by
  unfold truncateToSize
  split
  · simp [List.length_take]; omega
  · simp; omega

theorem truncate_of_prefix {α : Type} (l l' : List (Option α)) (h : l <+: l') :
    truncateToSize l.length l' = l := by
  obtain ⟨t, rfl⟩ := h
  unfold truncateToSize
  simp

/-- **restore_depths** — for every intermediate state `st'`, restoring the state captured at
`st` yields the depths, function, pc and scope-stack identity of `st`. -/
theorem restore_depths (st st' : Ctl D S A F) :
    let r := restore (capture st) st'
    depths r = depths st ∧ r.curfunc = st.curfunc ∧ r.pc = st.pc ∧ r.scopeId = st.scopeId := by
  simp [restore, capture, depths, truncate_length]

/-- **restore_exact** — when nothing below the captured depths was touched, the restored
control state is the captured one, contents included. -/
theorem restore_exact (st st' : Ctl D S A F) (h : Extends st st') :
    restore (capture st) st' = st := by
  cases st with
  | mk data sid scopes addr cf pc =>
    simp only [restore, capture]
    have hd := truncate_of_prefix _ _ h.data
    have ha := truncate_of_prefix _ _ h.addr
    have hs := truncate_of_prefix _ _ h.scopes
    simp only at hd ha hs
    congr 1
    · funext i
      by_cases hi : i = sid
      · subst hi; simpa using hs
      · simp [hi, h.others i hi]

/-- **run_error_at_rest** — if `Run` was entered at rest and any instruction fails (at any
depth of nested evaluation: the intermediate state is arbitrary), the interpreter is at
rest again: sizes by `restore_depths`, no hypothesis about what ran in between. -/
theorem run_error_at_rest (funSize : F → Int) (main : F) (entry st' : Ctl D S A F)
    (h : AtRest funSize main entry) : AtRest funSize main (runErrorExit funSize entry st') := by
  obtain ⟨hd, hs, ha, hc, _⟩ := h
  have hlen := restore_depths entry st'
  simp only [depths, Prod.mk.injEq] at hlen
  obtain ⟨⟨h1, h2, h3⟩, h4, _, _⟩ := hlen
  refine ⟨?_, ?_, ?_, ?_, ?_⟩
  · have : (restore (capture entry) st').data.length = 0 := by rw [h1, hd]; rfl
    simpa [runErrorExit] using List.eq_nil_of_length_eq_zero this
  · simpa [runErrorExit, hs] using h2
  · have : (restore (capture entry) st').addr.length = 0 := by rw [h3, ha]; rfl
    simpa [runErrorExit] using List.eq_nil_of_length_eq_zero this
  · simp [runErrorExit, h4, hc]
  · simp [runErrorExit, h4, hc]

/-- **run_error_exact** — under the frame condition the global scope object itself (the cell
that holds every completed definition) is the one the interpreter had on entry. -/
theorem run_error_exact (funSize : F → Int) (entry st' : Ctl D S A F) (h : Extends entry st') :
    runErrorExit funSize entry st' = { entry with pc := funSize entry.curfunc } := by
  simp [runErrorExit, restore_exact entry st' h]

/-- Full-strength statement of the property on this model (not proved here: it needs the
instruction semantics; the `contain` channel checks it on the real code). -/
def C05_full_statement (funSize : F → Int) (main : F)
    (Reach : Ctl D S A F → Ctl D S A F → Prop) : Prop :=
  ∀ entry st', AtRest funSize main entry → Reach entry st' → Extends entry st'

/-! ### non-vacuity -/
example : AtRest (fun _ : Unit => (3 : Int)) ()
    ({ data := [], scopeId := 0, scopes := fun _ => [some ()], addr := [], curfunc := (), pc := 3 }
      : Ctl Unit Unit Unit Unit) := by
  simp [AtRest]

example : Extends
    ({ data := [], scopeId := 0, scopes := fun _ => [some 1], addr := [], curfunc := (), pc := 0 }
      : Ctl Nat Nat Nat Unit)
    { data := [some 5, none], scopeId := 0, scopes := fun _ => [some 1], addr := [some 9],
      curfunc := (), pc := 7 } := by
  constructor <;> simp

/-- The growth case of `TruncateToSize` is real: restoring onto a stack that was popped below
the captured depth yields the right *size* but nil contents — why `Extends` is needed for
`restore_exact` and why C04's balance matters for C05. -/
example : truncateToSize 2 [some 1] = [some 1, (none : Option Nat)] := by decide

/-! ### structural facts regenerated from the source (tie T1) -/
open ZygoVerif.Generated.Control in
/-- capture and restore cover the same six components. -/
theorem capture_restore_cover :
    captureFields = ["addrstackSize := env.addrstack.Size()", "curfunc := env.curfunc",
      "datastackSize := env.datastack.Size()", "linearstack := env.linearstack",
      "linearstackSize := env.linearstack.Size()", "pc := env.pc"] ∧
    restoreStmts = ["env.addrstack.TruncateToSize(state.addrstackSize)",
      "env.curfunc = state.curfunc", "env.datastack.TruncateToSize(state.datastackSize)",
      "env.linearstack = state.linearstack",
      "env.linearstack.TruncateToSize(state.linearstackSize)", "env.pc = state.pc"] := by
  decide

open ZygoVerif.Generated.Control in
/-- every error exit of every function that captures the control state restores it first. -/
theorem every_error_exit_restores : ∀ e ∈ errorExits, e.2.2.1 = true := by decide

open ZygoVerif.Generated.Control in
/-- the functions known to bracket nested evaluation all appear (so the fact above is not
vacuous, and a bracket that disappears is noticed). -/
theorem brackets_present :
    ∀ f ∈ ["Zlisp.Run", "Zlisp.CallUserFunction", "Zlisp.EvalCallExpression", "Zlisp.Apply",
           "SexpLazyArg.Force"], f ∈ errorExits.map (·.1) := by decide

/-- no call to a `Generate*` routine inside the compiler drops its error result: a compile
error in a nested form always propagates (it used to be swallowed by `and`/`or` and by the
syntax-quote generators, which made `(and 1 (let))` *succeed* with nil). -/
theorem compile_errors_propagate : ZygoVerif.Generated.ErrDiscard.discardSites = [] := by decide

end ZygoVerif.Control
