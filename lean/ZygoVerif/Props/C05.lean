/-
C05 — errors are contained: a failed evaluation restores the interpreter.

What is proved here, about the model `Model/Control.lean` of capture/restore:
  * `restore_depths`  : after `restore (capture st)` the three depths, `curfunc`, `pc` and the
    scope-stack identity are those of `st` — for ANY intermediate state (no hypothesis).
  * `restore_exact`   : if execution only worked above the captured depths (`Extends`), the
    restored control state is *equal* to the captured one, contents included.
  * `run_error_at_rest` / `run_error_exact` : the error branch of `Run` puts an interpreter
    that was at rest back at rest, whatever happened in between, at any call depth.
  * the structural facts regenerated from the source (T1): the capture record and the
    restore routine cover the same six components, and every error exit of every function
    that captures the control state restores it first.
What is NOT proved (held by the `contain` correspondence: failure injection at every
reachable call + twin interpreter): that `Extends` holds for the real instruction set (it
is exactly what the C04 balance discipline provides), and that globals equal those of the
prefix run. Full statement kept visible as `C05_full_statement`.

PART II (namespace `ZygoVerif.C05`, second half of this file) lifts the theorems from the
small control model to the EXECUTABLE VM MODEL `Model/VM.lean` — the one that is compared
with the Go interpreter instruction by instruction on every run (channels `eval`, `contain`):
  * `vm_run_error_at_rest`, `vm_runLoop_error_at_rest`, `vm_text_error_at_rest` — sizes,
    `curfunc`, pc after the error exit of `Run`/`runText`: no hypothesis whatsoever;
  * `vm_scope_stack_object_restored` — the scope-stack object (lazy forces swap it): no
    hypothesis; by induction over all 13 functions of the VM's mutual block;
  * `vm_instr_effect`, `vm_instr_frame` — the stack effect of every non-re-entrant instruction
    of the real instruction set, and the frame condition it gives;
  * `vm_run_error_exact` — contents, under `Extends3` at the fault state;
  * `…_counterexample` — where the unconditional statement is false;
  * `defs_prefix` — nothing but the control state is rolled back;
  * `VmErrorAtRestExact` — the full statement, with what is missing;
  * `vm_text_error_exact_generated` — `VmErrorAtRestExact` for class `err`, texts of the model
    generator's grammar and states served by such texts: data / scope / address / set-aside
    stacks EXACTLY those of entry, NO `Extends3` hypothesis (from C04's error-path contract,
    Props/C04Err.lean).
-/
import ZygoVerif.Model.Control
import ZygoVerif.Generated.Control
import ZygoVerif.Generated.ErrDiscard
import ZygoVerif.Proofs.ContainSusp
import ZygoVerif.Proofs.MapErr
import ZygoVerif.Props.C04Err
namespace ZygoVerif.Control

variable {D S A F : Type}

theorem truncate_length {α : Type} (n : Nat) (l : List (Option α)) :
    (truncateToSize n l).length = n := by
  unfold truncateToSize
  split
  · simp [List.length_take]; omega
  · simp; omega

theorem truncate_of_prefix {α : Type} (l l' : List (Option α)) (h : l <+: l') :
    truncateToSize l.length l' = l := by
  obtain ⟨t, rfl⟩ := h
  unfold truncateToSize
  simp

/-- **restore_depths** — for every intermediate state `st'`, restoring the state captured at
`st` yields the depths, function, pc and scope-stack identity of `st`. -/
theorem restore_depths (st st' : Ctl D S A F) :
    let r := restore (capture st) st'
    depths r = depths st ∧ r.curfunc = st.curfunc ∧ r.pc = st.pc ∧ r.scopeId = st.scopeId := by
  simp [restore, capture, depths, truncate_length]

/-- **restore_exact** — when nothing below the captured depths was touched, the restored
control state is the captured one, contents included. -/
theorem restore_exact (st st' : Ctl D S A F) (h : Extends st st') :
    restore (capture st) st' = st := by
  cases st with
  | mk data sid scopes addr cf pc =>
    simp only [restore, capture]
    have hd := truncate_of_prefix _ _ h.data
    have ha := truncate_of_prefix _ _ h.addr
    have hs := truncate_of_prefix _ _ h.scopes
    simp only at hd ha hs
    congr 1
    · funext i
      by_cases hi : i = sid
      · subst hi; simpa using hs
      · simp [hi, h.others i hi]

/-- **run_error_at_rest** — if `Run` was entered at rest and any instruction fails (at any
depth of nested evaluation: the intermediate state is arbitrary), the interpreter is at
rest again: sizes by `restore_depths`, no hypothesis about what ran in between. -/
theorem run_error_at_rest (funSize : F → Int) (main : F) (entry st' : Ctl D S A F)
    (h : AtRest funSize main entry) : AtRest funSize main (runErrorExit funSize entry st') := by
  obtain ⟨hd, hs, ha, hc, _⟩ := h
  have hlen := restore_depths entry st'
  simp only [depths, Prod.mk.injEq] at hlen
  obtain ⟨⟨h1, h2, h3⟩, h4, _, _⟩ := hlen
  refine ⟨?_, ?_, ?_, ?_, ?_⟩
  · have : (restore (capture entry) st').data.length = 0 := by rw [h1, hd]; rfl
    simpa [runErrorExit] using List.eq_nil_of_length_eq_zero this
  · simpa [runErrorExit, hs] using h2
  · have : (restore (capture entry) st').addr.length = 0 := by rw [h3, ha]; rfl
    simpa [runErrorExit] using List.eq_nil_of_length_eq_zero this
  · simp [runErrorExit, h4, hc]
  · simp [runErrorExit, h4, hc]

/-- **run_error_exact** — under the frame condition the global scope object itself (the cell
that holds every completed definition) is the one the interpreter had on entry. -/
theorem run_error_exact (funSize : F → Int) (entry st' : Ctl D S A F) (h : Extends entry st') :
    runErrorExit funSize entry st' = { entry with pc := funSize entry.curfunc } := by
  simp [runErrorExit, restore_exact entry st' h]

/-- Full-strength statement of the property on this model (not proved here: it needs the
instruction semantics; the `contain` channel checks it on the real code). -/
def C05_full_statement (funSize : F → Int) (main : F)
    (Reach : Ctl D S A F → Ctl D S A F → Prop) : Prop :=
  ∀ entry st', AtRest funSize main entry → Reach entry st' → Extends entry st'

/-! ### non-vacuity -/
example : AtRest (fun _ : Unit => (3 : Int)) ()
    ({ data := [], scopeId := 0, scopes := fun _ => [some ()], addr := [], curfunc := (), pc := 3 }
      : Ctl Unit Unit Unit Unit) := by
  simp [AtRest]

example : Extends
    ({ data := [], scopeId := 0, scopes := fun _ => [some 1], addr := [], curfunc := (), pc := 0 }
      : Ctl Nat Nat Nat Unit)
    { data := [some 5, none], scopeId := 0, scopes := fun _ => [some 1], addr := [some 9],
      curfunc := (), pc := 7 } := by
  constructor <;> simp

/-- The growth case of `TruncateToSize` is real: restoring onto a stack that was popped below
the captured depth yields the right *size* but nil contents — why `Extends` is needed for
`restore_exact` and why C04's balance matters for C05. -/
example : truncateToSize 2 [some 1] = [some 1, (none : Option Nat)] := by decide

/-! ### structural facts regenerated from the source (tie T1) -/
open ZygoVerif.Generated.Control in
/-- capture and restore cover the same six components. -/
theorem capture_restore_cover :
    captureFields = ["addrstackSize := env.addrstack.Size()", "curfunc := env.curfunc",
      "datastackSize := env.datastack.Size()", "linearstack := env.linearstack",
      "linearstackSize := env.linearstack.Size()", "pc := env.pc"] ∧
    restoreStmts = ["env.addrstack.TruncateToSize(state.addrstackSize)",
      "env.curfunc = state.curfunc", "env.datastack.TruncateToSize(state.datastackSize)",
      "env.linearstack = state.linearstack",
      "env.linearstack.TruncateToSize(state.linearstackSize)", "env.pc = state.pc"] := by
  decide

open ZygoVerif.Generated.Control in
/-- every error exit of every function that captures the control state restores it first. -/
theorem every_error_exit_restores : ∀ e ∈ errorExits, e.2.2.1 = true := by decide

open ZygoVerif.Generated.Control in
/-- the functions known to bracket nested evaluation all appear (so the fact above is not
vacuous, and a bracket that disappears is noticed). -/
theorem brackets_present :
    ∀ f ∈ ["Zlisp.Run", "Zlisp.CallUserFunction", "Zlisp.EvalCallExpression", "Zlisp.Apply",
           "SexpLazyArg.Force"], f ∈ errorExits.map (·.1) := by decide

/-- no call to a `Generate*` routine inside the compiler drops its error result: a compile
error in a nested form always propagates (it used to be swallowed by `and`/`or` and by the
syntax-quote generators, which made `(and 1 (let))` *succeed* with nil). -/
theorem compile_errors_propagate : ZygoVerif.Generated.ErrDiscard.discardSites = [] := by decide

end ZygoVerif.Control

/-! # PART II — the executable VM model (`Model/VM.lean`) -/
namespace ZygoVerif.C05
open ZygoVerif.Core ZygoVerif.VM ZygoVerif.Contain

/-! ## 1. The error exit of `Run` leaves the interpreter where the caller expects it -/

/-- **vm_run_error_at_rest** — for EVERY state `s` (any call depth, any stacks, any code) and
every fuel: if `Run` started in `s` ends with an error, then in the resulting state the data,
scope and address stacks have exactly the sizes captured at entry, `curfunc` is the function
of entry, the pc stands behind its code, and the stacks set aside by lazy forces are those of
entry. The failure may have happened at any depth of re-entry (`callExpr → evalCallExpr →
nested → run`, `callUser → builtin → applyFn/forceLazy → run`): all of that is inside the
instruction whose error this loop answers. -/
theorem vm_run_error_at_rest (fuel : Nat) (s s' : St) (h : (run fuel).run s = (.error .err, s')) :
    s'.data.length = s.data.length ∧ s'.linear.length = s.linear.length ∧ s'.addr.length = s.addr.length ∧
    s'.curfunc = s.curfunc ∧ s'.pc = curSize s' ∧ s'.suspended = s.suspended := by
  have hz := run_error_sized fuel s s' h
  exact ⟨hz.data, hz.linear, hz.addr, hz.curfunc, hz.pcEnd, run_error_susp fuel s s' h⟩

/-- `Run`, whatever its outcome, leaves the loop-record stack as it was -/
theorem vm_run_loopstack (fuel : Nat) (s : St) : ((run fuel).run s).2.loopstack = s.loopstack :=
  run_loopstack fuel s

/-- the same for the loop itself, for any captured control state `st` -/
theorem vm_runLoop_error_at_rest (fuel : Nat) (st : CtlState) (s s' : St)
    (h : (runLoop fuel st).run s = (.error .err, s')) :
    s'.data.length = st.dataSize ∧ s'.linear.length = st.linearSize ∧ s'.addr.length = st.addrSize ∧
    s'.curfunc = st.curfunc ∧ s'.pc = curSize s' ∧ s'.suspended.length ≤ st.susp := by
  have hz := runLoop_error_sized fuel st s s' h
  exact ⟨hz.data, hz.linear, hz.addr, hz.curfunc, hz.pcEnd, hz.susp⟩

/-- **vm_text_error_at_rest** — top level: an interpreter at rest that is given a text which
fails — at compile time (`cerr`) or anywhere during its execution (`err`) — is at rest
afterwards: data stack empty, ONE scope, address stack empty, `curfunc = mainfunc`, pc behind
the code of `mainfunc`; and it is usable (`alive`). Depths `0,1,0,0` in the harness vocabulary:
`vm_text_error_depths` below. -/
theorem vm_text_error_at_rest (fuel : Nat) (es : List Expr) (s s' : St) (cls v d : String) (tr : List String)
    (alive : Bool) (h : AtRest s) (hr : runText fuel es s = (.done cls v tr d, s', alive))
    (hcls : cls = "err" ∨ cls = "cerr") :
    s'.data = [] ∧ s'.linear.length = 1 ∧ s'.addr = [] ∧ s'.curfunc = mainFn ∧ curSize s' ≤ s'.pc ∧
    alive = true ∧ d = depths s' := by
  obtain ⟨hz, ha, hd⟩ := runText_error_sized fuel es s s' cls v d tr alive h hr hcls
  exact ⟨hz.data, hz.linear, hz.addr, hz.curfunc, hz.pcEnd, ha, hd⟩

/-- **vm_text_error_depths** — in the harness vocabulary: after a failing text the four depths
(data, scope, address, loop-record stack) are `0,1,0,0`. The fourth is the generator's: the VM
never touches it and every successful compilation — at load time and at run time, for operands
and lazy arguments — hands it back as it was (`genLS_compile`, all eight `compile…` functions;
`allKeeps`, all 13 VM functions). -/
theorem vm_text_error_depths (fuel : Nat) (es : List Expr) (s s' : St) (cls v d : String) (tr : List String)
    (alive : Bool) (h : AtRest s) (hr : runText fuel es s = (.done cls v tr d, s', alive))
    (hcls : cls = "err" ∨ cls = "cerr") : d = "0,1,0,0" ∧ s'.loopstack = [] := by
  obtain ⟨hd, hl, ha, _, _, _, hdep⟩ := vm_text_error_at_rest fuel es s s' cls v d tr alive h hr hcls
  have hls : s'.loopstack = [] := by
    have := runText_loopstack fuel es s
    rw [hr] at this
    exact this.trans h.2.2.2.1
  exact ⟨hdep.trans (depths_rest s' hd hl ha hls), hls⟩

/-- the loop-record stack survives every text, whatever its outcome -/
theorem vm_text_loopstack (fuel : Nat) (es : List Expr) (s : St) : (runText fuel es s).2.1.loopstack = s.loopstack :=
  runText_loopstack fuel es s

/-- a compile error runs nothing: the state is the state before (trace cleared) -/
theorem vm_text_compile_error_runs_nothing (fuel : Nat) (es : List Expr) (s s' : St) (v d : String)
    (tr : List String) (alive : Bool) (hr : runText fuel es s = (.done "cerr" v tr d, s', alive)) :
    s' = { s with trace := [] } := by
  rw [runText_eq] at hr
  split at hr
  · injection hr with _ h2
    injection h2 with h2 _
    exact h2.symm
  · rename_i code t gs' hc
    rcases hrun : (run fuel).run (loaded s gs' code) with ⟨r, s2⟩
    rw [hrun] at hr
    unfold finishRun at hr
    rcases r with (_ | _ | _) | _ <;> · injection hr with h1 _; injection h1 with h1; exact absurd h1 (by decide)

/-- non-vacuity: the fresh interpreter is at rest, and a failing text exists (an unbound
symbol): its class is `err` and the theorem applies -/
example : AtRest initSt := ⟨rfl, rfl, rfl, rfl, rfl, by decide⟩
example : (match (runText 50 [.sym "nope"] initSt).1 with | .done cls _ _ d => (cls, d) | .dead => ("", ""))
    = ("err", "0,1,0,0") := by decide +kernel

/-! ## 2. The frame condition -/

/-- **vm_scope_stack_object_restored** — every function of the VM (all 13 of the mutual block,
every instruction, every fuel, every state, every outcome) leaves the scope stacks that were
set aside at its entry set aside, in place. -/
theorem vm_suspended_kept (base : Susp) (fuel : Nat) : AllKeeps base fuel := allKeeps base fuel

/-- **vm_instr_effect** — the stack effect of each of the 25 instructions of the real
instruction set that do not re-enter the VM, for every state and every outcome: at most
`needD` data cells, `needL` scopes, `needA` return addresses of what was there are removed. -/
theorem vm_instr_effect (f : Nat) (i : Instr) (s : St) (hs : simple i = true) :
    Eff (needD i s) (needL i) (needA i) s ((exec (f + 1) i).run s).2 := exec_simple_eff f i s hs

/-- **vm_instr_frame** — hence: stack cells deeper than the instruction's need are not touched.
Unconditional special cases are instances: `pop` on an empty data stack is ignored
(`needD .pop s = 0`), `push`, `dup`, `envToStack`, `addScope`, `createClosure`, jumps touch
nothing below (`need = 0`), `ret` takes ONE return address. -/
theorem vm_instr_frame (f : Nat) (i : Instr) (s : St) (hs : simple i = true) {bd bl ba} (hb : Above bd bl ba s)
    (hd : bd.length + needD i s ≤ s.data.length) (hl : bl.length + needL i ≤ s.linear.length)
    (ha : ba.length + needA i ≤ s.addr.length) : Above bd bl ba ((exec (f + 1) i).run s).2 :=
  exec_simple_frame f i s hs hb hd hl ha

example (s : St) (h : s.data = []) : needD .pop s = 0 := by simp [needD, h]
example : ∀ s, needD .dup s = 0 ∧ needL .addScope = 0 ∧ needA .ret = 1 ∧ needL (.brk 3 2) = 2 := fun _ => ⟨rfl, rfl, rfl, rfl⟩

/-- **vm_run_error_exact** — contents. Whenever `Run` returns an error there is a fault state
`s₁` (the state in which an instruction of this run stopped with the error); the result has the
tables of `s₁` (NOTHING of scopes, functions, heap, thunks, loop records is rolled back), the
set-aside scope stacks of entry (unconditional), and — IF `s₁` still stands on the three
stacks of entry — data, scope and address stacks EQUAL to those of entry. -/
theorem vm_run_error_exact (fuel : Nat) (s s' : St) (h : (run fuel).run s = (.error .err, s')) :
    ∃ s₁, FaultState fuel s s₁ ∧ SameStore s' s₁ ∧ s'.suspended = s.suspended ∧
      (Extends3 s s₁ → s'.data = s.data ∧ s'.linear = s.linear ∧ s'.addr = s.addr) :=
  run_error_exact' fuel s s' h

/-- **vm_run_error_exact_of_invariant** — what a typing of states has to provide for
exactness, and nothing more: a predicate that holds at entry, survives every instruction step
(simple or re-entrant, whatever the outcome) and implies the frame condition. For the simple
instructions `vm_instr_frame` reduces "survives the step" to "there is room for the need". -/
theorem vm_run_error_exact_of_invariant (P : St → Prop) (s : St)
    (hstep : ∀ f i s₀, P s₀ → P ((exec f i).run s₀).2) (hext : ∀ s₁, P s₁ → Extends3 s s₁)
    (fuel : Nat) (s' : St) (hp : P s) (h : (run fuel).run s = (.error .err, s')) :
    s'.data = s.data ∧ s'.linear = s.linear ∧ s'.addr = s.addr ∧ s'.suspended = s.suspended :=
  run_error_exact_of_invariant P s hstep hext fuel s' hp h

/-- non-vacuity of `vm_run_error_exact_of_invariant`: for an entry state with empty stacks the
trivial predicate is such an invariant… as far as data and address stacks go the hypothesis
`Extends3` is then automatic; here the instance with all three stacks empty -/
example (s : St) (hd : s.data = []) (hl : s.linear = []) (ha : s.addr = []) : ∀ s₁, True → Extends3 s s₁ :=
  fun s₁ _ => ⟨by rw [hd]; exact List.nil_suffix, by rw [hl]; exact List.nil_suffix, by rw [ha]; exact List.nil_suffix⟩

/-- at the top level data and address stacks are exact for free (they are empty); the global
scope is back at the bottom of the scope stack iff it was still there at the fault -/
theorem vm_text_error_global_scope (fuel : Nat) (s₀ s₁ s' : St) (hl : s₀.linear = [some 0])
    (hf : FaultState fuel s₀ s₁) (hs' : s' = park (restoreSt (captureOf s₀) s₁))
    (hext : [some 0] <:+ linAt (captureOf s₀) s₁) : s'.linear = [some 0] :=
  runText_error_linear fuel s₀ s₁ s' hl hf hs' hext

/-- **vm_extends_counterexample** — the unconditional statement "on the error exit the stacks
EQUAL the captured ones" is FALSE for the real instruction set: unbalanced code (`pop; ret` on a
data stack `[9]`; `removeScope; ret` at top level) ends with the captured SIZES but nil cells —
`TruncateToSize` grows a stack with nil entries. -/
theorem vm_extends_counterexample :
    (isErr ((run 5).run (withMain [.pop, .ret] [some (.int 9)])).1 = true
      ∧ ((run 5).run (withMain [.pop, .ret] [some (.int 9)])).2.data = [none])
    ∧ (isErr ((run 5).run (withMain [.removeScope, .ret] [])).1 = true
      ∧ ((run 5).run (withMain [.removeScope, .ret] [])).2.linear = [none]) :=
  ⟨pad_counterexample, pad_scope_counterexample⟩

/-- **vm_fits_counterexample** — and sizes that fit (C01's `Fits`: no padding) are not enough
for the contents: `pop; push 7; ret` replaces the caller's cell. -/
theorem vm_fits_counterexample :
    isErr ((run 5).run (withMain [.pop, .push (.int 7), .ret] [some (.int 9)])).1 = true
    ∧ ((run 5).run (withMain [.pop, .push (.int 7), .ret] [some (.int 9)])).2.data = [some (.int 7)] :=
  fits_not_enough_counterexample

/-- The full statement on the VM model: every text that fails, given to an interpreter that
served any history of texts before, leaves it at rest with the GLOBAL SCOPE in place. -/
inductive Served : St → Prop where
  | fresh : Served initSt
  | text (fuel : Nat) (es : List Expr) (s s' : St) (o : Outcome) : Served s → runText fuel es s = (o, s', true) → Served s'

def VmErrorAtRestExact : Prop :=
  ∀ (fuel : Nat) (es : List Expr) (s s' : St) (cls v d : String) (tr : List String) (alive : Bool),
    Served s → runText fuel es s = (.done cls v tr d, s', alive) → (cls = "err" ∨ cls = "cerr") →
    s'.data = [] ∧ s'.linear = [some 0] ∧ s'.addr = [] ∧ s'.curfunc = mainFn ∧ curSize s' ≤ s'.pc

/-- **vm_error_at_rest_exact_partial** — proved: everything but the CONTENT of the one scope
cell, for every state at rest (served or not). MISSING for `VmErrorAtRestExact`: that the global
scope is still at the bottom of the scope stack in the fault state (`vm_text_error_global_scope`
then gives `linear = [some 0]`). That is the frame condition for the code the generator emits;
it needs (1) `AtRest` for every `Served` state (C04's `RunAtRest`, open there), (2) the
refinement "every `VM.exec` step of a balanced listing has room for its need" — `vm_instr_effect`
is the VM half of it, C04's `checker_sound` the abstract half; the simulation between them and
the induction through the re-entrant instructions (`callExpr`, `callArr`) are not done —
(3) `GenBalanced` for `for`/function bodies (partial in C04). Held meanwhile by channel
`contain` on the real interpreter AND on this model (records `D[…]`, follow-up battery). -/
theorem vm_error_at_rest_exact_partial (fuel : Nat) (es : List Expr) (s s' : St) (cls v d : String)
    (tr : List String) (alive : Bool) (h : AtRest s) (hr : runText fuel es s = (.done cls v tr d, s', alive))
    (hcls : cls = "err" ∨ cls = "cerr") :
    s'.data = [] ∧ s'.linear.length = 1 ∧ s'.addr = [] ∧ s'.curfunc = mainFn ∧ curSize s' ≤ s'.pc := by
  obtain ⟨a, b, c, d', e, _, _⟩ := vm_text_error_at_rest fuel es s s' cls v d tr alive h hr hcls
  exact ⟨a, b, c, d', e⟩

/-! ## 3. What is NOT rolled back -/

/-- **defs_prefix** — after a failed `Run` every table of the interpreter (scope cells — hence
every global and every definition completed before the failure —, function objects, loop
records, thunks with their memoised values, the data heap, the trace) is EXACTLY as the
failing instruction left it: the state of an interpreter that executed the part of the
program that ran before the failure, and nothing else. Only the control state is reset. -/
theorem defs_prefix (fuel : Nat) (s s' : St) (h : (run fuel).run s = (.error .err, s')) :
    ∃ s₁, FaultState fuel s s₁ ∧ s'.scopes = s₁.scopes ∧ s'.fns = s₁.fns ∧ s'.heap = s₁.heap ∧
      s'.lazies = s₁.lazies ∧ s'.loops = s₁.loops ∧ s'.loopstack = s₁.loopstack ∧ s'.trace = s₁.trace := by
  obtain ⟨s1, hf, hs, _, _⟩ := run_error_exact' fuel s s' h
  exact ⟨s1, hf, hs.scopes, hs.fns, hs.heap, hs.lazies, hs.loops, hs.loopstack, hs.trace⟩

/-- **twin** — later evaluations depend on the state only: an interpreter whose state equals
that of a twin (up to the trace, which every evaluation clears) answers every later text as
the twin does. Together with `vm_run_error_exact`/`defs_prefix`: the interpreter after the
failure IS the fault state with the control part at rest. -/
theorem twin (fuel : Nat) (es : List Expr) (s : St) (tr : List String) :
    runText fuel es { s with trace := tr } = runText fuel es s := by
  unfold runText
  rfl

/-- **vm_text_error_exact_generated** — `vm_run_error_exact` with the frame hypothesis `Extends3`
DISCHARGED for the outermost `Run` of generated code: a text of the model generator's grammar
(`Bal.okLs`) that ends in an error, served by an interpreter in any state reached from the fresh
one by value-returning and erroring texts of that grammar (`C04.ServedStateE`), with any fuel,
leaves the data, scope, address and set-aside stacks EXACTLY those of entry — i.e. the
interpreter at rest: `VmErrorAtRestExact` for class `err` on these texts and states — and the
state is served again. By C04's `err_leaves_served`: the fault state satisfies `RunInv.FaultOK`
(the base scope stack is underneath, the set-aside stacks are those of entry) by the error-path
contract `C04.err_contract` of all thirteen functions of the VM's mutual block, and
`Contain.restore_exact_vm` does the rest.

Why `vm_run_error_exact_of_invariant` was not the route: its `hstep` asks the invariant to
survive `exec f i` for EVERY instruction `i` in every state, whereas a typing of states
(C04's annotation) speaks about the instruction FETCHED at the pc; and it asks it for every
outcome of the re-entrant instructions, where the state after a failing nested `Run` is only
known after the evaluator's own restore. C04 proves the loop lemma for the fetched instruction
(`RunInv.main_loop_err`) and the error specifications function by function (`RunInv.errSpec`). -/
theorem vm_text_error_exact_generated (fuel : Nat) (es : List Expr) (s s' : St) (v d : String) (tr : List String)
    (alive : Bool) (hs : C04.ServedStateE s) (hok : Bal.okLs es = true)
    (hr : runText fuel es s = (.done "err" v tr d, s', alive)) :
    (s'.data = s.data ∧ s'.linear = s.linear ∧ s'.addr = s.addr ∧ s'.suspended = s.suspended) ∧
    (s'.data = [] ∧ s'.linear = [some 0] ∧ s'.addr = [] ∧ s'.curfunc = mainFn ∧ curSize s' ≤ s'.pc) ∧
    C04.ServedStateE s' := by
  obtain ⟨_, hrest, hex⟩ := C04.err_leaves_served fuel es s s' v tr d alive (C04.servedStateE_served hs) hok hr
  obtain ⟨r1, r2, r3, _, r5, r6⟩ := hrest
  exact ⟨hex, ⟨r1, r2, r3, r5, r6⟩, C04.ServedStateE.err hs hok hr⟩

/-- … and such an evaluation never ends in a host panic (C04 `no_host_panic`) -/
theorem vm_text_no_panic_generated (fuel : Nat) (es : List Expr) (s s' : St) (v d : String) (tr : List String)
    (alive : Bool) (hs : C04.ServedStateE s) (hok : Bal.okLs es = true) :
    runText fuel es s ≠ (.done "panic" v tr d, s', alive) :=
  C04.no_host_panic fuel es s s' v tr d alive (C04.servedStateE_served hs) hok

/-- non-vacuity: the fresh interpreter is such a state -/
example : C04.ServedStateE initSt := C04.ServedStateE.init

/-! ### "errors are never swallowed into a successful result": `map` over a list

`MapList` and `MapArray` are two separate loops in zygo/listutils.go and arrayutils.go; the model
has one function for each (`mapList`, `mapArr`), compared with the code by the `contain` channel
(since mutation round 4 on lists as well as arrays: seeded/C05-m4 turned `MapList` into a loop whose
`break` dropped the callback's error for the 2nd and later elements). On the model, from every
state, for every callback and every fuel: -/

/-- the callback failing on the head element is the outcome of the whole `map`, state included -/
theorem map_list_head_error_is_outcome (n : Nat) (f a b : Val) (s s1 : St) (e : Fault)
    (h : (applyFn n f [a]).run.run s = (.error e, s1)) :
    (mapList (n+1) f (.pair a b)).run.run s = (.error e, s1) := mapList_head_error n f a b s s1 e h

/-- … and so is a failure on any later element: it travels outwards through every earlier,
successful element unchanged -/
theorem map_list_later_error_is_outcome (n : Nat) (f a b : Val) (s s1 s2 : St) (v : Val) (e : Fault)
    (h : (applyFn n f [a]).run.run s = (.ok v, s1))
    (ht : (mapList n f b).run.run s1 = (.error e, s2)) :
    (mapList (n+1) f (.pair a b)).run.run s = (.error e, s2) := mapList_tail_error n f a b s s1 s2 v e h ht

/-- a `map` that returned a value had its callback return a value on the head, and the rest of the
list mapped to a value — by induction, on every element -/
theorem map_list_value_means_no_error (n : Nat) (f a b r : Val) (s s' : St)
    (h : (mapList (n+1) f (.pair a b)).run.run s = (.ok r, s')) :
    ∃ v s1 t, (applyFn n f [a]).run.run s = (.ok v, s1) ∧ (mapList n f b).run.run s1 = (.ok t, s') ∧ r = .pair v t :=
  mapList_ok_inv n f a b r s s' h

/-- the same for arrays (`MapArray`, the other loop): a callback failing on element `i` is the
outcome of the map from `i` on, hence — through `mapArr_step_run` for the earlier, successful
elements — of the whole map -/
theorem map_array_elem_error_is_outcome (k : Nat) (f : Val) (r i n : Nat) (hi : ¬ i ≥ n) (s s1 : St) (e : Fault)
    (h : (applyFn k f [(s.heap.get r).getD i .nil]).run.run s = (.error e, s1)) :
    (mapArr (k+1) f r i n).run.run s = (.error e, s1) := mapArr_elem_error k f r i n hi s s1 e h

end ZygoVerif.C05
