/-
C15 — macro templates expand by exact substitution.

Model: `Model/SQ.lean` (GenerateSyntaxQuote and friends + the VM instructions they emit,
after the fixes in fixes/C15-*). Spec: `Spec/Subst.lean` (structural substitution, written
from the property text). Lemmas: `Proofs/SQ.lean` (the marker discipline, `items_ok`).
The theorems hold for every host `H` (any compile-ability predicate, any values of the
unquoted expressions, any hash constructor), every template at any depth and every stack.
-/
import ZygoVerif.Model.SQ
import ZygoVerif.Spec.Subst
import ZygoVerif.Proofs.SQ
import ZygoVerif.Model.LegacySQ
import ZygoVerif.Model.MacroCall
import ZygoVerif.Generated.SQEmit
namespace ZygoVerif.SQ
open ZygoVerif.Subst

/-! ### small facts about the shape of templates -/

/-- Everything but a splice contributes exactly one value to its sequence. -/
theorem items_single (ρ : Binding) (t : Tmpl) (hs : ∀ e, t ≠ .splice e) :
    items ρ t = (subst ρ t).map (fun v => [v]) := by
  cases t with
  | splice e => exact absurd rfl (hs e)
  | lit a => simp [subst, items]
  | unquote e => cases h : ρ.value e <;> simp [subst, items, h]
  | list ts => cases h : itemsL ρ ts <;> simp [subst, items, h]
  | arr ts => cases h : itemsL ρ ts <;> simp [subst, items, h]
  | hash ty kvs =>
    cases h : itemsKV ρ kvs with
    | none => simp [subst, items, h]
    | some xs => cases h2 : ρ.mkHash ty xs <;> simp [subst, items, h, h2]

/-- Only a splice is refused by the top-level check (`isUnquoteSplicing`). -/
theorem isUnquoteSplicing_toSexp (t : Tmpl) (wf : t.WF = true) :
    isUnquoteSplicing t.toSexp = (match t with | .splice _ => true | _ => false) := by
  cases t with
  | lit a => simp [Tmpl.toSexp, isUnquoteSplicing]
  | unquote e => simp [Tmpl.toSexp, isUnquoteSplicing, unqKind, isList]
  | splice e => simp [Tmpl.toSexp, isUnquoteSplicing, unqKind, isList]
  | list ts =>
    cases ts with
    | nil => simp [Tmpl.toSexp, toSexpL, isUnquoteSplicing]
    | cons t1 rest =>
      simp only [Tmpl.WF, Bool.and_eq_true, Bool.not_eq_true'] at wf
      simp [Tmpl.toSexp, toSexpL, isUnquoteSplicing, unqKind_none t1 rest wf.1]
  | arr ts => simp [Tmpl.toSexp, isUnquoteSplicing]
  | hash ty kvs => simp [Tmpl.toSexp, isUnquoteSplicing]

/-! ### headline -/

/-- **The stack below a template is untouched.** On any data stack, the code compiled for
`^t` either fails — exactly when the substitution has no value — or pushes exactly one
value, the substituted template, and leaves everything beneath as it was. -/
theorem sq_stack_untouched (H : Host) (t : Tmpl) (wf : t.WF = true) (st : Stack) :
    exec H (genTop H t.toSexp) st = (subst (toBinding H) t).map (fun v => .val v :: st) := by
  by_cases hs : ∃ e, t = .splice e
  · obtain ⟨e, rfl⟩ := hs
    simp [genTop, isUnquoteSplicing_toSexp _ wf, subst, exec]
  · have hs' : ∀ e, t ≠ .splice e := fun e h => hs ⟨e, h⟩
    have hu : isUnquoteSplicing t.toSexp = false := by
      rw [isUnquoteSplicing_toSexp _ wf]
      cases t <;> first | rfl | exact absurd rfl (hs' _)
    simp only [genTop, hu, Bool.false_eq_true, if_false]
    rw [items_ok H t wf st, items_single _ _ hs']
    cases subst (toBinding H) t <;> simp [pushAll_single]

/-- **`sq_correct`.** Evaluating `^t` yields exactly `Subst.subst t` — every unquote replaced
by its value, every splice by the elements of its list, at any depth in lists, arrays and
hashes — and leaves no operand behind; it is an error exactly when the substitution is
undefined. (`vmRun (compileSQ t) ρ = Subst.subst t ρ` of DESIGN §7.) -/
theorem sq_correct (H : Host) (t : Tmpl) (wf : t.WF = true) :
    evalSQ H t.toSexp = (subst (toBinding H) t).map (fun v => (v, 0)) := by
  simp only [evalSQ, evalOn]
  have h := sq_stack_untouched H t wf []
  simp only [exec] at h
  rw [h]
  cases subst (toBinding H) t <;> simp

/-- `sq_correct` misses no input: every form without a dotted pair (`Proper`) is the writing
of an unambiguous template (`decode`), so for **every** such form `s` the value of
`(syntaxQuote s)` is the substitution of the template it reads as. -/
theorem sq_correct_all_forms (H : Host) (s : Sexp) (hp : Proper s = true) :
    evalSQ H s = (subst (toBinding H) (decode s)).map (fun v => (v, 0)) := by
  have hd := decode_ok s hp
  have h := sq_correct H (decode s) hd.2
  rwa [hd.1] at h

/-- What the code does where the property is silent: a dotted pair at the top is pushed exactly
as written — unquote forms inside it are *not* substituted. -/
theorem dotted_pair_pushed_literally (H : Host) (h t : Sexp) (hd : isList t = false) :
    evalSQ H (.cons h t) = some (.cons h t, 0) := by
  simp [evalSQ, evalOn, genTop, isUnquoteSplicing, genSQ, hd, run, step]

/-- A splice that is not inside any list, array or hash is refused at compile time: nothing
runs and nothing is pushed. -/
theorem top_splice_rejected (H : Host) (e : Sexp) (st : Stack) :
    genTop H (Tmpl.splice e).toSexp = none ∧ exec H (genTop H (Tmpl.splice e).toSexp) st = none := by
  simp [genTop, Tmpl.toSexp, isUnquoteSplicing, unqKind, isList, exec]

/-! ### what the theorem says about splice positions (facts about the spec) -/

theorem itemsL_append (ρ : Binding) (xs ys : List Tmpl) :
    itemsL ρ (xs ++ ys) = (do let a ← itemsL ρ xs; let b ← itemsL ρ ys; some (a ++ b)) := by
  induction xs with
  | nil => cases h : itemsL ρ ys <;> simp [itemsL, h]
  | cons t ts ih =>
    simp only [List.cons_append, itemsL, ih]
    cases items ρ t <;> cases itemsL ρ ts <;> cases itemsL ρ ys <;> simp

/-- A splice anywhere in a list — first, last, next to other splices — contributes the
elements of its list in place; an empty list contributes nothing. -/
theorem splice_in_place (ρ : Binding) (pre post : List Tmpl) (e : Sexp) (a b xs : List Sexp)
    (hpre : itemsL ρ pre = some a) (hpost : itemsL ρ post = some b)
    (he : (ρ.value e).bind elems = some xs) :
    subst ρ (.list (pre ++ .splice e :: post)) = some (ofList (a ++ xs ++ b)) := by
  simp [subst, items, itemsL_append, itemsL, hpre, hpost, he]

/-! ### concrete instances (the hypotheses above are satisfiable; the model computes) -/

section Examples
def sym (n : String) : Sexp := .atom (.sym n)
def num (n : Int) : Sexp := .atom (.int n)
/-- `x = 5`, `l = (1 2)`, `e = ()`, `bad` does not compile; hashes are kept as written. -/
def exH : Host where
  genOK := fun e => e != sym "bad"
  eval := fun e =>
    if e = sym "x" then some (num 5)
    else if e = sym "l" then some (mkList [num 1, num 2])
    else if e = sym "e" then some .nil
    else none
  mkHash := fun ty xs => if xs.length % 2 = 0 then some (.hash ty (mkList xs)) else none

/-- `^(~@l a ~@e ~@l [~x ~@l] ~@e)` = `(1 2 a 1 2 [5 1 2])`, nothing left on the stack. -/
example : evalSQ exH (Tmpl.list [.splice (sym "l"), .lit (.sym "a"), .splice (sym "e"), .splice (sym "l"),
      .arr [.unquote (sym "x"), .splice (sym "l")], .splice (sym "e")]).toSexp
    = some (mkList [num 1, num 2, sym "a", num 1, num 2, .arr (mkList [num 5, num 1, num 2])], 0) := by
  decide

example : (Tmpl.list [.splice (sym "l"), .arr [.unquote (sym "x")]]).WF = true := by decide

/-- `{a: ~@l b: ~x c: ~@e}` through the Go API: the items `a 1 2 b 5 c` in key order. -/
example : evalSQ exH (Tmpl.hash "hash" [(.lit (.sym "a"), .splice (sym "l")), (.lit (.sym "b"), .unquote (sym "x")),
      (.lit (.sym "c"), .splice (sym "e"))]).toSexp
    = some (.hash "hash" (mkList [sym "a", num 1, num 2, sym "b", num 5, sym "c"]), 0) := by
  decide

end Examples

/-! ### macro calls (model of the expansion path: `Model/MacroCall.lean`) -/

/-- **`macro_call_is_expansion`.** Compiling a call of macro `f` is compiling its expansion,
in place, by the same generator (one unit of expansion fuel is spent). -/
theorem macro_call_is_expansion {C : Type} (mk : String → List Sexp → Option Sexp)
    (macros : String → Option Macro) (special : String → Bool)
    (base : (Sexp → Option C) → Sexp → Option C) (n : Nat) (f : String) (args : Sexp)
    (m : Macro) (as : List Sexp)
    (hs : special f = false) (hm : macros f = some m) (ha : listToArray args = some as) :
    generate mk macros special base (n + 1) (.cons (.atom (.sym f)) args)
      = (expand mk m as).bind (generate mk macros special base n) := by
  simp [generate, hs, hm, ha]

/-- The expansion of a template macro `(defmac f [p…] ^T)` is `T` with the parameters replaced
by the argument forms — the substitution of the spec. -/
theorem expand_is_substitution (mk : String → List Sexp → Option Sexp) (m : Macro) (as : List Sexp)
    (T : Tmpl) (wf : T.WF = true) (hb : m.body = T.toSexp) (hl : as.length = m.params.length) :
    expand mk m as = subst (toBinding (paramHost mk m.params as)) T := by
  simp only [expand, hl, ne_eq, not_true_eq_false, if_false, hb, sq_correct _ T wf]
  cases subst (toBinding (paramHost mk m.params as)) T <;> rfl

/-- Calling a template macro compiles to exactly what the hand-written expansion compiles to. -/
theorem macro_call_equals_handwritten {C : Type} (mk : String → List Sexp → Option Sexp)
    (macros : String → Option Macro) (special : String → Bool)
    (base : (Sexp → Option C) → Sexp → Option C) (n : Nat) (f : String) (args : Sexp)
    (m : Macro) (as : List Sexp) (T : Tmpl) (x : Sexp)
    (hs : special f = false) (hm : macros f = some m) (ha : listToArray args = some as)
    (wf : T.WF = true) (hb : m.body = T.toSexp) (hl : as.length = m.params.length)
    (hx : subst (toBinding (paramHost mk m.params as)) T = some x) :
    generate mk macros special base (n + 1) (.cons (.atom (.sym f)) args)
      = generate mk macros special base n x := by
  rw [macro_call_is_expansion mk macros special base n f args m as hs hm ha,
    expand_is_substitution mk m as T wf hb hl, hx]
  rfl

/-- **`expansion_leaves_caller`.** The expansion runs in a duplicate: the caller's control
state (four stacks, pc, current function) is what it was, and for a template macro so are the
parts shared with the duplicate (global scope, macro table); the form handed back is the
expansion. -/
theorem expansion_leaves_caller {G : Type} (mk : String → List Sexp → Option Sexp) (e e' : Interp G)
    (m : Macro) (args : List Sexp) (x : Sexp) (h : expandCall mk e m args = some (x, e')) :
    e'.ctl = e.ctl ∧ e'.global = e.global ∧ e'.macros = e.macros ∧ expand mk m args = some x := by
  unfold expandCall applyIn at h
  by_cases hl : args.length ≠ m.params.length
  · simp [hl] at h
  · simp only [hl, if_false] at h
    have hfresh : (duplicate e).ctl.data = [] := rfl
    rw [hfresh] at h
    cases hev : evalOn (paramHost mk m.params args) (genTop (paramHost mk m.params args) m.body) [] with
    | none => simp [hev] at h
    | some p =>
      obtain ⟨v, rest⟩ := p
      simp only [hev, Option.some.injEq, Prod.mk.injEq] at h
      obtain ⟨hv, he⟩ := h
      subst he
      refine ⟨rfl, rfl, rfl, ?_⟩
      simp [expand, hl, evalSQ, hev, hv]

/-- The duplicate starts from fresh stacks whatever the caller's stacks hold. -/
theorem duplicate_is_fresh {G : Type} (e : Interp G) :
    (duplicate e).ctl = Ctl.fresh ∧ (duplicate e).global = e.global ∧ (duplicate e).macros = e.macros :=
  ⟨rfl, rfl, rfl⟩

/-- `(defmac m [a l] ^(list ~a [~@l ~a]))`, `(m (+ x 1) (1 2))` expands to
`(list (+ x 1) [1 2 (+ x 1)])`; a wrong number of arguments is an error. -/
example :
    let m : Macro := { params := ["a", "l"], body := (Tmpl.list [.lit (.sym "list"), .unquote (sym "a"),
      .arr [.splice (sym "l"), .unquote (sym "a")]]).toSexp }
    let plus := mkList [sym "+", sym "x", num 1]
    expand exH.mkHash m [plus, mkList [num 1, num 2]]
        = some (mkList [sym "list", plus, .arr (mkList [num 1, num 2, plus])])
      ∧ expand exH.mkHash m [plus] = none := by
  decide

/-! ### tie T1: the emission skeleton the model was written against
`Generated/SQEmit.lean` is regenerated from generator.go on every run (extract/ex_sqemit.go):
instructions added and generator calls made, in source order. Each line below is one arm of
`genSQ` / `genListBody` / `genArrBody` / `genHashBody` / `genTop`. -/

/-- GenerateSyntaxQuote: array → generateSyntaxQuoteArray, proper list → …List, hash → …Hash,
anything else `PushInstr{arg}` (`genSQ`, outer match). -/
theorem emit_top : Generated.SQEmit.top =
    ["if[", "err", "]", "case[", "call:generateSyntaxQuoteArray", "]",
     "case[", "call:generateSyntaxQuoteList", "]", "case[", "call:generateSyntaxQuoteHash", "]",
     "add:PushInstr{arg}"] := by decide

/-- generateSyntaxQuoteList: `(unquote e)` → the code of `e`; `(unquote-splicing e)` → the code
of `e`, `explode`; otherwise marker, every element, `squash` (`genSQ` `.cons` arm). -/
theorem emit_list : Generated.SQEmit.list =
    ["case[", "err", "]",
     "if[", "if[", "if[", "call:Generate", "]", "else[", "if[", "call:Generate", "add:ExplodeInstr", "]", "]", "]", "]",
     "add:PushInstr{SexpMarker}", "loop[", "call:GenerateSyntaxQuote{expr}", "]", "add:SquashInstr"] := by decide

/-- generateSyntaxQuoteArray: marker, per element (marker, element, squash, explode),
vectorize (`genArrBody`). -/
theorem emit_array : Generated.SQEmit.array =
    ["case[", "err", "]", "add:PushInstr{SexpMarker}",
     "loop[", "add:PushInstr{SexpMarker}", "call:GenerateSyntaxQuote{expr}", "add:SquashInstr", "add:ExplodeInstr", "]",
     "add:VectorizeInstr"] := by decide

/-- generateSyntaxQuoteHash: marker, per pair the key frame then the value frame, hashize
(`genHashBody`; before fixes/C15-03 the value frame came first). -/
theorem emit_hash : Generated.SQEmit.hash =
    ["case[", "err", "]", "add:PushInstr{SexpMarker}",
     "loop[", "add:PushInstr{SexpMarker}", "call:GenerateSyntaxQuote{key}", "add:SquashInstr", "add:ExplodeInstr",
     "add:PushInstr{SexpMarker}", "call:GenerateSyntaxQuote{val}", "add:SquashInstr", "add:ExplodeInstr", "]",
     "add:HashizeInstr"] := by decide

/-- `case "syntaxQuote"`: the top-level splice check, then GenerateSyntaxQuote (`genTop`). -/
theorem emit_syntaxQuote_case : Generated.SQEmit.syntaxQuoteCase =
    ["call:isUnquoteSplicing", "if[", "err", "]", "call:GenerateSyntaxQuote"] := by decide

/-- `syntaxQuote`, `quote`, `defmac`, `macexpand` are special forms, `unquote` and
`unquote-splicing` are not (outside a template they are ordinary calls), and the macro table
is consulted only after the special forms (`generate`: `special` before `macros`). -/
theorem emit_call_by_symbol :
    "syntaxQuote" ∈ Generated.SQEmit.callBySymbolCases ∧ "quote" ∈ Generated.SQEmit.callBySymbolCases
    ∧ "defmac" ∈ Generated.SQEmit.callBySymbolCases ∧ "macexpand" ∈ Generated.SQEmit.callBySymbolCases
    ∧ "unquote" ∉ Generated.SQEmit.callBySymbolCases ∧ "unquote-splicing" ∉ Generated.SQEmit.callBySymbolCases
    ∧ Generated.SQEmit.macrosAfterSwitch = true := by decide

/-! ### the pinned tree (before fixes/C15-02, C15-03 and the error-propagation commit) -/

/-- `^~@l` with `l = (1 2)`: the pre-fix code returned 2 and left 1 operand behind. -/
theorem C15_counterexample_top_splice :
    Legacy.SQ.evalSQ exH (Tmpl.splice (sym "l")).toSexp = some (num 2, 1)
    ∧ subst (toBinding exH) (.splice (sym "l")) = none := by
  decide

/-- In general the pre-fix code pushed *all* elements of the spliced list: as many operands
as the list is long, on any stack. -/
theorem legacy_top_splice_pushes_all (H : Host) (e v : Sexp) (xs : List Sexp) (st : Stack)
    (hg : H.genOK e = true) (he : H.eval e = some v) (hl : listToArray v = some xs) :
    Legacy.SQ.run H (Legacy.SQ.genSQ H (Tmpl.splice e).toSexp) st = some (pushAll xs st) := by
  simp [Tmpl.toSexp, Legacy.SQ.genSQ, isList, unqKind, hg, Legacy.SQ.run, Legacy.SQ.step, step, he, hl]

/-- `^(a (unquote bad) b)` where `bad` does not compile: the error was dropped and the
element silently vanished — `(a b)` instead of an error. -/
theorem C15_counterexample_dropped_error :
    let t := Tmpl.list [.lit (.sym "a"), .unquote (sym "bad"), .lit (.sym "b")]
    Legacy.SQ.evalSQ exH t.toSexp = some (mkList [sym "a", sym "b"], 0)
    ∧ subst (toBinding exH) t = none ∧ evalSQ exH t.toSexp = none := by
  decide

/-- `^((x y) ~@bad)`: the orphaned `explode` ate the neighbouring element. -/
theorem C15_counterexample_dropped_error_splice :
    let t := Tmpl.list [.list [.lit (.sym "x"), .lit (.sym "y")], .splice (sym "bad")]
    Legacy.SQ.evalSQ exH t.toSexp = some (mkList [sym "x", sym "y"], 0)
    ∧ subst (toBinding exH) t = none := by
  decide

/-- `{a: ~@l b: ~x c: ~@e}` (a hash value, built through the Go API), `l = (1 2)`: the pre-fix
code handed MakeHash `a 2 1 b 5 c` instead of `a 1 2 b 5 c` — a spliced list came out reversed. -/
theorem C15_counterexample_hash_splice_reversed :
    let t := Tmpl.hash "hash" [(.lit (.sym "a"), .splice (sym "l")), (.lit (.sym "b"), .unquote (sym "x")),
      (.lit (.sym "c"), .splice (sym "e"))]
    Legacy.SQ.evalSQ exH t.toSexp
      = some (.hash "hash" (mkList [sym "a", num 2, num 1, sym "b", num 5, sym "c"]), 0)
    ∧ subst (toBinding exH) t
      = some (.hash "hash" (mkList [sym "a", num 1, num 2, sym "b", num 5, sym "c"])) := by
  decide

end ZygoVerif.SQ
