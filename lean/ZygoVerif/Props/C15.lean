/-
C15 — macro templates expand by exact substitution.

Model: `Model/SQ.lean` (GenerateSyntaxQuote and friends + the VM instructions they emit,
after the fixes in fixes/C15-*). Spec: `Spec/Subst.lean` (structural substitution, written
from the property text). Lemmas: `Proofs/SQ.lean` (the marker discipline, `items_ok`).
The theorems hold for every host `H` (any compile-ability predicate, any values of the
unquoted expressions, any hash constructor), every template at any depth and every stack.
-/
import ZygoVerif.Model.SQ
import ZygoVerif.Spec.Subst
import ZygoVerif.Proofs.SQ
namespace ZygoVerif.SQ
open ZygoVerif.Subst

/-! ### small facts about the shape of templates -/

/-- Everything but a splice contributes exactly one value to its sequence. -/
theorem items_single (ρ : Binding) (t : Tmpl) (hs : ∀ e, t ≠ .splice e) :
    items ρ t = (subst ρ t).map (fun v => [v]) := by
  cases t with
  | splice e => exact absurd rfl (hs e)
  | lit a => simp [subst, items]
  | unquote e => cases h : ρ.value e <;> simp [subst, items, h]
  | list ts => cases h : itemsL ρ ts <;> simp [subst, items, h]
  | arr ts => cases h : itemsL ρ ts <;> simp [subst, items, h]
  | hash ty kvs =>
    cases h : itemsKV ρ kvs with
    | none => simp [subst, items, h]
    | some xs => cases h2 : ρ.mkHash ty xs <;> simp [subst, items, h, h2]

/-- Only a splice is refused by the top-level check (`isUnquoteSplicing`). -/
theorem isUnquoteSplicing_toSexp (t : Tmpl) (wf : t.WF = true) :
    isUnquoteSplicing t.toSexp = (match t with | .splice _ => true | _ => false) := by
  cases t with
  | lit a => simp [Tmpl.toSexp, isUnquoteSplicing]
  | unquote e => simp [Tmpl.toSexp, isUnquoteSplicing, unqKind, isList]
  | splice e => simp [Tmpl.toSexp, isUnquoteSplicing, unqKind, isList]
  | list ts =>
    cases ts with
    | nil => simp [Tmpl.toSexp, toSexpL, isUnquoteSplicing]
    | cons t1 rest =>
      simp only [Tmpl.WF, Bool.and_eq_true, Bool.not_eq_true'] at wf
      simp [Tmpl.toSexp, toSexpL, isUnquoteSplicing, unqKind_none t1 rest wf.1]
  | arr ts => simp [Tmpl.toSexp, isUnquoteSplicing]
  | hash ty kvs => simp [Tmpl.toSexp, isUnquoteSplicing]

/-! ### headline -/

/-- **The stack below a template is untouched.** On any data stack, the code compiled for
`^t` either fails — exactly when the substitution has no value — or pushes exactly one
value, the substituted template, and leaves everything beneath as it was. -/
theorem sq_stack_untouched (H : Host) (t : Tmpl) (wf : t.WF = true) (st : Stack) :
    exec H (genTop H t.toSexp) st = (subst (toBinding H) t).map (fun v => .val v :: st) := by
  by_cases hs : ∃ e, t = .splice e
  · obtain ⟨e, rfl⟩ := hs
    simp [genTop, isUnquoteSplicing_toSexp _ wf, subst, exec]
  · have hs' : ∀ e, t ≠ .splice e := fun e h => hs ⟨e, h⟩
    have hu : isUnquoteSplicing t.toSexp = false := by
      rw [isUnquoteSplicing_toSexp _ wf]
      cases t <;> first | rfl | exact absurd rfl (hs' _)
    simp only [genTop, hu, Bool.false_eq_true, if_false]
    rw [items_ok H t wf st, items_single _ _ hs']
    cases subst (toBinding H) t <;> simp [pushAll_single]

/-- **`sq_correct`.** Evaluating `^t` yields exactly `Subst.subst t` — every unquote replaced
by its value, every splice by the elements of its list, at any depth in lists, arrays and
hashes — and leaves no operand behind; it is an error exactly when the substitution is
undefined. (`vmRun (compileSQ t) ρ = Subst.subst t ρ` of DESIGN §7.) -/
theorem sq_correct (H : Host) (t : Tmpl) (wf : t.WF = true) :
    evalSQ H t.toSexp = (subst (toBinding H) t).map (fun v => (v, 0)) := by
  simp only [evalSQ, evalOn]
  have h := sq_stack_untouched H t wf []
  simp only [exec] at h
  rw [h]
  cases subst (toBinding H) t <;> simp

/-- A splice that is not inside any list, array or hash is refused at compile time: nothing
runs and nothing is pushed. -/
theorem top_splice_rejected (H : Host) (e : Sexp) (st : Stack) :
    genTop H (Tmpl.splice e).toSexp = none ∧ exec H (genTop H (Tmpl.splice e).toSexp) st = none := by
  simp [genTop, Tmpl.toSexp, isUnquoteSplicing, unqKind, isList, exec]

end ZygoVerif.SQ
