/-
C15 — macro templates expand by exact substitution.

Model: `Model/SQ.lean` (GenerateSyntaxQuote and friends + the VM instructions they emit,
after the fixes in fixes/C15-*). Spec: `Spec/Subst.lean` (structural substitution, written
from the property text). Lemmas: `Proofs/SQ.lean` (the marker discipline, `items_ok`).
The theorems hold for every host `H` (any compile-ability predicate, any values of the
unquoted expressions, any hash constructor), every template at any depth and every stack.
-/
import ZygoVerif.Model.SQ
import ZygoVerif.Spec.Subst
import ZygoVerif.Proofs.SQ
import ZygoVerif.Proofs.SQFresh
import ZygoVerif.Model.LegacySQ
import ZygoVerif.Model.MacroCall
import ZygoVerif.Generated.SQEmit
import ZygoVerif.Generated.SQCtx
namespace ZygoVerif.SQ
open ZygoVerif.Subst

/-! ### small facts about the shape of templates -/

/-- Everything but a splice contributes exactly one value to its sequence. -/
theorem items_single (ρ : Binding) (t : Tmpl) (hs : ∀ e, t ≠ .splice e) :
    items ρ t = (subst ρ t).map (fun v => [v]) := by
  cases t with
  | splice e => exact absurd rfl (hs e)
  | lit a => simp [subst, items]
  | unquote e => cases h : ρ.value e <;> simp [subst, items, h]
  | list ts => cases h : itemsL ρ ts <;> simp [subst, items, h]
  | arr ts => cases h : itemsL ρ ts <;> simp [subst, items, h]
  | hash ty kvs =>
    cases h : itemsKV ρ kvs with
    | none => simp [subst, items, h]
    | some xs => cases h2 : ρ.mkHash ty xs <;> simp [subst, items, h, h2]

/-- Only a splice is refused by the top-level check (`isUnquoteSplicing`). -/
theorem isUnquoteSplicing_toSexp (t : Tmpl) (wf : t.WF = true) :
    isUnquoteSplicing t.toSexp = (match t with | .splice _ => true | _ => false) := by
  cases t with
  | lit a => simp [Tmpl.toSexp, isUnquoteSplicing]
  | unquote e => simp [Tmpl.toSexp, isUnquoteSplicing, unqKind, isList]
  | splice e => simp [Tmpl.toSexp, isUnquoteSplicing, unqKind, isList]
  | list ts =>
    cases ts with
    | nil => simp [Tmpl.toSexp, toSexpL, isUnquoteSplicing]
    | cons t1 rest =>
      simp only [Tmpl.WF, Bool.and_eq_true, Bool.not_eq_true'] at wf
      simp [Tmpl.toSexp, toSexpL, isUnquoteSplicing, unqKind_none t1 rest wf.1]
  | arr ts => simp [Tmpl.toSexp, isUnquoteSplicing]
  | hash ty kvs => simp [Tmpl.toSexp, isUnquoteSplicing]

/-! ### headline -/

/-- **The stack below a template is untouched.** On any data stack, the code compiled for
`^t` either fails — exactly when the substitution has no value — or pushes exactly one
value, the substituted template, and leaves everything beneath as it was. -/
theorem sq_stack_untouched (H : Host) (t : Tmpl) (wf : t.WF = true) (st : Stack) :
    exec H (genTop H t.toSexp) st = (subst (toBinding H) t).map (fun v => .val v :: st) := by
  by_cases hs : ∃ e, t = .splice e
  · obtain ⟨e, rfl⟩ := hs
    simp [genTop, isUnquoteSplicing_toSexp _ wf, subst, exec]
  · have hs' : ∀ e, t ≠ .splice e := fun e h => hs ⟨e, h⟩
    have hu : isUnquoteSplicing t.toSexp = false := by
      rw [isUnquoteSplicing_toSexp _ wf]
      cases t <;> first | rfl | exact absurd rfl (hs' _)
    simp only [genTop, hu, Bool.false_eq_true, if_false]
    rw [items_ok H t wf st, items_single _ _ hs']
    cases subst (toBinding H) t <;> simp [pushAll_single]

/-- **`sq_correct`.** Evaluating `^t` yields exactly `Subst.subst t` — every unquote replaced
by its value, every splice by the elements of its list, at any depth in lists, arrays and
hashes — and leaves no operand behind; it is an error exactly when the substitution is
undefined. (`vmRun (compileSQ t) ρ = Subst.subst t ρ` of DESIGN §7.) -/
theorem sq_correct (H : Host) (t : Tmpl) (wf : t.WF = true) :
    evalSQ H t.toSexp = (subst (toBinding H) t).map (fun v => (v, 0)) := by
  simp only [evalSQ, evalOn]
  have h := sq_stack_untouched H t wf []
  simp only [exec] at h
  rw [h]
  cases subst (toBinding H) t <;> simp

/-- `sq_correct` misses no input: every form without a dotted pair (`Proper`) is the writing
of an unambiguous template (`decode`), so for **every** such form `s` the value of
`(syntaxQuote s)` is the substitution of the template it reads as. -/
theorem sq_correct_all_forms (H : Host) (s : Sexp) (hp : Proper s = true) :
    evalSQ H s = (subst (toBinding H) (decode s)).map (fun v => (v, 0)) := by
  have hd := decode_ok s hp
  have h := sq_correct H (decode s) hd.2
  rwa [hd.1] at h

/-- What the code does where the property is silent: a dotted pair at the top is pushed exactly
as written — unquote forms inside it are *not* substituted. -/
theorem dotted_pair_pushed_literally (H : Host) (h t : Sexp) (hd : isList t = false) :
    evalSQ H (.cons h t) = some (.cons h t, 0) := by
  simp [evalSQ, evalOn, genTop, isUnquoteSplicing, genSQ, hd, run, step]

/-- A splice that is not inside any list, array or hash is refused at compile time: nothing
runs and nothing is pushed. -/
theorem top_splice_rejected (H : Host) (e : Sexp) (st : Stack) :
    genTop H (Tmpl.splice e).toSexp = none ∧ exec H (genTop H (Tmpl.splice e).toSexp) st = none := by
  simp [genTop, Tmpl.toSexp, isUnquoteSplicing, unqKind, isList, exec]

/-! ### what the theorem says about splice positions (facts about the spec) -/

theorem itemsL_append (ρ : Binding) (xs ys : List Tmpl) :
    itemsL ρ (xs ++ ys) = (do let a ← itemsL ρ xs; let b ← itemsL ρ ys; some (a ++ b)) := by
  induction xs with
  | nil => cases h : itemsL ρ ys <;> simp [itemsL, h]
  | cons t ts ih =>
    simp only [List.cons_append, itemsL, ih]
    cases items ρ t <;> cases itemsL ρ ts <;> cases itemsL ρ ys <;> simp

/-- A splice anywhere in a list — first, last, next to other splices — contributes the
elements of its list in place; an empty list contributes nothing. -/
theorem splice_in_place (ρ : Binding) (pre post : List Tmpl) (e : Sexp) (a b xs : List Sexp)
    (hpre : itemsL ρ pre = some a) (hpost : itemsL ρ post = some b)
    (he : (ρ.value e).bind elems = some xs) :
    subst ρ (.list (pre ++ .splice e :: post)) = some (ofList (a ++ xs ++ b)) := by
  simp [subst, items, itemsL_append, itemsL, hpre, hpost, he]

/-! ### concrete instances (the hypotheses above are satisfiable; the model computes) -/

section Examples
def sym (n : String) : Sexp := .atom (.sym n)
def num (n : Int) : Sexp := .atom (.int n)
/-- `x = 5`, `l = (1 2)`, `e = ()`, `bad` does not compile; hashes are kept as written. -/
def exH : Host where
  genOK := fun e => e != sym "bad"
  eval := fun e =>
    if e = sym "x" then some (num 5)
    else if e = sym "l" then some (mkList [num 1, num 2])
    else if e = sym "e" then some .nil
    else none
  mkHash := fun ty xs => if xs.length % 2 = 0 then some (.hash ty (mkList xs)) else none

/-- `^(~@l a ~@e ~@l [~x ~@l] ~@e)` = `(1 2 a 1 2 [5 1 2])`, nothing left on the stack. -/
example : evalSQ exH (Tmpl.list [.splice (sym "l"), .lit (.sym "a"), .splice (sym "e"), .splice (sym "l"),
      .arr [.unquote (sym "x"), .splice (sym "l")], .splice (sym "e")]).toSexp
    = some (mkList [num 1, num 2, sym "a", num 1, num 2, .arr (mkList [num 5, num 1, num 2])], 0) := by
  decide

example : (Tmpl.list [.splice (sym "l"), .arr [.unquote (sym "x")]]).WF = true := by decide

/-- `{a: ~@l b: ~x c: ~@e}` through the Go API: the items `a 1 2 b 5 c` in key order. -/
example : evalSQ exH (Tmpl.hash "hash" [(.lit (.sym "a"), .splice (sym "l")), (.lit (.sym "b"), .unquote (sym "x")),
      (.lit (.sym "c"), .splice (sym "e"))]).toSexp
    = some (.hash "hash" (mkList [sym "a", num 1, num 2, sym "b", num 5, sym "c"]), 0) := by
  decide

end Examples

/-! ### macro calls (model of the expansion path: `Model/MacroCall.lean`) -/

/-- **`macro_call_is_expansion`.** Compiling a call of macro `f` is compiling its expansion,
in place, by the same generator (one unit of expansion fuel is spent). -/
theorem macro_call_is_expansion {C : Type} (mk : String → List Sexp → Option Sexp)
    (macros : String → Option Macro) (special : String → Bool)
    (base : (Sexp → Option C) → Sexp → Option C) (n : Nat) (f : String) (args : Sexp)
    (m : Macro) (as : List Sexp)
    (hs : special f = false) (hm : macros f = some m) (ha : listToArray args = some as) :
    generate mk macros special base (n + 1) (.cons (.atom (.sym f)) args)
      = (expand mk m as).bind (generate mk macros special base n) := by
  simp [generate, hs, hm, ha]

/-- The expansion of a template macro `(defmac f [p…] ^T)` is `T` with the parameters replaced
by the argument forms — the substitution of the spec. -/
theorem expand_is_substitution (mk : String → List Sexp → Option Sexp) (m : Macro) (as : List Sexp)
    (T : Tmpl) (wf : T.WF = true) (hb : m.body = T.toSexp) (hl : as.length = m.params.length) :
    expand mk m as = subst (toBinding (paramHost mk m.params as)) T := by
  simp only [expand, hl, ne_eq, not_true_eq_false, if_false, hb, sq_correct _ T wf]
  cases subst (toBinding (paramHost mk m.params as)) T <;> rfl

/-- Calling a template macro compiles to exactly what the hand-written expansion compiles to. -/
theorem macro_call_equals_handwritten {C : Type} (mk : String → List Sexp → Option Sexp)
    (macros : String → Option Macro) (special : String → Bool)
    (base : (Sexp → Option C) → Sexp → Option C) (n : Nat) (f : String) (args : Sexp)
    (m : Macro) (as : List Sexp) (T : Tmpl) (x : Sexp)
    (hs : special f = false) (hm : macros f = some m) (ha : listToArray args = some as)
    (wf : T.WF = true) (hb : m.body = T.toSexp) (hl : as.length = m.params.length)
    (hx : subst (toBinding (paramHost mk m.params as)) T = some x) :
    generate mk macros special base (n + 1) (.cons (.atom (.sym f)) args)
      = generate mk macros special base n x := by
  rw [macro_call_is_expansion mk macros special base n f args m as hs hm ha,
    expand_is_substitution mk m as T wf hb hl, hx]
  rfl

/-- **`expansion_leaves_caller`.** The expansion runs in a duplicate: the caller's control
state (four stacks, pc, current function) is what it was, and for a template macro so are the
parts shared with the duplicate (global scope, macro table); the form handed back is the
expansion. -/
theorem expansion_leaves_caller {G : Type} (mk : String → List Sexp → Option Sexp) (e e' : Interp G)
    (m : Macro) (args : List Sexp) (x : Sexp) (h : expandCall mk e m args = some (x, e')) :
    e'.ctl = e.ctl ∧ e'.global = e.global ∧ e'.macros = e.macros ∧ expand mk m args = some x := by
  unfold expandCall applyIn at h
  by_cases hl : args.length ≠ m.params.length
  · simp [hl] at h
  · simp only [hl, if_false] at h
    have hfresh : (duplicate e).ctl.data = [] := rfl
    rw [hfresh] at h
    cases hev : evalOn (paramHost mk m.params args) (genTop (paramHost mk m.params args) m.body) [] with
    | none => simp [hev] at h
    | some p =>
      obtain ⟨v, rest⟩ := p
      simp only [hev, Option.some.injEq, Prod.mk.injEq] at h
      obtain ⟨hv, he⟩ := h
      subst he
      refine ⟨rfl, rfl, rfl, ?_⟩
      simp [expand, hl, evalSQ, hev, hv]

/-- The duplicate starts from fresh stacks whatever the caller's stacks hold. -/
theorem duplicate_is_fresh {G : Type} (e : Interp G) :
    (duplicate e).ctl = Ctl.fresh ∧ (duplicate e).global = e.global ∧ (duplicate e).macros = e.macros :=
  ⟨rfl, rfl, rfl⟩

/-- `(defmac m [a l] ^(list ~a [~@l ~a]))`, `(m (+ x 1) (1 2))` expands to
`(list (+ x 1) [1 2 (+ x 1)])`; a wrong number of arguments is an error. -/
example :
    let m : Macro := { params := ["a", "l"], body := (Tmpl.list [.lit (.sym "list"), .unquote (sym "a"),
      .arr [.splice (sym "l"), .unquote (sym "a")]]).toSexp }
    let plus := mkList [sym "+", sym "x", num 1]
    expand exH.mkHash m [plus, mkList [num 1, num 2]]
        = some (mkList [sym "list", plus, .arr (mkList [num 1, num 2, plus])])
      ∧ expand exH.mkHash m [plus] = none := by
  decide

/-! ### tie T1: the emission skeleton the model was written against
`Generated/SQEmit.lean` is regenerated from generator.go on every run (extract/ex_sqemit.go):
instructions added and generator calls made, in source order. Each line below is one arm of
`genSQ` / `genListBody` / `genArrBody` / `genHashBody` / `genTop`. -/

/-- GenerateSyntaxQuote: array → generateSyntaxQuoteArray, proper list → …List, hash → …Hash,
anything else `PushInstr{arg}` (`genSQ`, outer match). -/
theorem emit_top : Generated.SQEmit.top =
    ["if[", "err", "]", "case[", "call:generateSyntaxQuoteArray", "]",
     "case[", "call:generateSyntaxQuoteList", "]", "case[", "call:generateSyntaxQuoteHash", "]",
     "add:PushInstr{arg}"] := by decide

/-- generateSyntaxQuoteList: `(unquote e)` → the code of `e`; `(unquote-splicing e)` → the code
of `e`, `explode`; otherwise marker, every element, `squash` (`genSQ` `.cons` arm). -/
theorem emit_list : Generated.SQEmit.list =
    ["case[", "err", "]",
     "if[", "if[", "if[", "call:Generate", "]", "else[", "if[", "call:Generate", "add:ExplodeInstr", "]", "]", "]", "]",
     "add:PushInstr{SexpMarker}", "loop[", "call:GenerateSyntaxQuote{expr}", "]", "add:SquashInstr"] := by decide

/-- generateSyntaxQuoteArray: marker, per element (marker, element, squash, explode),
vectorize (`genArrBody`). -/
theorem emit_array : Generated.SQEmit.array =
    ["case[", "err", "]", "add:PushInstr{SexpMarker}",
     "loop[", "add:PushInstr{SexpMarker}", "call:GenerateSyntaxQuote{expr}", "add:SquashInstr", "add:ExplodeInstr", "]",
     "add:VectorizeInstr"] := by decide

/-- generateSyntaxQuoteHash: marker, per pair the key frame then the value frame, hashize
(`genHashBody`; before fixes/C15-03 the value frame came first). -/
theorem emit_hash : Generated.SQEmit.hash =
    ["case[", "err", "]", "add:PushInstr{SexpMarker}",
     "loop[", "add:PushInstr{SexpMarker}", "call:GenerateSyntaxQuote{key}", "add:SquashInstr", "add:ExplodeInstr",
     "add:PushInstr{SexpMarker}", "call:GenerateSyntaxQuote{val}", "add:SquashInstr", "add:ExplodeInstr", "]",
     "add:HashizeInstr"] := by decide

/-- `case "syntaxQuote"`: the top-level splice check, then GenerateSyntaxQuote (`genTop`). -/
theorem emit_syntaxQuote_case : Generated.SQEmit.syntaxQuoteCase =
    ["call:isUnquoteSplicing", "if[", "err", "]", "call:GenerateSyntaxQuote"] := by decide

/-- `syntaxQuote`, `quote`, `defmac`, `macexpand` are special forms, `unquote` and
`unquote-splicing` are not (outside a template they are ordinary calls), and the macro table
is consulted only after the special forms (`generate`: `special` before `macros`). -/
theorem emit_call_by_symbol :
    "syntaxQuote" ∈ Generated.SQEmit.callBySymbolCases ∧ "quote" ∈ Generated.SQEmit.callBySymbolCases
    ∧ "defmac" ∈ Generated.SQEmit.callBySymbolCases ∧ "macexpand" ∈ Generated.SQEmit.callBySymbolCases
    ∧ "unquote" ∉ Generated.SQEmit.callBySymbolCases ∧ "unquote-splicing" ∉ Generated.SQEmit.callBySymbolCases
    ∧ Generated.SQEmit.macrosAfterSwitch = true := by decide

/-! ### every evaluation builds fresh containers
(lemmas: `Proofs/SQFresh.lean`; spec: `Subst.built`, `Subst.history`) -/

/-- **`sq_code_pushes_no_container`.** The code of a template never pushes, as a literal, a
value that holds an array or a hash — the literal would be the object of the syntax tree,
shared by all evaluations and open to `aset` / `hset` through an earlier result. -/
theorem sq_code_pushes_no_container (H : Host) (t : Tmpl) (wf : t.WF = true) (c : List Instr)
    (hc : genTop H t.toSexp = some c) : ∀ v, Instr.push v ∈ c → hasContainer v = false := by
  unfold genTop at hc
  split at hc
  · simp at hc
  · exact genSQ_plain H t wf c hc

/-- the same for every form without a dotted pair (the forms the property speaks about) -/
theorem sq_code_pushes_no_container_all_forms (H : Host) (s : Sexp) (hp : Proper s = true)
    (c : List Instr) (hc : genTop H s = some c) : ∀ v, Instr.push v ∈ c → hasContainer v = false := by
  have hd := decode_ok s hp
  rw [← hd.1] at hc
  exact sq_code_pushes_no_container H (decode s) hd.2 c hc

/-- What the code does where the property is silent: a dotted pair is pushed as it stands in
the syntax tree, arrays inside it included — those ARE shared between evaluations. -/
theorem dotted_pair_shares_its_containers (H : Host) (h t : Sexp) (hd : isList t = false) :
    genTop H (.cons h t) = some [.push (.cons h t)] := by
  simp [genTop, isUnquoteSplicing, genSQ, hd]

/-- An array sub-template is compiled to `marker … vectorize`, a hash one to
`marker … hashize`: its value is built by the instruction that allocates. -/
theorem sq_container_code_ends_in_alloc (H : Host) (c : List Instr) :
    (∀ elems, genSQ H (.arr elems) = some c → ∃ b, c = .marker :: b ++ [.vectorize])
    ∧ (∀ ty flat, genSQ H (.hash ty flat) = some c → ∃ b, c = .marker :: b ++ [.hashize ty]) := by
  constructor
  · intro elems h
    simp only [genSQ] at h
    cases hb : genArrBody H elems with
    | none => simp [hb] at h
    | some b => exact ⟨b, by simpa [hb] using h.symm⟩
  · intro ty flat h
    simp only [genSQ] at h
    cases hb : genHashBody H flat with
    | none => simp [hb] at h
    | some b => exact ⟨b, by simpa [hb] using h.symm⟩

/-- **`sq_result_fresh`.** On the machine that reports its allocations, evaluating `^t` on any
stack pushes the substitution and allocates exactly the containers the template is written
with (`Subst.built`): one new array / hash per array / hash sub-template, innermost first,
each holding that sub-template's value. Together with `sq_code_pushes_no_container`: every
container of the result outside the values of the unquoted expressions was allocated by
*this* evaluation. -/
theorem sq_result_fresh (H : Host) (t : Tmpl) (wf : t.WF = true) (st : Stack) :
    execA H (genTop H t.toSexp) st
      = (subst (toBinding H) t).bind (fun v => (built (toBinding H) t).map (fun b => (.val v :: st, b))) := by
  by_cases hs : ∃ e, t = .splice e
  · obtain ⟨e, rfl⟩ := hs
    simp [genTop, isUnquoteSplicing_toSexp _ wf, subst, execA]
  · have hs' : ∀ e, t ≠ .splice e := fun e h => hs ⟨e, h⟩
    have hu : isUnquoteSplicing t.toSexp = false := by
      rw [isUnquoteSplicing_toSexp _ wf]
      cases t <;> first | rfl | exact absurd rfl (hs' _)
    simp only [genTop, hu, Bool.false_eq_true, if_false]
    rw [itemsA_ok H t wf st]
    simp only [IB, items_single _ _ hs']
    cases subst (toBinding H) t with
    | none => rfl
    | some v => cases built (toBinding H) t <;> simp [pushAll_single]

/-- In contrast, a pushed value is not allocated by the run: it is the object the generator
was handed, on every evaluation (what `sq_code_pushes_no_container` rules out for containers). -/
theorem push_allocates_nothing (H : Host) (v : Sexp) (st : Stack) :
    runA H [.push v] st = some (.val v :: st, []) := by
  simp [runA, stepA, step]

/-- The allocating machine is the machine of `sq_correct` with a report added. -/
theorem sq_alloc_machine_agrees (H : Host) (c : List Instr) (st : Stack) :
    (runA H c st).map (·.1) = run H c st := runA_fst H c st

mutual
/-- One allocation per array / hash sub-template — as many as the template is written with,
whatever the values of the unquoted expressions. -/
theorem built_length (ρ : Binding) : (t : Tmpl) → ∀ b, built ρ t = some b → b.length = t.containers
  | .lit _, b, h => by simp [built] at h; simp [h.symm, Tmpl.containers]
  | .unquote _, b, h => by simp [built] at h; simp [h.symm, Tmpl.containers]
  | .splice _, b, h => by simp [built] at h; simp [h.symm, Tmpl.containers]
  | .list ts, b, h => by
    simp only [built] at h
    simpa [Tmpl.containers] using builtL_length ρ ts b h
  | .arr ts, b, h => by
    simp only [built] at h
    cases hb : builtL ρ ts with
    | none => simp [hb] at h
    | some b0 =>
      cases hx : itemsL ρ ts with
      | none => simp [hb, hx] at h
      | some xs =>
        simp [hb, hx] at h
        subst h
        simp [Tmpl.containers, builtL_length ρ ts b0 hb]
  | .hash ty kvs, b, h => by
    simp only [built] at h
    cases hb : builtKV ρ kvs with
    | none => simp [hb] at h
    | some b0 =>
      cases hx : itemsKV ρ kvs with
      | none => simp [hb, hx] at h
      | some xs =>
        cases hm : ρ.mkHash ty xs with
        | none => simp [hb, hx, hm] at h
        | some hh =>
          simp [hb, hx, hm] at h
          subst h
          simp [Tmpl.containers, builtKV_length ρ kvs b0 hb]
theorem builtL_length (ρ : Binding) : (ts : List Tmpl) → ∀ b, builtL ρ ts = some b → b.length = containersL ts
  | [], b, h => by simp [builtL] at h; simp [h.symm, containersL]
  | t :: ts, b, h => by
    simp only [builtL] at h
    cases ha : built ρ t with
    | none => simp [ha] at h
    | some a =>
      cases hb : builtL ρ ts with
      | none => simp [ha, hb] at h
      | some b0 =>
        simp [ha, hb] at h
        subst h
        simp [containersL, built_length ρ t a ha, builtL_length ρ ts b0 hb]
theorem builtKV_length (ρ : Binding) : (kvs : List (Tmpl × Tmpl)) → ∀ b, builtKV ρ kvs = some b →
    b.length = containersKV kvs
  | [], b, h => by simp [builtKV] at h; simp [h.symm, containersKV]
  | (k, v) :: r, b, h => by
    simp only [builtKV] at h
    cases ha : built ρ k with
    | none => simp [ha] at h
    | some a =>
      cases hb : built ρ v with
      | none => simp [ha, hb] at h
      | some b0 =>
        cases hc : builtKV ρ r with
        | none => simp [ha, hb, hc] at h
        | some c0 =>
          simp [ha, hb, hc] at h
          subst h
          simp only [List.length_append, containersKV, built_length ρ k a ha, built_length ρ v b0 hb,
            builtKV_length ρ r c0 hc]
          omega
end

/-- **`sq_history`.** One template evaluated once per mutation in `μs`, the program mutating
in place the containers of each result before the next evaluation: on the model every
evaluation yields the substitution (the code of a template reads the values of the unquoted
expressions and nothing else — no object of an earlier result, `sq_code_pushes_no_container`),
which is what the history specification asks of the results as they are produced. -/
theorem sq_history (H : Host) (t : Tmpl) (wf : t.WF = true) (μs : List Mutation) (rs fs : List Sexp)
    (h : history (toBinding H) μs t = some (rs, fs)) :
    ∀ r ∈ rs, evalSQ H t.toSexp = some (r, 0) := by
  unfold history at h
  cases hv : subst (toBinding H) t with
  | none => simp [hv] at h
  | some v =>
    simp only [hv, Option.bind_some, Option.map_eq_some_iff, Prod.mk.injEq] at h
    obtain ⟨_, _, hrs, _⟩ := h
    intro r hr
    rw [← hrs] at hr
    simp only [List.mem_map] at hr
    obtain ⟨_, _, rfl⟩ := hr
    rw [sq_correct H t wf, hv]
    rfl

section FreshExamples
/-- `(defn mk [tag] ^(~tag [0 0]))`: every evaluation allocates the array `[0 0]` anew; the
code pushes only `0`, `0` (and runs `tag`), never the array. -/
example :
    let t := Tmpl.list [.unquote (sym "x"), .arr [.lit (.int 0), .lit (.int 0)]]
    execA exH (genTop exH t.toSexp) []
        = some ([.val (mkList [num 5, .arr (mkList [num 0, num 0])])], [.arr (mkList [num 0, num 0])])
      ∧ genTop exH t.toSexp
        = some [.marker, .eval (sym "x"), .marker, .marker, .push (num 0), .squash, .explode,
                .marker, .push (num 0), .squash, .explode, .vectorize, .squash] := by
  decide

/-- a history of two evaluations with `(aset c 0 77)` in between: both yield `(5 [0 0])`; the
first result ends as `(5 [77 0])`, the second untouched by it -/
example :
    let t := Tmpl.list [.unquote (sym "x"), .arr [.lit (.int 0), .lit (.int 0)]]
    let aset0 : Mutation := { arr := fun xs => match xs with | [] => [] | _ :: r => num 77 :: r, hash := id }
    let none' : Mutation := { arr := id, hash := id }
    history (toBinding exH) [aset0, none'] t
      = some ([mkList [num 5, .arr (mkList [num 0, num 0])], mkList [num 5, .arr (mkList [num 0, num 0])]],
              [mkList [num 5, .arr (mkList [num 77, num 0])], mkList [num 5, .arr (mkList [num 0, num 0])]]) := by
  decide
end FreshExamples

/-! ### the call site: the generator context is carried through expansion
(`genC`, Model/MacroCall.lean) -/

/-- **`macro_call_in_context`.** In *every* context — any loop stack `loops` (plain, labelled,
nested), any generator state `s` (number of open scopes, tail flag, function being compiled) —
compiling a macro call yields exactly the code of compiling its expansion in that same
context: same loops to break out of, same number of scopes to pop, same tail position. -/
theorem macro_call_in_context (E : CEnv) (n : Nat) (loops : List Loop) (s : GenSt) (f : String)
    (args : Sexp) (m : Macro) (as : List Sexp)
    (hs : f ∉ specialForms) (hm : E.macros f = some m) (ha : listToArray args = some as)
    (hassign : ((Sexp.atom (.sym f)) :: as).any (fun x => x = .atom (.sym "=") || x = .atom (.sym ":=")) = false) :
    genC E (n + 1) loops s (.cons (.atom (.sym f)) args)
      = (expand E.mkHash m as).bind (genC E n loops s) := by
  simp only [genC, ha, hassign, hm, hs, Bool.false_eq_true, if_false]

/-- … which, for a template macro, is the code of the substituted body written by hand. -/
theorem macro_call_in_context_handwritten (E : CEnv) (n : Nat) (loops : List Loop) (s : GenSt) (f : String)
    (args : Sexp) (m : Macro) (as : List Sexp) (T : Tmpl) (x : Sexp)
    (hs : f ∉ specialForms) (hm : E.macros f = some m) (ha : listToArray args = some as)
    (hassign : ((Sexp.atom (.sym f)) :: as).any (fun x => x = .atom (.sym "=") || x = .atom (.sym ":=")) = false)
    (wf : T.WF = true) (hb : m.body = T.toSexp) (hl : as.length = m.params.length)
    (hx : subst (toBinding (paramHost E.mkHash m.params as)) T = some x) :
    genC E (n + 1) loops s (.cons (.atom (.sym f)) args) = genC E n loops s x := by
  rw [macro_call_in_context E n loops s f args m as hs hm ha hassign,
    expand_is_substitution E.mkHash m as T wf hb hl, hx]
  rfl

section CtxExamples
/-- `(defmac stopWhen [c] ^(cond ~c (break) null))` -/
def stopWhen : Macro :=
  { params := ["c"], body := (Tmpl.list [.lit (.sym "cond"), .unquote (sym "c"),
      .list [.lit (.sym "break")], .lit (.sym "null")]).toSexp }
def exE : CEnv := { mkHash := exH.mkHash, macros := fun f => if f = "stopWhen" then some stopWhen else none,
                    builtin := fun _ => false }
def lst (xs : List Sexp) : Sexp := mkList xs
/-- `(for [(def i 0) (< i 10) (def i (+ i 1))] (let [j (* i 2)] □ (set acc (+ acc j))))` -/
def loopLet (hole : Sexp) : Sexp :=
  lst [sym "for", .arr (lst [lst [sym "def", sym "i", num 0], lst [sym "<", sym "i", num 10],
                              lst [sym "def", sym "i", lst [sym "+", sym "i", num 1]]]),
       lst [sym "let", .arr (lst [sym "j", lst [sym "*", sym "i", num 2]]), hole,
            lst [sym "set", sym "acc", lst [sym "+", sym "acc", sym "j"]]]]

/-- The macro call inside a `let` inside a loop: the `break` of the expansion pops ONE scope
(the `let`), like the hand-written `cond`; directly in the loop body it pops none; two `let`s
deep it pops two. -/
example :
    genProgram exE 50 [loopLet (lst [sym "stopWhen", lst [sym ">", sym "j", num 6]])]
      = genProgram exE 50 [loopLet (lst [sym "cond", lst [sym ">", sym "j", num 6], lst [sym "break"], sym "null"])]
    ∧ genProgram exE 50 [loopLet (lst [sym "stopWhen", lst [sym ">", sym "j", num 6]])]
      = some [.loopStart 0, .addScope, .callX "+" 2, .callX "<" 2, .addScope, .callX "*" 2, .callX ">" 2,
              .brk 0 1, .callX "+" 2, .remScope, .remScope] := by
  decide

/-- the hypotheses of `macro_call_in_context` are satisfiable -/
example : "stopWhen" ∉ specialForms ∧ (exE.macros "stopWhen").isSome = true := by decide
end CtxExamples

/-! ### a function that rebinds its own name through a macro
Since /repo 70c349a a function whose body binds or assigns its own name is compiled with
funcname = "" (`rebindsOwnName`): calls of the name are ordinary calls of the new binding. The
scan reads the body *as written*: a binding made by a macro expansion is not seen, the call
stays a jump — the macro call no longer equals the hand-written form (found by `sq k`;
fixes/C15-04 lets the scan follow expansions; `CEnv.scanExpansions` is read off the source by
the extractor on every run, so the model follows whichever code is there). -/

section Rebinding
/-- `(defmac defv [v x] ^(def ~v ~x))` -/
def defv : Macro :=
  { params := ["v", "x"], body := (Tmpl.list [.lit (.sym "def"), .unquote (sym "v"), .unquote (sym "x")]).toSexp }
def rbE (scan : Bool) : CEnv :=
  { mkHash := exH.mkHash, macros := fun f => if f = "defv" then some defv else none,
    builtin := fun _ => false, scanExpansions := scan }
/-- `(defn g [n] □ (g n))` -/
def defG (hole : Sexp) : Sexp :=
  lst [sym "defn", sym "g", .arr (lst [sym "n"]), hole, lst [sym "g", sym "n"]]

/-- **Pre-fix (scan of the written body only).** `(defn g [n] (defv g 7) (g n))` compiles the
call `(g n)` as a tail jump, `(defn g [n] (def g 7) (g n))` as an ordinary call: the macro call
does not equal the hand-written form. -/
theorem C15_counterexample_rebinding_through_macro :
    genProgram (rbE false) 50 [defG (lst [sym "defv", sym "g", num 7])]
      = some [.fnOpen, .prepCall 1, .remScope, .goto0, .callX "g" 1, .remScope, .fnClose]
    ∧ genProgram (rbE false) 50 [defG (lst [sym "def", sym "g", num 7])]
      = some [.fnOpen, .callX "g" 1, .remScope, .fnClose] := by
  decide

/-- With the scan following expansions (fixes/C15-04) both compile to the ordinary call. -/
theorem rebinding_through_macro_repaired :
    genProgram (rbE true) 50 [defG (lst [sym "defv", sym "g", num 7])]
      = genProgram (rbE true) 50 [defG (lst [sym "def", sym "g", num 7])] := by
  decide

/-- In general: when the scan follows expansions, a macro call binds whatever its expansion
binds — at any nesting, for any macro. -/
theorem rebinding_sees_expansion (E : CEnv) (name f : String) (args : Sexp) (as : List Sexp) (m : Macro)
    (x : Sexp) (n : Nat) (hscan : E.scanExpansions = true) (hm : E.macros f = some m)
    (ha : listToArray args = some as) (hx : expand E.mkHash m as = some x)
    (hb : bindsName E name n x = true) :
    bindsName E name (n + 1) (.cons (.atom (.sym f)) args) = true := by
  simp [bindsName, ha, hscan, hm, hx, hb]
end Rebinding

/-! ### tie T1 for the two strengthenings (`Generated/SQCtx.lean`, regenerated every run) -/

/-- Inside the syntax-quote generator exactly one instruction pushes a template object as a
literal: the fall-through of GenerateSyntaxQuote, which arrays, lists and hashes never reach
(each case of the type switch returns) — the `| s => some [.push s]` arm of `genSQ`. -/
theorem emit_literal_push_sites :
    Generated.SQCtx.literalPushSites = ["GenerateSyntaxQuote||PushInstr{arg}"]
    ∧ Generated.SQCtx.topCaseTypes = ["*SexpArray", "*SexpPair", "*SexpHash"]
    ∧ Generated.SQCtx.topCasesReturn = true := by decide

/-- The macro branch: (since fix 1a3d12c) the nesting-depth guard — an error return beyond
`MaxMacroExpansionDepth`, the counter incremented and decremented by a `defer`; the model's
expansion is fuel-bounded instead — then Duplicate, Apply on the duplicate, then
`return gen.Generate(expr)`: the generator that met the call compiles the expansion (`genC`,
macro arm). -/
theorem emit_macro_branch :
    Generated.SQCtx.macroBranch
      = ["if[", "ret:fmt.Errorf", "]", "stmt:*ast.IncDecStmt", "stmt:*ast.DeferStmt",
         "call:gen.env.Duplicate", "call:env.Apply", "if[", "ret:err", "]", "ret:gen.Generate"] := by decide

/-- The switch of GenerateCallBySymbol has exactly the cases `genC` treats as special forms. -/
theorem emit_special_forms : Generated.SQEmit.callBySymbolCases = specialForms := by decide

/-- Every place where generator.go creates a generator or writes one of the context fields
Tail / scopes / funcname, in source order — what `genBegin`, `genFun`, `genShort`, `genCond`,
`genLet`, `genFor`, `genNewScope` and the ordinary-call arm of `genC` were written against
(e.g. a cond test is compiled after `Reset()` with the scopes copied again and Tail false; the four
sub-generators of a loop get Tail false, scopes, funcname; let initialisers, array elements, the
results of a multi-value return and — in the `syntaxQuote` case of GenerateCallBySymbol — the
unquoted expressions of a template are compiled with Tail cleared and restored). As of /repo
0d48297. Other files only create generators. -/
theorem emit_ctx_writes : Generated.SQCtx.ctxWrites =
    ["EvalCallExpression|new:gen=NewGenerator", "LoadExpressions|new:gen=NewGenerator",
     "Force|new:gen=NewGenerator", "FuncBuilder|new:gen=NewGenerator", "EvalFunction|new:gen=NewGenerator",
     "NewGenerator|set:gen.Tail=false", "NewGenerator|set:gen.scopes=0",
     "NewSubGenerator|new:subgen=NewGenerator", "GenerateBegin|set:gen.Tail=false",
     "GenerateBegin|set:gen.Tail=oldtail", "buildSexpFun|new:gen=NewGenerator",
     "buildSexpFun|set:gen.Tail=true", "buildSexpFun|set:gen.funcname=env.GenSymbol(\"__anon\").name",
     "buildSexpFun|set:gen.funcname=name", "buildSexpFun|set:gen.funcname=\"\"",
     "GenerateDef|set:gen.Tail=false", "GenerateShortCircuit|new:subgen=gen.NewSubGenerator",
     "GenerateShortCircuit|set:subgen.scopes=gen.scopes", "GenerateShortCircuit|set:subgen.Tail=gen.Tail",
     "GenerateShortCircuit|set:subgen.funcname=gen.funcname", "GenerateShortCircuit|use:subgen.Generate",
     "GenerateShortCircuit|new:subgen=gen.NewSubGenerator",
     "GenerateShortCircuit|set:subgen.scopes=gen.scopes",
     "GenerateShortCircuit|set:subgen.funcname=gen.funcname", "GenerateShortCircuit|use:subgen.Generate",
     "GenerateCond|new:subgen=gen.NewSubGenerator", "GenerateCond|set:subgen.Tail=gen.Tail",
     "GenerateCond|set:subgen.scopes=gen.scopes", "GenerateCond|set:subgen.funcname=gen.funcname",
     "GenerateCond|use:subgen.Generate", "GenerateCond|reset:subgen",
     "GenerateCond|set:subgen.scopes=gen.scopes", "GenerateCond|use:subgen.Generate",
     "GenerateCond|reset:subgen", "GenerateCond|set:subgen.Tail=gen.Tail",
     "GenerateCond|set:subgen.scopes=gen.scopes", "GenerateCond|set:subgen.funcname=gen.funcname",
     "GenerateCond|use:subgen.Generate", "GenerateCond|reset:subgen", "GenerateLet|++:gen.scopes",
     "GenerateLet|set:gen.Tail=false", "GenerateLet|set:gen.Tail=oldtail", "GenerateLet|--:gen.scopes",
     "GenerateAssert|set:gen.Tail=false", "GenerateAssert|set:gen.Tail=oldtail",
     "GenerateCallBySymbol|set:gen.Tail=false", "GenerateCallBySymbol|set:gen.Tail=oldtail",
     "GenerateCallBySymbol|set:gen.Tail=false", "GenerateCallBySymbol|set:gen.Tail=oldtail",
     "GenerateArray|set:gen.Tail=false", "GenerateArray|set:gen.Tail=oldtail", "Reset|set:gen.Tail=false",
     "Reset|set:gen.scopes=0", "GenerateForLoop|++:gen.scopes",
     "GenerateForLoop|new:subgenBody=gen.NewSubGenerator", "GenerateForLoop|set:subgenBody.Tail=false",
     "GenerateForLoop|set:subgenBody.scopes=gen.scopes",
     "GenerateForLoop|set:subgenBody.funcname=gen.funcname", "GenerateForLoop|use:subgenBody.GenerateBegin",
     "GenerateForLoop|new:subgenInit=gen.NewSubGenerator", "GenerateForLoop|set:subgenInit.Tail=false",
     "GenerateForLoop|set:subgenInit.scopes=gen.scopes",
     "GenerateForLoop|set:subgenInit.funcname=gen.funcname", "GenerateForLoop|use:subgenInit.Generate",
     "GenerateForLoop|new:subgenT=gen.NewSubGenerator", "GenerateForLoop|set:subgenT.Tail=false",
     "GenerateForLoop|set:subgenT.scopes=gen.scopes", "GenerateForLoop|set:subgenT.funcname=gen.funcname",
     "GenerateForLoop|use:subgenT.Generate", "GenerateForLoop|new:subgenIncr=gen.NewSubGenerator",
     "GenerateForLoop|set:subgenIncr.Tail=false", "GenerateForLoop|set:subgenIncr.scopes=gen.scopes",
     "GenerateForLoop|set:subgenIncr.funcname=gen.funcname", "GenerateForLoop|use:subgenIncr.Generate",
     "GenerateForLoop|--:gen.scopes", "GenerateMultiDef|set:gen.Tail=false",
     "GenerateNewScope|set:gen.Tail=false", "GenerateNewScope|++:gen.scopes",
     "GenerateNewScope|set:gen.Tail=oldtail", "GenerateNewScope|--:gen.scopes",
     "GeneratePackage|set:gen.Tail=false", "GeneratePackage|++:gen.scopes",
     "GeneratePackage|set:gen.Tail=oldtail", "GeneratePackage|--:gen.scopes",
     "GenerateReturn|set:gen.Tail=false", "GenerateReturn|set:gen.Tail=oldtail",
     "SourceExpressions|new:gen=NewGenerator"] := by decide

/-! ### the pinned tree (before fixes/C15-02, C15-03 and the error-propagation commit) -/

/-- `^~@l` with `l = (1 2)`: the pre-fix code returned 2 and left 1 operand behind. -/
theorem C15_counterexample_top_splice :
    Legacy.SQ.evalSQ exH (Tmpl.splice (sym "l")).toSexp = some (num 2, 1)
    ∧ subst (toBinding exH) (.splice (sym "l")) = none := by
  decide

/-- In general the pre-fix code pushed *all* elements of the spliced list: as many operands
as the list is long, on any stack. -/
theorem legacy_top_splice_pushes_all (H : Host) (e v : Sexp) (xs : List Sexp) (st : Stack)
    (hg : H.genOK e = true) (he : H.eval e = some v) (hl : listToArray v = some xs) :
    Legacy.SQ.run H (Legacy.SQ.genSQ H (Tmpl.splice e).toSexp) st = some (pushAll xs st) := by
  simp [Tmpl.toSexp, Legacy.SQ.genSQ, isList, unqKind, hg, Legacy.SQ.run, Legacy.SQ.step, step, he, hl]

/-- `^(a (unquote bad) b)` where `bad` does not compile: the error was dropped and the
element silently vanished — `(a b)` instead of an error. -/
theorem C15_counterexample_dropped_error :
    let t := Tmpl.list [.lit (.sym "a"), .unquote (sym "bad"), .lit (.sym "b")]
    Legacy.SQ.evalSQ exH t.toSexp = some (mkList [sym "a", sym "b"], 0)
    ∧ subst (toBinding exH) t = none ∧ evalSQ exH t.toSexp = none := by
  decide

/-- `^((x y) ~@bad)`: the orphaned `explode` ate the neighbouring element. -/
theorem C15_counterexample_dropped_error_splice :
    let t := Tmpl.list [.list [.lit (.sym "x"), .lit (.sym "y")], .splice (sym "bad")]
    Legacy.SQ.evalSQ exH t.toSexp = some (mkList [sym "x", sym "y"], 0)
    ∧ subst (toBinding exH) t = none := by
  decide

/-- `{a: ~@l b: ~x c: ~@e}` (a hash value, built through the Go API), `l = (1 2)`: the pre-fix
code handed MakeHash `a 2 1 b 5 c` instead of `a 1 2 b 5 c` — a spliced list came out reversed. -/
theorem C15_counterexample_hash_splice_reversed :
    let t := Tmpl.hash "hash" [(.lit (.sym "a"), .splice (sym "l")), (.lit (.sym "b"), .unquote (sym "x")),
      (.lit (.sym "c"), .splice (sym "e"))]
    Legacy.SQ.evalSQ exH t.toSexp
      = some (.hash "hash" (mkList [sym "a", num 2, num 1, sym "b", num 5, sym "c"]), 0)
    ∧ subst (toBinding exH) t
      = some (.hash "hash" (mkList [sym "a", num 1, num 2, sym "b", num 5, sym "c"])) := by
  decide

end ZygoVerif.SQ
