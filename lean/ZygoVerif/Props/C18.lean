/-
C18 — package members are private unless capitalised.

Model: `Model/Pkg.lean` (the two path walkers, their hand-overs, `errIfPrivate`,
`dotGetSetHelper`, the dereferencing routes) — the code after fixes C18-01 and C18-02.
Spec: `Spec/Visibility.lean` (what a path denotes + the visibility rule per hop).
Lemmas: `Proofs/Pkg.lean`. Pre-fix walkers: `Model/LegacyPkg.lean`.

Every theorem is for ALL heaps (any nesting depth, any sharing or aliasing, even cyclic
references between scopes and hashes), all path lengths, all names and — because nothing
below unfolds `isUpperRune` — whatever the set of upper-case runes is.
-/
import ZygoVerif.Proofs.Pkg
import ZygoVerif.Model.LegacyPkg
import ZygoVerif.Generated.Pkg
namespace ZygoVerif.Pkg
open ZygoVerif.Visibility

/-! ### reading -/

/-- **private_unreachable** (get, full statement): whenever `dotGetSetHelper` answers a
read of `root.p.ps…` issued outside every package with a value, the specification allows
exactly that read, and nothing was modified. Both walkers and both hand-overs. -/
theorem private_unreachable (h h' : Heap) (lex : List Nat) (root p : Name) (ps : List Name) (v : Val) :
    dotGetSet h lex none (root :: p :: ps) = .ok (v, h') →
      h' = h ∧ readableFrom h lex (root :: p :: ps) = some v := by
  simp only [dotGetSet, readableFrom]
  cases lookupStack h root lex with
  | none => simp
  | some r =>
    obtain ⟨c, sid⟩ := r
    dsimp only
    cases c with
    | pkg pn sc =>
      have := walk_get_iff h (.stack pn sc) (p :: ps) v h' (List.cons_ne_nil _ _)
      simp only [curVal, curVia] at this
      simp only [this, readable_pkg_via h pn sc false]
      exact fun hh => hh
    | hash hid =>
      have := walk_get_iff h (.hash hid false) (p :: ps) v h' (List.cons_ne_nil _ _)
      simp only [curVal, curVia] at this
      simp only [this]
      exact fun hh => hh
    | int n => simp
    | fn fid => simp
    | sym q => simp

/-- What "the specification allows the read" means, spelled out: the path denotes member
hops, and every hop at or behind a package is capitalised or is a package member that
holds a nested package. -/
theorem readable_hops (h : Heap) (c : Val) (parts : List Name) (v : Val) :
    readable h c false parts = some v →
      ∃ hs b, resolve h c false parts = some (hs, v, b) ∧
        ∀ hp ∈ hs, hp.via = true →
          capitalised hp.name = true ∨ (hp.inPkg = true ∧ isPkg hp.target = true) := by
  simp only [readable]
  cases resolve h c false parts with
  | none => simp
  | some r =>
    obtain ⟨hs, r1, r2⟩ := r
    by_cases hall : hs.all hopVisible = true
    · simp only [hall, if_true, Option.some.injEq]
      intro hv
      refine ⟨hs, r2, by rw [hv], ?_⟩
      intro hp hmem hvia
      have := List.all_eq_true.mp hall hp hmem
      simp only [hopVisible, hvia, Bool.not_true, Bool.false_or, Bool.or_eq_true,
        Bool.and_eq_true] at this
      exact this
    · simp [hall]

/-- **private_unreachable**, in the words of the property: if some hop of the path sits
at or behind a package, its name is not capitalised, and it is not a package member
holding a nested package, then the read fails — for every route, since every route
resolves its dot symbol through `dotGetSet`. -/
theorem private_member_unreadable (h : Heap) (lex : List Nat) (root p : Name) (ps : List Name)
    (c : Val) (sid : Nat) (hs : List Hop) (v : Val) (b : Bool) (hp : Hop)
    (hroot : lookupStack h root lex = some (c, sid))
    (hden : resolve h c false (p :: ps) = some (hs, v, b))
    (hmem : hp ∈ hs) (hvia : hp.via = true) (hlow : capitalised hp.name = false)
    (hnest : ¬ (hp.inPkg = true ∧ isPkg hp.target = true)) :
    ∃ e, dotGetSet h lex none (root :: p :: ps) = .error e := by
  cases hres : dotGetSet h lex none (root :: p :: ps) with
  | error e => exact ⟨e, rfl⟩
  | ok r =>
    obtain ⟨v', h'⟩ := r
    have hr := (private_unreachable h h' lex root p ps v' hres).2
    simp only [readableFrom, hroot] at hr
    obtain ⟨hs', b', hden', hall⟩ := readable_hops h c (p :: ps) v' hr
    rw [hden] at hden'
    simp only [Option.some.injEq, Prod.mk.injEq] at hden'
    obtain ⟨rfl, _, _⟩ := hden'
    rcases hall hp hmem hvia with hc | hn
    · rw [hlow] at hc; exact absurd hc (by decide)
    · exact absurd hn hnest

/-- **public_reachable** (get): a read that the specification allows is answered with the
value the path denotes, heap untouched. -/
theorem public_reachable (h : Heap) (lex : List Nat) (root p : Name) (ps : List Name) (v : Val) :
    readableFrom h lex (root :: p :: ps) = some v →
      dotGetSet h lex none (root :: p :: ps) = .ok (v, h) := by
  simp only [dotGetSet, readableFrom]
  cases lookupStack h root lex with
  | none => simp
  | some r =>
    obtain ⟨c, sid⟩ := r
    dsimp only
    cases c with
    | pkg pn sc =>
      have := walk_get_iff h (.stack pn sc) (p :: ps) v h (List.cons_ne_nil _ _)
      simp only [curVal, curVia, true_and] at this
      intro hr
      rw [readable_pkg_via] at hr
      exact this.mpr hr
    | hash hid =>
      have := walk_get_iff h (.hash hid false) (p :: ps) v h (List.cons_ne_nil _ _)
      simp only [curVal, curVia, true_and] at this
      exact this.mpr
    | int n => simp [readable_other_cons]
    | fn fid => simp [readable_other_cons]
    | sym q => simp [readable_other_cons]

/-! ### assigning -/

/-- **private_unreachable** (set): an assignment through a dot path that the walkers
carry out is one the specification permits; the value stored is the value given. -/
theorem private_unassignable (h h' : Heap) (lex : List Nat) (root p : Name) (ps : List Name) (x y : Val) :
    dotGetSet h lex (some x) (root :: p :: ps) = .ok (y, h') →
      y = x ∧ assignableFrom h lex (root :: p :: ps) = true := by
  simp only [dotGetSet, assignableFrom]
  cases lookupStack h root lex with
  | none => simp
  | some r =>
    obtain ⟨c, sid⟩ := r
    dsimp only
    cases c with
    | pkg pn sc =>
      dsimp only
      intro hw
      refine ⟨walk_set_value h x _ _ y h' hw, ?_⟩
      have := (walk_set_iff h x (.stack pn sc) (p :: ps) (List.cons_ne_nil _ _)).mp ⟨y, h', hw⟩
      simp only [curVal, curVia] at this
      rw [assignable_pkg_via]; exact this
    | hash hid =>
      dsimp only
      intro hw
      refine ⟨walk_set_value h x _ _ y h' hw, ?_⟩
      exact (walk_set_iff h x (.hash hid false) (p :: ps) (List.cons_ne_nil _ _)).mp ⟨y, h', hw⟩
    | int n => simp
    | fn fid => simp
    | sym q => simp

/-- **public_reachable** (set): a permitted assignment is carried out. -/
theorem public_assignable (h : Heap) (lex : List Nat) (root p : Name) (ps : List Name) (x : Val) :
    assignableFrom h lex (root :: p :: ps) = true →
      ∃ h', dotGetSet h lex (some x) (root :: p :: ps) = .ok (x, h') := by
  simp only [dotGetSet, assignableFrom]
  cases lookupStack h root lex with
  | none => simp
  | some r =>
    obtain ⟨c, sid⟩ := r
    dsimp only
    cases c with
    | pkg pn sc =>
      dsimp only
      intro ha
      rw [assignable_pkg_via] at ha
      obtain ⟨y, h', hw⟩ := (walk_set_iff h x (.stack pn sc) (p :: ps) (List.cons_ne_nil _ _)).mpr ha
      have := walk_set_value h x _ _ y h' hw
      subst this
      exact ⟨h', hw⟩
    | hash hid =>
      dsimp only
      intro ha
      obtain ⟨y, h', hw⟩ := (walk_set_iff h x (.hash hid false) (p :: ps) (List.cons_ne_nil _ _)).mpr ha
      have := walk_set_value h x _ _ y h' hw
      subst this
      exact ⟨h', hw⟩
    | int n => simp [assignable_other]
    | fn fid => simp [assignable_other]
    | sym q => simp [assignable_other]

/-- A lower-case (or non-letter) last name is never assignable behind a package: the
specification's `assignable` read off for the last hop. -/
theorem private_last_not_assignable (h : Heap) (c : Val) (last : Name)
    (hlow : capitalised last = false) : assignable h c true [last] = false := by
  cases c <;> simp [assignable_last, hlow]

/-! ### every route -/

/-- A step whose path the specification does not allow to be read fails, whatever the
route (operand of a builtin, call with or without arguments, argument of a user function,
alias / right-hand side by `def` or infix `=`), and the world is left as it was (an
`Except.error` carries no new world). -/
theorem route_get_private (w : World) (glob : Nat) (st : Step) (root p : Name) (ps : List Name)
    (hst : st = .opnd (root :: p :: ps) ∨ st = .call0 (root :: p :: ps) ∨
      (∃ n, st = .call1 (root :: p :: ps) n) ∨ st = .arg (root :: p :: ps) ∨
      (∃ nm i, st = .rhs nm (root :: p :: ps) i))
    (hpriv : readableFrom w.heap [glob] (root :: p :: ps) = none) :
    ∃ e, runStep w glob st = .error e := by
  have key : ∃ e, dotGetSet w.heap [glob] none (root :: p :: ps) = .error e := by
    cases hres : dotGetSet w.heap [glob] none (root :: p :: ps) with
    | error e => exact ⟨e, rfl⟩
    | ok r =>
      obtain ⟨v, h'⟩ := r
      have := (private_unreachable _ _ _ _ _ _ _ hres).2
      rw [hpriv] at this; exact absurd this (by simp)
  obtain ⟨e, he⟩ := key
  refine ⟨e, ?_⟩
  rcases hst with rfl | rfl | ⟨n, rfl⟩ | rfl | ⟨nm, i, rfl⟩ <;> simp [runStep, runStepWith, he]

/-- The three assignment routes (`{p = n}`, `(= p n)`, `(set p n)`) fail when the
specification does not permit the assignment. -/
theorem route_set_private (w : World) (glob : Nat) (r : SetRoute) (root p : Name) (ps : List Name) (n : Int)
    (hpriv : assignableFrom w.heap [glob] (root :: p :: ps) = false) :
    ∃ e, runStep w glob (.set r (root :: p :: ps) n) = .error e := by
  cases hres : dotGetSet w.heap [glob] (some (.int n)) (root :: p :: ps) with
  | error e => exact ⟨e, by simp [runStep, runStepWith, hres]⟩
  | ok q =>
    obtain ⟨y, h'⟩ := q
    have := (private_unassignable _ _ _ _ _ _ _ _ hres).2
    rw [hpriv] at this; exact absurd this (by simp)

/-! ### inside -/

/-- **inside_keeps_access**: code defined inside a package (its closure holds the
package's scope stack `sc`) reads and assigns every name that stack binds — whatever the
case of the name — also when it is called from outside. -/
theorem inside_keeps_access (h : Heap) (sc : List Nat) (nm : Name) (v : Val) (sid : Nat)
    (hb : lookupStack h nm sc = some (v, sid)) :
    insideGet h sc nm = .ok (v, h) ∧ insideReadable h sc nm = some v ∧
      ∀ x, insideSet h sc nm x = .ok (x, h.setScope sid nm x) := by
  simp [insideGet, insideSet, insideReadable, hb]

/-- The same member, asked for from outside through the package, is refused when its name
is not capitalised and it is not a nested package; from inside it is served. -/
theorem inside_vs_outside (h : Heap) (lex : List Nat) (root : Name) (pn : Name) (sc : List Nat) (rsid : Nat)
    (nm : Name) (v : Val) (sid : Nat)
    (hroot : lookupStack h root lex = some (.pkg pn sc, rsid))
    (hb : lookupStack h nm sc = some (v, sid))
    (hlow : capitalised nm = false) (hv : isPkg v = false) :
    (∃ e, dotGetSet h lex none [root, nm] = .error e) ∧
      (∀ x, ∃ e, dotGetSet h lex (some x) [root, nm] = .error e) ∧
      insideGet h sc nm = .ok (v, h) := by
  refine ⟨?_, ?_, (inside_keeps_access h sc nm v sid hb).1⟩
  · cases hres : dotGetSet h lex none [root, nm] with
    | error e => exact ⟨e, rfl⟩
    | ok r =>
      obtain ⟨v', h'⟩ := r
      have := (private_unreachable h h' lex root nm [] v' hres).2
      simp [readableFrom, hroot, readable_pkg_cons, hb, hopVisible, hlow, hv] at this
  · intro x
    cases hres : dotGetSet h lex (some x) [root, nm] with
    | error e => exact ⟨e, rfl⟩
    | ok r =>
      obtain ⟨y, h'⟩ := r
      have := (private_unassignable h h' lex root nm [] x y hres).2
      simp [assignableFrom, hroot, assignable_last, hlow] at this

/-! ### hypotheses are satisfiable; the pre-fix code refuted -/

/-- A world: global `pk` = package P { X := 1; y := 2; H := {a:1 B:2}; inner := package I
{ Z := 5; HH := {z:7 Q:8} } }. Scope 0 global, 1 = P, 2 = I; hash 0 = H, 1 = HH. -/
def exWorld : Heap :=
  { scopes := [ [([112, 107], .pkg [80] [1, 0])],
                [([88], .int 1), ([121], .int 2), ([72], .hash 0), ([105], .pkg [73] [2, 1, 0])],
                [([90], .int 5), ([72, 72], .hash 1)] ],
    hashes := [ [([97], .int 1), ([66], .int 2)], [([122], .int 7), ([81], .int 8)] ] }

/-- Spot checks of the regenerated `unicode.IsUpper` table (the `pkg upper` ops compare
the whole table below U+0250 and a random sample above with the library on every run):
A Z É upper; a é _ $ and the title-case ǅ (U+01C5) not. -/
theorem upper_samples :
    isUpperRune 65 = true ∧ isUpperRune 90 = true ∧ isUpperRune 201 = true ∧
    isUpperRune 97 = false ∧ isUpperRune 233 = false ∧ isUpperRune 95 = false ∧
    isUpperRune 36 = false ∧ isUpperRune 453 = false := by decide +kernel

/-- Result comparison by evaluation (values and error classes only). -/
def resultIs (r : Res) (e : Except Err Val) : Bool :=
  match r, e with
  | .ok (v, _), .ok v' => v == v'
  | .error a, .error b => a == b
  | _, _ => false

example : dotGetSet exWorld [0] none [[112, 107], [88]] = .ok (.int 1, exWorld) := by rfl
example : readableFrom exWorld [0] [[112, 107], [88]] = some (.int 1) := by decide +kernel
-- pk.y, pk.H.a and pk.i.HH.z are refused, pk.H.B and pk.i.HH.Q are served (fixed code)
example : resultIs (dotGetSet exWorld [0] none [[112, 107], [121]]) (.error .priv) = true := by decide +kernel
example : resultIs (dotGetSet exWorld [0] none [[112, 107], [72], [97]]) (.error .priv) = true := by decide +kernel
example : resultIs (dotGetSet exWorld [0] none [[112, 107], [72], [66]]) (.ok (.int 2)) = true := by decide +kernel
example : resultIs (dotGetSet exWorld [0] none [[112, 107], [105], [72, 72], [81]]) (.ok (.int 8)) = true := by decide +kernel
example : resultIs (dotGetSet exWorld [0] none [[112, 107], [105], [72, 72], [122]]) (.error .priv) = true := by decide +kernel
example : assignableFrom exWorld [0] [[112, 107], [88]] = true := by decide +kernel
example : insideGet exWorld [1, 0] [121] = .ok (.int 2, exWorld) := by rfl

/-- Pinned tree, defect 1 (fixed by C18-02): the hash walker had no privacy check, so
`pk.H.a` read the lower-case member `a` of a public hash from outside the package —
against the specification. -/
theorem legacy_hash_member_leak_counterexample :
    Legacy.dotGetSet exWorld [0] none [[112, 107], [72], [97]] = .ok (.int 1, exWorld) ∧
    readableFrom exWorld [0] [[112, 107], [72], [97]] = none :=
  ⟨by rfl, by decide +kernel⟩

/-- … and assigned it. -/
theorem legacy_hash_member_assign_counterexample :
    (∃ h', Legacy.dotGetSet exWorld [0] (some (.int 9)) [[112, 107], [72], [97]] = .ok (.int 9, h')) ∧
    assignableFrom exWorld [0] [[112, 107], [72], [97]] = false :=
  ⟨⟨_, by rfl⟩, by decide +kernel⟩

/-- Pinned tree, defect 2 (fixed by C18-01): the stack walker handed the hash walker
`dotpaths[1:]` instead of the remaining path, so the PUBLIC member `pk.i.HH.Q`, two
packages deep, was unreachable ("hash has no field 'HH'") although the specification
makes it readable. -/
theorem legacy_handover_counterexample :
    Legacy.dotGetSet exWorld [0] none [[112, 107], [105], [72, 72], [81]] = .error .notfound ∧
    readableFrom exWorld [0] [[112, 107], [105], [72, 72], [81]] = some (.int 8) :=
  ⟨by rfl, by decide +kernel⟩

/-! ### T1: the source still has the shape the model was written for -/

/-- The privacy test is `!unicode.IsUpper(first rune)`. -/
theorem src_errIfPrivate : Generated.Pkg.errIfPrivateConds = ["!unicode.IsUpper([]rune(noDot)[0])"] := by
  decide

/-- The stack walker checks privacy at its three exits and hands the hash walker the
REMAINING path together with the package it stands in. -/
theorem src_stack_walker : Generated.Pkg.stackWalkerCalls =
    ["errIfPrivate(curSym.name, curStack)", "errIfPrivate(curSym.name, curStack)",
     "errIfPrivate(curSym.name, curStack)", "x.nestedPathGetSet(env, dotpaths[i+1:], setVal, curStack)"] := by
  decide

/-- The hash walker checks every part when reached through a package and hands a nested
package the remaining path. -/
theorem src_hash_walker : Generated.Pkg.hashWalkerCalls =
    ["errIfPrivate(dotpaths[i], viaPkg)", "x.nestedPathGetSet(env, dotpaths[i+1:], setVal)"] := by
  decide

/-- `dotGetSetHelper` enters a plain hash with no package in front of it. -/
theorem src_helper : Generated.Pkg.helperCalls =
    ["pkg.nestedPathGetSet(env, path[1:], setVal)", "h.nestedPathGetSet(env, path[1:], setVal, nil)"] := by
  decide

end ZygoVerif.Pkg
