/-
C10 — records convert to Go structs and back without loss.  PARTIAL by design (DESIGN §7 C10):
the truth of this property lives in Go's `reflect`; what is proved here is the logic of the walk
over an abstract type descriptor (`Model/ToGo.lean`, the code after fixes C10-01…05), level by
level: every theorem about `convStep`/`fillFields` holds for an ARBITRARY function `rec` doing the
levels below, hence for every nesting depth of the real recursion `conv w n`.
The tie of the descriptor and of the model to the real code is the `togo` channel.
-/
import ZygoVerif.Model.ToGo
import ZygoVerif.Spec.RecordGo
import ZygoVerif.Proofs.ToGoCache
import ZygoVerif.Proofs.ToGoPaths
import ZygoVerif.Proofs.ToGoLookup
import ZygoVerif.Proofs.ToGoHist
import ZygoVerif.Model.LegacyToGo
namespace ZygoVerif.C10
open ZygoVerif.ToGo ZygoVerif.SpecToGo

/-! ### paths into struct values -/

theorem getPath_setPath_same : ∀ (p : List Nat) (sv sv' v : GV),
    setPath sv p v = some sv' → getPath sv' p = some v := by
  intro p
  induction p with
  | nil => intro sv sv' v h; simp [setPath] at h; simp [getPath, h]
  | cons i p ih =>
    intro sv sv' v h
    cases sv with
    | struct s fs =>
      simp only [setPath] at h
      split at h
      · rename_i f hf
        split at h
        · rename_i f' hf'
          simp only [Option.some.injEq] at h
          subst h
          have hi : i < fs.length := by
            rcases List.getElem?_eq_some_iff.mp hf with ⟨hlt, _⟩
            exact hlt
          simp only [getPath, List.getElem?_set_self hi]
          exact ih f f' v hf'
        · simp at h
      · simp at h
    | _ => simp [setPath] at h

/-- two paths neither of which is a prefix of the other -/
def Apart : List Nat → List Nat → Prop
  | [], _ => False
  | _, [] => False
  | i :: p, j :: q => i ≠ j ∨ Apart p q

theorem getPath_setPath_apart : ∀ (p q : List Nat) (sv sv' v : GV),
    Apart p q → setPath sv p v = some sv' → getPath sv' q = getPath sv q := by
  intro p
  induction p with
  | nil => intro q sv sv' v h; simp [Apart] at h
  | cons i p ih =>
    intro q sv sv' v hap h
    cases q with
    | nil => simp [Apart] at hap
    | cons j q =>
      cases sv with
      | struct s fs =>
        simp only [setPath] at h
        split at h
        · rename_i f hf
          split at h
          · rename_i f' hf'
            simp only [Option.some.injEq] at h
            subst h
            have hi : i < fs.length := (List.getElem?_eq_some_iff.mp hf).1
            by_cases hij : i = j
            · subst hij
              have hap' : Apart p q := by
                rcases hap with h1 | h2
                · exact absurd rfl h1
                · exact h2
              simp only [getPath, List.getElem?_set_self hi, hf]
              exact ih q f f' v hap' hf'
            · simp only [getPath, List.getElem?_set_ne hij]
          · simp at h
        · simp at h
      | _ => simp [setPath] at h

/-! ### the field loop -/

/-- `unknown_field_or_wrong_kind_is_error`, first half: a key that is not a string/symbol, or
that names no field of the struct (by json tag, by name, capitalised, through embedded structs),
makes the whole conversion fail — whatever the other fields are and whatever the levels below
do. Nothing is skipped. -/
theorem unknown_field_is_error (rec : Rec) (tbl : List Entry) :
    ∀ (kvs : List (Key × Sx)) (st : St) (sv : GV),
    (∃ kv ∈ kvs, (keyBytes kv.1).bind (resolve tbl) = none) →
    ∀ r, fillFields rec tbl st sv kvs ≠ .ok r := by
  intro kvs
  induction kvs with
  | nil => intro st sv h; simp at h
  | cons kv rest ih =>
    intro st sv h r
    obtain ⟨k, x⟩ := kv
    cases hk : keyBytes k with
    | none => simp [fillFields, hk]
    | some b =>
      cases hr : resolve tbl b with
      | none => simp [fillFields, hk, hr]
      | some e =>
        have hrest : ∃ kv ∈ rest, (keyBytes kv.1).bind (resolve tbl) = none := by
          rcases h with ⟨kv, hmem, hnone⟩
          rcases List.mem_cons.mp hmem with heq | hin
          · subst heq; simp [hk, hr] at hnone
          · exact ⟨kv, hin, hnone⟩
        cases hg : getPath sv e.path with
        | none => simp [fillFields, hk, hr, hg]
        | some cur =>
          cases hc : rec st x e.ty cur with
          | error er => simp [fillFields, hk, hr, hg, hc, bind, Except.bind]
          | ok p =>
            obtain ⟨v, st1⟩ := p
            cases hs : setPath sv e.path v with
            | none => simp [fillFields, hk, hr, hg, hc, hs, bind, Except.bind]
            | some sv1 =>
              simp only [fillFields, hk, hr, hg, hc, hs, bind, Except.bind]
              exact ih st1 sv1 hrest r

example : ∃ kvs : List (Key × Sx), ∃ kv ∈ kvs, (keyBytes kv.1).bind (resolve ([] : List Entry)) = none :=
  ⟨[(Key.sym [122], Sx.int 1)], (Key.sym [122], Sx.int 1), by simp, by simp [keyBytes, resolve, lookupKey]⟩

/-- `togo_fills_every_field`: when the field loop succeeds, the field that a pair `(k, x)` of the
record names holds exactly the value the conversion of `x` produced — provided no later pair
writes to the same field or to a struct containing/contained in it (`Apart`). With distinct keys
resolving to pairwise `Apart` paths this is "every field present in the record is written once,
with the record's value". -/
theorem togo_fills_every_field (rec : Rec) (tbl : List Entry) :
    ∀ (rest : List (Key × Sx)) (st : St) (sv : GV) (k : Key) (x : Sx) (b : List Nat) (e : Entry)
      (cur v : GV) (st1 : St) (out : GV × St),
    keyBytes k = some b → resolve tbl b = some e → getPath sv e.path = some cur →
    rec st x e.ty cur = .ok (v, st1) →
    (∀ kv ∈ rest, ∀ b' e', keyBytes kv.1 = some b' → resolve tbl b' = some e' → Apart e'.path e.path) →
    fillFields rec tbl st sv ((k, x) :: rest) = .ok out →
    getPath out.1 e.path = some v := by
  intro rest st sv k x b e cur v st1 out hk hr hg hc hap hfill
  simp only [fillFields, hk, hr, hg, bind, Except.bind, hc] at hfill
  cases hs : setPath sv e.path v with
  | none => simp [hs] at hfill
  | some sv1 =>
    simp only [hs] at hfill
    have h0 : getPath sv1 e.path = some v := getPath_setPath_same _ _ _ _ hs
    -- the remaining pairs leave this field alone
    clear hs hc hg
    revert st1 sv1
    induction rest with
    | nil => intro st1 sv1 hfill h0; simp [fillFields] at hfill; subst hfill; exact h0
    | cons kv rest ih =>
      intro st1 sv1 hfill h0
      obtain ⟨k', x'⟩ := kv
      simp only [fillFields] at hfill
      cases hk' : keyBytes k' with
      | none => simp [hk'] at hfill
      | some b' =>
        cases hr' : resolve tbl b' with
        | none => simp [hk', hr'] at hfill
        | some e' =>
          simp only [hk', hr'] at hfill
          cases hg' : getPath sv1 e'.path with
          | none => simp [hg'] at hfill
          | some cur' =>
            simp only [hg', bind, Except.bind] at hfill
            cases hc' : rec st1 x' e'.ty cur' with
            | error er => simp [hc'] at hfill
            | ok p =>
              obtain ⟨v', st2⟩ := p
              simp only [hc'] at hfill
              cases hs' : setPath sv1 e'.path v' with
              | none => simp [hs'] at hfill
              | some sv2 =>
                simp only [hs'] at hfill
                have hap' : Apart e'.path e.path := hap (k', x') (by simp) b' e' hk' hr'
                have h1 : getPath sv2 e.path = some v := by
                  rw [getPath_setPath_apart _ _ _ _ _ hap' hs']; exact h0
                exact ih (fun kv hm => hap kv (List.mem_cons_of_mem _ hm)) st2 sv2 hfill h1

example : Apart [0, 1] [0, 2] ∧ Apart [1] [0, 2] := by simp [Apart]

/-- the field loop over `pre ++ post` is the loop over `pre` followed by the loop over `post` -/
theorem fillFields_append (rec : Rec) (tbl : List Entry) :
    ∀ (pre post : List (Key × Sx)) (st : St) (sv : GV),
    fillFields rec tbl st sv (pre ++ post) =
      (match fillFields rec tbl st sv pre with
       | .ok (sv1, st1) => fillFields rec tbl st1 sv1 post
       | .error e => .error e) := by
  intro pre
  induction pre with
  | nil => intro post st sv; simp [fillFields]
  | cons kv pre ih =>
    intro post st sv
    obtain ⟨k, x⟩ := kv
    cases hk : keyBytes k with
    | none => simp [fillFields, hk]
    | some b =>
      cases hr : resolve tbl b with
      | none => simp [fillFields, hk, hr]
      | some e =>
        cases hg : getPath sv e.path with
        | none => simp [fillFields, hk, hr, hg]
        | some cur =>
          cases hc : rec st x e.ty cur with
          | error er => simp [fillFields, hk, hr, hg, hc, bind, Except.bind]
          | ok p =>
            obtain ⟨v, st1⟩ := p
            cases hs : setPath sv e.path v with
            | none => simp [fillFields, hk, hr, hg, hc, hs, bind, Except.bind]
            | some sv1 =>
              simp only [List.cons_append, fillFields, hk, hr, hg, hc, hs, bind, Except.bind]
              exact ih post st1 sv1

/-- `togo_fills_every_field`, for a pair at ANY position of the record: the loop succeeded, so the
pair's key resolved to a declared field, its value was converted (once, by `rec`, into that
field's type, starting from what the field held), and — when the pairs after it write only
paths `Apart` from it — the finished struct holds exactly that converted value there. -/
theorem togo_fills_every_field_at (rec : Rec) (tbl : List Entry)
    (pre rest : List (Key × Sx)) (k : Key) (x : Sx) (st : St) (sv : GV) (out : GV × St)
    (hfill : fillFields rec tbl st sv (pre ++ (k, x) :: rest) = .ok out) :
    ∃ sv1 st1 b e cur v st2,
      fillFields rec tbl st sv pre = .ok (sv1, st1) ∧ keyBytes k = some b ∧ resolve tbl b = some e ∧
      getPath sv1 e.path = some cur ∧ rec st1 x e.ty cur = .ok (v, st2) ∧
      ((∀ kv ∈ rest, ∀ b' e', keyBytes kv.1 = some b' → resolve tbl b' = some e' → Apart e'.path e.path) →
        getPath out.1 e.path = some v) := by
  rw [fillFields_append] at hfill
  cases hpre : fillFields rec tbl st sv pre with
  | error er => simp [hpre] at hfill
  | ok p =>
    obtain ⟨sv1, st1⟩ := p
    simp only [hpre] at hfill
    have hfill' := hfill
    simp only [fillFields] at hfill
    cases hk : keyBytes k with
    | none => simp [hk] at hfill
    | some b =>
      cases hr : resolve tbl b with
      | none => simp [hk, hr] at hfill
      | some e =>
        cases hg : getPath sv1 e.path with
        | none => simp [hk, hr, hg] at hfill
        | some cur =>
          cases hc : rec st1 x e.ty cur with
          | error er => simp [hk, hr, hg, hc, bind, Except.bind] at hfill
          | ok q =>
            obtain ⟨v, st2⟩ := q
            exact ⟨sv1, st1, b, e, cur, v, st2, rfl, rfl, hr, hg, hc, fun hap =>
              togo_fills_every_field rec tbl rest st1 sv1 k x b e cur v st2 out hk hr hg hc hap hfill'⟩

/-! ### the way back, field by field (`roundtrip`, partial) -/

/-- `roundtrip_partial`: let `rb` be a read-back function under which every value that `rec`
converts comes back as it was (see `roundtrip_scalar`, `roundtrip_slice` for instances). Then for
every pair `(k, x)` of a record that converted successfully, reading back the field the pair
names gives exactly `x` (paths of later pairs `Apart`, as in `togo_fills_every_field`).
MISSING for the full `fromGo (toGo r T) = r`: the assembly of the fields into one record (key
order = declaration order, absent fields = zero values, embedded structs twice) and the
instantiation of `rb` through pointers and interfaces; both are conventions of
`FillHashFromShadow` that the `echo` correspondence checks against the spec on every op. -/
theorem roundtrip_partial (rec : Rec) (rb : GV → Sx) (tbl : List Entry)
    (hrb : ∀ st x T cur v st', rec st x T cur = .ok (v, st') → rb v = x)
    (pre rest : List (Key × Sx)) (k : Key) (x : Sx) (st : St) (sv : GV) (out : GV × St)
    (hfill : fillFields rec tbl st sv (pre ++ (k, x) :: rest) = .ok out)
    (hap : ∀ b e, keyBytes k = some b → resolve tbl b = some e →
      ∀ kv ∈ rest, ∀ b' e', keyBytes kv.1 = some b' → resolve tbl b' = some e' → Apart e'.path e.path) :
    ∃ b e, keyBytes k = some b ∧ resolve tbl b = some e ∧ (getPath out.1 e.path).map rb = some x := by
  obtain ⟨sv1, st1, b, e, cur, v, st2, _, hk, hr, _, hc, hget⟩ :=
    togo_fills_every_field_at rec tbl pre rest k x st sv out hfill
  refine ⟨b, e, hk, hr, ?_⟩
  rw [hget (hap b e hk hr)]
  simp [hrb st1 x e.ty cur v st2 hc]

/-- scalars that come back exactly as they went in (the kind-preserving pairs; an integer stored
into a float64 field comes back as a float, a char as an integer, a time not at all — the last
is the known finding). `rbk` is irrelevant: no nested value. -/
theorem roundtrip_scalar (w : World) (heap : List GV) (rbk : GV → Sx) (x : Sx) (T : Ty) (v : GV)
    (hpair : (match x, T with
      | .int _, .int _ => True | .uint _, .uint _ => True | .flt _, .f64 => True
      | .str _, .str => True | .bool _, .bool => True | .raw _, .bytes => True | _, _ => False))
    (h : convAtom w x T = .ok v) : backStep w heap rbk v = x := by
  cases x <;> cases T <;> simp_all [convAtom, backStep] <;>
    (try (rename_i k; cases k <;> simp_all [convAtom, backStep])) <;>
    (try (split at h <;> simp_all [backStep])) <;>
    (try (subst h; simp [backStep]))

/-- slices: if every element comes back, the slice comes back (element order and count kept). -/
theorem roundtrip_slice (rec : Rec) (rb : GV → Sx) (e : Ty) (z : GV)
    (hrb : ∀ st x v st', rec st x e z = .ok (v, st') → rb v = x) :
    ∀ (xs : List Sx) (st : St) (vs : List GV) (st' : St),
    convList rec e z st xs = .ok (vs, st') → vs.map rb = xs := by
  intro xs
  induction xs with
  | nil => intro st vs st' h; simp [convList] at h; simp [h.1]
  | cons x xs ih =>
    intro st vs st' h
    simp only [convList, bind, Except.bind] at h
    cases hc : rec st x e z with
    | error er => simp [hc] at h
    | ok p =>
      obtain ⟨v, st1⟩ := p
      simp only [hc] at h
      cases hl : convList rec e z st1 xs with
      | error er => simp [hl] at h
      | ok q =>
        obtain ⟨vs', st2⟩ := q
        simp only [hl, pure, Except.pure, Except.ok.injEq, Prod.mk.injEq] at h
        obtain ⟨hv, _⟩ := h
        subst hv
        simp [hrb st x v st1 hc, ih st1 vs' st2 hl]

example : convAtom ⟨[], []⟩ (.str [97]) .str = .ok (.str [97]) := rfl

/-- kind-preserving scalar pairs: the value comes back from Go as the same kind of value -/
def KindPreserving : Sx → Ty → Prop
  | .int _, .int _ => True | .uint _, .uint _ => True | .flt _, .f64 => True
  | .str _, .str => True | .bool _, .bool => True | .raw _, .bytes => True | _, _ => False

theorem convStep_scalar (w : World) (rec : Rec) (st st' : St) (x : Sx) (T : Ty) (cur v : GV)
    (hx : KindPreserving x T) (h : convStep w rec st x T cur = .ok (v, st')) : convAtom w x T = .ok v := by
  cases x <;> simp only [KindPreserving] at hx <;> simp only [convStep] at h <;>
    (split at h <;> simp_all)

/-- `roundtrip` for flat records, about the model's own functions at any depth budget: take any
record whose conversion by the real field loop (`fillFields (conv w n)`) succeeded; for every pair
`(k, x)` of it whose value is a scalar of the field's own kind, the way back (`backStep`, any
heap, any nested read-back) reads exactly `x` from the field `k` names. No assumption on the other
pairs except that later ones write `Apart` paths. -/
theorem roundtrip_flat_fields (w : World) (n : Nat) (heap : List GV) (rbk : GV → Sx) (tbl : List Entry)
    (pre rest : List (Key × Sx)) (k : Key) (x : Sx) (st : St) (sv : GV) (out : GV × St)
    (hfill : fillFields (conv w (n+1)) tbl st sv (pre ++ (k, x) :: rest) = .ok out)
    (hkind : ∀ b e, keyBytes k = some b → resolve tbl b = some e → KindPreserving x e.ty)
    (hap : ∀ b e, keyBytes k = some b → resolve tbl b = some e →
      ∀ kv ∈ rest, ∀ b' e', keyBytes kv.1 = some b' → resolve tbl b' = some e' → Apart e'.path e.path) :
    ∃ b e, keyBytes k = some b ∧ resolve tbl b = some e ∧
      (getPath out.1 e.path).map (backStep w heap rbk) = some x := by
  obtain ⟨sv1, st1, b, e, cur, v, st2, _, hk, hr, _, hc, hget⟩ :=
    togo_fills_every_field_at (conv w (n+1)) tbl pre rest k x st sv out hfill
  refine ⟨b, e, hk, hr, ?_⟩
  rw [hget (hap b e hk hr)]
  have hat : convAtom w x e.ty = .ok v := convStep_scalar w (conv w n) st1 st2 x e.ty cur v (hkind b e hk hr) hc
  have hkp := hkind b e hk hr
  have : backStep w heap rbk v = x := by
    apply roundtrip_scalar w heap rbk x e.ty v _ hat
    revert hkp
    cases x <;> cases e.ty <;> simp [KindPreserving]
  simp [this]

example : KindPreserving (.int 5) (.int .i64) := trivial

/-! ### sharing -/

/-- `togo_shares`: a record that was already converted (its id is in the dedup cache with object
`o`) converts, into a pointer field of that struct type, to the SAME object `o`; nothing is
allocated and nothing is walked again. -/
theorem togo_shares (w : World) (rec : Rec) (st : St) (id o : Nat) (tn s : String)
    (kvs : List (Key × Sx)) (cur : GV)
    (h : st.lookup id = some (.ptr (some o), .ptr s)) :
    convStep w rec st (.hash id tn kvs) (.ptr s) cur = .ok (.ptr (some o), st) := by
  simp [convStep, h, assign, bind, Except.bind, pure, Except.pure]

/-- the same through an interface-typed field that the struct implements (the case fix C10-02
repairs: before it the outcome depended on which field Go's map iteration visited first). -/
theorem togo_shares_iface (w : World) (rec : Rec) (st : St) (id o : Nat) (tn s i : String)
    (kvs : List (Key × Sx)) (cur : GV)
    (h : st.lookup id = some (.ptr (some o), .ptr s)) (himp : w.implements i s = true) :
    convStep w rec st (.hash id tn kvs) (.iface i) cur = .ok (.iface (some (.ptr (some o))), st) := by
  simp [convStep, h, assign, himp, bind, Except.bind, pure, Except.pure]

/-- remembering: `remember` makes the next lookup of that id a hit with exactly that value. -/
theorem lookup_remember (st : St) (id : Nat) (v : GV) (t : Ty) :
    (st.remember id v t).lookup id = some (v, t) := by
  simp [St.remember, St.lookup]

/-- …and leaves the other records' entries alone. -/
theorem lookup_remember_ne (st : St) (id id' : Nat) (v : GV) (t : Ty) (hne : id' ≠ id) :
    (st.remember id v t).lookup id' = st.lookup id' :=
  ToGoCache.lookup_remember_ne st id id' v t hne

/-- first conversion of a record into a pointer field: the result is a pointer to a fresh object
and the cache remembers exactly that object for the record's id. -/
theorem togo_remembers (w : World) (rec : Rec) (st st1 : St) (id : Nat) (tn s : String)
    (kvs : List (Key × Sx)) (cur v1 : GV)
    (hmiss : st.lookup id = none) (hn : tn ≠ "hash")
    (h : convStep w rec st (.hash id tn kvs) (.ptr s) cur = .ok (v1, st1)) :
    ∃ o, v1 = .ptr (some o) ∧ st1.lookup id = some (.ptr (some o), .ptr s) := by
  have hn' : (tn == "hash") = false := by simpa using hn
  simp only [convStep, hmiss, hn', bind, Except.bind, pure, Except.pure] at h
  repeat' (split at h)
  all_goals first
    | (simp at h; done)
    | (simp only [Except.ok.injEq, Prod.mk.injEq] at h
       obtain ⟨hr, hst⟩ := h
       subst hst
       refine ⟨st.heap.length, ?_, ?_⟩ <;> simp_all [lookup_remember])

/-- `togo_shares`, end to end: a record is converted into a pointer field (first visit), then
ANY successful conversion happens (`conv w k …`, arbitrary value, type and depth), then the same
record is met again at a pointer field of that struct: it converts to the SAME Go object, and
nothing new is allocated or cached. Cache persistence (`conv_keeps`) is proved for the whole
recursion by induction on the depth. -/
theorem togo_shares_twice (w : World) (n k m : Nat) (st st1 st2 : St) (id : Nat) (tn s : String)
    (kvs : List (Key × Sx)) (cur1 cur2 v1 : GV)
    (y : Sx) (Ty' : Ty) (cy vy : GV)
    (hmiss : st.lookup id = none) (hn : tn ≠ "hash")
    (h1 : conv w (n+1) st (.hash id tn kvs) (.ptr s) cur1 = .ok (v1, st1))
    (hmid : conv w k st1 y Ty' cy = .ok (vy, st2)) :
    ∃ o, v1 = .ptr (some o) ∧
      conv w (m+1) st2 (.hash id tn kvs) (.ptr s) cur2 = .ok (.ptr (some o), st2) := by
  obtain ⟨o, hv, hl⟩ := togo_remembers w (conv w n) st st1 id tn s kvs cur1 v1 hmiss hn h1
  refine ⟨o, hv, ?_⟩
  have hl2 := ToGoCache.conv_keeps w k st1 y Ty' cy vy st2 hmid id _ hl
  exact togo_shares w (conv w m) st2 id o tn s kvs cur2 hl2

/-! ### kinds -/

/-- `unknown_field_or_wrong_kind_is_error`, second half, for scalar values: wherever the spec's
kind table (`atomSpec`, written from the property text: exact numeric conversions only) has no
entry, the walk reports an error — it never stores anything. -/
theorem wrong_kind_is_error (w : World) (x : Sx) (T : Ty)
    (hx : (match x with | .arr _ => False | .hash _ _ _ => False | _ => True))
    (h : atomSpec w x T = none) : convAtom w x T = .error .err := by
  cases x <;> cases T <;> simp_all [atomSpec, convAtom] <;>
    (try (rename_i k; cases k <;> simp_all [atomSpec, convAtom])) <;>
    (try (split <;> simp_all))

/-- and where the table promises a value (`strict`), the walk stores exactly that value. -/
theorem right_kind_is_exact (w : World) (x : Sx) (T : Ty) (v : GV)
    (h : atomSpec w x T = some (v, true)) : convAtom w x T = .ok v := by
  cases x <;> cases T <;> simp_all [atomSpec, convAtom] <;>
    (try (rename_i k; cases k <;> simp_all [atomSpec, convAtom])) <;>
    (try (split <;> simp_all))

example : atomSpec ⟨[], []⟩ (.int 300) (.int .i8) = none := by decide
example : atomSpec ⟨[], []⟩ (.flt 0x3ff8000000000000) (.int .i64) = none := by decide

/-! ### the pinned tree (before the fixes): kernel-checked witnesses; each is replayed on the real
code by the `togo` channel (see notes/C10.md for the op lines) -/

/-- C10-01: `(togo (vleaf u:7ULL))` succeeded and left `U` at zero: the value was dropped. -/
theorem uint_dropped_counterexample :
    LegacyToGo.convUintLegacy 7 (.uint .u64) (.uint .u64 0) = .ok (.uint .u64 0) ∧
    atomSpec ⟨[], []⟩ (.uint 7) (.uint .u64) = some (.uint .u64 7, true) := by
  constructor <;> rfl

/-- C10-03: `(togo (vleaf i8:300))` stored 44. -/
theorem int_truncated_counterexample :
    LegacyToGo.convIntLegacy 300 .i8 = .ok (.int .i8 44) ∧ atomSpec ⟨[], []⟩ (.int 300) (.int .i8) = none := by
  constructor
  · rfl
  · decide

/-- C10-02: a record first met at an interface field and then at a pointer field was an error
(and fine in the other visiting order — Go's map iteration decided). -/
theorem shared_through_iface_counterexample :
    LegacyToGo.assignLegacy ⟨[], [("I", ["S"])]⟩ (.ptr (some 0)) (.ptr "S") (.ptr "S") (some "I") = .error .err ∧
    LegacyToGo.assignLegacy ⟨[], [("I", ["S"])]⟩ (.ptr (some 0)) (.ptr "S") (.iface "I") none = .ok (.iface (some (.ptr (some 0)))) ∧
    assign ⟨[], [("I", ["S"])]⟩ (.ptr (some 0)) (.ptr "S") (.ptr "S") = .ok (.ptr (some 0)) := by
  refine ⟨?_, ?_, ?_⟩ <;> simp [LegacyToGo.assignLegacy, assign, World.implements]

/-! ### embedding depth: the field table and its `EmbedPath`s (proofs: `Proofs/ToGoPaths`, `Proofs/ToGoLookup`)

The model keeps `fillJsonMap`'s paths (`Entry.path`), nothing is abstracted away: `fillFields` and
`backStep` reach every field through `getPath/setPath` along the recorded path. The three theorems
hold for EVERY depth budget `n`, i.e. for embedding of any depth. -/

/-- every entry's path leads, field number by field number through struct-typed anonymous fields,
to a declared field with exactly the entry's key, type and embedded flag -/
theorem embed_path_leads_to_its_field (w : World) (n : Nat) (fs : List Field) (e : Entry)
    (he : e ∈ fieldTable w n fs 0 []) :
    ∃ f, e.path ≠ [] ∧ ToGoPaths.fieldAt w fs e.path = some f ∧ ToGoPaths.Describes e f := by
  obtain ⟨q, f, hq, hp, hat, hd⟩ := ToGoPaths.fieldTable_sound w n fs [] e he
  simp only [List.nil_append] at hp
  exact ⟨f, by rw [hp]; exact hq, by rw [hp]; exact hat, hd⟩

/-- no two entries share a path: every declared field, at every depth, has a path of its own
(what the append-aliasing of seed C10-m1 destroys from depth 3 on) -/
theorem embed_paths_unique (w : World) (n : Nat) (fs : List Field) :
    ((fieldTable w n fs 0 []).map (·.path)).Nodup :=
  (ToGoPaths.fieldTable_paths_nodup w n fs []).1

/-- model = spec for the lookup of a key, at every depth: "the last entry of the flattened table
with this key" is "search the declarations from the last to the first, inside an embedded struct
before the embedded field itself" — same path, same type -/
theorem lookup_is_search_through_embedded (w : World) (k : String) (n : Nat) (fs : List Field) :
    (lookupKey (fieldTable w n fs 0 []) k).map ToGoLookup.proj = findExact w (n + 1) fs k := by
  have h := ToGoLookup.lookupKey_eq_findExact w k n fs []
  simp only [List.nil_append] at h
  have hid : (fun r : List Nat × Ty => (r.1, r.2)) = id := rfl
  rw [hid, Option.map_id, id] at h
  exact h

/-- a world with four levels of embedding, several fields per level, one tag shadowed at the top -/
def wDeep : World :=
  ⟨[⟨"D0", "d0", [⟨"Id", "id", false, .int .i64⟩, ⟨"D1", "", true, .struct "D1"⟩, ⟨"Hi0", "hi", false, .str⟩]⟩,
    ⟨"D1", "", [⟨"D2", "", true, .struct "D2"⟩, ⟨"C1", "c1", false, .int .i16⟩]⟩,
    ⟨"D2", "d2", [⟨"A2", "a2", false, .int .i64⟩, ⟨"D3", "", true, .struct "D3"⟩]⟩,
    ⟨"D3", "", [⟨"D4", "", true, .struct "D4"⟩, ⟨"U3", "u3", false, .str⟩]⟩,
    ⟨"D4", "d4", [⟨"Lo", "lo", false, .int .i64⟩, ⟨"Hi", "hi", false, .int .i64⟩, ⟨"Nm", "", false, .str⟩]⟩], []⟩

def fsDeep : List Field := [⟨"Id", "id", false, .int .i64⟩, ⟨"D1", "", true, .struct "D1"⟩, ⟨"Hi0", "hi", false, .str⟩]

set_option maxRecDepth 20000 in
/-- depth 4: `lo` and the capitalised `nm` are found along five field numbers; `hi` names the
top-level field declared later, not the depth-4 one -/
example :
    (resolve (fieldTable wDeep 8 fsDeep 0 []) [108, 111]).map (·.path) = some [1, 0, 1, 0, 0] ∧
    (resolve (fieldTable wDeep 8 fsDeep 0 []) [110, 109]).map (·.path) = some [1, 0, 1, 0, 2] ∧
    (resolve (fieldTable wDeep 8 fsDeep 0 []) [104, 105]).map (·.path) = some [2] ∧
    (fieldTable wDeep 8 fsDeep 0 []).length = 12 := by
  decide +kernel

/-! ### histories on shared records (model: `Model/ToGoHist`, proofs: `Proofs/ToGoHist`) -/

open ZygoVerif.ToGoHist ZygoVerif.ToGoHistProofs

/-- is this step a conversion (explicit, or implicit through a method call)? -/
def Step.converts : Step → Bool
  | .togo _ => true | .echo _ => true | .touch _ => true | .self _ => true | _ => false

/-- FULL STRENGTH (`togo_reflects_current_record`): in every state — whatever was converted before,
whatever structs are attached — a conversion step answers exactly as it would if the records had
their present fields and nothing had ever been converted. REFUTED for the code as it is
(`togo_reflects_current_record_counterexample`, the keyed known finding): `(togo r)` on a record
with a struct attached fills that struct again and a by-value struct field keeps old content. -/
def TogoReflectsCurrentRecord (w : World) (fuel : Nat) : Prop :=
  ∀ (h : HSt) (s : Step), Step.converts s = true → (step w fuel h s).1 = (step w fuel (pristine h.store) s).1

/-- the proved part: every conversion of a record passed as an ARGUMENT (identity method or
mutating method), and `(togo r)` / a receiver when `r` has no struct attached. Missing for the full
statement: `(togo r)` and receiver calls on a record WITH an attached struct — see
`refill_writes_current_values` for what holds there (the current pairs are all written) and the
counterexample for what does not (content the current pairs do not name is kept). -/
theorem togo_reflects_current_record_partial (w : World) (fuel : Nat) (h : HSt) (s : Step)
    (hs : (match s with
      | .echo _ => True | .touch _ => True
      | .togo r => h.shadowOf r = none | .self r => h.shadowOf r = none
      | _ => False)) :
    (step w fuel h s).1 = (step w fuel (pristine h.store) s).1 := by
  cases s with
  | echo r => exact stepArg_ans_of_store w fuel h (pristine h.store) rfl r false
  | touch r => exact stepArg_ans_of_store w fuel h (pristine h.store) rfl r true
  | togo r => exact stepTogo_fresh_ans_of_store w fuel h (pristine h.store) rfl r hs rfl
  | self r => exact stepSelf_fresh_ans_of_store w fuel h (pristine h.store) rfl r hs rfl
  | hset r k v => exact absurd hs id
  | read r => exact absurd hs id

/-- for ALL histories: after any steps from any state, passing `r` to a Go method answers exactly
like the first conversion of a never-converted record with the fields `r` has now — no stale cache -/
theorem arg_reflects_current_record (w : World) (fuel : Nat) (h0 : HSt) (pre : List Step) (r : Nat) (m : Bool) :
    (stepArg w fuel (run w fuel h0 pre).2 r m).1 =
      (stepArg w fuel (pristine ((executed w fuel h0 pre).foldl storeStep h0.store)) r m).1 :=
  ToGoHistProofs.arg_reflects_current_record w fuel h0 pre r m

/-- for ALL histories: the script's records are what the executed `hset`s made them; conversions
and method calls (and whatever they attach or mutate on the Go side) never change a record -/
theorem conversions_leave_records_alone (w : World) (fuel : Nat) (steps : List Step) (h : HSt) :
    (run w fuel h steps).2.store = (executed w fuel h steps).foldl storeStep h.store :=
  run_store w fuel steps h

/-- `(togo r)` with a struct attached: the field loop runs over the pairs the record has NOW -/
theorem refill_writes_current_values (w : World) (fuel : Nat) (h h1 : HSt) (o : Nat) (id : Nat) (tn : String)
    (kvs : List (Key × Sx)) (hr : convertRefill w fuel h o (.hash id tn kvs) = .ok h1) :
    ∃ d cur sv st1, w.lookupReg tn = some d ∧ h.heap[o]? = some cur ∧
      fillFields (conv w fuel) (fieldTable w 8 d.fields 0 []) ⟨h.heap, []⟩ cur kvs = .ok (sv, st1) ∧
      h1.heap = st1.heap.set o sv :=
  ToGoHistProofs.refill_writes_current_values w fuel h h1 o id tn kvs hr

/-- the known finding, on the code as it is: `(def r (n val:(l i:5))) (togo r) (hset r val: (l j:3)) (togo r)` -/
def wEx : World :=
  ⟨[⟨"N", "n", [⟨"Val", "val", false, .struct "L"⟩]⟩,
    ⟨"L", "l", [⟨"I", "i", false, .int .i64⟩, ⟨"J", "j", false, .int .i64⟩]⟩], []⟩

def storeEx : Store :=
  [⟨1, "n", [(.sym [118, 97, 108], .hash 2 "" [])]⟩, ⟨2, "l", [(.sym [105], .int 5)]⟩, ⟨3, "l", [(.sym [106], .int 3)]⟩]

def histEx : List Step := [.togo 1, .hset 1 (.sym [118, 97, 108]) (.hash 3 "" [])]

/-- `Val.I` of the struct a `(togo r)` answer shows -/
def obsValI : Ans → Option Int
  | .go heap o => match heap[o]? with
    | some sv => match getPath sv [0, 0] with
      | some (.int _ v) => some v
      | _ => none
    | none => none
  | _ => none

set_option maxRecDepth 100000 in
theorem togo_reflects_current_record_counterexample : ¬ TogoReflectsCurrentRecord wEx 64 := by
  intro hall
  have h := hall (run wEx 64 (pristine storeEx) histEx).2 (.togo 1) rfl
  have h5 : obsValI (step wEx 64 (run wEx 64 (pristine storeEx) histEx).2 (.togo 1)).1 = some 5 := by
    decide +kernel
  have h0 : obsValI (step wEx 64 (pristine (run wEx 64 (pristine storeEx) histEx).2.store) (.togo 1)).1 = some 0 := by
    decide +kernel
  rw [h, h0] at h5
  exact absurd h5 (by decide)

set_option maxRecDepth 100000 in
/-- non-vacuity of the history theorems: a history in which the argument conversion does see the update -/
example : (run wEx 64 (pristine storeEx) (histEx ++ [.echo 1, .read 1])).1.length = 4 := by
  decide +kernel

/-! ### before fix C10-06: an embedded pointer made the record type unusable -/

/-- `type VPE struct { *VLeaf; Z int64 }` -/
def wPE : World :=
  ⟨[⟨"VPE", "vpe", [⟨"VLeaf", "", true, .ptr "VLeaf"⟩, ⟨"Z", "z", false, .int .i64⟩]⟩,
    ⟨"VLeaf", "vleaf", [⟨"I", "i", false, .int .i64⟩]⟩], []⟩

set_option maxRecDepth 20000 in
/-- C10-06: `(vpe z:4)` could not even be built before the fix (`fillJsonMap` → `NumField` of a
pointer type), although the spec gives it a value — and the repaired walk (`toGoTop`) converts it,
the embedded pointer being a field like any other. -/
theorem embedded_pointer_counterexample :
    LegacyToGo.constructibleLegacy wPE "vpe" = false ∧
    (denTop wPE 64 none (.hash 1 "vpe" [(.sym [122], .int 4)])).isSome = true ∧
    (match toGoTop wPE 64 none (.hash 1 "vpe" [(.sym [122], .int 4)]) with
     | .ok (o, st) => (st.heap[o]?.bind (fun sv => getPath sv [1])).isSome
     | .error _ => false) = true := by
  decide +kernel

end ZygoVerif.C10
