/-
C10 — records convert to Go structs and back without loss.  PARTIAL by design (DESIGN §7 C10):
the truth of this property lives in Go's `reflect`; what is proved here is the logic of the walk
over an abstract type descriptor (`Model/ToGo.lean`, the code after fixes C10-01…05), level by
level: every theorem about `convStep`/`fillFields` holds for an ARBITRARY function `rec` doing the
levels below, hence for every nesting depth of the real recursion `conv w n`.
The tie of the descriptor and of the model to the real code is the `togo` channel.
-/
import ZygoVerif.Model.ToGo
import ZygoVerif.Spec.RecordGo
namespace ZygoVerif.C10
open ZygoVerif.ToGo ZygoVerif.SpecToGo

/-! ### paths into struct values -/

theorem getPath_setPath_same : ∀ (p : List Nat) (sv sv' v : GV),
    setPath sv p v = some sv' → getPath sv' p = some v := by
  intro p
  induction p with
  | nil => intro sv sv' v h; simp [setPath] at h; simp [getPath, h]
  | cons i p ih =>
    intro sv sv' v h
    cases sv with
    | struct s fs =>
      simp only [setPath] at h
      split at h
      · rename_i f hf
        split at h
        · rename_i f' hf'
          simp only [Option.some.injEq] at h
          subst h
          have hi : i < fs.length := by
            rcases List.getElem?_eq_some_iff.mp hf with ⟨hlt, _⟩
            exact hlt
          simp only [getPath, List.getElem?_set_self hi]
          exact ih f f' v hf'
        · simp at h
      · simp at h
    | _ => simp [setPath] at h

/-- two paths neither of which is a prefix of the other -/
def Apart : List Nat → List Nat → Prop
  | [], _ => False
  | _, [] => False
  | i :: p, j :: q => i ≠ j ∨ Apart p q

theorem getPath_setPath_apart : ∀ (p q : List Nat) (sv sv' v : GV),
    Apart p q → setPath sv p v = some sv' → getPath sv' q = getPath sv q := by
  intro p
  induction p with
  | nil => intro q sv sv' v h; simp [Apart] at h
  | cons i p ih =>
    intro q sv sv' v hap h
    cases q with
    | nil => simp [Apart] at hap
    | cons j q =>
      cases sv with
      | struct s fs =>
        simp only [setPath] at h
        split at h
        · rename_i f hf
          split at h
          · rename_i f' hf'
            simp only [Option.some.injEq] at h
            subst h
            have hi : i < fs.length := (List.getElem?_eq_some_iff.mp hf).1
            by_cases hij : i = j
            · subst hij
              have hap' : Apart p q := by
                rcases hap with h1 | h2
                · exact absurd rfl h1
                · exact h2
              simp only [getPath, List.getElem?_set_self hi, hf]
              exact ih q f f' v hap' hf'
            · simp only [getPath, List.getElem?_set_ne hij]
          · simp at h
        · simp at h
      | _ => simp [setPath] at h

/-! ### the field loop -/

/-- `unknown_field_or_wrong_kind_is_error`, first half: a key that is not a string/symbol, or
that names no field of the struct (by json tag, by name, capitalised, through embedded structs),
makes the whole conversion fail — whatever the other fields are and whatever the levels below
do. Nothing is skipped. -/
theorem unknown_field_is_error (rec : Rec) (tbl : List Entry) :
    ∀ (kvs : List (Key × Sx)) (st : St) (sv : GV),
    (∃ kv ∈ kvs, (keyBytes kv.1).bind (resolve tbl) = none) →
    ∀ r, fillFields rec tbl st sv kvs ≠ .ok r := by
  intro kvs
  induction kvs with
  | nil => intro st sv h; simp at h
  | cons kv rest ih =>
    intro st sv h r
    obtain ⟨k, x⟩ := kv
    cases hk : keyBytes k with
    | none => simp [fillFields, hk]
    | some b =>
      cases hr : resolve tbl b with
      | none => simp [fillFields, hk, hr]
      | some e =>
        have hrest : ∃ kv ∈ rest, (keyBytes kv.1).bind (resolve tbl) = none := by
          rcases h with ⟨kv, hmem, hnone⟩
          rcases List.mem_cons.mp hmem with heq | hin
          · subst heq; simp [hk, hr] at hnone
          · exact ⟨kv, hin, hnone⟩
        cases hg : getPath sv e.path with
        | none => simp [fillFields, hk, hr, hg]
        | some cur =>
          cases hc : rec st x e.ty cur with
          | error er => simp [fillFields, hk, hr, hg, hc, bind, Except.bind]
          | ok p =>
            obtain ⟨v, st1⟩ := p
            cases hs : setPath sv e.path v with
            | none => simp [fillFields, hk, hr, hg, hc, hs, bind, Except.bind]
            | some sv1 =>
              simp only [fillFields, hk, hr, hg, hc, hs, bind, Except.bind]
              exact ih st1 sv1 hrest r

example : ∃ kvs : List (Key × Sx), ∃ kv ∈ kvs, (keyBytes kv.1).bind (resolve ([] : List Entry)) = none :=
  ⟨[(Key.sym [122], Sx.int 1)], (Key.sym [122], Sx.int 1), by simp, by simp [keyBytes, resolve, lookupKey]⟩

/-- `togo_fills_every_field`: when the field loop succeeds, the field that a pair `(k, x)` of the
record names holds exactly the value the conversion of `x` produced — provided no later pair
writes to the same field or to a struct containing/contained in it (`Apart`). With distinct keys
resolving to pairwise `Apart` paths this is "every field present in the record is written once,
with the record's value". -/
theorem togo_fills_every_field (rec : Rec) (tbl : List Entry) :
    ∀ (rest : List (Key × Sx)) (st : St) (sv : GV) (k : Key) (x : Sx) (b : List Nat) (e : Entry)
      (cur v : GV) (st1 : St) (out : GV × St),
    keyBytes k = some b → resolve tbl b = some e → getPath sv e.path = some cur →
    rec st x e.ty cur = .ok (v, st1) →
    (∀ kv ∈ rest, ∀ b' e', keyBytes kv.1 = some b' → resolve tbl b' = some e' → Apart e'.path e.path) →
    fillFields rec tbl st sv ((k, x) :: rest) = .ok out →
    getPath out.1 e.path = some v := by
  intro rest st sv k x b e cur v st1 out hk hr hg hc hap hfill
  simp only [fillFields, hk, hr, hg, bind, Except.bind, hc] at hfill
  cases hs : setPath sv e.path v with
  | none => simp [hs] at hfill
  | some sv1 =>
    simp only [hs] at hfill
    have h0 : getPath sv1 e.path = some v := getPath_setPath_same _ _ _ _ hs
    -- the remaining pairs leave this field alone
    clear hs hc hg
    revert st1 sv1
    induction rest with
    | nil => intro st1 sv1 hfill h0; simp [fillFields] at hfill; subst hfill; exact h0
    | cons kv rest ih =>
      intro st1 sv1 hfill h0
      obtain ⟨k', x'⟩ := kv
      simp only [fillFields] at hfill
      cases hk' : keyBytes k' with
      | none => simp [hk'] at hfill
      | some b' =>
        cases hr' : resolve tbl b' with
        | none => simp [hk', hr'] at hfill
        | some e' =>
          simp only [hk', hr'] at hfill
          cases hg' : getPath sv1 e'.path with
          | none => simp [hg'] at hfill
          | some cur' =>
            simp only [hg', bind, Except.bind] at hfill
            cases hc' : rec st1 x' e'.ty cur' with
            | error er => simp [hc'] at hfill
            | ok p =>
              obtain ⟨v', st2⟩ := p
              simp only [hc'] at hfill
              cases hs' : setPath sv1 e'.path v' with
              | none => simp [hs'] at hfill
              | some sv2 =>
                simp only [hs'] at hfill
                have hap' : Apart e'.path e.path := hap (k', x') (by simp) b' e' hk' hr'
                have h1 : getPath sv2 e.path = some v := by
                  rw [getPath_setPath_apart _ _ _ _ _ hap' hs']; exact h0
                exact ih (fun kv hm => hap kv (List.mem_cons_of_mem _ hm)) st2 sv2 hfill h1

example : Apart [0, 1] [0, 2] ∧ Apart [1] [0, 2] := by simp [Apart]

/-! ### sharing -/

/-- `togo_shares`: a record that was already converted (its id is in the dedup cache with object
`o`) converts, into a pointer field of that struct type, to the SAME object `o`; nothing is
allocated and nothing is walked again. -/
theorem togo_shares (w : World) (rec : Rec) (st : St) (id o : Nat) (tn s : String)
    (kvs : List (Key × Sx)) (cur : GV)
    (h : st.lookup id = some (.ptr (some o), .ptr s)) :
    convStep w rec st (.hash id tn kvs) (.ptr s) cur = .ok (.ptr (some o), st) := by
  simp [convStep, h, assign, bind, Except.bind, pure, Except.pure]

/-- the same through an interface-typed field that the struct implements (the case fix C10-02
repairs: before it the outcome depended on which field Go's map iteration visited first). -/
theorem togo_shares_iface (w : World) (rec : Rec) (st : St) (id o : Nat) (tn s i : String)
    (kvs : List (Key × Sx)) (cur : GV)
    (h : st.lookup id = some (.ptr (some o), .ptr s)) (himp : w.implements i s = true) :
    convStep w rec st (.hash id tn kvs) (.iface i) cur = .ok (.iface (some (.ptr (some o))), st) := by
  simp [convStep, h, assign, himp, bind, Except.bind, pure, Except.pure]

/-- remembering: `remember` makes the next lookup of that id a hit with exactly that value. -/
theorem lookup_remember (st : St) (id : Nat) (v : GV) (t : Ty) :
    (st.remember id v t).lookup id = some (v, t) := by
  simp [St.remember, St.lookup]

/-- …and leaves the other records' entries alone. -/
theorem lookup_remember_ne (st : St) (id id' : Nat) (v : GV) (t : Ty) (hne : id' ≠ id) :
    (st.remember id v t).lookup id' = st.lookup id' := by
  simp only [St.remember, St.lookup]
  have hb : (id == id') = false := by simpa using (fun h : id = id' => hne h.symm)
  simp only [List.find?_cons, hb, List.find?_filter]
  congr 1
  have hfun : (fun a : Nat × GV × Ty => decide ((a.1 != id) = true ∧ (a.1 == id') = true))
      = (fun a => a.1 == id') := by
    funext a
    by_cases h : a.1 = id'
    · simp [h, hne]
    · simp [h]
  rw [hfun]

/-! ### kinds -/

/-- `unknown_field_or_wrong_kind_is_error`, second half, for scalar values: wherever the spec's
kind table (`atomSpec`, written from the property text: exact numeric conversions only) has no
entry, the walk reports an error — it never stores anything. -/
theorem wrong_kind_is_error (w : World) (x : Sx) (T : Ty)
    (hx : (match x with | .arr _ => False | .hash _ _ _ => False | _ => True))
    (h : atomSpec w x T = none) : convAtom w x T = .error .err := by
  cases x <;> cases T <;> simp_all [atomSpec, convAtom] <;>
    (try (rename_i k; cases k <;> simp_all [atomSpec, convAtom])) <;>
    (try (split <;> simp_all))

/-- and where the table promises a value (`strict`), the walk stores exactly that value. -/
theorem right_kind_is_exact (w : World) (x : Sx) (T : Ty) (v : GV)
    (h : atomSpec w x T = some (v, true)) : convAtom w x T = .ok v := by
  cases x <;> cases T <;> simp_all [atomSpec, convAtom] <;>
    (try (rename_i k; cases k <;> simp_all [atomSpec, convAtom])) <;>
    (try (split <;> simp_all))

example : atomSpec ⟨[], []⟩ (.int 300) (.int .i8) = none := by decide
example : atomSpec ⟨[], []⟩ (.flt 0x3ff8000000000000) (.int .i64) = none := by decide

end ZygoVerif.C10
