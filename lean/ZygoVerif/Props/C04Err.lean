/-
C04 on the ERROR path (Props-level statements; the proofs are in Proofs/RunErr.lean).

`Props/C04.lean` speaks about evaluations that return a value. Here: evaluations that end in an
error. The full statement is `ErrLeavesServed` — an erroring text of the grammar leaves a served
interpreter served (table invariant, `mainfunc`, AT REST with the three stacks exactly those of
entry), so the served states are closed under erroring texts as well. Proved so far (stage C1):

* `nonCall_fault_above`    one non-call instruction (24 of the 26 kinds) fetched by a `Running`
                           loop, WHATEVER its outcome: the scope stack the current run was
                           started on is still underneath (as a list), so are the return
                           addresses below its bottom activation and — if it was before — the
                           data; the set-aside stacks and the loop records are untouched. The
                           room comes out of the verifier's annotation (`Running.roomD/roomL`).
* `nonCall_fault_tables`   when it fails, the tables are those it found.
* `erroring_text_fault`    an erroring text has a fault: a state of the run that satisfies the
                           run-time invariant, the instruction fetched there, the state its
                           failing `exec` left; if that state is `RunInv.FaultOK` the interpreter
                           is served again and the stacks are exactly those of entry.
* `erroring_text_nonCall_partial`
                           … which it is when the failing instruction is not a call instruction
                           (at any depth of activations of the outermost loop).
* `errLeavesServed_of_callFault`
                           the full statement from `RunInv.CallFaultOK` (a failing `callArr` /
                           `callExpr` leaves a `FaultOK` state: the error-path contract of the
                           nested evaluators).
Stage C2 (Proofs/RunErr2.lean):
* `err_contract`           `RunInv.errSpec`: by induction on the fuel over all thirteen functions
                           of the VM's mutual block, for the outcome `err`: the function leaves
                           well-formed tables that have only grown, the set-aside stacks and the
                           scope stack as they were (`RunInv.ErrOut`; `exec`: `FaultOK`); a nested
                           `Run` comes back to the scope stack it captured, so the restore of the
                           evaluator around it (`EvalCallExpression`, `Force`, `Apply`,
                           `CallUserFunction`) is exact on scope and set-aside stacks. ONE
                           hypothesis: `RunInv.NoBuiltinPanic` — from a well-formed state no Go
                           builtin ends in a host panic (`CallUserFunction`'s `recover` would turn
                           it into an error at a state nothing is known about). That is C01's
                           statement; it is NOT proved here.
Stage C3:
* `err_leaves_served_partial`   `ErrLeavesServed` from `NoBuiltinPanic`;
* `ServedStateE`, `servedStateE_served_partial`, `run_at_rest_after_errors_partial`
                           the served states closed under value-returning AND erroring texts of the
                           grammar; the next text that returns a value leaves the interpreter at
                           rest, the next that fails leaves it at rest with the stacks exactly
                           those of entry.
* `nested_run_error_restores_partial`
                           every nested `Run` that fails leaves the scope stack and the set-aside
                           stacks of its entry and well-formed tables.
-/
import ZygoVerif.Props.C04
import ZygoVerif.Proofs.RunErr2
namespace ZygoVerif.C04
open ZygoVerif.Bal ZygoVerif.VM ZygoVerif.Core ZygoVerif.RunInv ZygoVerif.Contain

/-- **err_leaves_served**, full statement: from a state reachable from the fresh interpreter by
texts of the grammar that returned values, a text of the grammar that ends in an error leaves
the interpreter at rest — the three stacks and the set-aside stacks exactly those of entry —
and with the run-time invariant (so the next text is covered again). -/
def ErrLeavesServed : Prop :=
  ∀ (fuel : Nat) (es : List Expr) (s s' : St) (v : String) (tr : List String) (d : String) (alive : Bool),
    Served s → okLs es = true → runText fuel es s = (Outcome.done "err" v tr d, s', alive) →
    Served s' ∧ s'.data = s.data ∧ s'.linear = s.linear ∧ s'.addr = s.addr ∧ s'.suspended = s.suspended

theorem served_same_stacks {s s' : St} (h : Served s) (h' : Served s') :
    s'.data = s.data ∧ s'.linear = s.linear ∧ s'.addr = s.addr ∧ s'.suspended = s.suspended := by
  obtain ⟨d, l, a, _⟩ := h.rest
  obtain ⟨d', l', a', _⟩ := h'.rest
  exact ⟨d'.trans d.symm, l'.trans l.symm, a'.trans a.symm, h'.susp.trans h.susp.symm⟩

/-- (C1) one non-call instruction of a `Running` loop, whatever its outcome -/
theorem nonCall_fault_above {b : Base} {s : St} {top : Act} {rest : List Act} (hr : Running b s top rest) {i : Instr}
    (hf : (fnOf s s.curfunc).code[s.pc.toNat]? = some i) (hs : simple i = true) (n : Nat) :
    b.linear <:+ ((exec (n + 1) i).run s).2.linear ∧ ((exec (n + 1) i).run s).2.suspended = s.suspended ∧
      ((exec (n + 1) i).run s).2.loopstack = s.loopstack ∧ (b.main = false → b.addr <:+ ((exec (n + 1) i).run s).2.addr) ∧
      (b.data <:+ s.data → b.data <:+ ((exec (n + 1) i).run s).2.data) :=
  have h := exec_simple_above_la hr hf hs n
  ⟨h.1, h.2.1, h.2.2.1, h.2.2.2, exec_simple_above_d hr hf hs n⟩

/-- (C1) a non-call instruction that fails leaves the tables as it found them -/
theorem nonCall_fault_tables (n : Nat) (i : Instr) (s s₁ : St) (e : Fault) (hs : simple i = true)
    (h : (exec (n + 1) i).run s = (.error e, s₁)) : Tab s s₁ :=
  exec_simple_fail_tab n i s hs e s₁ h

/-- (C1) the fault of an erroring text -/
theorem erroring_text_fault (fuel : Nat) (es : List Expr) (s s' : St) (v : String) (tr : List String) (d : String) (alive : Bool)
    (hs : Served s) (hok : okLs es = true) (h : runText fuel es s = (Outcome.done "err" v tr d, s', alive)) :
    ∃ b s₀ top rest i m s₁, b.main = true ∧ WF s₀ ∧ Running b s₀ top rest ∧
      (fnOf s₀ s₀.curfunc).code[s₀.pc.toNat]? = some i ∧ (exec m i).run s₀ = (.error .err, s₁) ∧
      (FaultOK b s₀ s₁ →
        Served s' ∧ s'.data = s.data ∧ s'.linear = s.linear ∧ s'.addr = s.addr ∧ s'.suspended = s.suspended) := by
  obtain ⟨b, s₀, top, rest, i, m, s₁, q0, q1, q2, q3, q4, q5⟩ := runText_err fuel es s s' v tr d alive hs hok h
  exact ⟨b, s₀, top, rest, i, m, s₁, q0, q1, q2, q3, q4, fun hf => ⟨q5 hf, served_same_stacks hs (q5 hf)⟩⟩

/-- (C1) an error raised by a non-call instruction leaves the interpreter served, at rest, the
stacks exactly those of entry -/
theorem erroring_text_nonCall_partial (fuel : Nat) (es : List Expr) (s s' : St) (v : String) (tr : List String) (d : String)
    (alive : Bool) (hs : Served s) (hok : okLs es = true)
    (h : runText fuel es s = (Outcome.done "err" v tr d, s', alive)) :
    ∃ b s₀ top rest i m s₁, b.main = true ∧ WF s₀ ∧ Running b s₀ top rest ∧
      (fnOf s₀ s₀.curfunc).code[s₀.pc.toNat]? = some i ∧ (exec m i).run s₀ = (.error .err, s₁) ∧
      (simple i = true →
        Served s' ∧ s'.data = s.data ∧ s'.linear = s.linear ∧ s'.addr = s.addr ∧ s'.suspended = s.suspended) := by
  obtain ⟨b, s₀, top, rest, i, m, s₁, q0, q1, q2, q3, q4, q5⟩ := runText_err_simple_partial fuel es s s' v tr d alive hs hok h
  exact ⟨b, s₀, top, rest, i, m, s₁, q0, q1, q2, q3, q4, fun hsi => ⟨q5 hsi, served_same_stacks hs (q5 hsi)⟩⟩

/-- the full statement from the error-path contract of the call instructions (stage C2) -/
theorem errLeavesServed_of_callFault (hcall : CallFaultOK) : ErrLeavesServed := by
  intro fuel es s s' v tr d alive hs hok h
  have := runText_err_served hcall fuel es s s' v tr d alive hs hok h
  exact ⟨this, served_same_stacks hs this⟩

/-! ## Stages C2, C3 -/

/-- (C2) the error-path contract, all thirteen functions, outcome `err` -/
theorem err_contract (hnp : NoBuiltinPanic) : ∀ n, ErrSpec n := errSpec hnp

/-- (C3) **err_leaves_served** from C01's statement about the builtins -/
theorem err_leaves_served_partial (hnp : NoBuiltinPanic) : ErrLeavesServed :=
  errLeavesServed_of_callFault (callFaultOK hnp)

/-- The states an interpreter is in between texts: the fresh interpreter, and every state reached
from it by texts of the grammar that returned a value OR ended in an error (`ServedState` of
Props/C04.lean closed under erroring texts). Not covered: compile errors, host panics, fuel. -/
inductive ServedStateE : St → Prop
  | init : ServedStateE initSt
  | text {s s' : St} {fuel : Nat} {es : List Expr} {v : String} {tr : List String} {d : String} {alive : Bool} :
      ServedStateE s → okLs es = true → runText fuel es s = (Outcome.done "ok" v tr d, s', alive) → ServedStateE s'
  | err {s s' : St} {fuel : Nat} {es : List Expr} {v : String} {tr : List String} {d : String} {alive : Bool} :
      ServedStateE s → okLs es = true → runText fuel es s = (Outcome.done "err" v tr d, s', alive) → ServedStateE s'

theorem servedStateE_served_partial (hnp : NoBuiltinPanic) {s : St} (h : ServedStateE s) : Served s := by
  induction h with
  | init => exact served_initSt
  | text _ hok hrun ih => exact (run_at_rest_of_invariant _ _ _ _ _ _ _ _ ih hok hrun).2
  | err _ hok hrun ih => exact (err_leaves_served_partial hnp _ _ _ _ _ _ _ _ ih hok hrun).1

/-- (C3) after any history of value-returning and erroring texts of the grammar: a text that
returns a value leaves the interpreter at rest; a text that fails leaves it at rest with the three
stacks and the set-aside stacks exactly those of entry (C05's `vm_run_error_exact`, with the
`Extends3` hypothesis discharged for the outermost `Run` of generated code). -/
theorem run_at_rest_after_errors_partial (hnp : NoBuiltinPanic) (fuel : Nat) (es : List Expr) (s s' : St) (v : String)
    (tr : List String) (d : String) (alive : Bool) (hs : ServedStateE s) (hok : okLs es = true) :
    (runText fuel es s = (Outcome.done "ok" v tr d, s', alive) → AtRest s') ∧
    (runText fuel es s = (Outcome.done "err" v tr d, s', alive) →
      AtRest s' ∧ s'.data = s.data ∧ s'.linear = s.linear ∧ s'.addr = s.addr ∧ s'.suspended = s.suspended) := by
  have hS := servedStateE_served_partial hnp hs
  refine ⟨fun h => (run_at_rest_of_invariant fuel es s s' v tr d alive hS hok h).1, fun h => ?_⟩
  obtain ⟨h1, h2⟩ := err_leaves_served_partial hnp fuel es s s' v tr d alive hS hok h
  exact ⟨h1.rest, h2⟩

/-- (C2) every nested `Run` of a function object entered by `CallFunction` (`b`: the stacks of
the caller) that fails leaves well-formed tables, the scope stack and the set-aside stacks of
its entry -/
theorem nested_run_error_restores_partial (hnp : NoBuiltinPanic) (n : Nat) (b : Base) (s s' : St) (top : Act) (hw : WF s)
    (hr : Running b s top []) (hb : b.pc = -2) (hm : b.main = false) (hl : b.linear = s.linear)
    (h : (run n).run s = (.error .err, s')) :
    WFd s' ∧ TExt s s' ∧ s'.suspended = s.suspended ∧ s'.linear = s.linear :=
  have := (errSpec hnp n).run b s s' top hw hr hb hm hl h
  ⟨this.tab, this.ext, this.susp, this.lin⟩

/-- non-vacuity of `FaultOK`/`Tab`: a state is `Tab`-related to itself, and the fresh interpreter is `Served` -/
example : Tab initSt initSt := Tab.refl _
example : Served initSt := served_initSt

end ZygoVerif.C04
