/-
C04 on the ERROR path, and no host panic (Props-level statements; the proofs are in
Proofs/RunErr.lean, RunSafe.lean, RunErr2.lean, RunErr3.lean).

`Props/C04.lean` speaks about evaluations that return a value. Here: evaluations that end in an
error, and the claim that none ends in a host panic. Three contracts of the VM's mutual block
(thirteen functions, by induction on the fuel) carry it:
  `calling_contract`  (`allSpec'`)  normal returns            — Props/C04.lean;
  `err_contract`      (`errSpec`)   the outcome `err`          — here;
  `no_panic_contract` (`sSpec`)     no host panic, no nil cell where code continues — here.

* `nonCall_fault_above`    one non-call instruction (24 of the 26 kinds) fetched by a `Running`
                           loop, WHATEVER its outcome: the scope stack the current run was
                           started on is still underneath (as a list), so are the return
                           addresses below its bottom activation and — if it was before — the
                           data; the set-aside stacks and the loop records are untouched. The
                           room comes out of the verifier's annotation (`Running.roomD/roomL`).
* `nonCall_fault_tables`   when it fails, the tables are those it found.
* `err_contract`           every function of the mutual block that fails leaves well-formed
                           tables that have only grown, the set-aside stacks and the scope stack
                           EXACTLY as they were (`RunInv.ErrOut`; `exec`: `RunInv.FaultOK`): a
                           nested `Run` comes back to the scope stack it captured, so the restore
                           of the evaluator around it (`EvalCallExpression`, `Force`, `Apply`,
                           `CallUserFunction`) is exact on scope and set-aside stacks.
* `no_panic_contract`      from a state without nil cells, with a scope to bind in (`RunInv.NoNil`),
                           no function of the mutual block ends in a host panic, and on a normal
                           return the state is `NoNil` again.
* `err_leaves_served`      **the full statement `ErrLeavesServed`, proved**: a text of the grammar
                           that ends in an error leaves a served interpreter served — table
                           invariant, `mainfunc`, no nil cell — AT REST, with the three stacks and
                           the set-aside stacks exactly those of entry.
* `no_host_panic`          **no text of the grammar ends in a host panic** (`NoHostPanic`) — from
                           any state reached by value-returning and erroring texts of the grammar.
* `ServedStateE`, `servedStateE_served`, `run_at_rest_after_errors`
                           the served states are closed under value-returning AND erroring texts;
                           after any such history a text that returns a value leaves the
                           interpreter at rest, one that fails leaves it at rest with the stacks
                           exactly those of entry (C05's `vm_run_error_exact`, `Extends3`
                           discharged for the outermost `Run` of generated code).
* `nested_run_error_restores`
                           every nested `Run` that fails leaves the scope stack and the set-aside
                           stacks of its entry and well-formed tables.
Not covered: texts outside the grammar `Bal.okLs`, compile errors, fuel exhaustion (the
interpreter is dead then); the tie of the model to the Go code is by correspondence.
-/
import ZygoVerif.Props.C04
import ZygoVerif.Proofs.RunErr3
namespace ZygoVerif.C04
open ZygoVerif.Bal ZygoVerif.VM ZygoVerif.Core ZygoVerif.RunInv ZygoVerif.Contain

/-! ## One non-call instruction, whatever its outcome -/

theorem nonCall_fault_above {b : Base} {s : St} {top : Act} {rest : List Act} (hr : Running b s top rest) {i : Instr}
    (hf : (fnOf s s.curfunc).code[s.pc.toNat]? = some i) (hs : simple i = true) (n : Nat) :
    b.linear <:+ ((exec (n + 1) i).run s).2.linear ∧ ((exec (n + 1) i).run s).2.suspended = s.suspended ∧
      ((exec (n + 1) i).run s).2.loopstack = s.loopstack ∧ (b.main = false → b.addr <:+ ((exec (n + 1) i).run s).2.addr) ∧
      (b.data <:+ s.data → b.data <:+ ((exec (n + 1) i).run s).2.data) :=
  have h := exec_simple_above_la hr hf hs n
  ⟨h.1, h.2.1, h.2.2.1, h.2.2.2, exec_simple_above_d hr hf hs n⟩

theorem nonCall_fault_tables (n : Nat) (i : Instr) (s s₁ : St) (e : Fault) (hs : simple i = true)
    (h : (exec (n + 1) i).run s = (.error e, s₁)) : Tab s s₁ :=
  exec_simple_fail_tab n i s hs e s₁ h

/-! ## The two contracts -/

/-- the error-path contract: all thirteen functions, outcome `err`, every fuel -/
theorem err_contract : ∀ n, ErrSpec n := errSpec

/-- no host panic, no nil cell where code continues: all thirteen functions, every fuel -/
theorem no_panic_contract : ∀ n, SSpec n := sSpec

/-- every nested `Run` of a function object entered by `CallFunction` (`b`: the stacks of the
caller) that fails leaves well-formed tables, the scope stack and the set-aside stacks of its entry -/
theorem nested_run_error_restores (n : Nat) (b : Base) (s s' : St) (top : Act) (hg : NoNil s) (hw : WF s)
    (hr : Running b s top []) (hb : b.pc = -2) (hm : b.main = false) (hl : b.linear = s.linear)
    (h : (run n).run s = (.error .err, s')) :
    WFd s' ∧ TExt s s' ∧ s'.suspended = s.suspended ∧ s'.linear = s.linear :=
  have := (errSpec n).run b s s' top hg hw hr hb hm hl h
  ⟨this.tab, this.ext, this.susp, this.lin⟩

/-! ## Texts -/

/-- the fresh interpreter: served, and no nil cell -/
theorem servedN_initSt : ServedN initSt :=
  ⟨served_initSt, ⟨VMSafe.good_init, by decide, fun z hz => by cases hz⟩⟩

theorem served_same_stacks {s s' : St} (h : Served s) (h' : Served s') :
    s'.data = s.data ∧ s'.linear = s.linear ∧ s'.addr = s.addr ∧ s'.suspended = s.suspended := by
  obtain ⟨d, l, a, _⟩ := h.rest
  obtain ⟨d', l', a', _⟩ := h'.rest
  exact ⟨d'.trans d.symm, l'.trans l.symm, a'.trans a.symm, h'.susp.trans h.susp.symm⟩

/-- **err_leaves_served**, full statement: a text of the grammar that ends in an error leaves a
served interpreter served, at rest — the three stacks and the set-aside stacks exactly those of
entry — so the next text is covered again. -/
def ErrLeavesServed : Prop :=
  ∀ (fuel : Nat) (es : List Expr) (s s' : St) (v : String) (tr : List String) (d : String) (alive : Bool),
    ServedN s → okLs es = true → runText fuel es s = (Outcome.done "err" v tr d, s', alive) →
    ServedN s' ∧ AtRest s' ∧ s'.data = s.data ∧ s'.linear = s.linear ∧ s'.addr = s.addr ∧ s'.suspended = s.suspended

theorem err_leaves_served : ErrLeavesServed := by
  intro fuel es s s' v tr d alive hs hok h
  have := runText_errN fuel es s s' v tr d alive hs hok h
  exact ⟨this, this.served.rest, served_same_stacks hs.served this.served⟩

/-- **no_host_panic**, full statement (C01's claim for generated code, on the VM model): no text
of the grammar, served by an interpreter that satisfies the invariants, ends in a host panic. -/
def NoHostPanic : Prop :=
  ∀ (fuel : Nat) (es : List Expr) (s s' : St) (v : String) (tr : List String) (d : String) (alive : Bool),
    ServedN s → okLs es = true → runText fuel es s ≠ (Outcome.done "panic" v tr d, s', alive)

theorem no_host_panic : NoHostPanic := by
  intro fuel es s s' v tr d alive hs hok
  exact (runText_nn fuel es s hs hok).1 v tr d s' alive

/-- The states an interpreter is in between texts: the fresh interpreter, and every state reached
from it by texts of the grammar that returned a value OR ended in an error (`ServedState` of
Props/C04.lean closed under erroring texts). Not covered: compile errors, fuel exhaustion. -/
inductive ServedStateE : St → Prop
  | init : ServedStateE initSt
  | text {s s' : St} {fuel : Nat} {es : List Expr} {v : String} {tr : List String} {d : String} {alive : Bool} :
      ServedStateE s → okLs es = true → runText fuel es s = (Outcome.done "ok" v tr d, s', alive) → ServedStateE s'
  | err {s s' : St} {fuel : Nat} {es : List Expr} {v : String} {tr : List String} {d : String} {alive : Bool} :
      ServedStateE s → okLs es = true → runText fuel es s = (Outcome.done "err" v tr d, s', alive) → ServedStateE s'

theorem servedStateE_served {s : St} (h : ServedStateE s) : ServedN s := by
  induction h with
  | init => exact servedN_initSt
  | text _ hok hrun ih => exact runText_okN _ _ _ _ _ _ _ _ ih hok hrun
  | err _ hok hrun ih => exact runText_errN _ _ _ _ _ _ _ _ ih hok hrun

/-- after any history of value-returning and erroring texts of the grammar: the next text does
not end in a host panic; if it returns a value the interpreter is at rest; if it fails it is at
rest with the three stacks and the set-aside stacks exactly those of entry (C05's
`vm_run_error_exact` with the `Extends3` hypothesis discharged for the outermost `Run`). -/
theorem run_at_rest_after_errors (fuel : Nat) (es : List Expr) (s s' : St) (v : String)
    (tr : List String) (d : String) (alive : Bool) (hs : ServedStateE s) (hok : okLs es = true) :
    runText fuel es s ≠ (Outcome.done "panic" v tr d, s', alive) ∧
    (runText fuel es s = (Outcome.done "ok" v tr d, s', alive) → AtRest s') ∧
    (runText fuel es s = (Outcome.done "err" v tr d, s', alive) →
      AtRest s' ∧ s'.data = s.data ∧ s'.linear = s.linear ∧ s'.addr = s.addr ∧ s'.suspended = s.suspended) := by
  have hS := servedStateE_served hs
  refine ⟨no_host_panic fuel es s s' v tr d alive hS hok,
    fun h => (runText_okN fuel es s s' v tr d alive hS hok h).served.rest, fun h => ?_⟩
  exact (err_leaves_served fuel es s s' v tr d alive hS hok h).2

/-- non-vacuity: the fresh interpreter is served; the empty text leads to a `ServedStateE` -/
example : ServedN initSt := servedN_initSt
example : ∃ s', runText 2 [] initSt = (Outcome.done "ok" "nil" [] (depths initSt), s', true) ∧ ServedStateE s' := by
  obtain ⟨s', h, _⟩ := eval_empty_nil initSt 0 ⟨rfl, rfl, rfl, rfl, rfl, by decide⟩
  exact ⟨s', h, ServedStateE.text ServedStateE.init rfl h⟩
example : Tab initSt initSt := Tab.refl _

end ZygoVerif.C04
