/-
C19 — symbols are interned consistently across interpreters sharing a table.

Model: `Model/SymTab.lean` (zygo/environment.go MakeSymbol / GenSymbol *as repaired* /
Duplicate / Clone; a family of any size shares the two tables, every member has its own
counter; reading interns through the parser's owner). Spec: `Spec/SymTab.lean`, the
property text as a decidable judge of traces. Every theorem quantifies over an arbitrary
starting family `F` whose tables are mutually inverse (`Inv`; `inv_initFamily` shows the
fresh interpreter is one) and an arbitrary list of operations `ops` on arbitrary members —
that is: all histories, all interleavings, all family sizes, all counter values (however
stale). Counters are `Nat`; 64-bit wrap-around is out of scope.
-/
import ZygoVerif.Model.SymTab
import ZygoVerif.Model.LegacySymTab
import ZygoVerif.Spec.SymTab
import ZygoVerif.Proofs.SymTab
namespace ZygoVerif.SymTab
open ZygoVerif.SymSpec (Ev Sym)

/-! ### the tables stay mutually inverse -/

/-- **inv_step**: any operation by any member keeps `symtable` and `revsymtable` mutually
inverse. -/
theorem inv_step (F : Family) (op : Op) (hI : Inv F.tab) : Inv (step F op).1.tab := by
  rcases step_shape F op with ⟨ht, _⟩ | ⟨c, name, ht, _, _, _⟩
  · rw [ht]; exact hI
  · rw [ht]; exact makeSymbol_inv F.tab c name hI

/-- **inv_run**: … and so does every history. -/
theorem inv_run (F : Family) (ops : List Op) (hI : Inv F.tab) : Inv (run F ops).1.tab := by
  induction ops generalizing F with
  | nil => exact hI
  | cons op rest ih => rw [run_cons]; exact ih _ (inv_step F op hI)

theorem baseTables_sym_none (n m : Nat) (h : n < m) : alookup (baseName m) (baseTables n).sym = none := by
  induction n with
  | zero => rfl
  | succ n ih =>
    simp only [baseTables, alookup_cons]
    have : baseName m ≠ baseName (n + 1) := by
      intro e
      have := itoa_inj _ _ (List.tail_eq_of_cons_eq e)
      omega
    simp [this, ih (by omega)]

theorem baseTables_rev_none (n m : Nat) (h : n < m) : alookup m (baseTables n).rev = none := by
  induction n with
  | zero => rfl
  | succ n ih =>
    simp only [baseTables, alookup_cons]
    have : m ≠ n + 1 := by omega
    simp [this, ih (by omega)]

/-- The starting point of every history of the driver: a fresh interpreter with `n` base
symbols. (The *real* fresh tables are dumped by `sym base` and judged by the spec.) -/
theorem inv_initFamily (n : Nat) : Inv (initFamily n).tab := by
  show Inv (baseTables n)
  induction n with
  | zero => exact inv_empty
  | succ n ih =>
    exact inv_insert (baseTables n) (baseName (n + 1)) (n + 1) ih
      (baseTables_sym_none n (n + 1) (Nat.lt_succ_self n)) (baseTables_rev_none n (n + 1) (Nat.lt_succ_self n))

example : ∃ F : Family, Inv F.tab ∧ F.mem ≠ [] := ⟨initFamily 3, inv_initFamily 3, by decide⟩

/-! ### tables only grow; what was handed out stays in the table -/

theorem step_mono (F : Family) (op : Op) (n : Name) (k : Nat)
    (h : alookup n F.tab.sym = some k) : alookup n (step F op).1.tab.sym = some k := by
  rcases step_shape F op with ⟨ht, _⟩ | ⟨c, name, ht, _, _, _⟩
  · rw [ht]; exact h
  · rw [ht]; exact makeSymbol_mono_sym F.tab c name n k h

theorem run_mono (F : Family) (ops : List Op) (n : Name) (k : Nat)
    (h : alookup n F.tab.sym = some k) : alookup n (run F ops).1.tab.sym = some k := by
  induction ops generalizing F with
  | nil => exact h
  | cons op rest ih => rw [run_cons]; exact ih _ (step_mono F op n k h)

/-- Every symbol a history hands out is the table's binding of its name at the end. -/
theorem observed_in_final_table (F : Family) (ops : List Op) (o : Obs) (k : Nat) (name : Name)
    (ho : o ∈ (run F ops).2) (hs : o.sym? = some (k, name)) :
    alookup name (run F ops).1.tab.sym = some k := by
  induction ops generalizing F with
  | nil => simp [run_nil] at ho
  | cons op rest ih =>
    rw [run_cons] at ho ⊢
    rcases List.mem_cons.mp ho with e | hin
    · apply run_mono
      rcases step_shape F op with ⟨_, hq⟩ | ⟨c, nm, ht, hobs, _, _⟩
      · rw [← e, hs] at hq; cases hq
      · rw [e, hobs] at hs
        simp only [Obs.sym?, Option.some.injEq, Prod.mk.injEq] at hs
        rw [ht, ← hs.1, ← hs.2]
        exact (makeSymbol_result F.tab c nm).2
    · exact ih _ hin

/-! ### equal names ⇔ equal symbols -/

/-- **same_name_same_symbol**: in any history, on any members, two symbols handed out for
the same name carry the same number. -/
theorem same_name_same_symbol (F : Family) (ops : List Op) (o₁ o₂ : Obs) (k₁ k₂ : Nat) (name : Name)
    (h₁ : o₁ ∈ (run F ops).2) (h₂ : o₂ ∈ (run F ops).2)
    (s₁ : o₁.sym? = some (k₁, name)) (s₂ : o₂.sym? = some (k₂, name)) : k₁ = k₂ := by
  have a := observed_in_final_table F ops o₁ k₁ name h₁ s₁
  have b := observed_in_final_table F ops o₂ k₂ name h₂ s₂
  rw [a] at b; exact Option.some.inj b

/-- Satisfiable, and across members: the root interns "a", a duplicate made *before* that
(stale counter) interns "a" too, and a clone reads it — one symbol. -/
example : (run (initFamily 2) [.dup 0, .mk 0 [97], .mk 1 [97], .clone 1, .read 2 [97]]).2
    = [.member 3, .sym 3 [97] false, .sym 3 [97] true, .member 3, .sym 3 [97] true] := by decide

/-- **different_names_different_symbols**: two symbols with the same number have the same
name (contrapositive: different names never yield equal symbols). -/
theorem different_names_different_symbols (F : Family) (ops : List Op) (hI : Inv F.tab)
    (o₁ o₂ : Obs) (k : Nat) (n₁ n₂ : Name)
    (h₁ : o₁ ∈ (run F ops).2) (h₂ : o₂ ∈ (run F ops).2)
    (s₁ : o₁.sym? = some (k, n₁)) (s₂ : o₂.sym? = some (k, n₂)) : n₁ = n₂ := by
  have hF := inv_run F ops hI
  have a := (hF n₁ k).mp (observed_in_final_table F ops o₁ k n₁ h₁ s₁)
  have b := (hF n₂ k).mp (observed_in_final_table F ops o₂ k n₂ h₂ s₂)
  rw [a] at b; exact Option.some.inj b

/-- Satisfiable: a duplicate with a stale counter interning another name gets another
number (the skip loop), never the one the root just used. -/
example : (run (initFamily 2) [.dup 0, .mk 0 [97], .mk 1 [98]]).2
    = [.member 3, .sym 3 [97] false, .sym 4 [98] false] := by decide

/-- Interning a name hands out a symbol of that name. -/
theorem interned_has_requested_name (F : Family) (i : Nat) (name n : Name) (k : Nat) (ex : Bool)
    (h : (step F (.mk i name)).2 = .sym k n ex ∨ (step F (.read i name)).2 = .sym k n ex) : n = name := by
  rcases h with h | h
  · rcases step_shape F (.mk i name) with ⟨_, hq⟩ | ⟨c, nm, _, hobs, _, hreq⟩
    · rw [h] at hq; cases hq
    · rw [hobs] at h; cases h; exact (hreq i name (Or.inl rfl)).symm
  · rcases step_shape F (.read i name) with ⟨_, hq⟩ | ⟨c, nm, _, hobs, _, hreq⟩
    · rw [h] at hq; cases hq
    · rw [hobs] at h; cases h; exact (hreq i name (Or.inr rfl)).symm

example : (step (initFamily 2) (.mk 0 [97])).2 = .sym 3 [97] false := by decide

/-! ### generated symbols are fresh -/

/-- **gensym_fresh**: whatever the tables hold and however stale the member's counter is,
the symbol returned by `GenSymbol` has a name and a number that were both absent from the
shared tables before the call. -/
theorem gensym_fresh (F : Family) (i : Nat) (pre : Name) (k : Nat) (name : Name) (ex : Bool)
    (h : (step F (.gen i pre)).2 = .sym k name ex) :
    ex = false ∧ alookup name F.tab.sym = none ∧ alookup k F.tab.rev = none := by
  rcases step_shape F (.gen i pre) with ⟨_, hq⟩ | ⟨c, nm, _, hobs, hgen, _⟩
  · rw [h] at hq; cases hq
  · rw [hobs] at h
    have hn := hgen i pre rfl
    rcases makeSymbol_cases F.tab c nm with ⟨k', hk', _⟩ | ⟨_, k', hk', _, e⟩
    · rw [hn] at hk'; cases hk'
    · rw [e] at h
      simp only [Obs.sym.injEq] at h
      obtain ⟨rfl, rfl, rfl⟩ := h
      refine ⟨?_, hn, hk'⟩
      simp [existedIn, Tables.hasName, Tables.used, hn, hk']

example : (step (initFamily 2) (.gen 0 [103])).2 = .sym 3 [103, 51] false := by decide

/-- **gensym_distinct**: a generated symbol differs — in number and in name — from every
symbol handed out earlier in the history (by any member), hence also from every symbol
generated earlier; a later generated symbol differs from it by the same theorem applied at
the later position. -/
theorem gensym_distinct (F : Family) (hI : Inv F.tab) (before : List Op) (i : Nat) (pre : Name)
    (k : Nat) (name : Name) (ex : Bool)
    (h : (step (run F before).1 (.gen i pre)).2 = .sym k name ex)
    (o : Obs) (k' : Nat) (name' : Name) (ho : o ∈ (run F before).2) (hs : o.sym? = some (k', name')) :
    k' ≠ k ∧ name' ≠ name := by
  have hI' := inv_run F before hI
  obtain ⟨_, hn, hk⟩ := gensym_fresh (run F before).1 i pre k name ex h
  have hin := observed_in_final_table F before o k' name' ho hs
  constructor
  · intro e
    have := (hI' name' k').mp hin
    rw [e, hk] at this; cases this
  · intro e
    rw [e, hn] at hin; cases hin

/-- Satisfiable: root, duplicate and clone generate with the same prefix from the same
(stale) counter value after a script interned the first candidate name. -/
example : (run (initFamily 2) [.mk 0 [103, 52], .dup 0, .clone 0, .gen 1 [103], .gen 2 [103], .gen 0 [103]]).2
    = [.sym 3 [103, 52] false, .member 4, .member 4, .sym 5 [103, 53] false, .sym 6 [103, 54] false,
       .sym 7 [103, 55] false] := by decide

/-! ### the spec's judge accepts every trace of the model -/

/-- The event the spec sees for an operation and what it returned. -/
def evOf : Op → Obs → Ev
  | .mk _ name, .sym k n _ => .interned name ⟨k, n⟩
  | .read _ name, .sym k n _ => .interned name ⟨k, n⟩
  | .gen _ _, .sym k n ex => .generated ⟨k, n⟩ ex
  | _, _ => .other

def evsOf (F : Family) : List Op → List Ev
  | [] => []
  | op :: rest => evOf op (step F op).2 :: evsOf (step F op).1 rest

/-- What `evOf` can be, given the shape of a step. -/
theorem evOf_shape (F : Family) (op : Op) :
    (evOf op (step F op).2 = .other ∧ (step F op).1.tab = F.tab) ∨
    (evOf op (step F op).2 = .other ∧ ∃ c nm, (step F op).1.tab = (makeSymbol F.tab c nm).tab) ∨
    (∃ c nm, (step F op).1.tab = (makeSymbol F.tab c nm).tab ∧
      evOf op (step F op).2 = .interned nm ⟨(makeSymbol F.tab c nm).num, nm⟩) ∨
    (∃ c nm, (step F op).1.tab = (makeSymbol F.tab c nm).tab ∧ alookup nm F.tab.sym = none ∧
      evOf op (step F op).2 = .generated ⟨(makeSymbol F.tab c nm).num, nm⟩ (existedIn F.tab (makeSymbol F.tab c nm))) := by
  rcases step_shape F op with ⟨ht, hq⟩ | ⟨c, nm, ht, hobs, hgen, hreq⟩
  · left
    refine ⟨?_, ht⟩
    cases op <;> cases h : (step F _).2 <;> simp_all [evOf, Obs.sym?]
  · cases op with
    | mk i n =>
      have := hreq i n (Or.inl rfl); subst this
      right; right; left; exact ⟨c, n, ht, by rw [hobs]; rfl⟩
    | read i n =>
      have := hreq i n (Or.inr rfl); subst this
      right; right; left; exact ⟨c, n, ht, by rw [hobs]; rfl⟩
    | gen i pre =>
      right; right; right; exact ⟨c, nm, ht, hgen i pre rfl, by rw [hobs]; rfl⟩
    | dup i => right; left; exact ⟨by rw [hobs]; rfl, c, nm, ht⟩
    | clone i => right; left; exact ⟨by rw [hobs]; rfl, c, nm, ht⟩

/-- Invariant carried along a history: every symbol seen so far is bound in the table. -/
def SeenOk (t : Tables) (seen : List Sym) : Prop := ∀ s ∈ seen, alookup s.name t.sym = some s.num

theorem seenOk_makeSymbol (t : Tables) (c : Nat) (nm : Name) (seen : List Sym) (h : SeenOk t seen) :
    SeenOk (makeSymbol t c nm).tab seen :=
  fun s hs => makeSymbol_mono_sym t c nm s.name s.num (h s hs)

theorem seenOk_cons (t : Tables) (c : Nat) (nm : Name) (seen : List Sym) (h : SeenOk t seen) :
    SeenOk (makeSymbol t c nm).tab (⟨(makeSymbol t c nm).num, nm⟩ :: seen) := by
  intro s hs
  rcases List.mem_cons.mp hs with e | hin
  · rw [e]; exact (makeSymbol_result t c nm).2
  · exact seenOk_makeSymbol t c nm seen h s hin

/-- **gensym_fresh_trace**: the spec's freshness clause holds along every history. -/
theorem gensymFreshFrom_run (F : Family) (ops : List Op) (seen : List Sym)
    (hI : Inv F.tab) (hseen : SeenOk F.tab seen) :
    SymSpec.gensymFreshFrom seen (evsOf F ops) = true := by
  induction ops generalizing F seen with
  | nil => rfl
  | cons op rest ih =>
    simp only [evsOf]
    have hI' := inv_step F op hI
    rcases evOf_shape F op with ⟨he, ht⟩ | ⟨he, c, nm, ht⟩ | ⟨c, nm, ht, he⟩ | ⟨c, nm, ht, hn, he⟩
    · rw [he]; simp only [SymSpec.gensymFreshFrom]
      exact ih _ seen hI' (by rw [ht]; exact hseen)
    · rw [he]; simp only [SymSpec.gensymFreshFrom]
      exact ih _ seen hI' (by rw [ht]; exact seenOk_makeSymbol _ _ _ _ hseen)
    · rw [he]; simp only [SymSpec.gensymFreshFrom]
      exact ih _ _ hI' (by rw [ht]; exact seenOk_cons _ _ _ _ hseen)
    · rw [he]; simp only [SymSpec.gensymFreshFrom]
      rcases makeSymbol_cases F.tab c nm with ⟨k', hk', _⟩ | ⟨_, k', hk', _, e⟩
      · rw [hn] at hk'; cases hk'
      · have hex : existedIn F.tab (makeSymbol F.tab c nm) = false := by
          rw [e]; simp [existedIn, Tables.hasName, Tables.used, hn, hk']
        have hnum : (makeSymbol F.tab c nm).num = k' := by rw [e]
        rw [hex, Bool.and_eq_true, Bool.and_eq_true]
        refine ⟨⟨rfl, ?_⟩, ih _ _ hI' (by rw [ht]; exact seenOk_cons _ _ _ _ hseen)⟩
        rw [List.all_eq_true]
        intro s hs
        have hb := hseen s hs
        have hname : s.name ≠ nm := by intro e'; rw [e', hn] at hb; cases hb
        have hnumne : s.num ≠ k' := by
          intro e'
          have := (hI s.name s.num).mp hb
          rw [e', hk'] at this; cases this
        simp [Sym.same, hnum, hname, hnumne]

theorem gensym_fresh_trace (F : Family) (ops : List Op) (hI : Inv F.tab) :
    SymSpec.gensymFresh (evsOf F ops) = true :=
  gensymFreshFrom_run F ops [] hI (fun _ h => by cases h)

/-- All symbols of a trace are bound in the final table. -/
theorem syms_in_final (F : Family) (ops : List Op) (s : Sym)
    (hs : s ∈ (evsOf F ops).filterMap Ev.sym?) : alookup s.name (run F ops).1.tab.sym = some s.num := by
  induction ops generalizing F with
  | nil => simp [evsOf] at hs
  | cons op rest ih =>
    rw [run_cons]
    simp only [evsOf, List.filterMap_cons] at hs
    rcases evOf_shape F op with ⟨he, _⟩ | ⟨he, _⟩ | ⟨c, nm, ht, he⟩ | ⟨c, nm, ht, _, he⟩
    · rw [he] at hs; exact ih _ hs
    · rw [he] at hs; exact ih _ hs
    · rw [he] at hs
      simp only [Ev.sym?, List.mem_cons] at hs
      rcases hs with e | hin
      · apply run_mono; rw [e, ht]; exact (makeSymbol_result F.tab c nm).2
      · exact ih _ hin
    · rw [he] at hs
      simp only [Ev.sym?, List.mem_cons] at hs
      rcases hs with e | hin
      · apply run_mono; rw [e, ht]; exact (makeSymbol_result F.tab c nm).2
      · exact ih _ hin

theorem internedNameOk_run (F : Family) (ops : List Op) : SymSpec.internedNameOk (evsOf F ops) = true := by
  induction ops generalizing F with
  | nil => rfl
  | cons op rest ih =>
    simp only [evsOf, SymSpec.internedNameOk, List.all_cons, Bool.and_eq_true]
    refine ⟨?_, ih _⟩
    rcases evOf_shape F op with ⟨he, _⟩ | ⟨he, _⟩ | ⟨c, nm, _, he⟩ | ⟨c, nm, _, _, he⟩ <;> rw [he] <;> simp

/-- **model_trace_accepted**: for every history the spec's four trace clauses hold of the
model's trace — the same `SymSpec` functions that `zydrv` evaluates on the traces of the
real implementation. (The sixth clause, the table dump, is `inv_run`; the script clause is
about `==`/hash lookups, which compare numbers: `same_name_same_symbol` and
`different_names_different_symbols`.) -/
theorem model_trace_accepted (F : Family) (ops : List Op) (hI : Inv F.tab) :
    let syms := (evsOf F ops).filterMap Ev.sym?
    SymSpec.internedNameOk (evsOf F ops) = true ∧
    SymSpec.sameNameSameSymbol syms = true ∧
    SymSpec.differentNamesDifferentSymbols syms = true ∧
    SymSpec.gensymFresh (evsOf F ops) = true := by
  refine ⟨internedNameOk_run F ops, ?_, ?_, gensym_fresh_trace F ops hI⟩
  · simp only [SymSpec.sameNameSameSymbol, List.all_eq_true]
    intro a ha b hb
    have := syms_in_final F ops a ha
    have := syms_in_final F ops b hb
    by_cases e : a.name = b.name
    · simp_all [Sym.same]
    · simp [e]
  · simp only [SymSpec.differentNamesDifferentSymbols, List.all_eq_true]
    intro a ha b hb
    have h1 := (inv_run F ops hI _ _).mp (syms_in_final F ops a ha)
    have h2 := (inv_run F ops hI _ _).mp (syms_in_final F ops b hb)
    by_cases e : a.num = b.num
    · rw [e, h2] at h1
      simp [Option.some.inj h1]
    · simp [Sym.same, e]

/-! ### the whole judge -/

/-- A fresh interpreter's tables are well-formed (mutually inverse, no key twice). -/
theorem wf_initFamily (n : Nat) : Wf (initFamily n).tab := by
  show Wf (baseTables n)
  induction n with
  | zero => exact wf_empty
  | succ n ih =>
    exact wf_insert (baseTables n) (baseName (n + 1)) (n + 1) ih
      (baseTables_sym_none n (n + 1) (Nat.lt_succ_self n)) (baseTables_rev_none n (n + 1) (Nat.lt_succ_self n))

theorem functional_of_nodup {α β} [DecidableEq α] [BEq α] [LawfulBEq α] [BEq β] [LawfulBEq β] (l : List (α × β))
    (hnd : (l.map Prod.fst).Nodup) : SymSpec.functional l = true := by
  simp only [SymSpec.functional, List.all_eq_true]
  intro p hp q hq
  by_cases e : p.1 = q.1
  · have a := alookup_of_mem_nodup l hnd p.1 p.2 hp
    have b := alookup_of_mem_nodup l hnd q.1 q.2 hq
    rw [e, b] at a
    simp [Option.some.inj a]
  · simp [e]

/-- The spec's table clause holds of well-formed tables: each table is functional and each
is exactly the converse of the other. -/
theorem wf_tablesBijective (t : Tables) (h : Wf t) : SymSpec.tablesBijective t.sym t.rev = true := by
  simp only [SymSpec.tablesBijective, Bool.and_eq_true]
  refine ⟨⟨⟨functional_of_nodup _ h.symKeys, functional_of_nodup _ h.revKeys⟩, ?_⟩, ?_⟩
  · rw [List.all_eq_true]
    intro p hp
    have := (h.inv p.1 p.2).mp (alookup_of_mem_nodup _ h.symKeys p.1 p.2 hp)
    simpa using mem_of_alookup _ _ _ this
  · rw [List.all_eq_true]
    intro p hp
    have := (h.inv p.2 p.1).mpr (alookup_of_mem_nodup _ h.revKeys p.1 p.2 hp)
    simpa using mem_of_alookup _ _ _ this

theorem scriptEqOk_run (F : Family) (ops : List Op) : SymSpec.scriptEqOk (evsOf F ops) = true := by
  induction ops generalizing F with
  | nil => rfl
  | cons op rest ih =>
    simp only [evsOf, SymSpec.scriptEqOk, List.all_cons, Bool.and_eq_true]
    refine ⟨?_, ih _⟩
    rcases evOf_shape F op with ⟨he, _⟩ | ⟨he, _⟩ | ⟨c, nm, _, he⟩ | ⟨c, nm, _, _, he⟩ <;> rw [he]

/-- **judge_accepts_model**: for every history on every family that starts from well-formed
tables, the specification's judge — the function `zydrv` runs on the traces of the real
implementation — answers `ok` on the model's trace and final tables. -/
theorem judge_accepts_model (F : Family) (ops : List Op) (h : Wf F.tab) :
    SymSpec.judge (evsOf F ops) (run F ops).1.tab.sym (run F ops).1.tab.rev = .ok := by
  obtain ⟨h1, h2, h3, h4⟩ := model_trace_accepted F ops h.inv
  simp only [SymSpec.judge, h1, h2, h3, h4, scriptEqOk_run F ops,
    wf_tablesBijective _ (run_wf F ops h)]
  rfl

example : SymSpec.judge (evsOf (initFamily 2) [.mk 0 [97], .dup 0, .gen 1 [103], .gen 0 [103]])
    (run (initFamily 2) [.mk 0 [97], .dup 0, .gen 1 [103], .gen 0 [103]]).1.tab.sym
    (run (initFamily 2) [.mk 0 [97], .dup 0, .gen 1 [103], .gen 0 [103]]).1.tab.rev = .ok := by decide

/-- **eq_by_name** (`(== (str2sym a) (str2sym b))`, hash keys): the numbers of the symbols
interned for two names — by any two members, with anything in between — are equal exactly
when the names are. -/
theorem eq_by_name (F : Family) (hI : Inv F.tab) (i j : Nat) (a b : Name) (between : List Op)
    (k₁ k₂ : Nat) (n₁ n₂ : Name) (e₁ e₂ : Bool)
    (h₁ : (step F (.mk i a)).2 = .sym k₁ n₁ e₁)
    (h₂ : (step (run (step F (.mk i a)).1 between).1 (.mk j b)).2 = .sym k₂ n₂ e₂) :
    k₁ = k₂ ↔ a = b := by
  have hn₁ := interned_has_requested_name F i a n₁ k₁ e₁ (Or.inl h₁)
  have hn₂ := interned_has_requested_name _ j b n₂ k₂ e₂ (Or.inl h₂)
  subst hn₁; subst hn₂
  -- both observations belong to the history  mk i a :: between ++ [mk j b]
  let ops := Op.mk i n₁ :: (between ++ [Op.mk j n₂])
  have hobs : (run F ops).2 = (step F (.mk i n₁)).2 :: ((run (step F (.mk i n₁)).1 between).2 ++
      [(step (run (step F (.mk i n₁)).1 between).1 (.mk j n₂)).2]) := by
    simp only [ops, run_cons, run_append_single]
  have m₁ : Obs.sym k₁ n₁ e₁ ∈ (run F ops).2 := by rw [hobs, h₁]; simp
  have m₂ : Obs.sym k₂ n₂ e₂ ∈ (run F ops).2 := by rw [hobs, h₂]; simp
  constructor
  · intro e; subst e
    exact different_names_different_symbols F ops hI _ _ k₁ n₁ n₂ m₁ m₂ rfl rfl
  · intro e; subst e
    exact same_name_same_symbol F ops _ _ k₁ k₂ n₁ m₁ m₂ rfl rfl

/-! ### the pinned tree: `GenSymbol` was not fresh -/

/-- A script interns a name shaped like the next generated symbol (`(str2sym "g2")` on a
fresh table whose counter is 2 after that); the pre-fix `GenSymbol("g")` then hands the
*existing* symbol back: not fresh. -/
theorem gensym_fresh_legacy_counterexample :
    (Legacy.run (initFamily 0) [.mk 0 [103, 50], .gen 0 [103]]).2
      = [.sym 1 [103, 50] false, .sym 1 [103, 50] true] := by decide

/-- A duplicate (this is what every macro expansion runs in) generates with the counter it
copied; the original, whose counter is stale, then generates the same name, gets the same
symbol back, does not advance — and is stuck: *every* later `(gensym)` of the original
returns that one symbol. -/
theorem gensym_distinct_legacy_counterexample :
    (Legacy.run (initFamily 0) [.dup 0, .gen 1 [103], .gen 0 [103], .gen 0 [103]]).2
      = [.member 1, .sym 1 [103, 49] false, .sym 1 [103, 49] true, .sym 1 [103, 49] true] := by decide

/-- The repaired model on the same two histories. -/
example : (run (initFamily 0) [.mk 0 [103, 50], .gen 0 [103]]).2
      = [.sym 1 [103, 50] false, .sym 3 [103, 51] false] := by decide
example : (run (initFamily 0) [.dup 0, .gen 1 [103], .gen 0 [103], .gen 0 [103]]).2
      = [.member 1, .sym 1 [103, 49] false, .sym 2 [103, 50] false, .sym 3 [103, 51] false] := by decide

end ZygoVerif.SymTab
