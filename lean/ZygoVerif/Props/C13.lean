/-
C13 — parsing depends only on the text: not on chunking, not on history.

Theorems about the model of zygo/lexer.go + zygo/parser.go (Model/Lexer, Model/Parser, as
the code is after the proposed repairs fixes/C13-*.patch), the specification
Spec/Unfinished, and the tables regenerated from the source (Generated/LexTables).
-/
import ZygoVerif.Model.Lexer
import ZygoVerif.Model.Parser
import ZygoVerif.Model.LegacyLexer
import ZygoVerif.Spec.Unfinished
import ZygoVerif.Proofs.ParseChunks
import ZygoVerif.Generated.LexTables
namespace ZygoVerif.Props.C13
open ZygoVerif ZygoVerif.Lexer ZygoVerif.Parser

/-! ## 1. The lexer has no per-chunk effect -/

/-- Feeding `a` and then `b` is feeding `a ++ b`, from every lexer state (also after an error). -/
theorem lex_chunk (o : Outcome LexCore) (a b : List Char) : feed (feed o a) b = feed o (a ++ b) := by
  simp [feed, List.foldl_append]

example : feed (feed (.ok LexCore.init) "fo".toList) "o ".toList = feed (.ok LexCore.init) "foo ".toList :=
  lex_chunk _ _ _

/-- A refused rune stops the feed: the error state absorbs everything that follows. -/
theorem feed_err (e : LexErr) (s : LexCore) (rs : List Char) : feed (.err e s) rs = .err e s := by
  induction rs with
  | nil => rfl
  | cons r rs ih => simpa [feed] using ih

/-- `LexNextRune` never touches the stream fields. -/
theorem step_keeps_streams (l l' : LexState) (c : Char) (h : l.step c = .ok l') :
    l'.stream = l.stream ∧ l'.next = l.next :=
  ((step_fields l c).1 l' h).2

/-! ## 2. Chunk independence of the parser -/

theorem resetAddNewInput_view (l : LexState) (c : List Char) :
    (resetAddNewInput l c).pending = c ∧ (resetAddNewInput l c).toLexCore = LexCore.init ∧
      (resetAddNewInput l c).stream.isSome = true := by
  simp [resetAddNewInput, LexState.reset, LexState.addNextStream, LexState.promote, LexState.pending,
    LexCore.init, Token.zero]

theorem initState_view (l : LexState) (cs : List (List Char)) :
    view (initState l cs) = ⟨LexCore.init, cs.flatten ++ eofPiece, []⟩ ∧ Parser.Inv (initState l cs) := by
  cases cs with
  | nil =>
    obtain ⟨h1, h2, h3⟩ := resetAddNewInput_view l []
    simp [initState, view, PState.runes, h1, h2, Parser.Inv, h3]
  | cons c rest =>
    obtain ⟨h1, h2, h3⟩ := resetAddNewInput_view l c
    simp [initState, view, PState.runes, h1, h2, Parser.Inv, h3]

/-- The final status and the cumulative expression list of a parse are those of the
abstract interpreter on (fresh lexer core, all runes of the text + end of input). -/
theorem parseChunksFrom_eq_abstract (l : LexState) (cs : List (List Char)) :
    let r := runA (topLoop (fuelFor cs)) ⟨LexCore.init, cs.flatten ++ eofPiece, []⟩
    (parseChunksFrom l cs).status = (match r.1 with | .ret _ => Status.done | .stop st => st) ∧
    (parseChunksFrom l cs).exprs = r.2.exprs := by
  obtain ⟨hv, hi⟩ := initState_view l cs
  obtain ⟨h1, h2⟩ := run_view (topLoop (fuelFor cs)) (initState l cs) hi
  rw [hv] at h1 h2
  simp only [parseChunksFrom]
  rw [← h1, ← h2]
  cases hr : run (topLoop (fuelFor cs)) (initState l cs) with
  | mk f s => cases f <;> simp [view]

/-- **Chunk independence.** For every way of cutting a text into pieces (any number of
pieces, empty pieces, cuts inside tokens, strings, comments, operators), on a parser with
any history, the final status and the expressions are those of the text delivered whole. -/
theorem parse_chunks_eq_whole (l : LexState) (cs : List (List Char)) :
    (parseChunksFrom l cs).status = (parseChunksFrom l [cs.flatten]).status ∧
    (parseChunksFrom l cs).exprs = (parseChunksFrom l [cs.flatten]).exprs := by
  have a := parseChunksFrom_eq_abstract l cs
  have b := parseChunksFrom_eq_abstract l [cs.flatten]
  have hf : fuelFor [cs.flatten] = fuelFor cs := by simp [fuelFor]
  have hl : [cs.flatten].flatten = cs.flatten := by simp
  simp only [hf, hl] at b
  exact ⟨a.1.trans b.1.symm, a.2.trans b.2.symm⟩

example : (parseChunks ["(a \"b".toList, " c\" 1".toList, [], ")".toList]).status =
    (parseChunks ["(a \"b c\" 1)".toList]).status :=
  (parse_chunks_eq_whole LexState.init ["(a \"b".toList, " c\" 1".toList, [], ")".toList]).1

/-! ## 3. History -/

/-- `Lexer.Reset` forgets everything: every field is assigned a constant. -/
theorem reset_eq_init (l : LexState) : l.reset = LexState.init := rfl

/-- **`reset_forgets`.** Whatever a parser did before (any reachable or unreachable lexer
state `l`), `ResetAddNewInput` + the delivery protocol gives what a fresh parser gives. -/
theorem reset_forgets (l : LexState) (cs : List (List Char)) :
    parseChunksFrom l cs = parseChunks cs := by
  unfold parseChunks parseChunksFrom
  have : initState l cs = initState LexState.init cs := by
    cases cs <;> simp [initState, resetAddNewInput, reset_eq_init]
  rw [this]

example : parseChunksFrom ⟨{ LexCore.init with priori := 7, prevrune := ')' }, some ['x'], [['y']]⟩ [['a']] =
    parseChunks [['a']] := reset_forgets _ _

/-- Table fact: every field of the Go `Lexer` struct except the back pointer `parser` is
assigned in `Lexer.Reset` (regenerated from lexer.go on every run). -/
theorem reset_assigns_every_field :
    ∀ f ∈ Generated.LexTables.lexerFields, f = "parser" ∨ f ∈ Generated.LexTables.lexerResetAssigns := by
  decide

/-- Both reset entry points of the parser drop the coroutine, the reply and reset the lexer. -/
theorem parser_resets_complete :
    (∀ f ∈ ["next", "stop", "yield", "sendMe", "call:lexer.Reset"], f ∈ Generated.LexTables.parserResetAssigns) ∧
    (∀ f ∈ ["next", "stop", "yield", "sendMe", "call:lexer.Reset", "call:lexer.AddNextStream"],
        f ∈ Generated.LexTables.parserResetAddNewInputAssigns) := by
  decide

/-! ## 4. The last token is kept -/

/-- **`last_token_kept`.** End of input is a final newline (`Parser.EndInput`). In the normal
state a pending atom is then either queued as the last token (nothing stays in the buffer)
or reported as an error; it is never dropped. -/
theorem last_token_kept (s : LexCore) (h : s.state = .normal) (hb : s.buffer ≠ []) :
    match step s '\n', decodeAtom s.buffer with
    | .ok s', .ok tok => s'.tokens = s.tokens ++ [tok] ∧ s'.buffer = [] ∧ s'.state = .normal
    | .err e _, .error e' => e = e'
    | _, _ => False := by
  have hbe : s.buffer.isEmpty = false := by
    cases hbuf : s.buffer with
    | nil => exact absurd hbuf hb
    | cons a b => rfl
  cases hd : decodeAtom s.buffer with
  | ok tok => simp [step, stepMode, h, stepNormal, thenDump, dumpBuffer, hbe, hd, appendToken]
  | error e => simp [step, stepMode, h, stepNormal, thenDump, dumpBuffer, hbe, hd]

example : ∃ s : LexCore, s.state = .normal ∧ s.buffer ≠ [] :=
  ⟨{ LexCore.init with buffer := ['4', '2'] }, rfl, by decide⟩

/-- A pending line comment is closed by the end of input as well. -/
theorem last_comment_kept (s : LexCore) (h : s.state = .commentLine) :
    match step s '\n' with
    | .ok s' => s'.tokens = s.tokens ++ [⟨.comment, s.buffer⟩] ∧ s'.buffer = [] ∧ s'.state = .normal
    | .err _ _ => False := by
  simp [step, stepMode, h, dumpAs, appendToken]

/-! ## 5. "more" exactly for unfinished prefixes -/

/-- parse of a prefix: no end of input signalled -/
def parsePrefix (t : List Char) : Status :=
  match run (topLoop (fuelFor [t])) { lex := resetAddNewInput LexState.init t, fut := [] } with
  | (.ret _, _) => .done
  | (.stop st, _) => st

/-- the last emitted token is a `+`/`-` symbol at bracket depth 0 (recorded finding: the
±Inf look-ahead waits there) -/
def trailingSign (t : List Char) : Bool :=
  match feed (.ok LexCore.init) t with
  | .ok c =>
    (match c.tokens.getLast? with
     | some tk => tk.typ == .symbol && (tk.str == ['-'] || tk.str == ['+']) &&
        (c.tokens.foldl Spec.Nest.tok {}).depth == 0
     | none => false)
  | .err _ _ => false

/-- **`more_iff_unfinished`, full statement** (NOT proved in general; it is compared on every
generated input by the `parse` channel: impl status vs this specification). -/
def MoreIffUnfinished : Prop :=
  ∀ t : List Char, ∀ u : Bool, Spec.Unfinished t = some u → parsePrefix t ≠ .err → trailingSign t = false →
    (parsePrefix t = .more ↔ u = true)

/-- partial: at top level the parser answers `more` at the end of the input exactly when
the lexer is inside a string or rune literal; with tokens queued it never stops. -/
theorem top_level_more_iff_literal (c : LexCore) (ex : List Sexp) (h : c.tokens = []) :
    topGetA ex [] c = .finished (if inLiteral c then .more else .done) ⟨c, [], ex⟩ := by
  simp [topGetA, h]

/-! ## 6. Tables regenerated from the source -/

theorem token_types_match : Generated.LexTables.tokenTypes = tokTypeNames := by decide
theorem lexer_states_match : Generated.LexTables.lexerStates = modeNames := by decide

/-- the regular expressions declared in lexer.go are, name by name and character by
character, the ones the recognisers of Model/Lexer were written for -/
theorem regex_sources_match : Generated.LexTables.regexes = regexSources := rfl

theorem escape_cases_match : Generated.LexTables.escapeCases = escapeTable := by decide

theorem escape_table_is_model :
    ∀ p ∈ escapeTable, escapeChar (Char.ofNat p.1) = some (Char.ofNat p.2) := by decide

theorem can_start_set_match : Generated.LexTables.canStartSet = canStartTable := by decide

theorem can_start_table_is_model :
    ∀ n ∈ canStartTable, canStartSignedNumberAfter (Char.ofNat n) = true := by decide

theorem tok_type_numbering : tokTypeNames.length = 38 ∧ TokType.tEnd.toNat = 37 ∧ modeNames.length = 15 := by decide

end ZygoVerif.Props.C13
