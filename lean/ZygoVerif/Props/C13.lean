/-
C13 — parsing depends only on the text: not on chunking, not on history.

Theorems about the model of zygo/lexer.go + zygo/parser.go (Model/Lexer, Model/Parser, as
the code is after the proposed repairs fixes/C13-*.patch), the specification
Spec/Unfinished, and the tables regenerated from the source (Generated/LexTables).
-/
import ZygoVerif.Model.Lexer
import ZygoVerif.Model.Parser
import ZygoVerif.Model.LegacyLexer
import ZygoVerif.Model.LegacyParser
import ZygoVerif.Spec.Unfinished
import ZygoVerif.Proofs.ParseChunks
import ZygoVerif.Proofs.Abandon
import ZygoVerif.Proofs.Stepwise
import ZygoVerif.Proofs.StepwiseTrace
import ZygoVerif.Proofs.StepwiseFuel
import ZygoVerif.Generated.LexTables
import ZygoVerif.Generated.ResetOrder
namespace ZygoVerif.Props.C13
open ZygoVerif ZygoVerif.Lexer ZygoVerif.Parser

/-! ## 1. The lexer has no per-chunk effect -/

/-- Feeding `a` and then `b` is feeding `a ++ b`, from every lexer state (also after an error). -/
theorem lex_chunk (o : Outcome LexCore) (a b : List Char) : feed (feed o a) b = feed o (a ++ b) := by
  simp [feed, List.foldl_append]

example : feed (feed (.ok LexCore.init) "fo".toList) "o ".toList = feed (.ok LexCore.init) "foo ".toList :=
  lex_chunk _ _ _

/-- A refused rune stops the feed: the error state absorbs everything that follows. -/
theorem feed_err (e : LexErr) (s : LexCore) (rs : List Char) : feed (.err e s) rs = .err e s := by
  induction rs with
  | nil => rfl
  | cons r rs ih => simpa [feed] using ih

/-- `LexNextRune` never touches the stream fields (nor the end-of-input mark). -/
theorem step_keeps_streams (l l' : LexState) (c : Char) (h : l.step c = .ok l') :
    l'.stream = l.stream ∧ l'.next = l.next ∧ l'.finished = l.finished :=
  ((step_fields l c).1 l' h).2

/-! ## 2. Chunk independence of the parser -/

theorem resetAddNewInput_view (l : LexState) (c : List Char) :
    (resetAddNewInput l c).pending = c ∧ (resetAddNewInput l c).toLexCore = LexCore.init ∧
      (resetAddNewInput l c).stream.isSome = true ∧ (resetAddNewInput l c).finished = false := by
  simp [resetAddNewInput, LexState.reset, LexState.addNextStream, LexState.promote, LexState.pending,
    LexCore.init, Token.zero]

theorem initState_view (l : LexState) (cs : List (List Char)) :
    view (initState l cs) = ⟨LexCore.init, cs.flatten ++ eofPiece, [], true⟩ ∧ Parser.Inv (initState l cs) := by
  cases cs with
  | nil =>
    obtain ⟨h1, h2, h3, _⟩ := resetAddNewInput_view l []
    simp [initState, view, PState.runes, PState.willFinish, h1, h2, Parser.Inv, h3]
  | cons c rest =>
    obtain ⟨h1, h2, h3, _⟩ := resetAddNewInput_view l c
    simp [initState, view, PState.runes, PState.willFinish, h1, h2, Parser.Inv, h3]

/-- The final status and the cumulative expression list of a parse are those of the
abstract interpreter on (fresh lexer core, all runes of the text + end of input, the end of
the input will have been signalled). -/
theorem parseChunksFrom_eq_abstract (l : LexState) (cs : List (List Char)) :
    let r := runA (topLoop (fuelFor cs)) ⟨LexCore.init, cs.flatten ++ eofPiece, [], true⟩
    (parseChunksFrom l cs).status = (match r.1 with | .ret _ => Status.done | .stop st => st) ∧
    (parseChunksFrom l cs).exprs = r.2.exprs := by
  obtain ⟨hv, hi⟩ := initState_view l cs
  obtain ⟨h1, h2⟩ := run_view (topLoop (fuelFor cs)) (initState l cs) hi
  rw [hv] at h1 h2
  simp only [parseChunksFrom]
  rw [← h1, ← h2]
  cases hr : run (topLoop (fuelFor cs)) (initState l cs) with
  | mk f s => cases f <;> simp [view]

/-- **Chunk independence.** For every way of cutting a text into pieces (any number of
pieces, empty pieces, cuts inside tokens, strings, comments, operators), on a parser with
any history, the final status and the expressions are those of the text delivered whole. -/
theorem parse_chunks_eq_whole (l : LexState) (cs : List (List Char)) :
    (parseChunksFrom l cs).status = (parseChunksFrom l [cs.flatten]).status ∧
    (parseChunksFrom l cs).exprs = (parseChunksFrom l [cs.flatten]).exprs := by
  have a := parseChunksFrom_eq_abstract l cs
  have b := parseChunksFrom_eq_abstract l [cs.flatten]
  have hf : fuelFor [cs.flatten] = fuelFor cs := by simp [fuelFor]
  have hl : [cs.flatten].flatten = cs.flatten := by simp
  simp only [hf, hl] at b
  exact ⟨a.1.trans b.1.symm, a.2.trans b.2.symm⟩

example : (parseChunks ["(a \"b".toList, " c\" 1".toList, [], ")".toList]).status =
    (parseChunks ["(a \"b c\" 1)".toList]).status :=
  (parse_chunks_eq_whole LexState.init ["(a \"b".toList, " c\" 1".toList, [], ")".toList]).1

/-! ## 3. History -/

/-- `Lexer.Reset` forgets everything: every field is assigned a constant. -/
theorem reset_eq_init (l : LexState) : l.reset = LexState.init := rfl

/-- **`reset_forgets`.** Whatever a parser did before (any reachable or unreachable lexer
state `l`), `ResetAddNewInput` + the delivery protocol gives what a fresh parser gives. -/
theorem reset_forgets (l : LexState) (cs : List (List Char)) :
    parseChunksFrom l cs = parseChunks cs := by
  unfold parseChunks parseChunksFrom
  have : initState l cs = initState LexState.init cs := by
    cases cs <;> simp [initState, resetAddNewInput, reset_eq_init]
  rw [this]

example : parseChunksFrom ⟨{ LexCore.init with priori := 7, prevrune := ')' }, some ['x'], [['y']], true⟩ [['a']] =
    parseChunks [['a']] := reset_forgets _ _

/-- Table fact: every field of the Go `Lexer` struct except the back pointer `parser` is
assigned in `Lexer.Reset` (regenerated from lexer.go on every run). -/
theorem reset_assigns_every_field :
    ∀ f ∈ Generated.LexTables.lexerFields, f = "parser" ∨ f ∈ Generated.LexTables.lexerResetAssigns := by
  decide

/-- Both reset entry points of the parser drop the coroutine, the reply and reset the lexer. -/
theorem parser_resets_complete :
    (∀ f ∈ ["next", "stop", "yield", "sendMe", "call:lexer.Reset"], f ∈ Generated.LexTables.parserResetAssigns) ∧
    (∀ f ∈ ["next", "stop", "yield", "sendMe", "call:lexer.Reset", "call:lexer.AddNextStream"],
        f ∈ Generated.LexTables.parserResetAddNewInputAssigns) := by
  decide

/-! ## 3b. History on the REAL protocol: the suspended coroutine of a failed parse

`reset_forgets` above is about the delivery model in which an unfinished parse simply ends. The Go
parser keeps it as a suspended coroutine, and `Reset`/`ResetAddNewInput`/`Stop` let it run to its
end (`Model/Abandon`: `residual`, `stopNow`, `unwind`). The statements below are about the parser
driven call by call (`PSt`), for EVERY parser state: any lexer state, any reply accumulator and
ANY suspended program (also programs that are not the parser's). -/

/-- the parser model with the stop-annotations erased is the parser model of `Model/Parser` -/
theorem annotated_parser_is_the_parser (f : Nat) : (S.topLoop f).erase = topLoop f := erase_topLoop f

/-- a coroutine stays suspended exactly when `ParseTokens` answers "more input needed"; it is
blocked in a waiting instruction (whose reaction to `stop()` is what `stopNow` executes) -/
theorem suspended_iff_more {α : Type} (p : SProg α) (s : PState) :
    (residual p s).isSome = (run p.erase s).1.isMore ∧ (∀ κ, residual p s = some κ → κ.isWait = true) :=
  residual_iff_more p s

example : (residual (S.topLoop 16) (PSt.fresh.resetAddNewInput "(a (".toList).pstate).isSome = true := by decide +kernel

/-- **The kept coroutine is the rest of the parse.** Whenever a parse rests in a blocked
"more input needed" yield (`suspendA … = (false, κ, v')` on the view of a state with a current
stream and the end of the input not signalled), then (1) the program `PSt.parseTokens` keeps as the
coroutine is `κ`, the answer is `more` and the state it leaves is `v'`; (2) `v'` has no input left;
(3) resuming `κ` on any further input `more` is running the ORIGINAL program on the input followed
by `more`, whatever end-of-input mark the continuation carries. For every program. (With
`annotated_parser_is_the_parser` and `run_view`: an unfinished text continued by `NewInput` parses
as the concatenation; what `Stop`/`Reset` unwind is that same program.) -/
theorem suspended_program_is_rest_of_run {α : Type} (p : SProg α) (s : PState) (hi : Parser.Inv s)
    (hfin : (view s).fin = false) (κ : SProg α) (v' : View) (h : suspendA p (view s) = some (false, κ, v')) :
    (residual p s = some κ ∧ view (run p.erase s).2 = v' ∧ (run p.erase s).1.isMore = true) ∧
    v'.runes = [] ∧
    ∀ more fin', runA p.erase ⟨(view s).core, (view s).runes ++ more, (view s).exprs, fin'⟩ =
      runA κ.erase ⟨v'.core, more, v'.exprs, fin'⟩ :=
  ⟨residual_of_suspendA p s hi κ v' h, resume_is_rest_of_run p (view s) hfin false κ v' h⟩

example : ∃ κ v', suspendA (S.topLoop 16) (view (PSt.fresh.resetAddNewInput "(a (".toList).pstate) = some (false, κ, v') := by
  have h : ((suspendA (S.topLoop 16) (view (PSt.fresh.resetAddNewInput "(a (".toList).pstate)).map (·.1)) = some false := by
    decide +kernel
  obtain ⟨⟨e, κ, v'⟩, h1, h2⟩ := Option.map_eq_some_iff.mp h
  exact ⟨κ, v', by rw [h1]; simp only at h2; rw [h2]⟩

/-- **`abandoned_parse_consumes_nothing`.** After `ResetAddNewInput(piece)` the input of the
lexer is exactly `piece`, every other lexer field is as in a new lexer, the reply accumulator is
empty and no coroutine is left — whatever parse was suspended, wherever it was suspended: the
coroutine unwinds BEFORE the lexer is reset and given the new text, so all it reads and all it
appends to the reply is discarded. -/
theorem abandoned_parse_consumes_nothing (p : PSt) (piece : List Char) :
    (p.resetAddNewInput piece).lex.pending = piece ∧
    (p.resetAddNewInput piece).lex.toLexCore = LexCore.init ∧
    (p.resetAddNewInput piece).lex.finished = false ∧
    (p.resetAddNewInput piece).exprs = [] ∧
    (p.resetAddNewInput piece).co.isNone = true := by
  obtain ⟨h1, h2, _, h4⟩ := resetAddNewInput_view (p.stop).lex piece
  exact ⟨h1, h2, h4, rfl, rfl⟩

/-- a state with a parse suspended right after a nested `(` (the text `(a (`) -/
def suspendedAfter (t : String) : PSt := ((PSt.fresh.resetAddNewInput t.toList).parseTokens 64).2.2

example : (suspendedAfter "(a (").co.isSome = true := by decide +kernel

/-- every reset route of the API leads to ONE state, that of a new parser given the text -/
theorem start_forgets (p : PSt) (r : Route) (hr : r.isReset = true) (hr' : r ≠ .resetAddLexerFirst ∧ r ≠ .resetNewLexerFirst)
    (piece : List Char) : p.start r piece = PSt.fresh.start .resetAdd piece := by
  cases r <;> simp_all [Route.isReset, PSt.start, PSt.resetAddNewInput, PSt.reset, PSt.newInput, PSt.stop, PSt.fresh,
    reset_eq_init]

/-- **`protocol_reset_forgets`.** A text brought to a used parser by any reset route (piece 1 by
the route, the others with `NewInput`, `ParseTokens` after each, `EndInput`, `ParseTokens`) gives
the statuses and expressions a new parser gives — after any history, with any parse suspended. -/
theorem protocol_reset_forgets (F : Nat) (p : PSt) (r : Route) (hr : r.isReset = true)
    (hr' : r ≠ .resetAddLexerFirst ∧ r ≠ .resetNewLexerFirst) (cs : List (List Char)) :
    (p.parseBy F r cs).1 = (PSt.fresh.parseBy F .resetAdd cs).1 := by
  unfold PSt.parseBy
  simp only [start_forgets p r hr hr']

example : Route.resetNew.isReset = true ∧ Route.resetNew ≠ .resetAddLexerFirst ∧ Route.resetNew ≠ .resetNewLexerFirst := by decide

/-- **The other statement order is wrong** (what the model says about a refactoring that resets
the lexer first and stops the coroutine afterwards): the dying parse of `(a (` reads the whole next
text `b) c d`; after `(a b` (it waits in `ParserPeekNextToken`) and after a lone `(` nothing is read. -/
theorem lexer_first_counterexample :
    ((suspendedAfter "(a (").resetAddNewInputLexerFirst "b) c d".toList).lex.pending = [] ∧
    ((suspendedAfter "(a b").resetAddNewInputLexerFirst "b) c d".toList).lex.pending = "b) c d".toList ∧
    ((suspendedAfter "(").resetAddNewInputLexerFirst "b) c d".toList).lex.pending = "b) c d".toList := by
  decide +kernel

/-- … and so is replacing the reply accumulator before the coroutine is stopped: the dying parse of
`%(` appends `(quote <end>)` to the NEW reply. -/
theorem reply_first_counterexample :
    ((suspendedAfter "%(").exec "1".toList [.clearReply, .stop, .lexReset, .lexAdd]).exprs.length = 1 ∧
    ((suspendedAfter "%(").resetAddNewInput "1".toList).exprs.length = 0 := by
  decide +kernel

/-- Every order of the four steps that respects the protocol rule gives the state of
`PSt.resetAddNewInput` / `PSt.reset`. -/
theorem good_orders_agree (p : PSt) (piece : List Char) :
    (∀ l ∈ resetAddOrders, p.exec piece l = p.resetAddNewInput piece) ∧
    (∀ l ∈ resetOrders, p.exec piece l = p.reset) := by
  have hco : p.stop.co = none := by unfold PSt.stop; split <;> rfl
  simp [resetAddOrders, resetOrders, PSt.exec, PSt.step, PSt.resetAddNewInput, PSt.reset, LexState.reset, hco]

/-- all insertions of `x` into a list; all permutations of a list (core has none) -/
def insertAll {α : Type} (x : α) : List α → List (List α)
  | [] => [[x]]
  | y :: ys => (x :: y :: ys) :: (insertAll x ys).map (y :: ·)

def perms {α : Type} : List α → List (List α)
  | [] => [[]]
  | x :: xs => (perms xs).flatMap (insertAll x)

example : (perms [1, 2, 3]).length = 6 ∧ (perms [Step.stop, .clearReply, .lexReset, .lexAdd]).length = 24 := by decide

/-- `resetAddOrders`/`resetOrders` are exactly the permutations of the steps that satisfy the rule -/
theorem good_orders_are_the_rule :
    ((perms [Step.stop, .clearReply, .lexReset, .lexAdd]).filter Step.okOrder).all (· ∈ resetAddOrders) = true ∧
    resetAddOrders.all Step.okOrder = true ∧
    ((perms [Step.stop, .clearReply, .lexReset]).filter Step.okOrder).all (· ∈ resetOrders) = true ∧
    resetOrders.all Step.okOrder = true := by
  decide

/-- **Table fact (T1): the protocol rule on the statements of parser.go.** The order of the
statements of `Parser.Reset` and `Parser.ResetAddNewInput` (helper methods inlined), regenerated
on every run, reduced to the four steps, is one of the orders for which `good_orders_agree` proves
the model's result. -/
theorem reset_stops_coroutine_first :
    Generated.ResetOrder.parserResetAddNewInput.filterMap stepOf ∈ resetAddOrders ∧
    Generated.ResetOrder.parserReset.filterMap stepOf ∈ resetOrders := by
  first
    | decide
    | fail "PROTOCOL RULE BROKEN (C13, history independence) in zygo/parser.go Parser.Reset / Parser.ResetAddNewInput: the suspended coroutine of an unfinished parse must be stopped (p.stop()) BEFORE p.lexer.Reset() / p.lexer.AddNextStream(s) and BEFORE p.sendMe is replaced. iter.Pull's stop() lets the coroutine run to its end; the wait loops of ParseList/ParseArray/ParseInfix/ParseBlockComment/ParseBacktickString answer the stopped yield with (SexpEnd, nil) and their callers go on peeking at the lexer, so a lexer that already holds the next text is read by the dying parse (Model/Abandon.unwind; Props/C13.lexer_first_counterexample, reply_first_counterexample). See Generated/ResetOrder.lean for the order found."

/-- nothing in `l` before the first `"call:stop"` is `x` -/
def notBeforeStop (x : String) (l : List String) : Bool := !((l.takeWhile (· != "call:stop")).contains x)

/-- **Table fact (T1), second rule.** `p.yield` is the function the parser functions call to ask
for more input; the unwinding coroutine still calls it (`parser.yield(parser.sendMe)` in every
wait loop it passes). It is not part of the model's state, so the rule is stated on the table:
it is cleared only after the coroutine has been stopped. -/
theorem yield_cleared_after_stop :
    notBeforeStop "assign:yield" Generated.ResetOrder.parserReset = true ∧
    notBeforeStop "assign:yield" Generated.ResetOrder.parserResetAddNewInput = true ∧
    notBeforeStop "assign:yield" Generated.ResetOrder.parserStop = true := by
  first
    | decide
    | fail "PROTOCOL RULE BROKEN (C13, history independence) in zygo/parser.go Parser.Reset / ResetAddNewInput / Stop: p.yield must not be cleared before p.stop() has run: the stopped coroutine of an unfinished parse still calls parser.yield(...) in every wait loop it unwinds through (a nil function there is a host panic in the middle of the next load). See Generated/ResetOrder.lean for the order found."

/-- `Stop` stops the coroutine too (used by `Close`) -/
theorem stop_stops : "call:stop" ∈ Generated.ResetOrder.parserStop := by decide

/-- **Full statement, proved in part** (compared on every `parse h` op: the driver computes both and
answers `MODELS-DISAGREE` when they differ): the parser driven call by call gives what the
delivery model of `Model/Parser` (pieces known in advance) gives, so `parse_chunks_eq_whole`
transfers to the call-by-call protocol. Proved: `stepwise_is_run_partial` below (status and
expressions, for every parser state, every chunking, every fuel `F ≥ fuelFor cs`, whenever the parse
of the text is not an error) on top of `annotated_parser_is_the_parser`, `suspended_iff_more`,
`suspended_program_is_rest_of_run` and `run_fuel_mono`; `stepwise_is_run_until_done` (any outcome, no
`done` before the last call); `stepwise_is_run_of_fuel` (`FuelIsEnough → StepwiseIsRun`). Missing:
`FuelIsEnough` itself — see `stepwise_is_run_partial`. -/
def StepwiseIsRun : Prop :=
  ∀ (p : PSt) (cs : List (List Char)),
    let r := (p.parseBy (fuelFor cs) .resetAdd cs).1
    r.status = (parseChunks cs).status ∧ r.exprs = (parseChunks cs).exprs ∧ r.trace = (parseChunks cs).trace

/-- **`run_fuel_mono`.** What `fuel` bounds in the model is the depth of the recursive descent
(`parseExprTok` … `parseBacktick`, `skipComments`) plus the number of top-level expressions
(`topLoop`); the Go code has no such bound. The model has NO separate timeout outcome: at fuel 0
every function is `fail`, the outcome of a parse error (`Status.err`). So fuel can only turn a
result into an error, never into another result: a parse that does not end in an error is, with any
larger fuel, the same parse — same outcome, same final state (lexer, reply, trace). For every state.
(`Proofs/Stepwise`: `Prog.le` = "the same program with subtrees cut off by `fail`", `fuelLe`: the
eight mutually recursive functions at fuel `f` are below those at `f + 1`, `run_le`.) -/
theorem run_fuel_mono (f g : Nat) (h : f ≤ g) (s : PState) (hne : (run (topLoop f) s).1 ≠ .stop .err) :
    run (topLoop g) s = run (topLoop f) s :=
  Parser.run_fuel_mono f g h s hne

/-- did the run end in the error outcome? -/
def endsInErr {α : Type} : Fin α → Bool
  | .stop .err => true
  | _ => false

example : (run (topLoop 3) (initState LexState.init ["1 ".toList])).1 ≠ .stop .err := by
  have h2 : endsInErr (run (topLoop 3) (initState LexState.init ["1 ".toList])).1 = false := by decide +kernel
  intro h
  rw [h] at h2
  exact absurd h2 (by decide)

/-- the status a run stands for (as in `parseChunksFrom`) -/
theorem status_of_run (l : LexState) (cs : List (List Char)) :
    (parseChunksFrom l cs).status =
      statusOf (runA (topLoop (fuelFor cs)) ⟨LexCore.init, cs.flatten ++ eofPiece, [], true⟩).1 := by
  rw [(parseChunksFrom_eq_abstract l cs).1]
  cases (runA (topLoop (fuelFor cs)) ⟨LexCore.init, cs.flatten ++ eofPiece, [], true⟩).1 <;> rfl

/-- **`stepwise_is_run_partial`: the call-by-call protocol computes `parseChunks`** — final status,
expressions AND the statuses of all intermediate calls — for EVERY parser state `p` (any lexer
state, any reply, any suspended coroutine, also one that is not the parser's), EVERY list of pieces,
and every per-iterator fuel `F` not below the fuel of the delivery model, whenever the parse of the
text does not end in an error (status `done` or `more`). The pieces are delivered by
`ResetAddNewInput`/`NewInput`, `ParseTokens` after each, `EndInput`, `ParseTokens`; a call that
answers `more` keeps its coroutine (`residual`) and the next call resumes it; a call that answers
`done` ends its `ParsingIter` and the next call starts a NEW one with NEW fuel `F` — the step over a
`done` is closed by `run_fuel_mono`: the rest of the delivery-model run (which has less fuel left) is
not an error, so it is the run of the new iterator. With `parse_chunks_eq_whole`: on the real
protocol too, a non-error parse depends only on the text.
Status and expressions: `Proofs/Stepwise.parseBy_abstract` (on the abstract views: `suspendA`
characterised against `runA`, the shape `TL` of the programs the protocol ever holds, `call_step`).
Trace: `Proofs/StepwiseTrace.parseBy_trace` (on the concrete interpreter: `run_split` splits a run
with pieces still to come at the first delivery, `first_step`, `chunk_trace`).

What is missing from `StepwiseIsRun`: parses that END IN AN ERROR after some call answered `done`.
There the statement needs "the fuel of the delivery model is enough" (`4 * length + 16` against at
most 3 per token + 1 per top-level expression), because fuel exhaustion and a syntax error are one
outcome in the model (`FuelIsEnough` below, stated, not proved; `stepwise_is_run_of_fuel` proves
`FuelIsEnough → StepwiseIsRun`). Without a `done` before the error it is proved
(`stepwise_is_run_until_done`). The driver still computes both models on every `parse h` op
(`MODELS-DISAGREE`). -/
theorem stepwise_is_run_partial (p : PSt) (cs : List (List Char)) (F : Nat) (hF : fuelFor cs ≤ F)
    (hne : (parseChunks cs).status ≠ .err) :
    (p.parseBy F .resetAdd cs).1.status = (parseChunks cs).status ∧
    (p.parseBy F .resetAdd cs).1.exprs = (parseChunks cs).exprs ∧
    (p.parseBy F .resetAdd cs).1.trace = (parseChunks cs).trace := by
  have hst := status_of_run LexState.init cs
  have hex := (parseChunksFrom_eq_abstract LexState.init cs).2
  have hne0 : (runA (topLoop (fuelFor cs)) ⟨LexCore.init, cs.flatten ++ eofPiece, [], true⟩).1 ≠ .stop .err := by
    intro h
    apply hne
    unfold parseChunks
    rw [hst, h]; rfl
  have hmono := runA_fuel_mono (fuelFor cs) F hF _ hne0
  obtain ⟨a1, a2⟩ := parseBy_abstract F p cs _ hmono hne0
  refine ⟨?_, ?_, parseBy_trace F p cs hF hne⟩
  · unfold parseChunks; exact a1.trans hst.symm
  · unfold parseChunks; exact a2.trans hex.symm

/-- **Stated, NOT proved: the fuel of the delivery model is enough** — the one fact `StepwiseIsRun`
still needs: the parse of a text with the fuel `fuelFor` is the parse with any larger fuel, ALSO when
it ends in an error (i.e. that error is a syntax error, never the fuel). Proving it needs a
potential argument over the eight mutually recursive functions (fuel spent ≤ 3 per token consumed
+ 1 per top-level expression) and over the lexer (tokens produced ≤ runes read + 1). For parses that
do not end in an error it is `run_fuel_mono`. -/
def FuelIsEnough : Prop :=
  ∀ (cs : List (List Char)) (F : Nat), fuelFor cs ≤ F →
    run (topLoop F) (initState LexState.init cs) = run (topLoop (fuelFor cs)) (initState LexState.init cs)

/-- a 3-piece delivery: the first piece is complete (`done`, a new `ParsingIter` follows), the
middle piece is unfinished (`more`, a coroutine is kept), the third closes it -/
def threePieces : List (List Char) := ["1 ".toList, "(a".toList, " b)".toList]

example : (parseChunks threePieces).status ≠ .err ∧
    (PSt.fresh.parseBy (fuelFor threePieces) .resetAdd threePieces).1.trace = [.done, .more, .done] ∧
    (parseChunks threePieces).exprs.length = 2 := by decide +kernel

example : (PSt.fresh.parseBy (fuelFor threePieces) .resetAdd threePieces).1.exprs = (parseChunks threePieces).exprs :=
  (stepwise_is_run_partial PSt.fresh threePieces _ (Nat.le_refl _) (by decide +kernel)).2.1

/-- … and with it what the delivery model records for these pieces -/
example : (parseChunks threePieces).trace = [.done, .more, .done] := by
  rw [← (stepwise_is_run_partial PSt.fresh threePieces _ (Nat.le_refl _) (by decide +kernel)).2.2]
  decide +kernel

/-- **`stepwise_is_run_of_fuel`: `FuelIsEnough → StepwiseIsRun`** — the whole of what is missing is
a statement about the delivery model alone. Per text (`Proofs/StepwiseFuel.stepwise_of_fuel`): if the
run of the delivery model on `cs` is the same run with every larger fuel, then from EVERY parser
state, with every per-iterator fuel `F ≥ fuelFor cs`, the protocol gives the status, the expressions
and the trace of `parseChunks cs`, WHATEVER the outcome (errors after a `done` included).
Idea: seen from the delivery model, the protocol after its i-th `done` is the delivery model started
with more fuel `G ≥ F` — every stage of the protocol is a stage of `run (topLoop G) t0`, uniformly in
a further shift `d` of all fuel indices (`Shift`, `stage_ok`: a shifted program rests at the same
state in the shifted rest; `S_topLoop_inj`: the fuel index of the rest is exact), and an error inside
a piece ends both the same way (`run_split_none`, `stage_err`). -/
theorem stepwise_is_run_of_fuel (h : FuelIsEnough) : StepwiseIsRun := by
  intro p cs
  exact stepwise_of_fuel cs (fuelFor cs) (Nat.le_refl _) (fun G hG => h cs G hG) p

/-- the per-text form, with any per-iterator fuel -/
theorem stepwise_is_run_for_text (cs : List (List Char)) (F : Nat) (hF : fuelFor cs ≤ F)
    (hfe : ∀ G, fuelFor cs ≤ G → run (topLoop G) (initState LexState.init cs) =
      run (topLoop (fuelFor cs)) (initState LexState.init cs)) (p : PSt) :
    (p.parseBy F .resetAdd cs).1.status = (parseChunks cs).status ∧
    (p.parseBy F .resetAdd cs).1.exprs = (parseChunks cs).exprs ∧
    (p.parseBy F .resetAdd cs).1.trace = (parseChunks cs).trace :=
  stepwise_of_fuel cs F hF hfe p

/-- the hypothesis holds for every text whose parse is not an error (`run_fuel_mono`) -/
example : ∀ G, fuelFor threePieces ≤ G → run (topLoop G) (initState LexState.init threePieces) =
    run (topLoop (fuelFor threePieces)) (initState LexState.init threePieces) := by
  intro G hG
  refine run_fuel_mono _ _ hG _ ?_
  have h2 : endsInErr (run (topLoop (fuelFor threePieces)) (initState LexState.init threePieces)).1 = false := by
    decide +kernel
  intro h
  rw [h] at h2
  exact absurd h2 (by decide)

/-- **`stepwise_is_run_until_done`**: with the fuel of the delivery model, as long as no
`ParseTokens` call before the last answers `done` (every piece but the last leaves the text
unfinished: the coroutine is resumed, no new `ParsingIter`, so no new fuel), the call-by-call
protocol gives the status, the expressions and the trace of `parseChunks` WHATEVER the outcome — also
when the parse ends in an error (a syntax error in any piece, or the fuel of the model).
(`Proofs/StepwiseFuel.stages`: the fuel `G` with which the delivery model passes through the stages of
the protocol changes only at a `done`.) -/
theorem stepwise_is_run_until_done (p : PSt) (cs : List (List Char))
    (hnd : Status.done ∉ (p.parseBy (fuelFor cs) .resetAdd cs).1.trace) :
    (p.parseBy (fuelFor cs) .resetAdd cs).1.status = (parseChunks cs).status ∧
    (p.parseBy (fuelFor cs) .resetAdd cs).1.exprs = (parseChunks cs).exprs ∧
    (p.parseBy (fuelFor cs) .resetAdd cs).1.trace = (parseChunks cs).trace :=
  stepwise_nodone cs p hnd

/-- three pieces, the first two unfinished, a syntax error in the third: `(a [b )` — `)` where `]` is due -/
def threeBad : List (List Char) := ["(a ".toList, "[b ".toList, ")".toList]

example : (PSt.fresh.parseBy (fuelFor threeBad) .resetAdd threeBad).1.trace = [.more, .more] ∧
    (parseChunks threeBad).status = .err := by decide +kernel

/-- the hypothesis of `stepwise_is_run_until_done` holds for it, and the theorem gives the error -/
example : (PSt.fresh.parseBy (fuelFor threeBad) .resetAdd threeBad).1.status = .err := by
  rw [(stepwise_is_run_until_done PSt.fresh threeBad (by decide +kernel)).1]
  decide +kernel

/-- … and the same after any history, by any reset route (`protocol_reset_forgets`) -/
theorem stepwise_is_run_after_history (p : PSt) (r : Route) (hr : r.isReset = true)
    (hr' : r ≠ .resetAddLexerFirst ∧ r ≠ .resetNewLexerFirst) (cs : List (List Char)) (F : Nat)
    (hF : fuelFor cs ≤ F) (hne : (parseChunks cs).status ≠ .err) :
    (p.parseBy F r cs).1.status = (parseChunks cs).status ∧ (p.parseBy F r cs).1.exprs = (parseChunks cs).exprs ∧
    (p.parseBy F r cs).1.trace = (parseChunks cs).trace := by
  rw [protocol_reset_forgets F p r hr hr' cs]
  exact stepwise_is_run_partial PSt.fresh cs F hF hne

/-! ## 4. The last token is kept -/

/-- **`last_token_kept`.** End of input is a final newline (`Parser.EndInput`). In the normal
state a pending atom is then either queued as the last token (nothing stays in the buffer)
or reported as an error; it is never dropped. -/
theorem last_token_kept (s : LexCore) (h : s.state = .normal) (hb : s.buffer ≠ []) :
    match step s '\n', decodeAtom s.buffer with
    | .ok s', .ok tok => s'.tokens = s.tokens ++ [tok] ∧ s'.buffer = [] ∧ s'.state = .normal
    | .err e _, .error e' => e = e'
    | _, _ => False := by
  have hbe : s.buffer.isEmpty = false := by
    cases hbuf : s.buffer with
    | nil => exact absurd hbuf hb
    | cons a b => rfl
  cases hd : decodeAtom s.buffer with
  | ok tok => simp [step, stepMode, h, stepNormal, thenDump, dumpBuffer, hbe, hd, appendToken]
  | error e => simp [step, stepMode, h, stepNormal, thenDump, dumpBuffer, hbe, hd]

example : ∃ s : LexCore, s.state = .normal ∧ s.buffer ≠ [] :=
  ⟨{ LexCore.init with buffer := ['4', '2'] }, rfl, by decide⟩

/-- A pending line comment is closed by the end of input as well. -/
theorem last_comment_kept (s : LexCore) (h : s.state = .commentLine) :
    match step s '\n' with
    | .ok s' => s'.tokens = s.tokens ++ [⟨.comment, s.buffer⟩] ∧ s'.buffer = [] ∧ s'.state = .normal
    | .err _ _ => False := by
  simp [step, stepMode, h, dumpAs, appendToken]

/-! ## 5. "more" exactly for unfinished prefixes -/

/-- parse of a prefix: no end of input signalled -/
def parsePrefix (t : List Char) : Status :=
  match run (topLoop (fuelFor [t])) { lex := resetAddNewInput LexState.init t, fut := [] } with
  | (.ret _, _) => .done
  | (.stop st, _) => st

/-- **`more_iff_unfinished`, full statement** (NOT proved in general; it is compared on every
generated input by the `parse` channel: impl status vs this specification). Two clauses: for a
prefix (the end of the input not signalled) and for the finished text. There is no exception
for a trailing sign any more (repo fix C13-02): the finished text `- ` is done; only as a prefix
is a trailing top-level sign unfinished (`Spec.UnfinishedPrefix`: the token that follows
decides between the symbol and `-Inf`). -/
def MoreIffUnfinished : Prop :=
  (∀ t : List Char, ∀ u : Bool, Spec.UnfinishedPrefix t = some u → parsePrefix t ≠ .err →
    (parsePrefix t = .more ↔ u = true)) ∧
  (∀ t : List Char, ∀ u : Bool, Spec.Unfinished (t ++ eofPiece) = some u → (parseChunks [t]).status ≠ .err →
    ((parseChunks [t]).status = .more ↔ u = true))

/-- partial: at top level the parser answers `more` at the end of the input exactly when
the lexer is inside a string or rune literal; with tokens queued it never stops. -/
theorem top_level_more_iff_literal (c : LexCore) (ex : List Sexp) (fin : Bool) (h : c.tokens = []) :
    topGetA ex fin [] c = .finished (if inLiteral c then .more else .done) ⟨c, [], ex, fin⟩ := by
  simp [topGetA, h]

/-- is the token a lone `+` or `-`? -/
def isSign (t : Token) : Bool := t.typ == .symbol && (t.str == ['-'] || t.str == ['+'])

/-- partial (repo fix C13-02): **a sign at the end of a finished input never waits.** When every
rune has been read, no token is queued and the end of the input has been signalled, the
expression that starts with a lone `+`/`-` is that symbol — in every lexer state, at every depth. -/
theorem sign_at_end_of_finished_input (c : LexCore) (ex : List Sexp) (t : Token) (f : Nat)
    (ht : isSign t = true) (h : c.tokens = []) :
    runA (parseExprTok (f + 1) t) ⟨c, [], ex, true⟩ = (.ret (.sym t.str false false), ⟨c, [], ex, true⟩) := by
  obtain ⟨ty, str⟩ := t
  simp only [isSign, Bool.and_eq_true, beq_iff_eq] at ht
  obtain ⟨hty, hstr⟩ := ht
  subst hty
  have hs : (str == ['-'] || str == ['+']) = true := by simpa using hstr
  unfold parseExprTok
  simp only [hs, ↓reduceIte, bind, signPeek, Prog.bind, runA, peekWaitA, headIf, h, List.length_nil,
    Nat.lt_irrefl, Bool.and_self, Token.endTk]
  rfl

/-- … and while the end has not been signalled it waits: the token that follows may be `Inf`. -/
theorem sign_at_end_of_unfinished_input (c : LexCore) (ex : List Sexp) (t : Token) (f : Nat)
    (ht : isSign t = true) (h : c.tokens = []) :
    runA (parseExprTok (f + 1) t) ⟨c, [], ex, false⟩ = (.stop .more, ⟨c, [], ex, false⟩) := by
  obtain ⟨ty, str⟩ := t
  simp only [isSign, Bool.and_eq_true, beq_iff_eq] at ht
  obtain ⟨hty, hstr⟩ := ht
  subst hty
  have hs : (str == ['-'] || str == ['+']) = true := by simpa using hstr
  unfold parseExprTok
  simp only [hs, ↓reduceIte, bind, signPeek, Prog.bind, runA, peekWaitA, headIf, h, List.length_nil,
    Nat.lt_irrefl, Bool.and_false, Bool.false_eq_true]

example : isSign ⟨.symbol, ['-']⟩ = true := by decide

/-- Before the fix there was no end-of-input mark: on a state in which it is never set
(`Legacy.Parser.initState`) the look-ahead after a sign IS `ParserPeekNextToken(0)`. -/
theorem legacy_signPeek_is_waitPeek (extra fuel : Nat) (s : PState) (h1 : s.lex.finished = false) (h2 : s.eof = false) :
    peekWaitRun true extra fuel s = peekWaitRun false extra fuel s := by
  induction fuel generalizing s with
  | zero => rfl
  | succ n ih =>
    have hdel : ∀ p fut st, (s.deliver p fut st).lex.finished = false ∧ (s.deliver p fut st).eof = false := by
      intro p fut st; simp [PState.deliver, h2]
    unfold peekWaitRun
    split
    · cases hf : s.fut with
      | nil => simp [h1]
      | cons p fut => exact ih _ (hdel p fut .more).1 (hdel p fut .more).2
    · split
      · rfl
      · cases hr : readRune s.lex (s.lex.next.length + 1) with
        | some cl =>
          obtain ⟨c, l⟩ := cl
          have hfin := (readRune_some _ _ _ _ hr).2.2.2.2
          simp only
          cases hst : l.step c with
          | ok l' =>
            have := ((step_fields l c).1 l' hst).2.2.2
            exact ih { s with lex := l' } (by simp [this, hfin, h1]) h2
          | err e l' => rfl
        | none =>
          simp only
          cases hf : s.fut with
          | nil => simp [h1]
          | cons p fut => exact ih _ (hdel p fut .more).1 (hdel p fut .more).2

example : (Legacy.Parser.initState LexState.init [['-']]).lex.finished = false ∧
    (Legacy.Parser.initState LexState.init [['-']]).eof = false := by decide

/-- the one expression of a parse is the plain symbol `n` -/
def isOneSym (r : Result) (n : List Char) : Bool :=
  match r.exprs with
  | [.sym m false false] => m == n
  | _ => false

/-- the one expression of a parse is the float with bit pattern `b` -/
def isOneFloat (r : Result) (b : Nat) : Bool :=
  match r.exprs with
  | [.float m false] => m == b
  | _ => false

/-- the recorded finding, on the pre-fix behaviour: the finished texts `- ` and `+ ` answered
`more` (and no expression) -/
theorem lone_sign_counterexample :
    (Legacy.Parser.parseChunks ["- ".toList]).status = .more ∧ (Legacy.Parser.parseChunks ["+ ".toList]).status = .more ∧
    (Legacy.Parser.parseChunks ["- ".toList]).exprs.length = 0 := by
  decide +kernel

/-- repaired: the finished texts `- ` and `+ ` are done and yield the symbol; as a prefix `- `
waits, and `- ` followed by the piece `Inf` is the one float -Inf, as for the whole text `- Inf`
(what chunk independence demands of the prefix) -/
theorem lone_sign_fixed :
    (parseChunks ["- ".toList]).status = .done ∧ isOneSym (parseChunks ["- ".toList]) ['-'] = true ∧
    (parseChunks ["+ ".toList]).status = .done ∧ isOneSym (parseChunks ["+ ".toList]) ['+'] = true ∧
    parsePrefix "- ".toList = .more ∧
    isOneFloat (parseChunks ["- ".toList, "Inf".toList]) 0xfff0000000000000 = true ∧
    isOneFloat (parseChunks ["- Inf".toList]) 0xfff0000000000000 = true := by
  decide +kernel

/-! ## 6. Tables regenerated from the source -/

theorem token_types_match : Generated.LexTables.tokenTypes = tokTypeNames := by decide
theorem lexer_states_match : Generated.LexTables.lexerStates = modeNames := by decide

/-- the regular expressions declared in lexer.go are, name by name and character by
character, the ones the recognisers of Model/Lexer were written for -/
theorem regex_sources_match : Generated.LexTables.regexes = regexSources := rfl

theorem escape_cases_match : Generated.LexTables.escapeCases = escapeTable := by decide

theorem escape_table_is_model :
    ∀ p ∈ escapeTable, escapeChar (Char.ofNat p.1) = some (Char.ofNat p.2) := by decide

theorem can_start_set_match : Generated.LexTables.canStartSet = canStartTable := by decide

theorem can_start_table_is_model :
    ∀ n ∈ canStartTable, canStartSignedNumberAfter (Char.ofNat n) = true := by decide

theorem tok_type_numbering : tokTypeNames.length = 38 ∧ TokType.tEnd.toNat = 37 ∧ modeNames.length = 16 := by decide

end ZygoVerif.Props.C13
