/-
C02 — evaluation matches the reference semantics.

Full-strength statement (`CompileCorrect`): for every well-formed core program, every
history prefix and enough fuel, the VM model (`VM.runText`: model of LoadExpressions + Run
on the model of the generator) and the reference evaluator (`Ref.runProgram`) report the same
outcome class, printed value and trace.

What is proved here (all unbounded in the size and nesting of the program).

Layout half — about the very functions `Model/Gen.lean`'s `compile` calls to lay out code
(the generator has no other jump arithmetic):

* `gen_begin_pops_between`      — `GenerateBegin` puts exactly one `pop` between statements;
* `gen_cond_targets`            — in the code of a `cond` with any number of arms, the
                                  `brn` of arm *i* lands exactly on the first instruction of
                                  arm *i+1* (or of the default) and the `jump` that ends the
                                  body of arm *i* lands exactly behind the whole `cond`;
* `gen_shortcircuit_targets`    — in `and`/`or` with any number of arms, every `br` lands
                                  exactly behind the whole form, after a `dup` and before a `pop`;
* `gen_for_layout`              — the layout of a `for` loop and its four offsets: the jump
                                  to the test, the exit branch, the back jump, and the
                                  `break`/`continue` offsets stored in the loop record.

Execution half (lemmas in `Proofs/Sim*.lean`) — about `VM.runLoop`/`VM.exec`/`VM.run`/`VM.runText`
and `Ref.eval`/`Ref.runProgram` themselves:

* `vm_runLoop_step`, `vm_simple_instructions` — one turn of the `Run` loop; `push pop dup jump
                                  goto branch` as state transformers (all cases);
* `segment_lemma_F0c`           — the code of an F0c expression, embedded at any offset of any
                                  function, pushes exactly the value of the reference evaluator
                                  within `code.length` instructions and changes nothing else;
* `F0c_total`                   — `compile` and `Ref.eval` are total on F0c (explicit bounds);
* `compile_correct_F0c`         — for F0c programs, with explicit fuel on both sides,
                                  `obsOfVM (runText …) = obsOfRef (runProgram …)` and it is a value;
* `compile_correct_on_F0c`      — `CompileCorrect` restricted to F0c, in its own vocabulary.

* `segment_lemma_Fv`            — Stages C/D: the same for Fv = F0c + symbols + `def` + `set` +
                                  `newScope` + `letseq` + `let` (distinct names), with the
                                  simulation relation between VM scopes / linear stack and
                                  reference frames / static chain; values and errors;
* `compile_correct_on_Fv`       — `CompileCorrect` restricted to Fv (values, errors, traces).

* `segment_lemma_Fc`            — Stage D: the same for Fc = Fv (binder names not builtin names) +
                                  calls of first-order builtins; operands are compiled at run time
                                  and evaluated in nested `Run`s;
* `compile_correct_on_Fc`       — `CompileCorrect` restricted to Fc.

* `segment_lemma_Ff`            — F2: expressions with `fn`/`defn` and calls of USER functions by name
                                  (closure objects), under a relation that lets function ids differ
                                  between the two evaluators and the linear stack hold the caller's
                                  scopes;
* `compile_correct_on_F2`       — `CompileCorrect` restricted to F2: `defn`/`fn` of fixed arity at any
                                  depth, closures capturing locals, calls by name, recursion,
                                  functions as values.
* `segment_lemma_Fx`, `compile_correct_on_F2x` — F2 with `break`/`continue` (plain or labelled) in
                                  top-level `for` loops: the simulation gets a non-landing outcome.
* `tail_call_simulates`, `compile_correct_on_F2c` — F2c: self tail calls (`tailGuard`, operands inline,
                                  `prepareCall`, `removeScope`s, `goto 0`): guard passes ⇒ the rest of the
                                  activation is the ordinary application of the same closure; guard fails ⇒
                                  the ordinary call behind the jump.
* `compile_correct_on_F3lazy`, `lazy_semantics_on_F3lazy` — F3-lazy: F2/F2c with lazy parameters (`#p`) and
                                  `force`: lazy argument object ↔ thunk (`Sim.LzOk`), `Force` (compile at force
                                  time, helper on the captured stack, restore, memo) ↔ `Ref.force`
                                  (`Sim.force_sim`); C16's `LazySemantics` restricted to the fragment.
* `compile_correct_on_F3`       — the same fragments with `apply` and `map` (callee: closure object or Go builtin;
                                  re-entrant calls from the builtin's frame: `Sim.aclaim_succ`, `Sim.hclaims`).

`compile_correct_partial` (below) says what is proved of the semantic statement and names
the unproved remainder (`CompileCorrectOutsideProved`).
-/
import ZygoVerif.Model.Gen
import ZygoVerif.Model.VM
import ZygoVerif.Spec.RefEval
import ZygoVerif.Proofs.SimF0cTop
import ZygoVerif.Proofs.SimFvTop
import ZygoVerif.Proofs.SimFcTop
import ZygoVerif.Proofs.SimF2Top
import ZygoVerif.Proofs.SimF2BrkTop
import ZygoVerif.Proofs.SimF2TailTop
import ZygoVerif.Props.C16
namespace ZygoVerif.C02
open ZygoVerif.Core ZygoVerif.VM

/-! ## Full-strength statement -/

/-- Observable result of one program text, common to both sides. -/
inductive Obs where
  | ok (value : String) (trace : List String)
  | err (trace : List String)
deriving DecidableEq, Repr

def obsOfRef : Ref.Outcome → Option Obs
  | .ok v t => some (.ok v t)
  | .err t => some (.err t)
  | .timeout => none

def obsOfVM : VM.Outcome → Option Obs
  | .done "ok" v t _ => some (.ok v t)
  | .done "err" _ t _ => some (.err t)
  | _ => none

/-- The property, at full strength, for a single text run in the initial interpreter:
whenever the reference evaluator terminates on a well-formed program, the VM model (given
enough fuel) reports the same class, value and trace. -/
def CompileCorrect : Prop :=
  ∀ (p : List Expr), Ref.wfList {} p = true →
    ∀ fuel o, obsOfRef (Ref.runProgram fuel p Ref.initSt).1 = some o →
      ∃ fuel', obsOfVM (VM.runText fuel' p VM.initSt).1 = some o

/-! ## `GenerateBegin`: pops exactly between statements -/

/-- With every statement producing code, the body is the statements' code separated by
single `pop`s — none in front, none behind. -/
theorem gen_begin_pops_between (cs : List (List Instr)) (h : ∀ c ∈ cs, c ≠ []) :
    asmBegin cs = (cs.intersperse [Instr.pop]).flatten := by
  induction cs with
  | nil => rfl
  | cons c rest ih =>
    cases rest with
    | nil => simp [asmBegin]
    | cons c' rest' =>
      have hc : c ≠ [] := h c (by simp)
      have ih' := ih (fun x hx => h x (by simp [hx]))
      have hstep : asmBegin (c :: c' :: rest') = c ++ [Instr.pop] ++ asmBegin (c' :: rest') := by
        simp [asmBegin, hc]
      have hint : (c :: c' :: rest').intersperse [Instr.pop]
          = c :: [Instr.pop] :: (c' :: rest').intersperse [Instr.pop] := rfl
      rw [hstep, ih', hint, List.flatten_cons, List.flatten_cons, List.append_assoc]

/-- Length form: `n` statements cost exactly `n - 1` extra instructions. -/
theorem gen_begin_length (cs : List (List Instr)) (h : ∀ c ∈ cs, c ≠ []) :
    (asmBegin cs).length = (cs.map List.length).sum + (cs.length - 1) := by
  induction cs with
  | nil => rfl
  | cons c rest ih =>
    cases rest with
    | nil => simp [asmBegin]
    | cons c' rest' =>
      have hc : c ≠ [] := h c (by simp)
      have ih' := ih (fun x hx => h x (by simp [hx]))
      have hstep : asmBegin (c :: c' :: rest') = c ++ [Instr.pop] ++ asmBegin (c' :: rest') := by
        simp [asmBegin, hc]
      rw [hstep]
      simp only [List.length_append, List.length_cons, List.length_nil, List.map_cons, List.sum_cons] at ih' ⊢
      omega

example : asmBegin [[Instr.push .nil], [Instr.dup, Instr.pop], [Instr.push (.bool true)]]
    = [Instr.push .nil, .pop, .dup, .pop, .pop, .push (.bool true)] := rfl

/-! ## `GenerateCond`: jump targets land at arm boundaries -/

/-- The code of the later arms is a suffix of the code of the whole `cond`. -/
theorem asmCond_suffix (arms : List (List Instr × List Instr)) (dflt : List Instr) (i : Nat) :
    ∃ pre, asmCond arms dflt = pre ++ asmCond (arms.drop i) dflt := by
  induction i generalizing arms with
  | zero => exact ⟨[], by simp⟩
  | succ n ih =>
    cases arms with
    | nil => exact ⟨[], by simp⟩
    | cons a rest =>
      obtain ⟨pre, hpre⟩ := ih rest
      obtain ⟨p, b⟩ := a
      refine ⟨p ++ [Instr.branch false (b.length + 2)] ++ b ++ [Instr.jump ((asmCond rest dflt).length + 1)] ++ pre, ?_⟩
      simp only [List.drop_succ_cons, asmCond, List.append_assoc]
      rw [← hpre]

/-- For every arm `i` of a `cond` with any number of arms: the whole code splits as
`pre ++ pred ++ [brn k] ++ body ++ [jump j] ++ rest`, where `rest` is the code of the
remaining arms and the default, the `brn` lands exactly on the first instruction of `rest`
and the `jump` exactly behind the whole `cond`. Positions are absolute in the `cond`'s code. -/
theorem gen_cond_targets (arms : List (List Instr × List Instr)) (dflt : List Instr)
    (i : Nat) (hi : i < arms.length) :
    ∃ pre k j,
      let pred := (arms[i]).1
      let body := (arms[i]).2
      let rest := asmCond (arms.drop (i + 1)) dflt
      let code := asmCond arms dflt
      code = pre ++ pred ++ [Instr.branch false k] ++ body ++ [Instr.jump j] ++ rest
      ∧ ((pre ++ pred).length : Int) + k = ((pre ++ pred ++ [Instr.branch false k] ++ body ++ [Instr.jump j]).length : Int)
      ∧ ((pre ++ pred ++ [Instr.branch false k] ++ body).length : Int) + j = (code.length : Int) := by
  obtain ⟨pre, hpre⟩ := asmCond_suffix arms dflt i
  have hdrop : arms.drop i = arms[i] :: arms.drop (i + 1) := by
    rw [List.drop_eq_getElem_cons hi]
  refine ⟨pre, ((arms[i]).2.length + 2 : Nat), ((asmCond (arms.drop (i + 1)) dflt).length + 1 : Nat), ?_, ?_, ?_⟩
  · rw [hpre, hdrop]
    rcases hai : arms[i] with ⟨p, b⟩
    simp [asmCond]
  · simp only [List.length_append, List.length_cons, List.length_nil]
    push_cast
    omega
  · rw [hpre, hdrop]
    rcases hai : arms[i] with ⟨p, b⟩
    simp only [asmCond, List.length_append, List.length_cons, List.length_nil]
    push_cast
    omega

example : asmCond [([Instr.push (.bool false)], [Instr.push .nil])] [Instr.dup]
    = [Instr.push (.bool false), .branch false 3, .push .nil, .jump 2, .dup] := rfl

/-! ## `GenerateShortCircuit`: every branch lands behind the whole form -/

theorem asmSC_suffix (isOr : Bool) (cs : List (List Instr)) (i : Nat) (hi : i < cs.length) :
    ∃ pre, asmSC isOr cs = pre ++ asmSC isOr (cs.drop i) := by
  induction i generalizing cs with
  | zero => exact ⟨[], by simp⟩
  | succ n ih =>
    cases cs with
    | nil => simp at hi
    | cons c rest =>
      cases rest with
      | nil => simp at hi
      | cons c' rest' =>
        obtain ⟨pre, hpre⟩ := ih (c' :: rest') (by simpa using hi)
        refine ⟨c ++ [Instr.dup, Instr.branch isOr ((asmSC isOr (c' :: rest')).length + 2), Instr.pop] ++ pre, ?_⟩
        simp only [List.drop_succ_cons, List.append_assoc]
        rw [← hpre]
        simp [asmSC]

/-- For every non-final arm `i` of an `and`/`or` with any number of arms: the code splits
as `pre ++ arm ++ [dup, br k, pop] ++ rest` and the branch lands exactly behind the whole
form (so the duplicated value is the form's result; on fall-through it is popped). -/
theorem gen_shortcircuit_targets (isOr : Bool) (cs : List (List Instr)) (i : Nat) (hi : i + 1 < cs.length) :
    ∃ pre k,
      let rest := asmSC isOr (cs.drop (i + 1))
      let code := asmSC isOr cs
      code = pre ++ cs[i] ++ [Instr.dup, Instr.branch isOr k, Instr.pop] ++ rest
      ∧ ((pre ++ cs[i] ++ [Instr.dup]).length : Int) + k = (code.length : Int) := by
  obtain ⟨pre, hpre⟩ := asmSC_suffix isOr cs i (by omega)
  have hdrop : cs.drop i = cs[i] :: cs.drop (i + 1) := by
    rw [List.drop_eq_getElem_cons (by omega)]
  have hne : cs.drop (i + 1) ≠ [] := by
    intro h
    have := congrArg List.length h
    simp at this
    omega
  obtain ⟨d, ds, hd⟩ := List.exists_cons_of_ne_nil hne
  refine ⟨pre, ((asmSC isOr (cs.drop (i + 1))).length + 2 : Nat), ?_, ?_⟩
  · rw [hpre, hdrop, hd]
    simp [asmSC]
  · rw [hpre, hdrop, hd]
    simp only [asmSC, List.length_append, List.length_cons, List.length_nil]
    push_cast
    omega

example : asmSC false [[Instr.push (.bool true)], [Instr.push .nil]]
    = [Instr.push (.bool true), .dup, .branch false 3, .pop, .push .nil] := rfl

/-! ## `GenerateForLoop`: layout and offsets -/

/-- The loop's code is
`pre ++ [label] ++ incr ++ [label] ++ test ++ [brn x] ++ [label] ++ body ++ [jump b, label] ++ [clearMark, removeScope, push nil]`
with `pre = [loopStart, addScope, pushMark, label] ++ init ++ [jump t]`, and
* `t` lands on the test label, * `x` on the end label, * `b` on the increment label,
* `continueOffset` is the position of the increment label, `breakOffset` that of `clearMark`
(both relative to `loopStart`, which is instruction 0 of this code). -/
theorem gen_for_layout (l : Nat) (init test incr body : List Instr) :
    ∃ t x b,
      let pre := [Instr.loopStart l, .addScope, .pushMark l, .label] ++ init ++ [Instr.jump t]
      let upToBody := pre ++ [Instr.label] ++ incr ++ [Instr.label] ++ test ++ [Instr.branch false x] ++ [Instr.label] ++ body
      (asmFor l init test incr body).1 = upToBody ++ [Instr.jump b, .label] ++ [Instr.clearMark l, .removeScope, .push .nil]
      ∧ ((pre.length : Int) - 1) + t = ((pre ++ [Instr.label] ++ incr).length : Int)
      ∧ ((pre ++ [Instr.label] ++ incr ++ [Instr.label] ++ test).length : Int) + x = (upToBody.length : Int) + 1
      ∧ (upToBody.length : Int) + b = (pre.length : Int)
      ∧ (asmFor l init test incr body).2.2 = (pre.length : Int)
      ∧ (asmFor l init test incr body).2.1 = (upToBody.length : Int) + 2 := by
  refine ⟨((incr.length + 2 : Nat) : Int), ((body.length + 3 : Nat) : Int), ?_, ?_⟩
  · exact (([Instr.loopStart l, .addScope, .pushMark l, .label] ++ init ++ [Instr.jump ((incr.length + 2 : Nat) : Int)]).length : Int)
      - (([Instr.loopStart l, .addScope, .pushMark l, .label] ++ init ++ [Instr.jump ((incr.length + 2 : Nat) : Int)]
          ++ ([Instr.label] ++ incr ++ [Instr.label] ++ test ++ [Instr.branch false ((body.length + 3 : Nat) : Int)]) ++ [Instr.label] ++ body).length : Int)
  · simp only [asmFor, List.length_append, List.length_cons, List.length_nil, List.append_assoc,
      List.cons_append, List.nil_append]
    push_cast
    refine ⟨?_, ?_, ?_, ?_, ?_, ?_⟩ <;> first | rfl | omega | (simp; omega) | simp

example : (asmFor 0 [Instr.popUntilMark 0] [Instr.push (.bool false)] [Instr.popUntilMark 0] [Instr.popUntilMark 0]).2
    = (15, 6) := by decide

/-! ## The execution half (Proofs/Sim*.lean)

Stage A — machine lemmas: one turn of the `Run` loop, and each simple instruction as a state
transformer. Stage B — the segment lemma and the top-level statement for the pure control
fragment `F0c` (literals, `begin`, `cond` with any number of arms, `and`/`or` of any
arity, nested arbitrarily), for programs of every size and nesting. -/

open ZygoVerif.Sim

/-- One turn of the `Run` loop: with the program counter on instruction `i` of a compiled
function (`code = pre ++ i :: post`, `pc = pre.length`), if `i` executes without fault into
`s'`, the loop continues from `s'` with one unit of fuel less — whatever control state the
enclosing `Run` captured. -/
theorem vm_runLoop_step (s s' : St) (pre : List Instr) (i : Instr) (post : List Instr)
    (huser : (fnOf s s.curfunc).user = false) (hcode : (fnOf s s.curfunc).code = pre ++ i :: post)
    (hpc : s.pc = (pre.length : Int)) (fuel : Nat) (st : CtlState)
    (hx : (exec fuel i).run s = (.ok (), s')) :
    (runLoop (fuel + 1) st).run s = (runLoop fuel st).run s' :=
  runLoop_step ⟨huser, hcode, hpc⟩ fuel st hx

example : ∃ s s' pre i post fuel, (fnOf s s.curfunc).user = false ∧ (fnOf s s.curfunc).code = pre ++ i :: post
    ∧ s.pc = (pre.length : Int) ∧ (exec fuel i).run s = (.ok (), s') :=
  ⟨{ initSt with fns := [{ code := [.push .nil] }] }, _, [], .push .nil, [], 1, rfl, rfl, rfl, exec_push 0 .nil _⟩

/-- The simple instructions as state transformers (all cases of `Execute`, any fuel `≥ 1`):
`push`, `pop` (underflow ignored, nil element = host panic), `dup`, `jump`, `goto`
(target outside `[0, size]` = error), `branch` (pops; taken iff direction = truthiness). -/
theorem vm_simple_instructions (f : Nat) (s : St) :
    (∀ v, (exec (f + 1) (.push v)).run s = (.ok (), { s with data := some v :: s.data, pc := s.pc + 1 }))
    ∧ ((exec (f + 1) .pop).run s = match s.data with
        | [] => (.ok (), { s with pc := s.pc + 1 })
        | none :: _ => (.error .panic, s)
        | some _ :: rest => (.ok (), { s with data := rest, pc := s.pc + 1 }))
    ∧ ((exec (f + 1) .dup).run s = match s.data with
        | [] => (.error .err, s)
        | none :: _ => (.error .panic, s)
        | some v :: _ => (.ok (), { s with data := some v :: s.data, pc := s.pc + 1 }))
    ∧ (∀ off, (exec (f + 1) (.jump off)).run s =
        if s.pc + off < 0 ∨ s.pc + off > curSize s then (.error .err, s) else (.ok (), { s with pc := s.pc + off }))
    ∧ (∀ loc : Nat, (exec (f + 1) (.goto loc)).run s =
        if (loc : Int) < 0 ∨ (loc : Int) > curSize s then (.error .err, s) else (.ok (), { s with pc := loc }))
    ∧ (∀ dir off, (exec (f + 1) (.branch dir off)).run s = match s.data with
        | [] => (.error .err, s)
        | none :: _ => (.error .panic, s)
        | some v :: rest =>
          if dir = truthy v then
            (if s.pc + off < 0 ∨ s.pc + off > curSize s then (.error .err, { s with data := rest })
             else (.ok (), { s with data := rest, pc := s.pc + off }))
          else (.ok (), { s with data := rest, pc := s.pc + 1 })) :=
  ⟨fun v => exec_push f v s, exec_pop f s, exec_dup f s, fun off => exec_jump f off s,
   fun loc => exec_goto f loc s, fun dir off => exec_branch f dir off s⟩

/-- **Segment lemma for F0c** (statement spelled out; `Sim.segment_F0c` is the same with the
vocabulary `Seg`/`Reach`/`Pushes`). For every F0c expression `e`, whatever generator context and
state it is compiled in, and whatever value `v` the reference evaluator returns for it (any
fuel, environment and state): the reference state is unchanged, and in every VM state whose
current function is compiled code `pre ++ code ++ post` with `pc = pre.length`, the run loop
— inside any `Run`, with any remaining fuel `≥ 1` — executes at most `code.length`
instructions and arrives at `pc = pre.length + code.length` with exactly one more value, `v`,
on the data stack and everything else unchanged. -/
theorem segment_lemma_F0c (e : Expr) (he : F0c e = true) (isFn : Nat → Bool) (c : Ctx) (gs gs' : GS)
    (code : List Instr) (t : Bool) (hc : (compile isFn c e).run gs = .ok ((code, t), gs'))
    (n env : Nat) (rs rs' : Ref.St) (v : Val) (hr : Ref.eval n e env rs = .ok v rs') :
    rs' = rs ∧
    ∀ (s : St) (pre post : List Instr), (fnOf s s.curfunc).user = false →
      (fnOf s s.curfunc).code = pre ++ code ++ post → s.pc = (pre.length : Int) →
      ∃ k, k ≤ code.length ∧ ∀ fuel, 1 ≤ fuel → ∀ st,
        (runLoop (fuel + k) st).run s
          = (runLoop fuel st).run { s with pc := s.pc + code.length, data := some v :: s.data } := by
  obtain ⟨h1, h2⟩ := segment_F0c e he isFn c gs code t gs' hc n env rs v rs' hr
  exact ⟨h1, fun s pre post hu hcd hpc => h2 s pre post ⟨hu, hcd, hpc⟩⟩

/-- `compile` is total on F0c and does not touch the generator state; the code has at most
`3 * esize e` instructions; the reference evaluator is total on F0c with fuel `esize e`. -/
theorem F0c_total (e : Expr) (he : F0c e = true) :
    (∀ isFn c gs, ∃ code, (compile isFn c e).run gs = .ok ((code, c.tail), gs) ∧ code.length ≤ 3 * esize e)
    ∧ (∀ n, esize e ≤ n → ∀ env rs, ∃ v, Ref.eval n e env rs = .ok v rs) := by
  refine ⟨fun isFn c gs => ?_, refEval_total e he⟩
  obtain ⟨code, h⟩ := compile_total e he isFn c gs
  exact ⟨code, h, compile_length_F0c e he isFn c gs _ h⟩

/-- The property restricted to a class `D` of programs (same shape as `CompileCorrect`). -/
def CompileCorrectOn (D : List Expr → Prop) : Prop :=
  ∀ (p : List Expr), D p → Ref.wfList {} p = true →
    ∀ fuel o, obsOfRef (Ref.runProgram fuel p Ref.initSt).1 = some o →
      ∃ fuel', obsOfVM (VM.runText fuel' p VM.initSt).1 = some o

theorem compileCorrect_iff_on_all : CompileCorrect ↔ CompileCorrectOn (fun _ => True) :=
  ⟨fun h p _ => h p, fun h p => h p trivial⟩

/-- **F0c programs, explicit fuel.** For every program text whose top-level forms are in F0c
(any number of forms, any nesting): with reference fuel `≥ esizeList p` and VM fuel
`≥ 3 * esizeList p + 3`, both sides terminate and the VM model reports exactly what the
reference evaluator reports — class `ok`, the same printed value, the empty trace. -/
theorem compile_correct_F0c (p : List Expr) (hp : F0cList p = true)
    (fuel fuel' : Nat) (hf : esizeList p ≤ fuel) (hf' : 3 * esizeList p + 3 ≤ fuel') :
    obsOfVM (VM.runText fuel' p VM.initSt).1 = obsOfRef (Ref.runProgram fuel p Ref.initSt).1
    ∧ ∃ v, obsOfRef (Ref.runProgram fuel p Ref.initSt).1 = some (.ok v []) := by
  cases p with
  | nil =>
    obtain ⟨m, rfl⟩ : ∃ m, fuel = m + 1 := ⟨fuel - 1, by rw [esizeList] at hf; omega⟩
    rw [runText_nil initSt atRest_initSt rfl fuel' (by omega), refProgram_nil]
    exact ⟨rfl, _, rfl⟩
  | cons e es =>
    obtain ⟨v, hv⟩ := refBegin_total (e :: es) (by simp) hp fuel hf 0 { Ref.initSt with trace := [] }
    obtain ⟨code, hrun⟩ := runText_F0c initSt (e :: es) (by simp) hp atRest_initSt fuel 0 _ v _ hv fuel' hf'
    rw [hrun, refProgram_ok fuel (e :: es) Ref.initSt v hv]
    exact ⟨rfl, _, rfl⟩

/-- **`CompileCorrect` for the fragment F0c**, in the vocabulary of the full statement:
whenever the reference evaluator (with whatever fuel) reports an outcome for an F0c
program, the VM model reports the same outcome. -/
theorem compile_correct_on_F0c : CompileCorrectOn (fun p => F0cList p = true) := by
  intro p hp _ fuel o ho
  refine ⟨3 * esizeList p + 3, ?_⟩
  cases p with
  | nil =>
    rw [runText_nil initSt atRest_initSt rfl _ (by omega)]
    cases fuel with
    | zero => simp [Ref.runProgram, Ref.evalBegin, obsOfRef] at ho
    | succ m =>
      rw [refProgram_nil] at ho
      exact ho
  | cons e es =>
    rcases refBegin_noFail (e :: es) (by simp) hp fuel 0 { Ref.initSt with trace := [] } with ⟨v, hv⟩ | hv
    · obtain ⟨code, hrun⟩ := runText_F0c initSt (e :: es) (by simp) hp atRest_initSt fuel 0 _ v _ hv _ (Nat.le_refl _)
      rw [refProgram_ok fuel (e :: es) Ref.initSt v hv] at ho
      rw [hrun]
      exact ho
    · have href : Ref.runProgram fuel (e :: es) Ref.initSt = (.timeout, Ref.initSt) := by
        unfold Ref.runProgram
        simp only [hv]
      rw [href] at ho
      cases ho

/-! ### Non-vacuity: a concrete nested F0c program -/

/-- `(begin 1 "x") (cond (and 1 (or false 0)) (begin 1 2) (and) (cond () 5 (or () 7 8)) 9)` -/
def demoF0c : List Expr :=
  [.begin_ [.int 1, .str "x"],
   .cond [(.and_ [.int 1, .or_ [.bool false, .int 0]], .begin_ [.int 1, .int 2]),
          (.and_ [], .cond [(.nilLit, .int 5)] (.or_ [.nilLit, .int 7, .int 8]))] (.int 9)]

example : F0cList demoF0c = true := by decide
example : esizeList demoF0c = 46 := by decide

/-- the reference evaluator computes 7 for it (first arm's test is falsy: `(or false 0)` is 0;
second arm's test `(and)` is true; inner `cond` falls to its default; `(or () 7 8)` is 7) -/
theorem demoF0c_ref (rs : Ref.St) : Ref.evalBegin 12 demoF0c 0 rs = .ok (intOfLit 7) rs := by
  have tr7 : truthy (intOfLit 7) = true := by decide
  have tr1 : truthy (intOfLit 1) = true := by decide
  have tr0 : truthy (intOfLit 0) = false := by decide
  have trn : truthy .nil = false := rfl
  have trb : ∀ b : Bool, truthy (.bool b) = b := fun _ => rfl
  simp only [demoF0c, Ref.evalBegin, Ref.eval, Ref.evalCond, Ref.evalAndOr, tr7, tr1, trn, trb]
  simp [tr0]

/-- … and so does the VM model, by `runText_F0c` (hypotheses of the segment lemma and of the
top-level theorem are satisfiable; the harness run of the same text prints `7`). -/
example : ∃ code, VM.runText 141 demoF0c VM.initSt
    = (.done "ok" (pr VM.initSt.heap (intOfLit 7)) [] (depths VM.initSt), afterText VM.initSt code, true) :=
  runText_F0c VM.initSt demoF0c (by decide) (by decide) atRest_initSt 12 0 Ref.initSt _ _ (demoF0c_ref _) 141 (by decide)

example : obsOfVM (VM.runText 141 demoF0c VM.initSt).1 = obsOfRef (Ref.runProgram 46 demoF0c Ref.initSt).1 :=
  (compile_correct_F0c demoF0c (by decide) 46 141 (by decide) (by decide)).1

/-! ## Stages C and D — variables and scopes: symbols, `def`, `set`, `newScope`, `letseq`, `let`
(fragment Fv ⊇ F0c)

`Fv` = literals, symbol reference, `def`, `set`, `begin` (also empty), `cond`, `and`, `or`,
non-empty `newScope`, `letseq`, and `let` with pairwise distinct names, nested arbitrarily.
(`let` binds its names by popping, the last name first; the reference evaluator binds the first
name first; with a repeated name the two differ — `(let [a 1 a 2] a)` is 1 on the VM and in the
implementation, 2 in the reference evaluator — so such a `let` is outside the fragment, and
`Ref.wf` puts it outside the property's domain. An empty `(newScope)` stays outside too: the
reference evaluator allocates a frame for it, the VM just pushes nil, so the two tables leave
the lockstep the relation is built on.)

Expressions now have effects (on the scopes) and can fail (unbound symbol, re-binding with a
different type). The segment lemma carries the simulation relation `Sim.Rel` between VM state
and reference state: scope table and frame table hold the same bindings index by index, the
linear scope stack is the static chain of the current environment, heaps and traces agree. -/

/-- **Segment lemma for Fv**, spelled out. From related states, the VM standing on the
first instruction of the code of `e` (embedded anywhere in a compiled function):
* reference value `v`, new state `rs'` ⇒ within `code.length` instructions the VM arrives just
  behind the code with exactly one more value `v` on the data stack, in the same function, and
  its state is related to `rs'` (same effects on every scope);
* reference error ⇒ within `code.length` instructions the enclosing `Run` returns a script
  error, whatever control state it captured, and the trace is the reference trace;
* the reference evaluator never yields `break`/`continue` for `e`. -/
theorem segment_lemma_Fv (e : Expr) (he : Fv e = true) (isFn : Nat → Bool) (c : Ctx) (gs gs' : GS)
    (code : List Instr) (t : Bool) (hc : (compile isFn c e).run gs = .ok ((code, t), gs'))
    (s : St) (rs : Ref.St) (env : Nat) (pre post : List Instr) (hrel : Rel s rs env)
    (huser : (fnOf s s.curfunc).user = false) (hcode : (fnOf s s.curfunc).code = pre ++ code ++ post)
    (hpc : s.pc = (pre.length : Int)) (n : Nat) :
    match Ref.eval n e env rs with
    | .ok v rs' => ∃ s', Rel s' rs' env ∧ fnOf s' s'.curfunc = fnOf s s.curfunc
        ∧ s'.pc = s.pc + (code.length : Int) ∧ s'.data = some v :: s.data
        ∧ ∃ k, k ≤ code.length ∧ ∀ fuel, 1 ≤ fuel → ∀ st, (runLoop (fuel + k) st).run s = (runLoop fuel st).run s'
    | .err rs' => ∃ k, k ≤ code.length ∧ ∀ fuel, 1 ≤ fuel → ∀ st,
        ∃ sf, (runLoop (fuel + k) st).run s = (.error .err, sf) ∧ sf.trace = rs'.trace
    | .timeout => True
    | .brk _ _ => False
    | .cont _ _ => False := by
  have h := segment_Fv e he isFn c gs code t gs' hc s rs env pre post hrel ⟨huser, hcode, hpc⟩ n
  cases hres : Ref.eval n e env rs with
  | ok v rs' =>
    rw [hres] at h
    obtain ⟨s', r, l, rel, -⟩ := h
    exact ⟨s', rel, l.fn, l.pc, l.data, r⟩
  | err rs' => rw [hres] at h; exact h
  | timeout => trivial
  | brk l rs' => rw [hres] at h; exact h
  | cont l rs' => rw [hres] at h; exact h

/-- the initial states of the two sides are related -/
theorem rel_init : Rel VM.initSt Ref.initSt 0 := rel_initSt

/-- **`CompileCorrect` for the fragment Fv**: whenever the reference evaluator reports an
outcome — a value or an error, with its trace — for a program whose top-level forms are in Fv,
the VM model (generator + VM, `LoadExpressions` + `Run`) reports the same outcome. -/
theorem compile_correct_on_Fv : CompileCorrectOn (fun p => FvList p = true) := by
  intro p hp hwf fuel o ho
  cases p with
  | nil => exact compile_correct_on_F0c [] rfl hwf fuel o ho
  | cons e es =>
    obtain ⟨N, hN⟩ := runText_Fv VM.initSt Ref.initSt (e :: es) (by simp) hp atRest_initSt rel_initSt fuel
    refine ⟨N, ?_⟩
    have h := hN N (Nat.le_refl _)
    unfold Ref.runProgram at ho
    cases hres : Ref.evalBegin fuel (e :: es) 0 { Ref.initSt with trace := [] } with
    | ok v rs' =>
      rw [hres] at h
      simp only [hres] at ho
      obtain ⟨sf, d, hout, -⟩ := h
      rw [hout]; exact ho
    | err rs' =>
      rw [hres] at h
      simp only [hres] at ho
      obtain ⟨sf, d, hout⟩ := h
      rw [hout]; exact ho
    | timeout => simp only [hres] at ho; cases ho
    | brk l rs' => rw [hres] at h; exact h.elim
    | cont l rs' => rw [hres] at h; exact h.elim

/-! ### Non-vacuity: concrete Fv programs, one that yields a value, one that fails -/

/-- `(def a 1) (set a (cond (and a (or false 0)) 5 a)) (def b "x") (cond b (set c a) 9)` -/
def demoFv : List Expr :=
  [.def_ "a" (.int 1),
   .set_ "a" (.cond [(.and_ [.sym "a", .or_ [.bool false, .int 0]], .int 5)] (.sym "a")),
   .def_ "b" (.str "x"),
   .cond [(.sym "b", .set_ "c" (.sym "a"))] (.int 9)]

/-- `(def a 1) (let [b a c 2] (letseq [d b d (newScope (set a c) d)] (cond d a 0)))`: scopes -/
def demoFvLet : List Expr :=
  [.def_ "a" (.int 1),
   .let_ false [("b", .sym "a"), ("c", .int 2)]
     [.let_ true [("d", .sym "b"), ("d", .newScope [.set_ "a" (.sym "c"), .sym "d"])]
       [.cond [(.sym "d", .sym "a")] (.int 0)]]]

example : FvList demoFvLet = true := by decide

/-- `(def a 1) (begin (def a "s") 2)`: re-binding `a` with another type is an error -/
def demoFvErr : List Expr := [.def_ "a" (.int 1), .begin_ [.def_ "a" (.str "s"), .int 2]]

example : FvList demoFv = true := by decide
example : FvList demoFvErr = true := by decide

/-- class of a reference result: a value, an error, or neither -/
def refClass : Ref.R Val → Option (Option Val)
  | .ok v _ => some (some v)
  | .err _ => some none
  | _ => none

/-- the reference evaluator computes 1 for `demoFv` … -/
theorem demoFv_ref : refClass (Ref.evalBegin 14 demoFv 0 { Ref.initSt with trace := [] }) = some (some (intOfLit 1)) := by
  have tr1 : truthy (intOfLit 1) = true := by decide
  have tr0 : truthy (intOfLit 0) = false := by decide
  have trb : ∀ b : Bool, truthy (.bool b) = b := fun _ => rfl
  have trs : ∀ s : String, truthy (.str s) = true := fun _ => rfl
  simp [demoFv, Ref.evalBegin, Ref.eval, Ref.evalCond, Ref.evalAndOr, Ref.define, Ref.setVar, Ref.lookup,
    Ref.lookupIn, Ref.initSt, Ref.assocSet, Ref.globalNames, coreBuiltins, refClass, tr1, tr0, trb,
    trs, List.lookup]

/-- … and an error for `demoFvErr` -/
theorem demoFvErr_ref : refClass (Ref.evalBegin 6 demoFvErr 0 { Ref.initSt with trace := [] }) = some none := by
  simp [demoFvErr, Ref.evalBegin, Ref.eval, Ref.define, Ref.setVar, Ref.initSt, Ref.assocSet, Ref.globalNames,
    coreBuiltins, rebindOk, tyOf, intOfLit, refClass, List.lookup]

/-- the scoped program: `a` is set to 2 from inside `newScope`, inside `letseq`, inside `let` -/
theorem demoFvLet_ref :
    refClass (Ref.evalBegin 12 demoFvLet 0 { Ref.initSt with trace := [] }) = some (some (intOfLit 2)) := by
  have tr1 : truthy (intOfLit 1) = true := by decide
  have tyi : ∀ (h : DataHeap) (k : Int), tyOf h (intOfLit k) = some Ty.int := fun _ _ => rfl
  simp [demoFvLet, Ref.evalBegin, Ref.eval, Ref.evalCond, Ref.evalLetSeq, Ref.evalList, Ref.bindAll, Ref.newFrame,
    Ref.define, Ref.setVar, Ref.lookup, Ref.lookupIn, Ref.initSt, Ref.assocSet, Ref.globalNames, coreBuiltins,
    rebindOk, tyi, refClass, tr1, List.lookup]

example : ∃ fuel' o, obsOfRef (Ref.runProgram 12 demoFvLet Ref.initSt).1 = some o
    ∧ obsOfVM (VM.runText fuel' demoFvLet VM.initSt).1 = some o := by
  have h := demoFvLet_ref
  cases hres : Ref.evalBegin 12 demoFvLet 0 { Ref.initSt with trace := [] } with
  | ok v rs' =>
    have ho : obsOfRef (Ref.runProgram 12 demoFvLet Ref.initSt).1 = some (.ok (pr rs'.heap v) rs'.trace) := by
      unfold Ref.runProgram; simp only [hres]; rfl
    obtain ⟨f, hf⟩ := compile_correct_on_Fv demoFvLet (by decide) (by decide) 12 _ ho
    exact ⟨f, _, ho, hf⟩
  | err rs' => rw [hres] at h; simp [refClass] at h
  | timeout => rw [hres] at h; simp [refClass] at h
  | brk l rs' => rw [hres] at h; simp [refClass] at h
  | cont l rs' => rw [hres] at h; simp [refClass] at h

/-- both are instances of `compile_correct_on_Fv` with a real outcome on the reference side -/
example : ∃ fuel' o, obsOfRef (Ref.runProgram 14 demoFv Ref.initSt).1 = some o
    ∧ obsOfVM (VM.runText fuel' demoFv VM.initSt).1 = some o := by
  have h := demoFv_ref
  cases hres : Ref.evalBegin 14 demoFv 0 { Ref.initSt with trace := [] } with
  | ok v rs' =>
    have ho : obsOfRef (Ref.runProgram 14 demoFv Ref.initSt).1 = some (.ok (pr rs'.heap v) rs'.trace) := by
      unfold Ref.runProgram; simp only [hres]; rfl
    obtain ⟨f, hf⟩ := compile_correct_on_Fv demoFv (by decide) (by decide) 14 _ ho
    exact ⟨f, _, ho, hf⟩
  | err rs' => rw [hres] at h; simp [refClass] at h
  | timeout => rw [hres] at h; simp [refClass] at h
  | brk l rs' => rw [hres] at h; simp [refClass] at h
  | cont l rs' => rw [hres] at h; simp [refClass] at h

example : ∃ fuel' tr, obsOfRef (Ref.runProgram 6 demoFvErr Ref.initSt).1 = some (.err tr)
    ∧ obsOfVM (VM.runText fuel' demoFvErr VM.initSt).1 = some (.err tr) := by
  have h := demoFvErr_ref
  cases hres : Ref.evalBegin 6 demoFvErr 0 { Ref.initSt with trace := [] } with
  | err rs' =>
    have ho : obsOfRef (Ref.runProgram 6 demoFvErr Ref.initSt).1 = some (.err rs'.trace) := by
      unfold Ref.runProgram; simp only [hres]; rfl
    obtain ⟨f, hf⟩ := compile_correct_on_Fv demoFvErr (by decide) (by decide) 6 _ ho
    exact ⟨f, _, ho, hf⟩
  | ok v rs' => rw [hres] at h; simp [refClass] at h
  | timeout => rw [hres] at h; simp [refClass] at h
  | brk l rs' => rw [hres] at h; simp [refClass] at h
  | cont l rs' => rw [hres] at h; simp [refClass] at h

/-! ## Stage D, second half — calls of first-order builtins (fragment Fc)

`Fc` = Fv whose binder names (`def`/`set`/`let`/`letseq`) are not names of first-order builtins,
plus array literals `[e₁ … eₙ]` with elements in Fc, plus `for` loops `(for [init test incr] body…)` (labelled
or not) whose parts are in Fc — so without `break`/`continue` —, plus calls `(h a₁ … aₙ)` where `h` is one of
`+ - * mod < > <= >= == != not cons first rest second list array len append concat aget aset hash
hget hset trace` and the operands are in Fc. A call is ONE VM instruction (`callExpr`); executing it
compiles every operand at run time into a fresh function object and runs it in a nested `Run`
(`EvalCallExpression`/`nested`), then runs the builtin under `CallUserFunction`. The relation
(`Sim.RelC`) therefore lets the function table grow and the current function be such a helper:
every closing list on the parent chain of the current function is a suffix of the linear scope
stack; first-order builtin names are bound in the global frame only; no value is a stack mark
(`Sim.Clean`: `for` pushes a mark and `popUntilMark`/`clearMark` pop down to it). The number of
instructions a piece of code executes is no longer bounded by its length (loops), the fuel it needs
is existential. -/

/-- **Segment lemma for Fc**, spelled out (see `Sim.segment_Fc`). -/
theorem segment_lemma_Fc (e : Expr) (he : Fc e = true) (isFn : Nat → Bool) (c : Ctx) (hfn : c.funcname = "")
    (gs gs' : GS) (code : List Instr) (t : Bool) (hc : (compile isFn c e).run gs = .ok ((code, t), gs'))
    (s : St) (rs : Ref.St) (env : Nat) (pre post : List Instr) (hrel : RelC s rs env)
    (huser : (fnOf s s.curfunc).user = false) (hcode : (fnOf s s.curfunc).code = pre ++ code ++ post)
    (hpc : s.pc = (pre.length : Int)) (n : Nat) :
    match Ref.eval n e env rs with
    | .ok v rs' => ∃ s', RelC s' rs' env ∧ fnOf s' s'.curfunc = fnOf s s.curfunc
        ∧ s'.pc = s.pc + (code.length : Int) ∧ s'.data = some v :: s.data
        ∧ s'.linear = s.linear ∧ s'.addr = s.addr ∧ s'.curfunc = s.curfunc
        ∧ ∃ k m, ∀ fuel, m ≤ fuel → ∀ st, (runLoop (fuel + k) st).run s = (runLoop fuel st).run s'
    | .err rs' => ∃ k m, ∀ fuel, m ≤ fuel → ∀ st,
        ∃ sf, (runLoop (fuel + k) st).run s = (.error .err, sf) ∧ sf.trace = rs'.trace
    | .timeout => True
    | .brk _ _ => False
    | .cont _ _ => False := by
  have h := segment_Fc e he isFn c hfn gs code t gs' hc s rs env pre post hrel ⟨huser, hcode, hpc⟩ n
  cases hres : Ref.eval n e env rs with
  | ok v rs' =>
    rw [hres] at h
    obtain ⟨s', ⟨K, m, k, hk, H⟩, l, rel, -, fr, -⟩ := h
    exact ⟨s', rel, l.fn, l.pc, l.data, fr.linear, fr.addr, fr.curfunc, k, m, H⟩
  | err rs' =>
    rw [hres] at h
    obtain ⟨K, k, hk, m, H⟩ := h
    exact ⟨k, m, H⟩
  | timeout => trivial
  | brk l rs' => rw [hres] at h; exact h
  | cont l rs' => rw [hres] at h; exact h

/-- **`CompileCorrect` for the fragment Fc**: whenever the reference evaluator reports an outcome
— a value or an error, with its trace of `trace` calls — for a program whose top-level forms are in
Fc, the VM model reports the same outcome. -/
theorem compile_correct_on_Fc : CompileCorrectOn (fun p => FcList p = true) := by
  intro p hp hwf fuel o ho
  cases p with
  | nil => exact compile_correct_on_F0c [] rfl hwf fuel o ho
  | cons e es =>
    obtain ⟨N, hN⟩ := runText_Fc VM.initSt Ref.initSt (e :: es) (by simp) hp atRest_initSt relC_initSt fuel
    refine ⟨N, ?_⟩
    have h := hN N (Nat.le_refl _)
    unfold Ref.runProgram at ho
    cases hres : Ref.evalBegin fuel (e :: es) 0 { Ref.initSt with trace := [] } with
    | ok v rs' =>
      rw [hres] at h
      simp only [hres] at ho
      obtain ⟨sf, d, hout⟩ := h
      rw [hout]; exact ho
    | err rs' =>
      rw [hres] at h
      simp only [hres] at ho
      obtain ⟨sf, d, hout⟩ := h
      rw [hout]; exact ho
    | timeout => simp only [hres] at ho; cases ho
    | brk l rs' => rw [hres] at h; exact h.elim
    | cont l rs' => rw [hres] at h; exact h.elim

/-- `(def a (+ 1 2)) (let [b (* a a)] (cond (< b 5) 0 (trace (- b (len "xy")))))` -/
def demoFc : List Expr :=
  [.def_ "a" (.call (.sym "+") [.int 1, .int 2]),
   .let_ false [("b", .call (.sym "*") [.sym "a", .sym "a"])]
     [.cond [(.call (.sym "<") [.sym "b", .int 5], .int 0)]
        (.call (.sym "trace") [.call (.sym "-") [.sym "b", .call (.sym "len") [.str "xy"]]])]]

example : FcList demoFc = true := by decide

/-- `(def v [1 (+ 1 1) "s"]) (aset v 0 (len v)) (cons (aget v 0) (rest v))`: arrays by reference -/
def demoFcArr : List Expr :=
  [.def_ "v" (.arr [.int 1, .call (.sym "+") [.int 1, .int 1], .str "s"]),
   .call (.sym "aset") [.sym "v", .int 0, .call (.sym "len") [.sym "v"]],
   .call (.sym "cons") [.call (.sym "aget") [.sym "v", .int 0], .call (.sym "rest") [.sym "v"]]]

example : FcList demoFcArr = true := by decide

/-- `(def s 0) (for [(def i 0) (< i 4) (set i (+ i 1))] (set s (+ s i)) (for [(def j 0) (< j i) (set j (+ j 1))]
(trace j))) s`: nested loops, a loop variable in the loop scope, effects on a global, traces -/
def demoFcFor : List Expr :=
  [.def_ "s" (.int 0),
   .for_ none (.def_ "i" (.int 0)) (.call (.sym "<") [.sym "i", .int 4]) (.set_ "i" (.call (.sym "+") [.sym "i", .int 1]))
     [.set_ "s" (.call (.sym "+") [.sym "s", .sym "i"]),
      .for_ (some "inner") (.def_ "j" (.int 0)) (.call (.sym "<") [.sym "j", .sym "i"])
        (.set_ "j" (.call (.sym "+") [.sym "j", .int 1])) [.call (.sym "trace") [.sym "j"]]],
   .sym "s"]

example : FcList demoFcFor = true := by decide

/-- `(def a (+ 1 2)) (trace (* a a))`: value 9, one `trace` call -/
def demoFcSmall : List Expr :=
  [.def_ "a" (.call (.sym "+") [.int 1, .int 2]), .call (.sym "trace") [.call (.sym "*") [.sym "a", .sym "a"]]]

example : FcList demoFcSmall = true := by decide

theorem demoFcSmall_ref :
    refClass (Ref.evalBegin 8 demoFcSmall 0 { Ref.initSt with trace := [] }) = some (some (.int 9#64)) := by
  simp [demoFcSmall, Ref.evalBegin, Ref.eval, Ref.evalArgs, Ref.applyFn,
    Ref.define, Ref.setVar, Ref.lookup, Ref.lookupIn, Ref.initSt, Ref.assocSet, Ref.globalNames, coreBuiltins,
    refClass, List.lookup, prim, isFunction, allInts, intOfLit]

/-- an instance of `compile_correct_on_Fc` with a real outcome (value 9, trace of one call) on
the reference side; the same text through the harness prints `ok 9 T[9]` -/
example : ∃ fuel' o, obsOfRef (Ref.runProgram 8 demoFcSmall Ref.initSt).1 = some o
    ∧ obsOfVM (VM.runText fuel' demoFcSmall VM.initSt).1 = some o := by
  have h := demoFcSmall_ref
  cases hres : Ref.evalBegin 8 demoFcSmall 0 { Ref.initSt with trace := [] } with
  | ok v rs' =>
    have ho : obsOfRef (Ref.runProgram 8 demoFcSmall Ref.initSt).1 = some (.ok (pr rs'.heap v) rs'.trace) := by
      unfold Ref.runProgram; simp only [hres]; rfl
    obtain ⟨f, hf⟩ := compile_correct_on_Fc demoFcSmall (by decide) (by decide) 8 _ ho
    exact ⟨f, _, ho, hf⟩
  | err rs' => rw [hres] at h; simp [refClass] at h
  | timeout => rw [hres] at h; simp [refClass] at h
  | brk l rs' => rw [hres] at h; simp [refClass] at h
  | cont l rs' => rw [hres] at h; simp [refClass] at h


/-! ## F2 — user functions: `defn`, `fn`, closures, calls by name, recursion

A program text of F2 is a list of top-level forms of `Ff true ""`, where `Ff fnOk self` is: literals,
symbols, `def`, `set`, `begin`, `cond`, `and`, `or`, non-empty `newScope`, `letseq`, `let` with pairwise
distinct names, array literals, `for` loops (without `break`/`continue`), calls `(h a₁ … aₙ)`, and — in positions compiled when the
text is loaded (`fnOk`: everywhere but inside the operands of a call) — `(fn [p₁ … pₙ] body…)` and
`(defn name [p₁ … pₙ] body…)`, at top level or nested in function bodies to any depth: fixed arity,
distinct parameters that are not lazy (`#p`) and not builtin names, a non-empty body in the fragment.
The head of a call is a symbol other than `self` (the function being defined: a call of it in a
directly compiled position may be compiled as a self tail call, `goto 0` — that is F2c) and not of
the form `__anon…` (the generator's names for anonymous functions); the operands are in `Ff false ""`
(operands are compiled at run time, outside any function). No name `map`, `apply`, `force`,
`substitute` is mentioned. The head of a call is looked up at run time: it may denote a closure object
(any arity mismatch is the script error of both sides), a first-order builtin, an array (operands
evaluated, then an error) or any other value (itself without operands, an error with operands).
Functions are VALUES: bound by `def`, passed as operands, returned, kept in lists. Closures capture
the scopes of the functions they were made in and may assign to captured variables:
`(defn mk [] (def c 0) (fn [] (set c (+ c 1))))`. Recursion (not in tail position of its own body):
`(defn fact [n] (cond (== n 0) 1 (* n (fact (- n 1)))))`.

What the proof has to deal with, beyond Fc:

* **The two evaluators number closures differently.** `createClosure` pushes `.fn s.fns.length` —
  an index into the VM's function table, which also holds templates and the helper functions of
  operand evaluation —, the reference evaluator `.fn s.clos.length`. So values correspond only
  modulo a map `m` from VM function ids to reference closure ids (`Sim.tr m`, through pairs; heaps
  element by element); `m` is extended when a closure is made. Every first-order builtin commutes
  with the translation (`Sim.prim_tr`): printing shows `fn`, comparisons refuse functions, the typing
  rule of `BindSymbol` ignores them.
* **Inside a callee the linear scope stack is not the static chain**: it is the callee's scopes down
  to its function scope, on top of the CALLER's stack. `LexicalLookupSymbol` stops stage 1 at the
  function scope and goes on (stage 2) in the closing stack of the running closure object — the
  scopes that were live, down to the next function scope, when the closure was made —, then in that
  of the function that made it, and so on; then (stage 3) in the template's. `Sim.ChainF`/`Sim.FnChainF`
  say how these lists, segment by segment, are the static chain of the reference environment
  (`Sim.GoodFn` keeps the chain of every closure object), `Sim.RelF.lexLookup` that the three stages
  find what the reference lookup finds.
* **A call runs in the caller's `Run` loop**: `callExpr` evaluates the operands in nested runs,
  `CallFunction` pushes the return address; prologue (`addFuncScope`, parameters bound from the
  stack last-first), body, epilogue (`removeScope`, `ret`) are instructions of the callee executed by
  the same loop (`Sim.fclaimU_succ`), against `applyFn` (fresh frame under the closure's
  environment, parameters bound first-last, body).
* **Templates are compiled when the text is loaded**, closures are made from them at run time
  (`Sim.GenOk`: the templates the generator made — nested ones included — are in the function table
  of the running state; `Sim.closure_step`: `createClosure` against `fn`/`defn`). -/

/-- **Segment lemma for F2 expressions**, spelled out (see `Sim.segment_Ff`, `Sim.SimF`). -/
theorem segment_lemma_Ff (fnOk : Bool) (self : String) (e : Expr) (he : Ff fnOk self e = true) (isFn : Nat → Bool) (c : Ctx)
    (hfn : FnameOk self c) (gs gs' : GS) (code : List Instr) (t : Bool)
    (hc : (compile isFn c e).run gs = .ok ((code, t), gs')) (m : Nat → Nat) (s : St) (rs : Ref.St) (env : Nat)
    (pre post : List Instr) (hrel : RelF m s rs env) (hgen : fnOk = true → GenOk gs gs' s)
    (huser : (fnOf s s.curfunc).user = false)
    (hcode : (fnOf s s.curfunc).code = pre ++ code ++ post) (hpc : s.pc = (pre.length : Int)) (n : Nat) :
    match Ref.eval n e env rs with
    | .ok v' rs' => ∃ s' m' v, v' = Sim.tr m' id id v ∧ RelF m' s' rs' env ∧ (∀ i, i < s.fns.length → m' i = m i)
        ∧ fnOf s' s'.curfunc = fnOf s s.curfunc ∧ s'.pc = s.pc + (code.length : Int) ∧ s'.data = some v :: s.data
        ∧ s'.linear = s.linear ∧ s'.addr = s.addr ∧ s'.curfunc = s.curfunc
        ∧ ∃ k j, ∀ fuel, j ≤ fuel → ∀ st, (runLoop (fuel + k) st).run s = (runLoop fuel st).run s'
    | .err rs' => ∃ k j, ∀ fuel, j ≤ fuel → ∀ st,
        ∃ sf, (runLoop (fuel + k) st).run s = (.error .err, sf) ∧ sf.trace = rs'.trace
    | .timeout => True
    | .brk _ _ => False
    | .cont _ _ => False := by
  have h := segment_Ff fnOk self e he isFn c hfn gs ((code, t), gs') hc m s rs env pre post hrel hgen ⟨huser, hcode, hpc⟩ n
  cases hres : Ref.eval n e env rs with
  | ok v rs' =>
    rw [hres] at h
    obtain ⟨s', m', w, ⟨K, j, k, hk, H⟩, l, hv, rel, hm, -, fr, -⟩ := h
    exact ⟨s', m', w, hv, rel, hm, l.fn, l.pc, l.data, fr.linear, fr.addr, fr.curfunc, k, j, H⟩
  | err rs' =>
    rw [hres] at h
    obtain ⟨K, k, hk, j, H⟩ := h
    exact ⟨k, j, H⟩
  | timeout => trivial
  | brk l rs' => rw [hres] at h; exact h
  | cont l rs' => rw [hres] at h; exact h

/-- the relation holds between the initial states, whatever the id map -/
theorem relF_init (m : Nat → Nat) : RelF m VM.initSt Ref.initSt 0 := relF_initSt m

/-- **`CompileCorrect` for the fragment F2**: whenever the reference evaluator reports an outcome
for a program whose top-level forms are in F2 (`defn`s, `fn`s, expressions with calls of user
functions), the VM model reports the same outcome — same class, same printed value, same trace. -/
theorem compile_correct_on_F2 : CompileCorrectOn (fun p => FtList p = true) := by
  intro p hp hwf fuel o ho
  cases p with
  | nil => exact compile_correct_on_F0c [] rfl hwf fuel o ho
  | cons e es =>
    obtain ⟨N, hN⟩ := runText_Ft id VM.initSt Ref.initSt (e :: es) (by simp) hp atRest_initSt rfl
      (relF_initSt id) fuel
    refine ⟨N, ?_⟩
    have h := hN N (Nat.le_refl _)
    unfold Ref.runProgram at ho
    cases hres : Ref.evalBegin fuel (e :: es) 0 { Ref.initSt with trace := [] } with
    | ok v rs' =>
      rw [hres] at h
      simp only [hres] at ho
      obtain ⟨sf, d, hout⟩ := h
      rw [hout]; exact ho
    | err rs' =>
      rw [hres] at h
      simp only [hres] at ho
      obtain ⟨sf, d, hout⟩ := h
      rw [hout]; exact ho
    | timeout => simp only [hres] at ho; cases ho
    | brk l rs' => rw [hres] at h; exact h.elim
    | cont l rs' => rw [hres] at h; exact h.elim

set_option linter.unusedSimpArgs false

/-- membership in the fragment, by computation -/
macro "ft_mem" d:ident : tactic =>
  `(tactic| simp [$d:ident, FtList, FfList, Ff, FaList, FfArms, okRest, okParam, okName, okBinder, okSym, okHead, foBuiltins, hoNames])

/-- `(defn sq [x] (* x x)) (trace (sq 3))` -/
def demoF2 : List Expr :=
  [.defn "sq" ["x"] none [.call (.sym "*") [.sym "x", .sym "x"]], .call (.sym "trace") [.call (.sym "sq") [.int 3]]]

theorem demoF2_in : FtList demoF2 = true := by ft_mem demoF2

/-- `(defn fact [n] (cond (== n 0) 1 (* n (fact (- n 1))))) (fact 2)`: recursion -/
def demoF2Rec : List Expr :=
  [.defn "fact" ["n"] none [.cond [(.call (.sym "==") [.sym "n", .int 0], .int 1)]
      (.call (.sym "*") [.sym "n", .call (.sym "fact") [.call (.sym "-") [.sym "n", .int 1]]])],
   .call (.sym "fact") [.int 2]]

theorem demoF2Rec_in : FtList demoF2Rec = true := by ft_mem demoF2Rec

/-- `(defn adder [n] (fn [x] (+ x n))) (def a (adder 3)) (trace (a 4))`: a closure capturing a parameter,
returned and called later -/
def demoF2Clo : List Expr :=
  [.defn "adder" ["n"] none [.fn ["x"] none [.call (.sym "+") [.sym "x", .sym "n"]]],
   .def_ "a" (.call (.sym "adder") [.int 3]), .call (.sym "trace") [.call (.sym "a") [.int 4]]]

theorem demoF2Clo_in : FtList demoF2Clo = true := by ft_mem demoF2Clo

/-- `(defn f [x] (def g x) (+ g 1)) (def g 10) (trace (f 5)) g`: a `def` inside a function binds in
the function's scope; `(defn f [] 7) (def k f) (k)`: a function as a value; `(defn f [x y] x) (f 1)`: wrong
arity; `(defn mk [] (def c 0) (fn [] (set c (+ c 1)))) (def k (mk)) (k) (k) (trace (k))`: a closure
assigning to a captured local; `(defn outer [a] (defn inner [b] (cons a b)) inner) (def f (outer 1))
(def g (outer 2)) (trace (f 10)) (g 20)`: a nested `defn`, two closures of one template -/
def demoF2Scope : List Expr :=
  [.defn "f" ["x"] none [.def_ "g" (.sym "x"), .call (.sym "+") [.sym "g", .int 1]], .def_ "g" (.int 10),
   .call (.sym "trace") [.call (.sym "f") [.int 5]], .sym "g"]
def demoF2Val : List Expr := [.defn "f" [] none [.int 7], .def_ "k" (.sym "f"), .call (.sym "k") []]
def demoF2Arity : List Expr := [.defn "f" ["x", "y"] none [.sym "x"], .call (.sym "f") [.int 1]]
def demoF2Counter : List Expr :=
  [.defn "mk" [] none [.def_ "c" (.int 0), .fn [] none [.set_ "c" (.call (.sym "+") [.sym "c", .int 1])]],
   .def_ "k" (.call (.sym "mk") []), .call (.sym "k") [], .call (.sym "k") [], .call (.sym "trace") [.call (.sym "k") []]]
def demoF2Nested : List Expr :=
  [.defn "outer" ["a"] none [.defn "inner" ["b"] none [.call (.sym "cons") [.sym "a", .sym "b"]], .sym "inner"],
   .def_ "f" (.call (.sym "outer") [.int 1]), .def_ "g" (.call (.sym "outer") [.int 2]),
   .call (.sym "trace") [.call (.sym "f") [.int 10]], .call (.sym "g") [.int 20]]

/-- `(defn mkacc [start] (let [total start] (fn [d] (set total (+ total d)) total))) (def acc (mkacc 10)) (acc 5)
(trace (acc 7))`: a closure over a `let`-bound variable; `(defn f [xs] (and (not (== (len xs) 0)) (first xs)))
(trace (f [4 5])) (f [])`: `and`, array literals; `(defn g [a] (letseq [b (+ a 1) c (* b 2)] (newScope (def a c) [a b c])))
(g 1)`: `letseq`, `newScope` inside a function -/
def demoF2Acc : List Expr :=
  [.defn "mkacc" ["start"] none [.let_ false [("total", .sym "start")]
      [.fn ["d"] none [.set_ "total" (.call (.sym "+") [.sym "total", .sym "d"]), .sym "total"]]],
   .def_ "acc" (.call (.sym "mkacc") [.int 10]), .call (.sym "acc") [.int 5], .call (.sym "trace") [.call (.sym "acc") [.int 7]]]
def demoF2And : List Expr :=
  [.defn "f" ["xs"] none [.and_ [.call (.sym "not") [.call (.sym "==") [.call (.sym "len") [.sym "xs"], .int 0]],
      .call (.sym "first") [.sym "xs"]]],
   .call (.sym "trace") [.call (.sym "f") [.arr [.int 4, .int 5]]], .call (.sym "f") [.arr []]]
def demoF2Seq : List Expr :=
  [.defn "g" ["a"] none [.let_ true [("b", .call (.sym "+") [.sym "a", .int 1]), ("c", .call (.sym "*") [.sym "b", .int 2])]
      [.newScope [.def_ "a" (.sym "c"), .arr [.sym "a", .sym "b", .sym "c"]]]],
   .call (.sym "g") [.int 1]]

/-- `(defn sum [n] (def s 0) (for [(def i 0) (< i n) (set i (+ i 1))] (set s (+ s i))) s) (trace (sum 5))`: a loop in a
function body -/
def demoF2Loop : List Expr :=
  [.defn "sum" ["n"] none [.def_ "s" (.int 0),
      .for_ none (.def_ "i" (.int 0)) (.call (.sym "<") [.sym "i", .sym "n"]) (.set_ "i" (.call (.sym "+") [.sym "i", .int 1]))
        [.set_ "s" (.call (.sym "+") [.sym "s", .sym "i"])], .sym "s"],
   .call (.sym "trace") [.call (.sym "sum") [.int 5]]]

macro "ft_mem2" d:ident : tactic =>
  `(tactic| simp [$d:ident, FtList, FfList, Ff, FaList, FfArms, FfBinds, okRest, okParam, okName, okBinder, okSym, okHead, foBuiltins, hoNames])

example : FtList demoF2Acc = true := by ft_mem2 demoF2Acc
example : FtList demoF2And = true := by ft_mem2 demoF2And
example : FtList demoF2Seq = true := by ft_mem2 demoF2Seq
example : FtList demoF2Loop = true := by ft_mem2 demoF2Loop
example : FtList demoF2Scope = true := by ft_mem demoF2Scope
example : FtList demoF2Val = true := by ft_mem demoF2Val
example : FtList demoF2Arity = true := by ft_mem demoF2Arity
example : FtList demoF2Counter = true := by ft_mem demoF2Counter
example : FtList demoF2Nested = true := by ft_mem demoF2Nested

theorem demoF2_ref :
    refClass (Ref.evalBegin 12 demoF2 0 { Ref.initSt with trace := [] }) = some (some (.int 9#64)) := by
  simp [demoF2, Ref.evalBegin, Ref.eval, Ref.evalArgs, Ref.applyFn, Ref.bindParams, Ref.newFrame,
    Ref.define, Ref.setVar, Ref.lookup, Ref.lookupIn, Ref.initSt, Ref.assocSet, Ref.globalNames, coreBuiltins,
    refClass, List.lookup, prim, isFunction, allInts, intOfLit, Ref.isLazyParam, rebindOk, tyOf]

set_option maxRecDepth 4000 in
theorem demoF2Rec_ref :
    refClass (Ref.evalBegin 30 demoF2Rec 0 { Ref.initSt with trace := [] }) = some (some (.int 2#64)) := by
  have trb : ∀ b : Bool, truthy (.bool b) = b := fun _ => rfl
  simp [demoF2Rec, Ref.evalBegin, Ref.eval, Ref.evalArgs, Ref.applyFn, Ref.bindParams, Ref.newFrame, Ref.evalCond,
    Ref.define, Ref.setVar, Ref.lookup, Ref.lookupIn, Ref.initSt, Ref.assocSet, Ref.globalNames, coreBuiltins,
    refClass, List.lookup, prim, isFunction, allInts, intOfLit, Ref.isLazyParam, rebindOk, tyOf, isCmp, compareVals,
    cmpResult, trb]

set_option maxRecDepth 4000 in
theorem demoF2Clo_ref :
    refClass (Ref.evalBegin 16 demoF2Clo 0 { Ref.initSt with trace := [] }) = some (some (.int 7#64)) := by
  simp [demoF2Clo, Ref.evalBegin, Ref.eval, Ref.evalArgs, Ref.applyFn, Ref.bindParams, Ref.newFrame,
    Ref.define, Ref.setVar, Ref.lookup, Ref.lookupIn, Ref.initSt, Ref.assocSet, Ref.globalNames, coreBuiltins,
    refClass, List.lookup, prim, isFunction, allInts, intOfLit, Ref.isLazyParam, rebindOk, tyOf]

/-- instances of `compile_correct_on_F2` with a real outcome on the reference side (value 9 with one
traced call; value 2 by a recursive function; value 7 through a closure that captured a parameter);
the same texts through the harness print `ok 9 T[9]`, `ok 2 T[]`, `ok 7 T[7]` -/
example : ∃ fuel' o, obsOfRef (Ref.runProgram 12 demoF2 Ref.initSt).1 = some o
    ∧ obsOfVM (VM.runText fuel' demoF2 VM.initSt).1 = some o := by
  have h := demoF2_ref
  cases hres : Ref.evalBegin 12 demoF2 0 { Ref.initSt with trace := [] } with
  | ok v rs' =>
    have ho : obsOfRef (Ref.runProgram 12 demoF2 Ref.initSt).1 = some (.ok (pr rs'.heap v) rs'.trace) := by
      unfold Ref.runProgram; simp only [hres]; rfl
    obtain ⟨f, hf⟩ := compile_correct_on_F2 demoF2 demoF2_in (by decide) 12 _ ho
    exact ⟨f, _, ho, hf⟩
  | err rs' => rw [hres] at h; simp [refClass] at h
  | timeout => rw [hres] at h; simp [refClass] at h
  | brk l rs' => rw [hres] at h; simp [refClass] at h
  | cont l rs' => rw [hres] at h; simp [refClass] at h

example : ∃ fuel' o, obsOfRef (Ref.runProgram 30 demoF2Rec Ref.initSt).1 = some o
    ∧ obsOfVM (VM.runText fuel' demoF2Rec VM.initSt).1 = some o := by
  have h := demoF2Rec_ref
  cases hres : Ref.evalBegin 30 demoF2Rec 0 { Ref.initSt with trace := [] } with
  | ok v rs' =>
    have ho : obsOfRef (Ref.runProgram 30 demoF2Rec Ref.initSt).1 = some (.ok (pr rs'.heap v) rs'.trace) := by
      unfold Ref.runProgram; simp only [hres]; rfl
    obtain ⟨f, hf⟩ := compile_correct_on_F2 demoF2Rec demoF2Rec_in (by decide) 30 _ ho
    exact ⟨f, _, ho, hf⟩
  | err rs' => rw [hres] at h; simp [refClass] at h
  | timeout => rw [hres] at h; simp [refClass] at h
  | brk l rs' => rw [hres] at h; simp [refClass] at h
  | cont l rs' => rw [hres] at h; simp [refClass] at h

example : ∃ fuel' o, obsOfRef (Ref.runProgram 16 demoF2Clo Ref.initSt).1 = some o
    ∧ obsOfVM (VM.runText fuel' demoF2Clo VM.initSt).1 = some o := by
  have h := demoF2Clo_ref
  cases hres : Ref.evalBegin 16 demoF2Clo 0 { Ref.initSt with trace := [] } with
  | ok v rs' =>
    have ho : obsOfRef (Ref.runProgram 16 demoF2Clo Ref.initSt).1 = some (.ok (pr rs'.heap v) rs'.trace) := by
      unfold Ref.runProgram; simp only [hres]; rfl
    obtain ⟨f, hf⟩ := compile_correct_on_F2 demoF2Clo demoF2Clo_in (by decide) 16 _ ho
    exact ⟨f, _, ho, hf⟩
  | err rs' => rw [hres] at h; simp [refClass] at h
  | timeout => rw [hres] at h; simp [refClass] at h
  | brk l rs' => rw [hres] at h; simp [refClass] at h
  | cont l rs' => rw [hres] at h; simp [refClass] at h

/-! ## What is proved of `CompileCorrect`, and what is missing -/

/-! ## F2 with `break` and `continue` -/

/-- **Segment lemma with non-local exits**: a statement list of Fx (F2 plus `break`/`continue` of the
enclosing loops `Γ`) compiled in place either lands with its value (as `segment_lemma_Ff`), fails with the
reference trace, or — when the reference evaluator yields `brk l`/`cont l` — has jumped to the
`clearMark` resp. the `continue` label of the loop `l` names, the scopes opened inside that loop
popped, the data stack holding only values above the loop's mark (`JumpedF`). -/
theorem segment_lemma_Fx (ls : List (Option String)) (self : String) (es : List Expr) (hne : es ≠ [])
    (he : FxList ls self es = true) (isFn : Nat → Bool) (c : Ctx) (hfn : FnameOk self c) (gs : GS) (r : (List Instr × Bool) × GS)
    (hc : (compileBegin isFn c es).run gs = .ok r) (Γ : List LCtx) (hls : Γ.map (·.label) = ls) (hg : GsOk Γ gs)
    (m : Nat → Nat) (s : St) (rs : Ref.St) (env : Nat)
    (pre post : List Instr) (hrel : RelF m s rs env) (hgen : GenOk gs r.2 s) (hctx : CtxF Γ c.scopes s rs)
    (hlf : LoopsFinal r.2 s) (hlo : LsOut pre gs.loops.length r.2.loops.length) (hseg : Seg s pre r.1.1 post)
    (n : Nat) : SimX r.1.1 Γ m s rs env (Ref.evalBegin n es env rs) :=
  segment_Fx_begin ls self es hne he isFn c hfn gs r hc Γ hls hg m s rs env pre post hrel hgen hctx hlf hlo hseg n

/-- **`CompileCorrect` for F2 with `break`/`continue`**: program texts whose top-level forms are F2
forms or `for` loops (also under `begin`/`cond`/`let`/`letseq`/`newScope`) that leave a loop —
the innermost or a labelled enclosing one — by `break`, or start its next iteration by `continue`. -/
theorem compile_correct_on_F2x : CompileCorrectOn (fun p => FxTop p = true) := by
  intro p hp hwf fuel o ho
  cases p with
  | nil => exact compile_correct_on_F0c [] rfl hwf fuel o ho
  | cons e es =>
    obtain ⟨N, hN⟩ := runText_Fx id VM.initSt Ref.initSt (e :: es) (by simp) hp atRest_initSt rfl rfl
      (fun l hl => by cases hl) (relF_initSt id) fuel
    refine ⟨N, ?_⟩
    have h := hN N (Nat.le_refl _)
    unfold Ref.runProgram at ho
    cases hres : Ref.evalBegin fuel (e :: es) 0 { Ref.initSt with trace := [] } with
    | ok v rs' =>
      rw [hres] at h
      simp only [hres] at ho
      obtain ⟨sf, d, hout⟩ := h
      rw [hout]; exact ho
    | err rs' =>
      rw [hres] at h
      simp only [hres] at ho
      obtain ⟨sf, d, hout⟩ := h
      rw [hout]; exact ho
    | timeout => simp only [hres] at ho; cases ho
    | brk l rs' => rw [hres] at h; exact h.elim
    | cont l rs' => rw [hres] at h; exact h.elim

macro "fx_mem" d:ident : tactic =>
  `(tactic| simp [$d:ident, FxTop, FxList, Fx, FxArms, lblOk, FtList, FfList, Ff, FaList, FfArms, FfBinds, okRest, okParam, okName, okBinder,
      okSym, okHead, foBuiltins, hoNames])

/-- `(def s 0) (for [(def i 0) (< i 9) (set i (+ i 1))] (cond (== i 1) (break) nil) (set s (+ s 5))) s` -/
def demoBrk : List Expr :=
  [.def_ "s" (.int 0),
   .for_ none (.def_ "i" (.int 0)) (.call (.sym "<") [.sym "i", .int 9]) (.set_ "i" (.call (.sym "+") [.sym "i", .int 1]))
     [.cond [(.call (.sym "==") [.sym "i", .int 1], .break_ none)] .nilLit, .set_ "s" (.call (.sym "+") [.sym "s", .int 5])],
   .sym "s"]

/-- `(for [(def i 0) (< i 4) (set i (+ i 1))] (cond (== i 1) (continue) nil) (trace i))` -/
def demoCont : List Expr :=
  [.for_ none (.def_ "i" (.int 0)) (.call (.sym "<") [.sym "i", .int 4]) (.set_ "i" (.call (.sym "+") [.sym "i", .int 1]))
     [.cond [(.call (.sym "==") [.sym "i", .int 1], .continue_ none)] .nilLit, .call (.sym "trace") [.sym "i"]]]

/-- `(for outer: [(def i 0) (< i 3) (set i (+ i 1))] (for [(def j 0) (< j 3) (set j (+ j 1))]
(cond (== j 1) (continue outer:) nil) (cond (== i 2) (break outer:) nil) (trace (+ (* i 10) j))))`: labelled
exits out of the inner loop -/
def demoOuter : List Expr :=
  [.for_ (some "outer") (.def_ "i" (.int 0)) (.call (.sym "<") [.sym "i", .int 3]) (.set_ "i" (.call (.sym "+") [.sym "i", .int 1]))
     [.for_ none (.def_ "j" (.int 0)) (.call (.sym "<") [.sym "j", .int 3]) (.set_ "j" (.call (.sym "+") [.sym "j", .int 1]))
       [.cond [(.call (.sym "==") [.sym "j", .int 1], .continue_ (some "outer"))] .nilLit,
        .cond [(.call (.sym "==") [.sym "i", .int 2], .break_ (some "outer"))] .nilLit,
        .call (.sym "trace") [.call (.sym "+") [.call (.sym "*") [.sym "i", .int 10], .sym "j"]]]]]

/-- `(defn mk [n] (fn [] n)) (def fs []) (for [(def i 0) (< i 5) (set i (+ i 1))] (let [k (* i i)]
(cond (> k 5) (break) nil) (set fs (append fs (mk k))))) (trace (len fs))`: `break` out of a `let` inside
the loop (one scope popped by the `break`), closures made in the loop -/
def demoBrkLet : List Expr :=
  [.defn "mk" ["n"] none [.fn [] none [.sym "n"]],
   .def_ "fs" (.arr []),
   .for_ none (.def_ "i" (.int 0)) (.call (.sym "<") [.sym "i", .int 5]) (.set_ "i" (.call (.sym "+") [.sym "i", .int 1]))
     [.let_ false [("k", .call (.sym "*") [.sym "i", .sym "i"])]
       [.cond [(.call (.sym ">") [.sym "k", .int 5], .break_ none)] .nilLit,
        .set_ "fs" (.call (.sym "append") [.sym "fs", .call (.sym "mk") [.sym "k"]])]],
   .call (.sym "trace") [.call (.sym "len") [.sym "fs"]]]

theorem demoBrk_in : FxTop demoBrk = true := by fx_mem demoBrk
example : FxTop demoCont = true := by fx_mem demoCont
example : FxTop demoOuter = true := by fx_mem demoOuter
example : FxTop demoBrkLet = true := by fx_mem demoBrkLet
/-- a `break` outside every loop is not in the fragment (nor well-formed) -/
example : FxTop [.break_ none] = false := by simp [FxTop, FxList, Fx, lblOk]

set_option maxRecDepth 8000 in
/-- the reference evaluator: the body runs once, the `break` ends the loop -/
theorem demoBrk_ref :
    refClass (Ref.evalBegin 12 demoBrk 0 { Ref.initSt with trace := [] }) = some (some (.int 5#64)) := by
  have trb : ∀ b : Bool, truthy (.bool b) = b := fun _ => rfl
  simp [demoBrk, Ref.evalBegin, Ref.eval, Ref.evalArgs, Ref.applyFn, Ref.bindParams, Ref.newFrame, Ref.evalCond, Ref.loop,
    Ref.define, Ref.setVar, Ref.lookup, Ref.lookupIn, Ref.initSt, Ref.assocSet, Ref.globalNames, coreBuiltins,
    refClass, List.lookup, prim, isFunction, allInts, intOfLit, Ref.isLazyParam, rebindOk, tyOf, isCmp, compareVals,
    cmpResult, trb]

/-- an instance of `compile_correct_on_F2x` with a real outcome on the reference side (value 5: one
iteration, then `break`); through the harness the text prints `ok 5 T[]` -/
example : ∃ fuel' o, obsOfRef (Ref.runProgram 12 demoBrk Ref.initSt).1 = some o
    ∧ obsOfVM (VM.runText fuel' demoBrk VM.initSt).1 = some o := by
  have h := demoBrk_ref
  cases hres : Ref.evalBegin 12 demoBrk 0 { Ref.initSt with trace := [] } with
  | ok v rs' =>
    have ho : obsOfRef (Ref.runProgram 12 demoBrk Ref.initSt).1 = some (.ok (pr rs'.heap v) rs'.trace) := by
      unfold Ref.runProgram; simp only [hres]; rfl
    obtain ⟨f, hf⟩ := compile_correct_on_F2x demoBrk demoBrk_in (by decide) 12 _ ho
    exact ⟨f, _, ho, hf⟩
  | err rs' => rw [hres] at h; simp [refClass] at h
  | timeout => rw [hres] at h; simp [refClass] at h
  | brk l rs' => rw [hres] at h; simp [refClass] at h
  | cont l rs' => rw [hres] at h; simp [refClass] at h

/-! ## Variadic functions (a rest parameter) -/

/-- `(defn cnt [a & more] (+ a (len more))) (trace (cnt 1 2 3 4))`: the arguments beyond the fixed ones are packed
into a list (`wrangleOptargs` in `CallFunction`) -/
def demoVar : List Expr :=
  [.defn "cnt" ["a"] (some "more") [.call (.sym "+") [.sym "a", .call (.sym "len") [.sym "more"]]],
   .call (.sym "trace") [.call (.sym "cnt") [.int 1, .int 2, .int 3, .int 4]]]

/-- `(defn cnt [a & more] (+ a (len more))) (cnt)`: too few arguments for the fixed part -/
def demoVarArity : List Expr :=
  [.defn "cnt" ["a"] (some "more") [.call (.sym "+") [.sym "a", .call (.sym "len") [.sym "more"]]],
   .call (.sym "cnt") []]

/-- `(defn pack [& xs] xs) (trace (pack 1 2)) (pack)`: only a rest parameter -/
def demoVarOnly : List Expr :=
  [.defn "pack" [] (some "xs") [.sym "xs"], .call (.sym "trace") [.call (.sym "pack") [.int 1, .int 2]], .call (.sym "pack") []]

theorem demoVar_in : FtList demoVar = true := by ft_mem2 demoVar
example : FtList demoVarArity = true := by ft_mem2 demoVarArity
example : FtList demoVarOnly = true := by ft_mem2 demoVarOnly

set_option maxRecDepth 8000 in
theorem demoVar_ref :
    refClass (Ref.evalBegin 16 demoVar 0 { Ref.initSt with trace := [] }) = some (some (.int 4#64)) := by
  simp [demoVar, Ref.evalBegin, Ref.eval, Ref.evalArgs, Ref.applyFn, Ref.bindParams, Ref.newFrame,
    Ref.define, Ref.setVar, Ref.lookup, Ref.lookupIn, Ref.initSt, Ref.assocSet, Ref.globalNames, coreBuiltins,
    refClass, List.lookup, prim, isFunction, allInts, intOfLit, Ref.isLazyParam, rebindOk, tyOf, mkList, listToArray, isCmp]

example : ∃ fuel' o, obsOfRef (Ref.runProgram 16 demoVar Ref.initSt).1 = some o
    ∧ obsOfVM (VM.runText fuel' demoVar VM.initSt).1 = some o := by
  have h := demoVar_ref
  cases hres : Ref.evalBegin 16 demoVar 0 { Ref.initSt with trace := [] } with
  | ok v rs' =>
    have ho : obsOfRef (Ref.runProgram 16 demoVar Ref.initSt).1 = some (.ok (pr rs'.heap v) rs'.trace) := by
      unfold Ref.runProgram; simp only [hres]; rfl
    obtain ⟨f, hf⟩ := compile_correct_on_F2 demoVar demoVar_in (by decide) 16 _ ho
    exact ⟨f, _, ho, hf⟩
  | err rs' => rw [hres] at h; simp [refClass] at h
  | timeout => rw [hres] at h; simp [refClass] at h
  | brk l rs' => rw [hres] at h; simp [refClass] at h
  | cont l rs' => rw [hres] at h; simp [refClass] at h

/-! ## F2c: self tail calls -/

/-- **A call in tail position of a function body** (`Sim.simT_selfcall`, restated): whatever the
generator made of it — an ordinary `callExpr`, or the self-tail-call sequence `tailGuard`, operands
inline, `prepareCall`, `removeScope` × (scopes+1), `goto 0`, `callExpr` — the code simulates
`Ref.eval` of the call: it lands with the value (`SimF`, the ordinary call: guard failed or never
emitted), or — guard passed — the whole activation returns the value of applying the same closure
to the new arguments (`RetOut`: the state `FClaimU` describes for an ordinary call of that closure
from the original call site). -/
theorem tail_call_simulates {k : Nat} {self h : String} {args : List Expr} (hh : (h != "") = true) (hhead : okHead h = true)
    (hfa : FaList args = true) (hself : (h != self) = true ∨ FfList false self args = true)
    (isFn : Nat → Bool) (c : Ctx) (gs : GS) (r : (List Instr × Bool) × GS)
    (hc : (compile isFn c (.call (.sym h) args)).run gs = .ok r) (hfn : FnameOk self c)
    {ps : List String} {rest : Option String} (hkn : KnownOk c gs ps rest) (hps : ∀ p ∈ ps ++ rest.toList, okParam p = true)
    {m₁ : Nat → Nat} {s₁ : St} {rs₁ : Ref.St} {env vid : Nat} {D : List (Option Val)} {m : Nat → Nat} {s : St} {rs : Ref.St}
    {cenv f₀ : Nat} {pre post : List Instr}
    (hact : InAct m₁ s₁ rs₁ env vid D f₀ c.scopes m s rs) (hnargs : (fnOf s₁ vid).nargs = ps.length)
    (hva : (fnOf s₁ vid).varargs = rest.isSome) (hpa : (fnOf s₁ vid).params = ps ++ rest.toList)
    (hrel : RelF m s rs cenv) (hseg : Seg s pre r.1.1 post) :
    SimT r.1.1 s₁ env D f₀ m s rs cenv (Ref.eval (k + 2) (.call (.sym h) args) cenv rs) := by
  obtain ⟨_, _, _, hA, hU, _, _, _, _, _, _, hV, _, _, _, _, _, _, _, _, _, hlow⟩ := fclaims (k + 1)
  exact simT_selfcall hV hA hU (fclaimH hlow hA) hh hhead hfa hself isFn c gs r hc hfn
    hkn hps hact hnargs hva hpa hrel hseg

/-- **`CompileCorrect` for F2c**: program texts of top-level statements whose loops may `break`/`continue`
(`Fx [] ""`, so every program of Fx) and top-level `defn`s whose bodies (`FzList true`) call the function
itself in tail position (under `begin`/`cond`/`let`/`letseq`/`newScope`, any number of such calls) and
contain, before the last form, statements whose `for` loops `break`/`continue` (plain or labelled, their
own loops). The jump path and the fallback to the ordinary call (the name was re-bound at run time) are
both covered. -/
theorem compile_correct_on_F2c : CompileCorrectOn (fun p => FyList p = true) := by
  intro p hp hwf fuel o ho
  cases p with
  | nil => exact compile_correct_on_F0c [] rfl hwf fuel o ho
  | cons e es =>
    obtain ⟨N, hN⟩ := runText_Fy id VM.initSt Ref.initSt (e :: es) (by simp) hp atRest_initSt rfl rfl
      (fun l hl => by cases hl) (relF_initSt id) fuel
    refine ⟨N, ?_⟩
    have h := hN N (Nat.le_refl _)
    unfold Ref.runProgram at ho
    cases hres : Ref.evalBegin fuel (e :: es) 0 { Ref.initSt with trace := [] } with
    | ok v rs' =>
      rw [hres] at h
      simp only [hres] at ho
      obtain ⟨sf, d, hout⟩ := h
      rw [hout]; exact ho
    | err rs' =>
      rw [hres] at h
      simp only [hres] at ho
      obtain ⟨sf, d, hout⟩ := h
      rw [hout]; exact ho
    | timeout => simp only [hres] at ho; cases ho
    | brk l rs' => rw [hres] at h; exact h.elim
    | cont l rs' => rw [hres] at h; exact h.elim

macro "fy_mem" d:ident : tactic =>
  `(tactic| simp [$d:ident, FyList, Fy, FzList, Fz, Fs, FzArms, FxList, Fx, FxArms, lblOk, FtList, FfList, Ff, FaList, FfArms, FfBinds,
      okRest, okParam, okName, okBinder, okSym, okHead, foBuiltins, hoNames])

/-- `(defn loop [i acc] (cond (== i 0) acc (loop (- i 1) (+ acc i)))) (trace (loop 3 0))`: a loop by a self tail
call -/
def demoTail : List Expr :=
  [.defn "loop" ["i", "acc"] none [.cond [(.call (.sym "==") [.sym "i", .int 0], .sym "acc")]
      (.call (.sym "loop") [.call (.sym "-") [.sym "i", .int 1], .call (.sym "+") [.sym "acc", .sym "i"]])],
   .call (.sym "trace") [.call (.sym "loop") [.int 3, .int 0]]]

/-- `(defn g [] (set f 7)) (defn f [n] (cond (== n 0) 0 (begin (g) (f (- n 1))))) (f 2)`: the name is re-bound
before the tail call; the guard fails and the ordinary call reports the error (the divergence fixed by
C09-02: without the guard the machine re-entered `f`) -/
def demoTailRebind : List Expr :=
  [.defn "g" [] none [.set_ "f" (.int 7)],
   .defn "f" ["n"] none [.cond [(.call (.sym "==") [.sym "n", .int 0], .int 0)]
      (.begin_ [.call (.sym "g") [], .call (.sym "f") [.call (.sym "-") [.sym "n", .int 1]]])],
   .call (.sym "f") [.int 2]]

/-- `(defn cnt [n acc] (let [m (- n 1)] (cond (< m 0) acc (cnt m (+ acc 1))))) (trace (cnt 4 0))`: the tail call
inside a `let` (two scopes are dropped before the jump) -/
def demoTailLet : List Expr :=
  [.defn "cnt" ["n", "acc"] none [.let_ false [("m", .call (.sym "-") [.sym "n", .int 1])]
      [.cond [(.call (.sym "<") [.sym "m", .int 0], .sym "acc")]
        (.call (.sym "cnt") [.sym "m", .call (.sym "+") [.sym "acc", .int 1]])]],
   .call (.sym "trace") [.call (.sym "cnt") [.int 4, .int 0]]]

/-- `(defn firstbig [xs lim] (def r 0) (for [(def i 0) (< i (len xs)) (set i (+ i 1))] (cond (> (aget xs i) lim)
(begin (set r (aget xs i)) (break)) nil)) r) (trace (firstbig [1 5 9 7] 4))`: a loop that `break`s inside a function body -/
def demoFnBrk : List Expr :=
  [.defn "firstbig" ["xs", "lim"] none [.def_ "r" (.int 0),
      .for_ none (.def_ "i" (.int 0)) (.call (.sym "<") [.sym "i", .call (.sym "len") [.sym "xs"]])
        (.set_ "i" (.call (.sym "+") [.sym "i", .int 1]))
        [.cond [(.call (.sym ">") [.call (.sym "aget") [.sym "xs", .sym "i"], .sym "lim"],
            .begin_ [.set_ "r" (.call (.sym "aget") [.sym "xs", .sym "i"]), .break_ none])] .nilLit],
      .sym "r"],
   .call (.sym "trace") [.call (.sym "firstbig") [.arr [.int 1, .int 5, .int 9, .int 7], .int 4]]]

/-- `(defn sumodd [n acc] (for [(def i 0) (< i n) (set i (+ i 1))] (cond (== (mod i 2) 0) (continue) nil) (set acc (+ acc i)))
(cond (> n 4) (sumodd (- n 2) acc) acc)) (trace (sumodd 6 0))`: a loop with `continue`, then a self tail call -/
def demoFnCont : List Expr :=
  [.defn "sumodd" ["n", "acc"] none [
      .for_ none (.def_ "i" (.int 0)) (.call (.sym "<") [.sym "i", .sym "n"]) (.set_ "i" (.call (.sym "+") [.sym "i", .int 1]))
        [.cond [(.call (.sym "==") [.call (.sym "mod") [.sym "i", .int 2], .int 0], .continue_ none)] .nilLit,
         .set_ "acc" (.call (.sym "+") [.sym "acc", .sym "i"])],
      .cond [(.call (.sym ">") [.sym "n", .int 4], .call (.sym "sumodd") [.call (.sym "-") [.sym "n", .int 2], .sym "acc"])]
        (.sym "acc")],
   .call (.sym "trace") [.call (.sym "sumodd") [.int 6, .int 0]]]

example : FyList demoFnBrk = true := by fy_mem demoFnBrk
example : FyList demoFnCont = true := by fy_mem demoFnCont
/-- the programs of Fx (top-level loops with `break`/`continue`) are programs of F2c -/
example : FyList demoBrk = true ∧ FyList demoOuter = true := by
  constructor
  · fy_mem demoBrk
  · fy_mem demoOuter

/-- `(defn f [n & r] (cond (== n 0) (len r) (f (- n 1) n n))) (trace (f 2))`: a self tail call of a variadic function
(`PrepareCall` packs the tail before the jump) -/
def demoVarTail : List Expr :=
  [.defn "f" ["n"] (some "r") [.cond [(.call (.sym "==") [.sym "n", .int 0], .call (.sym "len") [.sym "r"])]
      (.call (.sym "f") [.call (.sym "-") [.sym "n", .int 1], .sym "n", .sym "n"])],
   .call (.sym "trace") [.call (.sym "f") [.int 2]]]

example : FyList demoVarTail = true := by fy_mem demoVarTail

theorem demoTail_in : FyList demoTail = true := by fy_mem demoTail
theorem demoTailRebind_in : FyList demoTailRebind = true := by fy_mem demoTailRebind
example : FyList demoTailLet = true := by fy_mem demoTailLet
/-- the self tail call is what takes `demoTail` out of F2 -/
example : FtList demoTail = false := by fy_mem demoTail

set_option maxRecDepth 8000 in
theorem demoTail_ref :
    refClass (Ref.evalBegin 40 demoTail 0 { Ref.initSt with trace := [] }) = some (some (.int 6#64)) := by
  have trb : ∀ b : Bool, truthy (.bool b) = b := fun _ => rfl
  simp [demoTail, Ref.evalBegin, Ref.eval, Ref.evalArgs, Ref.applyFn, Ref.bindParams, Ref.newFrame, Ref.evalCond,
    Ref.define, Ref.setVar, Ref.lookup, Ref.lookupIn, Ref.initSt, Ref.assocSet, Ref.globalNames, coreBuiltins,
    refClass, List.lookup, prim, isFunction, allInts, intOfLit, Ref.isLazyParam, rebindOk, tyOf, isCmp, compareVals,
    cmpResult, trb]

set_option maxRecDepth 8000 in
theorem demoTailRebind_ref :
    refClass (Ref.evalBegin 30 demoTailRebind 0 { Ref.initSt with trace := [] }) = some none := by
  have trb : ∀ b : Bool, truthy (.bool b) = b := fun _ => rfl
  simp [demoTailRebind, Ref.evalBegin, Ref.eval, Ref.evalArgs, Ref.applyFn, Ref.bindParams, Ref.newFrame, Ref.evalCond,
    Ref.define, Ref.setVar, Ref.lookup, Ref.lookupIn, Ref.initSt, Ref.assocSet, Ref.globalNames, coreBuiltins,
    refClass, List.lookup, prim, isFunction, allInts, intOfLit, Ref.isLazyParam, rebindOk, tyOf, isCmp, compareVals,
    cmpResult, trb]

/-- instances of `compile_correct_on_F2c` with a real outcome on the reference side: value 6 after three
jumps to instruction 0; an error when the name was re-bound (guard fails, ordinary call of `7`) -/
example : ∃ fuel' o, obsOfRef (Ref.runProgram 40 demoTail Ref.initSt).1 = some o
    ∧ obsOfVM (VM.runText fuel' demoTail VM.initSt).1 = some o := by
  have h := demoTail_ref
  cases hres : Ref.evalBegin 40 demoTail 0 { Ref.initSt with trace := [] } with
  | ok v rs' =>
    have ho : obsOfRef (Ref.runProgram 40 demoTail Ref.initSt).1 = some (.ok (pr rs'.heap v) rs'.trace) := by
      unfold Ref.runProgram; simp only [hres]; rfl
    obtain ⟨f, hf⟩ := compile_correct_on_F2c demoTail demoTail_in (by decide) 40 _ ho
    exact ⟨f, _, ho, hf⟩
  | err rs' => rw [hres] at h; simp [refClass] at h
  | timeout => rw [hres] at h; simp [refClass] at h
  | brk l rs' => rw [hres] at h; simp [refClass] at h
  | cont l rs' => rw [hres] at h; simp [refClass] at h

example : ∃ fuel' t, obsOfRef (Ref.runProgram 30 demoTailRebind Ref.initSt).1 = some (.err t)
    ∧ obsOfVM (VM.runText fuel' demoTailRebind VM.initSt).1 = some (.err t) := by
  have h := demoTailRebind_ref
  cases hres : Ref.evalBegin 30 demoTailRebind 0 { Ref.initSt with trace := [] } with
  | err rs' =>
    have ho : obsOfRef (Ref.runProgram 30 demoTailRebind Ref.initSt).1 = some (.err rs'.trace) := by
      unfold Ref.runProgram; simp only [hres]; rfl
    obtain ⟨f, hf⟩ := compile_correct_on_F2c demoTailRebind demoTailRebind_in (by decide) 30 _ ho
    exact ⟨f, _, ho, hf⟩
  | ok v rs' => rw [hres] at h; simp [refClass] at h
  | timeout => rw [hres] at h; simp [refClass] at h
  | brk l rs' => rw [hres] at h; simp [refClass] at h
  | cont l rs' => rw [hres] at h; simp [refClass] at h

/-! ## F3 (lazy parameters): `#p` formals and `force` -/

/-- value and number of trace entries of a reference run -/
def refVT (r : Ref.R Val) : Option (Val × Nat) :=
  match r with
  | .ok v rs => some (v, rs.trace.length)
  | _ => none

theorem truthy_bool (b : Bool) : truthy (.bool b) = b := rfl

macro "ref_eval" d:ident : tactic =>
  `(tactic| simp [$d:ident, Ref.evalBegin, Ref.eval, Ref.evalArgs, Ref.applyFn, Ref.bindParams, Ref.newFrame, Ref.evalCond, Ref.force,
    Ref.define, Ref.setVar, Ref.lookup, Ref.lookupIn, Ref.initSt, Ref.assocSet, Ref.globalNames, coreBuiltins,
    refVT, List.lookup, prim, isFunction, allInts, intOfLit, Ref.isLazyParam, rebindOk, tyOf, isCmp, compareVals,
    cmpResult, truthy_bool])

/-- `(defn f [#x y] (cond (> y 0) (force #x) 0)) (f (trace 5) 1) (f (trace 7) 0)`: the operand at the lazy
position is evaluated only when forced — one trace entry, not two -/
def demoLazy : List Expr :=
  [.defn "f" ["#x", "y"] none [.cond [(.call (.sym ">") [.sym "y", .int 0], .call (.sym "force") [.sym "#x"])] (.int 0)],
   .call (.sym "f") [.call (.sym "trace") [.int 5], .int 1],
   .call (.sym "f") [.call (.sym "trace") [.int 7], .int 0]]

/-- `(defn g [#x] (+ (force #x) (force #x))) (g (trace 3))`: forced twice, evaluated once (the memo) -/
def demoLazyMemo : List Expr :=
  [.defn "g" ["#x"] none [.call (.sym "+") [.call (.sym "force") [.sym "#x"], .call (.sym "force") [.sym "#x"]]],
   .call (.sym "g") [.call (.sym "trace") [.int 3]]]

/-- `(def a 1) (defn h [#x] (def a 10) (force #x)) (h (+ a 1))`: forced in the callee, evaluated in the caller's
environment — 2, not 11 -/
def demoLazyEnv : List Expr :=
  [.def_ "a" (.int 1),
   .defn "h" ["#x"] none [.def_ "a" (.int 10), .call (.sym "force") [.sym "#x"]],
   .call (.sym "h") [.call (.sym "+") [.sym "a", .int 1]]]

/-- `(defn lp [#x n] (cond (== n 0) (force #x) (lp (trace n) (- n 1)))) (lp 0 2)`: a lazy operand of a self
tail call (`PushLazyArgInstr` among the inline operands) captures the scopes of the activation the jump then
drops; forced in the last activation it still sees `n = 1` -/
def demoLazyTail : List Expr :=
  [.defn "lp" ["#x", "n"] none [.cond [(.call (.sym "==") [.sym "n", .int 0], .call (.sym "force") [.sym "#x"])]
      (.call (.sym "lp") [.call (.sym "trace") [.sym "n"], .call (.sym "-") [.sym "n", .int 1]])],
   .call (.sym "lp") [.int 0, .int 2]]

theorem demoLazy_in : FtList demoLazy = true := by ft_mem2 demoLazy
theorem demoLazyMemo_in : FtList demoLazyMemo = true := by ft_mem2 demoLazyMemo
theorem demoLazyEnv_in : FtList demoLazyEnv = true := by ft_mem2 demoLazyEnv
theorem demoLazyTail_in : FyList demoLazyTail = true := by fy_mem demoLazyTail

set_option maxRecDepth 8000 in
theorem demoLazy_ref :
    refVT (Ref.evalBegin 20 demoLazy 0 { Ref.initSt with trace := [] }) = some (.int 0#64, 1) := by
  ref_eval demoLazy
set_option maxRecDepth 8000 in
theorem demoLazyMemo_ref :
    refVT (Ref.evalBegin 20 demoLazyMemo 0 { Ref.initSt with trace := [] }) = some (.int 6#64, 1) := by
  ref_eval demoLazyMemo
set_option maxRecDepth 8000 in
theorem demoLazyEnv_ref :
    refVT (Ref.evalBegin 20 demoLazyEnv 0 { Ref.initSt with trace := [] }) = some (.int 2#64, 0) := by
  ref_eval demoLazyEnv
set_option maxRecDepth 8000 in
theorem demoLazyTail_ref :
    refVT (Ref.evalBegin 40 demoLazyTail 0 { Ref.initSt with trace := [] }) = some (.int 1#64, 1) := by
  ref_eval demoLazyTail

/-- **`CompileCorrect` for F3-lazy**: the programs of F2 and F2c, whose `fn`/`defn` may declare lazy parameters
(`#p`: the operand at that position is not evaluated at the call — `PrepareCallExprArgs` or, in a self tail
call, `PushLazyArgInstr` makes a lazy argument object holding the expression, the scope stack and the function
of the call site; the reference evaluator a thunk holding the expression and the frame) and may call `force`
(on a lazy argument: the expression is compiled then, run as a helper function on the captured stack with the
live stack set aside, the control state restored, the value memoised in the same slot of both tables; on any
other value: the value). Lazy values may be passed on, stored, returned, forced later or never, forced from
inside another force. `Sim.RelF.lz` relates the two tables (`Sim.LzOk`: same expression, the captured stack is
the static chain of the thunk's frame, memos related); `Sim.force_sim`/`Sim.fclaimG` is the simulation of
`force`, by induction on the reference fuel (the thunk's expression is evaluated with less fuel than the call). -/
theorem compile_correct_on_F3lazy : CompileCorrectOn (fun p => FtList p = true ∨ FyList p = true) :=
  fun p hp => hp.elim (compile_correct_on_F2 p) (compile_correct_on_F2c p)

/-- an instance of `compile_correct_on_F3lazy` from a value and a trace length of the reference run -/
theorem lazy_instance (fuel : Nat) (p : List Expr) (hp : FtList p = true ∨ FyList p = true) (hwf : Ref.wfList {} p = true)
    (v : Val) (k : Nat) (h : refVT (Ref.evalBegin fuel p 0 { Ref.initSt with trace := [] }) = some (v, k)) :
    ∃ fuel' val t, t.length = k ∧ obsOfRef (Ref.runProgram fuel p Ref.initSt).1 = some (.ok val t)
      ∧ obsOfVM (VM.runText fuel' p VM.initSt).1 = some (.ok val t) := by
  cases hres : Ref.evalBegin fuel p 0 { Ref.initSt with trace := [] } with
  | ok v' rs' =>
    have ho : obsOfRef (Ref.runProgram fuel p Ref.initSt).1 = some (.ok (pr rs'.heap v') rs'.trace) := by
      unfold Ref.runProgram; simp only [hres]; rfl
    obtain ⟨f, hf⟩ := compile_correct_on_F3lazy p hp hwf fuel _ ho
    rw [hres] at h
    simp only [refVT, Option.some.injEq, Prod.mk.injEq] at h
    exact ⟨f, _, _, h.2, ho, hf⟩
  | err rs' => rw [hres] at h; simp [refVT] at h
  | timeout => rw [hres] at h; simp [refVT] at h
  | brk l rs' => rw [hres] at h; simp [refVT] at h
  | cont l rs' => rw [hres] at h; simp [refVT] at h

/-- the four programs above, on the machine: the same value, the same trace (of the stated length) -/
example : ∃ fuel' val t, t.length = 1 ∧ obsOfRef (Ref.runProgram 20 demoLazy Ref.initSt).1 = some (.ok val t)
    ∧ obsOfVM (VM.runText fuel' demoLazy VM.initSt).1 = some (.ok val t) :=
  lazy_instance 20 demoLazy (Or.inl demoLazy_in) (by decide) _ _ demoLazy_ref
example : ∃ fuel' val t, t.length = 1 ∧ obsOfRef (Ref.runProgram 20 demoLazyMemo Ref.initSt).1 = some (.ok val t)
    ∧ obsOfVM (VM.runText fuel' demoLazyMemo VM.initSt).1 = some (.ok val t) :=
  lazy_instance 20 demoLazyMemo (Or.inl demoLazyMemo_in) (by decide) _ _ demoLazyMemo_ref
example : ∃ fuel' val t, t.length = 0 ∧ obsOfRef (Ref.runProgram 20 demoLazyEnv Ref.initSt).1 = some (.ok val t)
    ∧ obsOfVM (VM.runText fuel' demoLazyEnv VM.initSt).1 = some (.ok val t) :=
  lazy_instance 20 demoLazyEnv (Or.inl demoLazyEnv_in) (by decide) _ _ demoLazyEnv_ref
example : ∃ fuel' val t, t.length = 1 ∧ obsOfRef (Ref.runProgram 40 demoLazyTail Ref.initSt).1 = some (.ok val t)
    ∧ obsOfVM (VM.runText fuel' demoLazyTail VM.initSt).1 = some (.ok val t) :=
  lazy_instance 40 demoLazyTail (Or.inr demoLazyTail_in) (by decide) _ _ demoLazyTail_ref

/-! ## F3 (`apply`, `map`): re-entrant calls from a Go builtin -/

macro "ref_eval2" d:ident : tactic =>
  `(tactic| simp [$d:ident, Ref.evalBegin, Ref.eval, Ref.evalArgs, Ref.evalList, Ref.applyFn, Ref.bindParams, Ref.newFrame, Ref.evalCond, Ref.force,
    Ref.applyValues, Ref.mapArr, Ref.mapList, List.foldl, DataHeap.alloc, DataHeap.get, listToArray, mkList,
    Ref.define, Ref.setVar, Ref.lookup, Ref.lookupIn, Ref.initSt, Ref.assocSet, Ref.globalNames, coreBuiltins,
    refVT, List.lookup, prim, isFunction, allInts, intOfLit, Ref.isLazyParam, rebindOk, tyOf, isCmp, compareVals,
    cmpResult, truthy_bool])

/-- `(defn sq [x] (trace (* x x))) (len (map sq [1 2 3]))`: `map` over an array calls the closure once per element,
in order, and stores the results in a new array -/
def demoMapArr : List Expr :=
  [.defn "sq" ["x"] none [.call (.sym "trace") [.call (.sym "*") [.sym "x", .sym "x"]]],
   .call (.sym "len") [.call (.sym "map") [.sym "sq", .arr [.int 1, .int 2, .int 3]]]]

/-- `(defn inc [x] (+ x 1)) (first (rest (map inc (list 1 2))))`: `map` over a list -/
def demoMapList : List Expr :=
  [.defn "inc" ["x"] none [.call (.sym "+") [.sym "x", .int 1]],
   .call (.sym "first") [.call (.sym "rest") [.call (.sym "map") [.sym "inc", .call (.sym "list") [.int 1, .int 2]]]]]

/-- `(defn add [a b] (+ a b)) (apply add [1 2])` -/
def demoApply : List Expr :=
  [.defn "add" ["a", "b"] none [.call (.sym "+") [.sym "a", .sym "b"]],
   .call (.sym "apply") [.sym "add", .arr [.int 1, .int 2]]]

/-- `(defn lz [#x] (+ (force #x) (force #x))) (apply lz [(trace 7)])`: `apply` hands over values; a lazy position
receives an already forced lazy argument object (`NewValueLazyArg`) -/
def demoApplyLazy : List Expr :=
  [.defn "lz" ["#x"] none [.call (.sym "+") [.call (.sym "force") [.sym "#x"], .call (.sym "force") [.sym "#x"]]],
   .call (.sym "apply") [.sym "lz", .arr [.call (.sym "trace") [.int 7]]]]

/-- `(+ (apply + [1 2]) (apply apply [+ [1 2]]))`: Go builtins — also `apply` itself — as callees of `apply` -/
def demoApplyBuiltin : List Expr :=
  [.call (.sym "+") [.call (.sym "apply") [.sym "+", .arr [.int 1, .int 2]],
     .call (.sym "apply") [.sym "apply", .arr [.sym "+", .arr [.int 1, .int 2]]]]]

theorem demoMapArr_in : FtList demoMapArr = true := by ft_mem2 demoMapArr
theorem demoMapList_in : FtList demoMapList = true := by ft_mem2 demoMapList
theorem demoApply_in : FtList demoApply = true := by ft_mem2 demoApply
theorem demoApplyLazy_in : FtList demoApplyLazy = true := by ft_mem2 demoApplyLazy
theorem demoApplyBuiltin_in : FtList demoApplyBuiltin = true := by ft_mem2 demoApplyBuiltin

set_option maxRecDepth 8000 in
theorem demoMapArr_ref :
    refVT (Ref.evalBegin 20 demoMapArr 0 { Ref.initSt with trace := [] }) = some (.int 3#64, 3) := by
  ref_eval2 demoMapArr
set_option maxRecDepth 8000 in
theorem demoMapList_ref :
    refVT (Ref.evalBegin 20 demoMapList 0 { Ref.initSt with trace := [] }) = some (.int 3#64, 0) := by
  ref_eval2 demoMapList
set_option maxRecDepth 8000 in
theorem demoApply_ref :
    refVT (Ref.evalBegin 20 demoApply 0 { Ref.initSt with trace := [] }) = some (.int 3#64, 0) := by
  ref_eval2 demoApply
set_option maxRecDepth 8000 in
theorem demoApplyLazy_ref :
    refVT (Ref.evalBegin 20 demoApplyLazy 0 { Ref.initSt with trace := [] }) = some (.int 14#64, 1) := by
  ref_eval2 demoApplyLazy
set_option maxRecDepth 8000 in
theorem demoApplyBuiltin_ref :
    refVT (Ref.evalBegin 20 demoApplyBuiltin 0 { Ref.initSt with trace := [] }) = some (.int 6#64, 0) := by
  ref_eval2 demoApplyBuiltin

/-- **`CompileCorrect` for F3**: the programs of F2 and F2c — lazy parameters and `force` included — that also
call `apply` and `map` (or pass them, or any other builtin of the fragment, as values: to variables, to user
functions, to `apply`/`map` themselves). `(apply f coll)`: `f` a closure object or a Go builtin (first-order,
`force`, `apply`, `map`), `coll` an array or a list; `(map f coll)`: `f` called once per element, first to last,
on the element as the array/list holds it at that moment, results in a new array resp. list. The Go builtin
calls back into the machine (`Apply`: the arguments pushed — at a lazy position the index of an already forced
lazy argument object made for the value —, `CallFunction`, a nested `Run` whose return address names the
builtin's pseudo-function; an error restores the captured control state): `Sim.aclaim_succ` against
`Ref.applyValues`, with `FClaimU` at lower fuel for the closure (the relation is stated for the function that
called the builtin: `St.withCur`), `Sim.marr_succ`/`Sim.mlist_succ` against `Ref.mapArr`/`Ref.mapList`,
`Sim.hclaims`: every Go builtin of the fragment inside its frame, by induction on the reference fuel. -/
theorem compile_correct_on_F3 : CompileCorrectOn (fun p => FtList p = true ∨ FyList p = true) :=
  compile_correct_on_F3lazy

/-- the five programs above, on the machine: the same value, the same trace (of the stated length) -/
example : ∃ fuel' val t, t.length = 3 ∧ obsOfRef (Ref.runProgram 20 demoMapArr Ref.initSt).1 = some (.ok val t)
    ∧ obsOfVM (VM.runText fuel' demoMapArr VM.initSt).1 = some (.ok val t) :=
  lazy_instance 20 demoMapArr (Or.inl demoMapArr_in) (by decide) _ _ demoMapArr_ref
example : ∃ fuel' val t, t.length = 0 ∧ obsOfRef (Ref.runProgram 20 demoMapList Ref.initSt).1 = some (.ok val t)
    ∧ obsOfVM (VM.runText fuel' demoMapList VM.initSt).1 = some (.ok val t) :=
  lazy_instance 20 demoMapList (Or.inl demoMapList_in) (by decide) _ _ demoMapList_ref
example : ∃ fuel' val t, t.length = 0 ∧ obsOfRef (Ref.runProgram 20 demoApply Ref.initSt).1 = some (.ok val t)
    ∧ obsOfVM (VM.runText fuel' demoApply VM.initSt).1 = some (.ok val t) :=
  lazy_instance 20 demoApply (Or.inl demoApply_in) (by decide) _ _ demoApply_ref
example : ∃ fuel' val t, t.length = 1 ∧ obsOfRef (Ref.runProgram 20 demoApplyLazy Ref.initSt).1 = some (.ok val t)
    ∧ obsOfVM (VM.runText fuel' demoApplyLazy VM.initSt).1 = some (.ok val t) :=
  lazy_instance 20 demoApplyLazy (Or.inl demoApplyLazy_in) (by decide) _ _ demoApplyLazy_ref
example : ∃ fuel' val t, t.length = 0 ∧ obsOfRef (Ref.runProgram 20 demoApplyBuiltin Ref.initSt).1 = some (.ok val t)
    ∧ obsOfVM (VM.runText fuel' demoApplyBuiltin VM.initSt).1 = some (.ok val t) :=
  lazy_instance 20 demoApplyBuiltin (Or.inl demoApplyBuiltin_in) (by decide) _ _ demoApplyBuiltin_ref

/-! ## Self tail calls and loops with exits in NESTED functions -/

/-- `(defn outer [n] (defn lp [i acc] (cond (== i 0) acc (lp (- i 1) (+ acc i)))) (lp n 0)) (outer 3)`: the nested
function loops by a self tail call -/
def demoNestedTail : List Expr :=
  [.defn "outer" ["n"] none
     [.defn "lp" ["i", "acc"] none [.cond [(.call (.sym "==") [.sym "i", .int 0], .sym "acc")]
        (.call (.sym "lp") [.call (.sym "-") [.sym "i", .int 1], .call (.sym "+") [.sym "acc", .sym "i"]])],
      .call (.sym "lp") [.sym "n", .int 0]],
   .call (.sym "outer") [.int 3]]

/-- `(defn outer [xs] (defn firstpos [ys] (def r 0) (for [(def i 0) (< i (len ys)) (set i (+ i 1))]
(cond (> (aget ys i) 0) (begin (set r (aget ys i)) (break)) nil)) r) (firstpos xs)) (outer [0 5 7])`: a loop with
`break` in the body of a nested function -/
def demoNestedBrk : List Expr :=
  [.defn "outer" ["xs"] none
     [.defn "firstpos" ["ys"] none
        [.def_ "r" (.int 0),
         .for_ none (.def_ "i" (.int 0)) (.call (.sym "<") [.sym "i", .call (.sym "len") [.sym "ys"]])
           (.set_ "i" (.call (.sym "+") [.sym "i", .int 1]))
           [.cond [(.call (.sym ">") [.call (.sym "aget") [.sym "ys", .sym "i"], .int 0],
                    .begin_ [.set_ "r" (.call (.sym "aget") [.sym "ys", .sym "i"]), .break_ none])] .nilLit],
         .sym "r"],
      .call (.sym "firstpos") [.sym "xs"]],
   .call (.sym "outer") [.arr [.int 0, .int 5, .int 7]]]

theorem demoNestedTail_in : FyList demoNestedTail = true := by fy_mem demoNestedTail
example : FyList demoNestedBrk = true := by fy_mem demoNestedBrk
example : FtList demoNestedTail = false := by fy_mem demoNestedTail

set_option maxRecDepth 16000 in
theorem demoNestedTail_ref :
    refVT (Ref.evalBegin 40 demoNestedTail 0 { Ref.initSt with trace := [] }) = some (.int 6#64, 0) := by
  ref_eval2 demoNestedTail

/-- **Nested functions with self tail calls and loops with exits**: in the bodies of F2c (`Sim.FzList`) a statement
before the last one (`Sim.Fs`) or the form in tail position (`Sim.Fz`) may be a `defn` whose body is again in
`Sim.FzList` — to any depth. Such a `defn` makes a closure object whose body is simulated in tail position like
every other (`Sim.simF_defnZ`, `Sim.GoodFn.clo`); the generator's knowledge of the function it compiles
(`Sim.KnownOk`, `knownOk_bodyCtx`) and the loop-table facts travel with the object. `compile_correct_on_F2c` — and
with it `compile_correct_on_F3` — covers these programs; this is the instance for the fragment as it is now. -/
theorem compile_correct_on_F2c_nested : CompileCorrectOn (fun p => FyList p = true) := compile_correct_on_F2c

example : ∃ fuel' val t, t.length = 0 ∧ obsOfRef (Ref.runProgram 40 demoNestedTail Ref.initSt).1 = some (.ok val t)
    ∧ obsOfVM (VM.runText fuel' demoNestedTail VM.initSt).1 = some (.ok val t) :=
  lazy_instance 40 demoNestedTail (Or.inr demoNestedTail_in) (by decide) _ _ demoNestedTail_ref

/-! ## Computed call heads -/

/-- `(defn adder [a] (fn [b] (+ a b))) ((adder 1) 2)`: the callee is the value of a call -/
def demoHead : List Expr :=
  [.defn "adder" ["a"] none [.fn ["b"] none [.call (.sym "+") [.sym "a", .sym "b"]]],
   .call (.call (.sym "adder") [.int 1]) [.int 2]]

/-- `((cond (> 1 0) + -) 5 2)`: the callee is the value of a `cond` -/
def demoHeadCond : List Expr :=
  [.call (.cond [(.call (.sym ">") [.int 1, .int 0], .sym "+")] (.sym "-")) [.int 5, .int 2]]

/-- `((+ 1 2) 4)`: the callee evaluates to a number — the script error of both sides -/
def demoHeadErr : List Expr :=
  [.call (.call (.sym "+") [.int 1, .int 2]) [.int 4]]

theorem demoHead_in : FtList demoHead = true := by ft_mem2 demoHead
theorem demoHeadCond_in : FtList demoHeadCond = true := by ft_mem2 demoHeadCond
theorem demoHeadErr_in : FtList demoHeadErr = true := by ft_mem2 demoHeadErr

set_option maxRecDepth 8000 in
theorem demoHead_ref :
    refVT (Ref.evalBegin 20 demoHead 0 { Ref.initSt with trace := [] }) = some (.int 3#64, 0) := by
  ref_eval2 demoHead
set_option maxRecDepth 8000 in
theorem demoHeadCond_ref :
    refVT (Ref.evalBegin 20 demoHeadCond 0 { Ref.initSt with trace := [] }) = some (.int 7#64, 0) := by
  ref_eval2 demoHeadCond
set_option maxRecDepth 8000 in
theorem demoHeadErr_ref :
    refClass (Ref.evalBegin 20 demoHeadErr 0 { Ref.initSt with trace := [] }) = some none := by
  simp [demoHeadErr, Ref.evalBegin, Ref.eval, Ref.evalArgs, Ref.evalList, Ref.applyFn, Ref.lookup, Ref.lookupIn, Ref.initSt,
    Ref.globalNames, coreBuiltins, refClass, List.lookup, prim, isFunction, allInts, intOfLit]

/-- **Computed call heads**: in every position where the fragments allow a call, the callee may be any operand
expression of the fragment (`Sim.Ff false ""`: a call, a `cond`, a `let`, …, not `fn`/`defn`) instead of a symbol:
`CallExprInstr` evaluates it like an operand (`EvalCallExpression`: compiled when the instruction runs, a nested `Run`),
then proceeds as for a call by name with the value found (`Sim.simF_callE`, `Sim.simF_callV`, `Sim.SimVia`); such a
call is never compiled as a self tail call. Same statement as `compile_correct_on_F3`, for the fragments as they are now. -/
theorem compile_correct_on_F2heads : CompileCorrectOn (fun p => FtList p = true ∨ FyList p = true) :=
  compile_correct_on_F3lazy

example : ∃ fuel' val t, t.length = 0 ∧ obsOfRef (Ref.runProgram 20 demoHead Ref.initSt).1 = some (.ok val t)
    ∧ obsOfVM (VM.runText fuel' demoHead VM.initSt).1 = some (.ok val t) :=
  lazy_instance 20 demoHead (Or.inl demoHead_in) (by decide) _ _ demoHead_ref
example : ∃ fuel' val t, t.length = 0 ∧ obsOfRef (Ref.runProgram 20 demoHeadCond Ref.initSt).1 = some (.ok val t)
    ∧ obsOfVM (VM.runText fuel' demoHeadCond VM.initSt).1 = some (.ok val t) :=
  lazy_instance 20 demoHeadCond (Or.inl demoHeadCond_in) (by decide) _ _ demoHeadCond_ref
example : ∃ fuel' t, obsOfRef (Ref.runProgram 20 demoHeadErr Ref.initSt).1 = some (.err t)
    ∧ obsOfVM (VM.runText fuel' demoHeadErr VM.initSt).1 = some (.err t) := by
  have h := demoHeadErr_ref
  cases hres : Ref.evalBegin 20 demoHeadErr 0 { Ref.initSt with trace := [] } with
  | err rs' =>
    have ho : obsOfRef (Ref.runProgram 20 demoHeadErr Ref.initSt).1 = some (.err rs'.trace) := by
      unfold Ref.runProgram; simp only [hres]; rfl
    obtain ⟨f, hf⟩ := compile_correct_on_F2heads demoHeadErr (Or.inl demoHeadErr_in) (by decide) 20 _ ho
    exact ⟨f, _, ho, hf⟩
  | ok v rs' => rw [hres] at h; simp [refClass] at h
  | timeout => rw [hres] at h; simp [refClass] at h
  | brk l rs' => rw [hres] at h; simp [refClass] at h
  | cont l rs' => rw [hres] at h; simp [refClass] at h

/-- `(defn mk [] (fn [xs] (def r 0) (for [(def i 0) (< i (len xs)) (set i (+ i 1))] (cond (> (aget xs i) 0)
(begin (set r (aget xs i)) (break)) nil)) r)) ((mk) [0 5 7])`: an anonymous function whose body has a loop with `break`
(`Sim.simF_fnZ`), called through a computed head; the harness prints `ok 5 T[]` on all three sides -/
def demoFnLoop : List Expr :=
  [.defn "mk" [] none
     [.fn ["xs"] none
        [.def_ "r" (.int 0),
         .for_ none (.def_ "i" (.int 0)) (.call (.sym "<") [.sym "i", .call (.sym "len") [.sym "xs"]])
           (.set_ "i" (.call (.sym "+") [.sym "i", .int 1]))
           [.cond [(.call (.sym ">") [.call (.sym "aget") [.sym "xs", .sym "i"], .int 0],
                    .begin_ [.set_ "r" (.call (.sym "aget") [.sym "xs", .sym "i"]), .break_ none])] .nilLit],
         .sym "r"]],
   .call (.call (.sym "mk") []) [.arr [.int 0, .int 5, .int 7]]]

example : FyList demoFnLoop = true := by fy_mem demoFnLoop
example : FtList demoFnLoop = false := by fy_mem demoFnLoop

/-- **C16's `LazySemantics` on the fragment**: the statement of `Props/C16.lean` (`C16.LazySemantics`, in that
file's vocabulary) restricted to the programs of F3-lazy. -/
theorem lazy_semantics_on_F3lazy (p : List Expr) (hp : FtList p = true ∨ FyList p = true) (hwf : Ref.wfList {} p = true)
    (fuel : Nat) (o : C16.Obs) (ho : C16.obsOfRef (Ref.runProgram fuel p Ref.initSt).1 = some o) :
    ∃ fuel', C16.obsOfVM (VM.runText fuel' p VM.initSt).1 = some o := by
  have key : ∀ o2 : Obs, obsOfRef (Ref.runProgram fuel p Ref.initSt).1 = some o2 →
      ∃ fuel', obsOfVM (VM.runText fuel' p VM.initSt).1 = some o2 := compile_correct_on_F3lazy p hp hwf fuel
  have conv : ∀ (out : VM.Outcome) (v : String) (t : List String), obsOfVM out = some (.ok v t) → C16.obsOfVM out = some (.ok v t) := by
    intro out v t h
    unfold obsOfVM at h
    split at h
    · injection h with h; injection h with h1 h2; subst h1; subst h2; rfl
    · cases h
    · cases h
  have conve : ∀ (out : VM.Outcome) (t : List String), obsOfVM out = some (.err t) → C16.obsOfVM out = some (.err t) := by
    intro out t h
    unfold obsOfVM at h
    split at h
    · cases h
    · injection h with h; injection h with h1; subst h1; rfl
    · cases h
  cases hr : (Ref.runProgram fuel p Ref.initSt).1 with
  | ok v t =>
    rw [hr] at ho
    injection ho with ho; subst ho
    obtain ⟨f, hf⟩ := key (.ok v t) (by rw [hr]; rfl)
    exact ⟨f, conv _ v t hf⟩
  | err t =>
    rw [hr] at ho
    injection ho with ho; subst ho
    obtain ⟨f, hf⟩ := key (.err t) (by rw [hr]; rfl)
    exact ⟨f, conve _ t hf⟩
  | timeout => rw [hr] at ho; cases ho

/-- the programs covered by a theorem: every top-level form in Fv, or every top-level form in Fc,
or every top-level form in F2, or every top-level form in Fx (F2 with `break`/`continue` in top-level loops),
or every top-level form in F2c (F2 forms and top-level `defn`s with self tail calls) -/
def InProvedFragment (p : List Expr) : Prop :=
  FvList p = true ∨ FcList p = true ∨ FtList p = true ∨ FxTop p = true ∨ FyList p = true

/-- **The part of `CompileCorrect` that is NOT proved**: programs that are in none of Fv, Fc, F2, Fx, F2c
(F2 and F2c include lazy parameters, `force`, `apply` and `map`) —
i.e. using a `fn`/`defn` inside
an operand of a call (compiled at run time), a self call in
a directly compiled non-tail position, a self tail call or `break`/`continue` in a nested function that is not a
`defn`/`fn` statement or last form of a function body (a function under `def`/`set`, inside a loop body or an operand), `substitute`,
an empty `newScope`, or (together with calls or
array literals) a binder that re-uses a builtin name. Held by the 3-way `eval` correspondence on
every run, not by a theorem. -/
def CompileCorrectOutsideProved : Prop := CompileCorrectOn (fun p => ¬ InProvedFragment p)

/-- `compile_correct_partial`: what is proved of the semantic statement.

1. `CompileCorrect` restricted to the programs of the proved fragments (execution half included:
   generator model + VM model vs reference evaluator, all sizes and nestings, values *and*
   errors, traces, effects on every scope):
   * Fv — literals, symbols, `def`, `set`, `begin`, `cond`, `and`, `or`, `newScope`, `letseq`, `let`
     (distinct names) — `compile_correct_on_Fv`;
   * Fc — the same with binder names that are not builtin names, plus calls of first-order
     builtins (arithmetic, comparisons, `not`, lists, arrays, strings, `trace`), operands evaluated
     in nested runs, array literals, and `for` loops without `break`/`continue` — `compile_correct_on_Fc`;
   * F2 — `defn`/`fn` of fixed arity or with a rest parameter (`[a b & more]`) at top level and nested, closures capturing (and assigning to)
     locals of the functions they were made in, calls of user functions by name (also through
     variables: functions are values), recursion, first-order builtins, `def`/`set`/`begin`/`cond`/
     `and`/`or`/`newScope`/`letseq`/`let`/array literals/`for` loops;
     values related modulo the numbering of closures — `compile_correct_on_F2`;
   * Fx — F2 plus `break`/`continue` (plain or labelled) of the enclosing `for` loops in top-level code,
     under `begin`/`cond`/`let`/`letseq`/`newScope`/nested loop bodies: a non-landing outcome of the
     simulation (`Sim.SimX`, `Sim.JumpedF`) — `compile_correct_on_F2x`;
   * F2c — Fx statements and top-level `defn`s whose bodies call the function itself in tail position
     (`Sim.Fz`: under `begin`/`cond`/`let`/`letseq`/`newScope`) and whose loops `break`/`continue`: the
     self-tail-call sequence with its guard, both paths (`Sim.SimT`, `Sim.RetOut`, `Sim.simT_selfcall`);
     loops with exits inside function bodies (`Sim.simF_stmt`) — `compile_correct_on_F2c`;
   * F3-lazy — in F2 and F2c, `fn`/`defn` may declare lazy parameters (`#p`) and every program may call `force`:
     operands at lazy positions are not evaluated at the call (ordinary call and self tail call), `force`
     evaluates them once, in the environment of the call site, whenever and wherever it is called
     (`Sim.force_sim`) — `compile_correct_on_F3lazy`, and in C16's vocabulary `lazy_semantics_on_F3lazy`;
   * F3 — in the same fragments, `apply` and `map` on closure objects and on Go builtins (first-order, `force`,
     `apply`, `map`), over arrays and lists; builtins as values — `compile_correct_on_F3`;
   * nested functions — a `defn` or an anonymous `fn` that is a statement (or the last form) of a function body of F2c
     may itself have a body of F2c (`Sim.simF_fnZ` for `fn`): self tail calls and loops with `break`/`continue` in nested functions, to any depth
     (`Sim.Fs`, `Sim.simF_defnZ`) — `compile_correct_on_F2c_nested`;
   * computed call heads — the callee of a call may be any operand expression of the fragment
     (`Sim.simF_callE`) — `compile_correct_on_F2heads`;
   * for the effect-free sub-fragment F0c with explicit fuel on both sides — `compile_correct_F0c`;
2. the full `CompileCorrect` follows from its restriction to the remaining programs
   (`CompileCorrectOutsideProved`, the precise unproved remainder);
3. the layout half for `begin`/`cond`/`and`/`or` as before (and `gen_for_layout` for loops).

MISSING (held by the `eval` correspondence only): `CompileCorrectOutsideProved` — `break`/`continue`
and self tail calls inside functions that are not statements or last forms of a function body
(under `def`/`set`, in loop bodies, in operands), the rest of F2 (`fn`/`defn` inside operands), `substitute`. -/
theorem compile_correct_partial :
    CompileCorrectOn InProvedFragment
    ∧ (CompileCorrectOutsideProved → CompileCorrect)
    ∧ (∀ cs : List (List Instr), (∀ c ∈ cs, c ≠ []) → asmBegin cs = (cs.intersperse [Instr.pop]).flatten)
    ∧ (∀ (arms : List (List Instr × List Instr)) (dflt : List Instr) (i : Nat), i < arms.length →
        ∃ pre, asmCond arms dflt = pre ++ asmCond (arms.drop i) dflt)
    ∧ (∀ (isOr : Bool) (cs : List (List Instr)) (i : Nat), i < cs.length →
        ∃ pre, asmSC isOr cs = pre ++ asmSC isOr (cs.drop i)) := by
  have hin : CompileCorrectOn InProvedFragment := by
    intro p hp hwf
    rcases hp with hp | hp | hp | hp | hp
    · exact compile_correct_on_Fv p hp hwf
    · exact compile_correct_on_Fc p hp hwf
    · exact compile_correct_on_F2 p hp hwf
    · exact compile_correct_on_F2x p hp hwf
    · exact compile_correct_on_F2c p hp hwf
  refine ⟨hin, fun hout p hwf => ?_, gen_begin_pops_between,
    fun arms dflt i _ => asmCond_suffix arms dflt i, asmSC_suffix⟩
  by_cases h : InProvedFragment p
  · exact hin p h hwf
  · exact hout p h hwf

end ZygoVerif.C02
