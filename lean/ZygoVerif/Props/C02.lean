/-
C02 — evaluation matches the reference semantics.

Full-strength statement (`CompileCorrect`): for every well-formed core program, every
history prefix and enough fuel, the VM model (`VM.runText`: model of LoadExpressions + Run
on the model of the generator) and the reference evaluator (`Ref.runProgram`) report the same
outcome class, printed value and trace.

What is proved here (all unbounded in the size and nesting of the program, about the very
functions `Model/Gen.lean`'s `compile` calls to lay out code — the generator has no other
jump arithmetic):

* `gen_begin_pops_between`      — `GenerateBegin` puts exactly one `pop` between statements;
* `gen_cond_targets`            — in the code of a `cond` with any number of arms, the
                                  `brn` of arm *i* lands exactly on the first instruction of
                                  arm *i+1* (or of the default) and the `jump` that ends the
                                  body of arm *i* lands exactly behind the whole `cond`;
* `gen_shortcircuit_targets`    — in `and`/`or` with any number of arms, every `br` lands
                                  exactly behind the whole form, after a `dup` and before a `pop`;
* `gen_for_layout`              — the layout of a `for` loop and its four offsets: the jump
                                  to the test, the exit branch, the back jump, and the
                                  `break`/`continue` offsets stored in the loop record.

`compile_correct_partial` (below) says what is missing for the semantic statement.
-/
import ZygoVerif.Model.Gen
import ZygoVerif.Model.VM
import ZygoVerif.Spec.RefEval
namespace ZygoVerif.C02
open ZygoVerif.Core ZygoVerif.VM

/-! ## Full-strength statement -/

/-- Observable result of one program text, common to both sides. -/
inductive Obs where
  | ok (value : String) (trace : List String)
  | err (trace : List String)
deriving DecidableEq, Repr

def obsOfRef : Ref.Outcome → Option Obs
  | .ok v t => some (.ok v t)
  | .err t => some (.err t)
  | .timeout => none

def obsOfVM : VM.Outcome → Option Obs
  | .done "ok" v t _ => some (.ok v t)
  | .done "err" _ t _ => some (.err t)
  | _ => none

/-- The property, at full strength, for a single text run in the initial interpreter:
whenever the reference evaluator terminates on a well-formed program, the VM model (given
enough fuel) reports the same class, value and trace. -/
def CompileCorrect : Prop :=
  ∀ (p : List Expr), Ref.wfList {} p = true →
    ∀ fuel o, obsOfRef (Ref.runProgram fuel p Ref.initSt).1 = some o →
      ∃ fuel', obsOfVM (VM.runText fuel' p VM.initSt).1 = some o

/-! ## `GenerateBegin`: pops exactly between statements -/

/-- With every statement producing code, the body is the statements' code separated by
single `pop`s — none in front, none behind. -/
theorem gen_begin_pops_between (cs : List (List Instr)) (h : ∀ c ∈ cs, c ≠ []) :
    asmBegin cs = (cs.intersperse [Instr.pop]).flatten := by
  induction cs with
  | nil => rfl
  | cons c rest ih =>
    cases rest with
    | nil => simp [asmBegin]
    | cons c' rest' =>
      have hc : c ≠ [] := h c (by simp)
      have ih' := ih (fun x hx => h x (by simp [hx]))
      have hstep : asmBegin (c :: c' :: rest') = c ++ [Instr.pop] ++ asmBegin (c' :: rest') := by
        simp [asmBegin, hc]
      have hint : (c :: c' :: rest').intersperse [Instr.pop]
          = c :: [Instr.pop] :: (c' :: rest').intersperse [Instr.pop] := rfl
      rw [hstep, ih', hint, List.flatten_cons, List.flatten_cons, List.append_assoc]

/-- Length form: `n` statements cost exactly `n - 1` extra instructions. -/
theorem gen_begin_length (cs : List (List Instr)) (h : ∀ c ∈ cs, c ≠ []) :
    (asmBegin cs).length = (cs.map List.length).sum + (cs.length - 1) := by
  induction cs with
  | nil => rfl
  | cons c rest ih =>
    cases rest with
    | nil => simp [asmBegin]
    | cons c' rest' =>
      have hc : c ≠ [] := h c (by simp)
      have ih' := ih (fun x hx => h x (by simp [hx]))
      have hstep : asmBegin (c :: c' :: rest') = c ++ [Instr.pop] ++ asmBegin (c' :: rest') := by
        simp [asmBegin, hc]
      rw [hstep]
      simp only [List.length_append, List.length_cons, List.length_nil, List.map_cons, List.sum_cons] at ih' ⊢
      omega

example : asmBegin [[Instr.push .nil], [Instr.dup, Instr.pop], [Instr.push (.bool true)]]
    = [Instr.push .nil, .pop, .dup, .pop, .pop, .push (.bool true)] := rfl

/-! ## `GenerateCond`: jump targets land at arm boundaries -/

/-- The code of the later arms is a suffix of the code of the whole `cond`. -/
theorem asmCond_suffix (arms : List (List Instr × List Instr)) (dflt : List Instr) (i : Nat) :
    ∃ pre, asmCond arms dflt = pre ++ asmCond (arms.drop i) dflt := by
  induction i generalizing arms with
  | zero => exact ⟨[], by simp⟩
  | succ n ih =>
    cases arms with
    | nil => exact ⟨[], by simp⟩
    | cons a rest =>
      obtain ⟨pre, hpre⟩ := ih rest
      obtain ⟨p, b⟩ := a
      refine ⟨p ++ [Instr.branch false (b.length + 2)] ++ b ++ [Instr.jump ((asmCond rest dflt).length + 1)] ++ pre, ?_⟩
      simp only [List.drop_succ_cons, asmCond, List.append_assoc]
      rw [← hpre]

/-- For every arm `i` of a `cond` with any number of arms: the whole code splits as
`pre ++ pred ++ [brn k] ++ body ++ [jump j] ++ rest`, where `rest` is the code of the
remaining arms and the default, the `brn` lands exactly on the first instruction of `rest`
and the `jump` exactly behind the whole `cond`. Positions are absolute in the `cond`'s code. -/
theorem gen_cond_targets (arms : List (List Instr × List Instr)) (dflt : List Instr)
    (i : Nat) (hi : i < arms.length) :
    ∃ pre k j,
      let pred := (arms[i]).1
      let body := (arms[i]).2
      let rest := asmCond (arms.drop (i + 1)) dflt
      let code := asmCond arms dflt
      code = pre ++ pred ++ [Instr.branch false k] ++ body ++ [Instr.jump j] ++ rest
      ∧ ((pre ++ pred).length : Int) + k = ((pre ++ pred ++ [Instr.branch false k] ++ body ++ [Instr.jump j]).length : Int)
      ∧ ((pre ++ pred ++ [Instr.branch false k] ++ body).length : Int) + j = (code.length : Int) := by
  obtain ⟨pre, hpre⟩ := asmCond_suffix arms dflt i
  have hdrop : arms.drop i = arms[i] :: arms.drop (i + 1) := by
    rw [List.drop_eq_getElem_cons hi]
  refine ⟨pre, ((arms[i]).2.length + 2 : Nat), ((asmCond (arms.drop (i + 1)) dflt).length + 1 : Nat), ?_, ?_, ?_⟩
  · rw [hpre, hdrop]
    rcases hai : arms[i] with ⟨p, b⟩
    simp [asmCond]
  · simp only [List.length_append, List.length_cons, List.length_nil]
    push_cast
    omega
  · rw [hpre, hdrop]
    rcases hai : arms[i] with ⟨p, b⟩
    simp only [asmCond, List.length_append, List.length_cons, List.length_nil]
    push_cast
    omega

example : asmCond [([Instr.push (.bool false)], [Instr.push .nil])] [Instr.dup]
    = [Instr.push (.bool false), .branch false 3, .push .nil, .jump 2, .dup] := rfl

/-! ## `GenerateShortCircuit`: every branch lands behind the whole form -/

theorem asmSC_suffix (isOr : Bool) (cs : List (List Instr)) (i : Nat) (hi : i < cs.length) :
    ∃ pre, asmSC isOr cs = pre ++ asmSC isOr (cs.drop i) := by
  induction i generalizing cs with
  | zero => exact ⟨[], by simp⟩
  | succ n ih =>
    cases cs with
    | nil => simp at hi
    | cons c rest =>
      cases rest with
      | nil => simp at hi
      | cons c' rest' =>
        obtain ⟨pre, hpre⟩ := ih (c' :: rest') (by simpa using hi)
        refine ⟨c ++ [Instr.dup, Instr.branch isOr ((asmSC isOr (c' :: rest')).length + 2), Instr.pop] ++ pre, ?_⟩
        simp only [List.drop_succ_cons, List.append_assoc]
        rw [← hpre]
        simp [asmSC]

/-- For every non-final arm `i` of an `and`/`or` with any number of arms: the code splits
as `pre ++ arm ++ [dup, br k, pop] ++ rest` and the branch lands exactly behind the whole
form (so the duplicated value is the form's result; on fall-through it is popped). -/
theorem gen_shortcircuit_targets (isOr : Bool) (cs : List (List Instr)) (i : Nat) (hi : i + 1 < cs.length) :
    ∃ pre k,
      let rest := asmSC isOr (cs.drop (i + 1))
      let code := asmSC isOr cs
      code = pre ++ cs[i] ++ [Instr.dup, Instr.branch isOr k, Instr.pop] ++ rest
      ∧ ((pre ++ cs[i] ++ [Instr.dup]).length : Int) + k = (code.length : Int) := by
  obtain ⟨pre, hpre⟩ := asmSC_suffix isOr cs i (by omega)
  have hdrop : cs.drop i = cs[i] :: cs.drop (i + 1) := by
    rw [List.drop_eq_getElem_cons (by omega)]
  have hne : cs.drop (i + 1) ≠ [] := by
    intro h
    have := congrArg List.length h
    simp at this
    omega
  obtain ⟨d, ds, hd⟩ := List.exists_cons_of_ne_nil hne
  refine ⟨pre, ((asmSC isOr (cs.drop (i + 1))).length + 2 : Nat), ?_, ?_⟩
  · rw [hpre, hdrop, hd]
    simp [asmSC]
  · rw [hpre, hdrop, hd]
    simp only [asmSC, List.length_append, List.length_cons, List.length_nil]
    push_cast
    omega

example : asmSC false [[Instr.push (.bool true)], [Instr.push .nil]]
    = [Instr.push (.bool true), .dup, .branch false 3, .pop, .push .nil] := rfl

/-! ## `GenerateForLoop`: layout and offsets -/

/-- The loop's code is
`pre ++ [label] ++ incr ++ [label] ++ test ++ [brn x] ++ [label] ++ body ++ [jump b, label] ++ [clearMark, removeScope, push nil]`
with `pre = [loopStart, addScope, pushMark, label] ++ init ++ [jump t]`, and
* `t` lands on the test label, * `x` on the end label, * `b` on the increment label,
* `continueOffset` is the position of the increment label, `breakOffset` that of `clearMark`
(both relative to `loopStart`, which is instruction 0 of this code). -/
theorem gen_for_layout (l : Nat) (init test incr body : List Instr) :
    ∃ t x b,
      let pre := [Instr.loopStart l, .addScope, .pushMark l, .label] ++ init ++ [Instr.jump t]
      let upToBody := pre ++ [Instr.label] ++ incr ++ [Instr.label] ++ test ++ [Instr.branch false x] ++ [Instr.label] ++ body
      (asmFor l init test incr body).1 = upToBody ++ [Instr.jump b, .label] ++ [Instr.clearMark l, .removeScope, .push .nil]
      ∧ ((pre.length : Int) - 1) + t = ((pre ++ [Instr.label] ++ incr).length : Int)
      ∧ ((pre ++ [Instr.label] ++ incr ++ [Instr.label] ++ test).length : Int) + x = (upToBody.length : Int) + 1
      ∧ (upToBody.length : Int) + b = (pre.length : Int)
      ∧ (asmFor l init test incr body).2.2 = (pre.length : Int)
      ∧ (asmFor l init test incr body).2.1 = (upToBody.length : Int) + 2 := by
  refine ⟨((incr.length + 2 : Nat) : Int), ((body.length + 3 : Nat) : Int), ?_, ?_⟩
  · exact (([Instr.loopStart l, .addScope, .pushMark l, .label] ++ init ++ [Instr.jump ((incr.length + 2 : Nat) : Int)]).length : Int)
      - (([Instr.loopStart l, .addScope, .pushMark l, .label] ++ init ++ [Instr.jump ((incr.length + 2 : Nat) : Int)]
          ++ ([Instr.label] ++ incr ++ [Instr.label] ++ test ++ [Instr.branch false ((body.length + 3 : Nat) : Int)]) ++ [Instr.label] ++ body).length : Int)
  · simp only [asmFor, List.length_append, List.length_cons, List.length_nil, List.append_assoc,
      List.cons_append, List.nil_append]
    push_cast
    refine ⟨?_, ?_, ?_, ?_, ?_, ?_⟩ <;> first | rfl | omega | (simp; omega) | simp

example : (asmFor 0 [Instr.popUntilMark 0] [Instr.push (.bool false)] [Instr.popUntilMark 0] [Instr.popUntilMark 0]).2
    = (15, 6) := by decide

/-! ## What is missing for `CompileCorrect` -/

/-- `compile_correct_partial`: the layout half of the simulation argument for the fragment
F0/F1 (literals, symbols, builtin calls, `begin def set cond and or let letseq newScope for`):
every jump the generator emits for these forms lands on the boundary the reference
semantics prescribes (next arm / behind the form / loop test, increment and exit), and
`begin` pops exactly between statements.

MISSING (not proved; held by the 3-way `eval` correspondence on every run):
* the execution half — a segment lemma "the code of a sub-expression embedded at offset k
  runs as when run alone" over `VM.run`, and from it `CompileCorrect` for F0 (values of
  `cond/and/or/begin/let`), F1 (`for`, `break`, `continue`), F2 (`fn`/`defn`, calls, varargs,
  recursion: needs the scope/closure simulation relation shared with C03) and F3 (self tail
  calls, `map`/`apply`, lazy parameters);
* the link between `compile`'s monadic plumbing and the `asm*` functions is by definition
  (`compile` calls them), not a separate theorem. -/
theorem compile_correct_partial :
    (∀ cs : List (List Instr), (∀ c ∈ cs, c ≠ []) → asmBegin cs = (cs.intersperse [Instr.pop]).flatten)
    ∧ (∀ (arms : List (List Instr × List Instr)) (dflt : List Instr) (i : Nat), i < arms.length →
        ∃ pre, asmCond arms dflt = pre ++ asmCond (arms.drop i) dflt)
    ∧ (∀ (isOr : Bool) (cs : List (List Instr)) (i : Nat), i < cs.length →
        ∃ pre, asmSC isOr cs = pre ++ asmSC isOr (cs.drop i)) :=
  ⟨gen_begin_pops_between, fun arms dflt i _ => asmCond_suffix arms dflt i, asmSC_suffix⟩

end ZygoVerif.C02
