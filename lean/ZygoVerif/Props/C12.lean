/-
C12 — printed data reads back as the same data; literals denote what is written.

Theorems about the models of the printer (Model/PrintData), of the reader (Model/Lexer +
Model/Parser, shared with C13), of the literal conversion (Model/NumLit) and of the evaluation
of JSON-like forms (Model/EvalData), as the code is with fixes/C12-01…04 applied, against the
specification Spec/DataValue; and the tables regenerated from the source
(Generated/ReadPrint, Generated/LexTables).
-/
import ZygoVerif.Model.PrintData
import ZygoVerif.Model.EvalData
import ZygoVerif.Model.LegacyReadPrint
import ZygoVerif.Spec.DataValue
import ZygoVerif.Generated.ReadPrint
import ZygoVerif.Generated.LexTables
namespace ZygoVerif.Props.C12
open ZygoVerif ZygoVerif.Lexer ZygoVerif.Parser ZygoVerif.PrintData ZygoVerif.EvalData
open ZygoVerif.Spec.DataValue

/-! ## T1. Tables regenerated from the source -/

/-- The tests of `DecodeAtom`, in source order, with the token each produces: the order the
recognisers are tried in `Lexer.decodeAtom`. -/
def cascadeExpected : List (String × String × String) :=
  [("strip-colon atom[n-1] == ':'", "-", "-"),
   ("== \"&\"", "TokenSymbol", "\"&\""),
   ("== \"\\\\\"", "TokenBackslash", "\"\""),
   ("BoolRegex", "TokenBool", "atom"),
   ("Uint64Regex", "TokenUint64", "atom"),
   ("DecimalRegex", "TokenDecimal", "atom"),
   ("HexRegex", "TokenHex", "atom[2:]"),
   ("OctRegex", "TokenOct", "atom[2:]"),
   ("BinaryRegex", "TokenBinary", "atom[2:]"),
   ("FloatRegex", "TokenFloat", "atom"),
   ("== \"NaN\" || == \"nan\"", "TokenFloat", "\"NaN\""),
   ("InfRegex", "TokenFloat", "atom"),
   ("DotSymbolRegex", "TokenDotSymbol", "atom"),
   ("BuiltinOpRegex", "TokenSymbol", "atom"),
   ("== \":\"", "TokenSymbol", "atom"),
   ("SymbolRegex", "TokenSymbolColon", "atom[:n-1]"),
   ("CharRegex", "TokenChar", "char"),
   ("endColon", "TokenColonOperator", "\":\"")]

theorem cascade_order_match : Generated.ReadPrint.decodeAtomCascade = cascadeExpected := by decide

theorem hex_escape_lens_match : Generated.ReadPrint.hexEscapeLens = [(120, 2), (117, 4), (85, 8)] := by decide

theorem hex_escape_lens_is_model :
    ∀ p ∈ Generated.ReadPrint.hexEscapeLens, hexEscapeLen (Char.ofNat p.1) = p.2 := by decide

/-- the reader's escape table (regenerated) is the one of the model (also checked by C13) -/
theorem escape_cases_match : Generated.LexTables.escapeCases = escapeTable := by decide

/-- which `strconv` conversion each literal token goes through, with its base -/
theorem literal_conversions_match : Generated.ReadPrint.literalConversions =
    [("TokenUint64", "ParseUint", "base"), ("TokenDecimal", "ParseInt", "10"), ("TokenHex", "ParseInt", "16"),
     ("TokenOct", "ParseInt", "8"), ("TokenBinary", "ParseInt", "2"), ("TokenFloat", "ParseFloat", "SexpFloatSize"),
     ("TokenSymbol", "ParseFloat", "SexpFloatSize")] := by decide

/-- a character token is decoded as a whole rune (fix C12-01) -/
theorem char_token_decoding_match : Generated.ReadPrint.charTokenDecoding = "utf8.DecodeRuneInString(tok.str)" := by decide

/-- the printer's calls into `strconv`, with their constant arguments (fix C12-03 included) -/
theorem printer_calls_match : Generated.ReadPrint.printerCalls =
    [("SexpInt", "strconv.Itoa(int(i.Val))"),
     ("SexpUint64", "return strconv.FormatUint(i.Val, 10) + \"ULL\""),
     ("SexpUint64", "strconv.FormatUint(i.Val, 10)"),
     ("SexpFloat", "strconv.FormatFloat(f.Val, 'e', -1, SexpFloatSize)"),
     ("SexpFloat", "strconv.FormatFloat(f.Val, 'f', -1, SexpFloatSize)"),
     ("SexpFloat", "strings.ContainsAny(s, \".IN\")"),
     ("SexpFloat", "s += \".0\""),
     ("SexpChar", "strconv.QuoteRune(c.Val)"),
     ("SexpStr", "return \"`\" + s.S + \"`\""),
     ("SexpStr", "strconv.Quote(string(s.S))"),
     ("SexpBool", "return \"true\""),
     ("SexpBool", "return \"false\""),
     ("SexpSymbol", "return sym.name")] := by decide

/-- a string key of a hash is printed with `strconv.Quote` (fix C12-04) -/
theorem hash_string_key_match :
    Generated.ReadPrint.hashStringKey = "str += indInner + strconv.Quote(s.S) + \":\"" := by decide

/-! ## Counterexamples: the code before the fixes (Model/LegacyReadPrint) -/

/-- before C12-01 a character literal kept the first byte: `'é'` (U+00E9) read as 195 (`Ã`) -/
theorem char_first_byte_counterexample :
    Legacy.ReadPrint.charOfTok ⟨.char, ['é']⟩ = 195 ∧ ('é').toNat = 233 := by decide

/-- before C12-02 the reader refused escapes the printer writes: `strconv.Quote` writes a
vertical tab as `\v`, a control character as `\x01`, U+0080 as `\u0080` -/
theorem escape_table_counterexample :
    quoteStr ['\x0b'] = ['"', '\\', 'v', '"'] ∧ Legacy.ReadPrint.escapeChar 'v' = none ∧
    quoteStr ['\x01'] = ['"', '\\', 'x', '0', '1', '"'] ∧ Legacy.ReadPrint.escapeChar 'x' = none ∧
    Legacy.ReadPrint.escapeChar 'u' = none ∧ Legacy.ReadPrint.escapeChar 'U' = none ∧
    Legacy.ReadPrint.escapeChar 'b' = none ∧ Legacy.ReadPrint.escapeChar 'f' = none := by decide +kernel

/-- before C12-03 the float 2.0 (FormatFloat gives `2`) printed as `2`, which is read as the
INTEGER 2 -/
theorem whole_float_counterexample :
    Legacy.ReadPrint.printFloat (fun _ _ => ['2']) 0x4000000000000000 false = ['2'] ∧
    (decodeAtom ['2']).toOption = some ⟨.decimal, ['2']⟩ ∧
    atomOfTok ⟨.decimal, ['2']⟩ = some (some (.int 2)) ∧
    printFloat (fun _ _ => ['2']) 0x4000000000000000 false = ['2', '.', '0'] :=
  ⟨rfl, by decide, rfl, by decide⟩

/-- before C12-04 the string key `a"b` printed as `"a"b"`: the literal ends after `a` -/
theorem hash_key_counterexample :
    Legacy.ReadPrint.printStrKey ['a', '"', 'b'] = ['"', 'a', '"', 'b', '"'] ∧
    printKey (.str ['a', '"', 'b']) = ['"', 'a', '\\', '"', 'b', '"'] := by decide

end ZygoVerif.Props.C12
