/-
C12 — printed data reads back as the same data; literals denote what is written.

Theorems about the models of the printer (Model/PrintData), of the reader (Model/Lexer +
Model/Parser, shared with C13), of the literal conversion (Model/NumLit) and of the evaluation
of JSON-like forms (Model/EvalData), as the code is with fixes/C12-01…04 applied, against the
specification Spec/DataValue; and the tables regenerated from the source
(Generated/ReadPrint, Generated/LexTables).
-/
import ZygoVerif.Model.PrintData
import ZygoVerif.Model.EvalData
import ZygoVerif.Model.LegacyReadPrint
import ZygoVerif.Model.LegacyLexer
import ZygoVerif.Spec.DataValue
import ZygoVerif.Spec.LiteralHistory
import ZygoVerif.Generated.ReadPrint
import ZygoVerif.Generated.LexTables
import ZygoVerif.Proofs.ReadPrintMain
import ZygoVerif.Proofs.LiteralValue
import ZygoVerif.Proofs.LiteralNotations
import ZygoVerif.Proofs.LiteralSpec
import ZygoVerif.Proofs.EvalPrint
namespace ZygoVerif.Props.C12
open ZygoVerif ZygoVerif.Lexer ZygoVerif.Parser ZygoVerif.PrintData ZygoVerif.EvalData
open ZygoVerif.Spec.DataValue ZygoVerif.ReadPrint

/-! ## 1. Printed data reads back as the same data

`read` is `ReadFunction`: the text handed whole to the parser with the end of input signalled;
on the model this is `parseChunksFrom l [text]` for whatever state `l` the parser was left in
(C13: any history, any cutting into pieces gives the same). -/

/-- **Full statement** (NOT provable for today's code: see `read_print_nil_counterexample`, the
recorded finding): every data value of the property's domain reads back as itself. -/
def ReadPrintData : Prop :=
  ∀ (ff : FloatFmt), FloatLaw ff → ∀ v : Sexp, isData v = true →
    ∀ (l : LexState), (parseChunksFrom l [printSexp ff v]).status = .done ∧ (parseChunksFrom l [printSexp ff v]).exprs = [v]

/-- **`read_print_data_partial`** — proved part of `ReadPrintData`, by structural induction (any
nesting depth, any length): for every value built from 64-bit integers, uint64, finite floats,
characters (all valid code points), strings (all sequences of valid code points), booleans,
symbols the reader reads as symbols, lists (with or without a dotted tail) and arrays, the
printed text — delivered whole or in ANY pieces to a parser with ANY history — is accepted and
yields exactly that value. Floats: relative to `FloatLaw` (shape of `FormatFloat`'s text and
`ParseFloat (FormatFloat x) = x`; sampled on every run, not proved).
Missing from the full statement: `nil` as an element (known finding: it reads back as the symbol
`nil`), NaN/±Inf, raw (back-tick) strings, operator and dotted symbol names (the symbols `-` and
`+`: `read_print_sign`) — all exercised by the `rt` correspondence. -/
theorem read_print_data_partial (ff : FloatFmt) (hlaw : FloatLaw ff) (v : Sexp) (hv : okV v = true)
    (l : LexState) (cs : List (List Char)) (hcs : cs.flatten = printSexp ff v) :
    (parseChunksFrom l cs).status = .done ∧ (parseChunksFrom l cs).exprs = [v] :=
  read_print ff hlaw v hv l cs hcs

/-- non-vacuity: a nested value of the domain — `(a -7 "x\ty" 'é' \ [true 255ULL])` -/
example : okV (.pair (.sym ['a'] false false) (.pair (.int (-7)) (.pair (.str ['x', '\t', 'y'] false)
    (.pair (.char 233) (.array [.bool true, .uint 255] false))))) = true := by decide +kernel

/-- why the full statement fails today (recorded finding `rt r n`): `nil` prints as `nil`, which
lexes to the SYMBOL token `nil` -/
theorem read_print_nil_counterexample :
    printSexp (fun _ _ => []) Sexp.null = "nil".toList ∧
    (decodeAtom "nil".toList).toOption = some ⟨.symbol, "nil".toList⟩ := ⟨rfl, by rfl⟩

theorem isOneSym_exprs (r : Result) (n : List Char) (h : Props.C13.isOneSym r n = true) :
    r.exprs = [.sym n false false] := by
  unfold Props.C13.isOneSym at h
  split at h
  · rename_i m hm; rw [hm]; simp only [beq_iff_eq] at h; rw [h]
  · cases h

/-- **`read_print_sign`** (repo fix C13-02; was the recorded findings `rt r y 45`, `rt r y 43`): the
symbols `-` and `+` — outside `symOK` because their runes are operators to the lexer — print as
`-`/`+`, and that text, delivered whole or in any pieces to a parser with any history, is
accepted and yields the symbol. -/
theorem read_print_sign (ff : FloatFmt) (sgn : Char) (hs : sgn = '-' ∨ sgn = '+') (l : LexState)
    (cs : List (List Char)) (hcs : cs.flatten = printSexp ff (.sym [sgn] false false)) :
    (parseChunksFrom l cs).status = .done ∧ (parseChunksFrom l cs).exprs = [.sym [sgn] false false] := by
  have hp : printSexp ff (.sym [sgn] false false) = [sgn] := rfl
  rw [hp] at hcs
  obtain ⟨h1, h2⟩ := Props.C13.parse_chunks_eq_whole l cs
  rw [h1, h2, hcs, Props.C13.reset_forgets]
  rcases hs with rfl | rfl
  · exact ⟨by decide +kernel, isOneSym_exprs _ _ (by decide +kernel)⟩
  · exact ⟨by decide +kernel, isOneSym_exprs _ _ (by decide +kernel)⟩

example : ([['-'], []] : List (List Char)).flatten = printSexp (fun _ _ => []) (.sym ['-'] false false) := rfl

/-- before fix C13-02 the printed symbol `-` was not read back: the reader answered "more input
needed" for the finished text (Model/LegacyParser) -/
theorem read_print_sign_counterexample :
    printSexp (fun _ _ => []) (.sym ['-'] false false) = ['-'] ∧
    (Legacy.Parser.parseChunks [['-']]).status = .more ∧ (Legacy.Parser.parseChunks [['+']]).status = .more :=
  ⟨rfl, by decide +kernel, by decide +kernel⟩

/-- **`string_literal_roundtrip`**: for ALL strings of valid code points, the text `strconv.Quote`
writes is lexed — from any lexer state ready for a new token — to the string token holding
exactly those runes (the reader's escape table inverts the printer's, over all 0x110000 code
points through the regenerated `IsPrint` table). -/
theorem string_literal_roundtrip (cs : List Char) (T : List Token) (l : Char) :
    Lex ⟨.normal, [], T, l⟩ (quoteStr cs) ⟨.normal, [], T ++ [⟨.string, cs⟩], '"'⟩ :=
  lex_string cs T l

example : ∃ s : LexCore, HasShape s ⟨.normal, [], [], '\x00'⟩ :=
  ⟨LexCore.init, rfl, rfl, rfl, ringOK_init, lastRune_init⟩

/-- **`char_literal_roundtrip`**: for every valid code point, `strconv.QuoteRune` is lexed to the
character token holding that rune, and the parser decodes the whole rune (fix C12-01). -/
theorem char_literal_roundtrip (v : Nat) (hv : v.isValidChar) (T : List Token) (l : Char) :
    Lex ⟨.normal, [], T, l⟩ (quoteRune v) ⟨.normal, [], T ++ [⟨.char, [Char.ofNat v]⟩], '\''⟩ ∧
    atomOfTok ⟨.char, [Char.ofNat v]⟩ = some (some (.char v)) := by
  refine ⟨lex_char v hv T l, ?_⟩
  simp only [atomOfTok, Char.toNat_ofNat_of_valid v hv]

example : (0x1F600 : Nat).isValidChar := by decide

/-- **`escapes_inverse`**: in the string mode and in the rune-literal mode, what the printer
writes for ANY rune `c` is read back as `c`. -/
theorem escapes_inverse (m : LitMode) (hm : m.ok) (c : Char) (s : LexCore) (b : List Char) (T : List Token)
    (hs : InLit s m.lit b T) :
    ∃ s', feed (.ok s) (escapedRune c m.quote) = .ok s' ∧ InLit s' m.lit (b ++ [c]) T :=
  escaped_reads_back m hm c s b T hs

/-- **`print_int_reads_back`**: for every 64-bit integer the printed numeral (`strconv.Itoa`) is
classified as a decimal token and converted back to the same integer. -/
theorem print_int_reads_back (v : Int) (h1 : -(2 : Int) ^ 63 ≤ v) (h2 : v < 2 ^ 63) :
    decodeAtom (itoa v) = .ok ⟨.decimal, itoa v⟩ ∧ atomOfTok ⟨.decimal, itoa v⟩ = some (some (.int v)) :=
  ⟨decodeAtom_itoa v, atomOfTok_itoa v h1 h2⟩

example : -(2 : Int) ^ 63 ≤ -9223372036854775808 ∧ (-9223372036854775808 : Int) < 2 ^ 63 := by decide

/-- **`print_uint_reads_back`**: every uint64 prints as `<digits>ULL`, a uint64 token converted
back to the same number. -/
theorem print_uint_reads_back (n : Nat) (hn : n < 2 ^ 64) :
    decodeAtom (natDec n ++ "ULL".toList) = .ok ⟨.uint64, natDec n ++ "ULL".toList⟩ ∧
    atomOfTok ⟨.uint64, natDec n ++ "ULL".toList⟩ = some (some (.uint n)) :=
  ⟨decodeAtom_uint n, atomOfTok_uint n hn⟩

/-- **`print_float_reads_back`** (relative to `FloatLaw`): a finite float prints as a text that
is a FLOAT token — never an integer token (fix C12-03) — and converts back to the same float
with the same `Scientific` flag. -/
theorem print_float_reads_back (ff : FloatFmt) (hlaw : FloatLaw ff) (b : Nat) (sci : Bool) (hb : isFiniteBits b = true) :
    decodeAtom (printFloat ff b sci) = .ok ⟨.float, printFloat ff b sci⟩ ∧
    atomOfTok ⟨.float, printFloat ff b sci⟩ = some (some (.float b sci)) := by
  obtain ⟨p, hv, hpr, hsci, hpf⟩ := hlaw b sci hb
  rw [hpr]
  exact ⟨decodeAtom_floatParts p hv, by rw [atomOfTok_floatParts p hv b hpf, hsci]⟩

/-- the shape the law speaks of is inhabited: `-2.5e+07` -/
example : (⟨true, ['2'], some ['5'], some ('+', ['0', '7'])⟩ : FloatParts).Valid :=
  ⟨⟨by decide, by decide⟩, fun f h => by cases h; exact ⟨by decide, by decide⟩,
   fun s ds h => by cases h; exact ⟨Or.inl rfl, by decide, by decide⟩, Or.inl rfl⟩

/-! ## 2. Literals denote what is written -/

/-- the number a spelling is read as when it is the whole text: `none` = not read as one number -/
def readLiteral (s : List Char) : Option Sexp :=
  match readAll s with
  | some [e] => (match e with
    | .int _ | .uint _ | .float _ _ => some e
    | _ => none)
  | _ => none

/-- equality of numbers as data (the `Scientific` flag of a float is not part of its value) -/
def sameNumber : Sexp → Sexp → Prop
  | .int a, .int b => a = b
  | .uint a, .uint b => a = b
  | .float a _, .float b _ => a = b ∨ (isNaNBits a = true ∧ isNaNBits b = true)
  | _, _ => False

/-- what the specification demands of the reader for ONE spelling `s`: a spelling in a notation the
property lists is read as exactly its mathematical value (or refused when that value does not fit the
type); any other spelling is either not read as a number or read as exactly its value. -/
def LiteralValueAt (s : List Char) : Prop :=
  match require s with
    | .must (some v) => ∃ x, readLiteral s = some x ∧ sameNumber x v
    | .must none => readLiteral s = none
    | .may (some v) => readLiteral s = none ∨ ∃ x, readLiteral s = some x ∧ sameNumber x v
    | .may none => readLiteral s = none
    | .notNumber => readLiteral s = none

/-- a spelling is one word: no white space in it (`Spec.mathValue` judges the spelling as a whole, the
reader skips blanks around a literal) -/
def oneWord (s : List Char) : Bool := s.all (fun c => !(c == ' ' || c == '\t' || c == '\n' || c == '\r'))

/-- **Full statement** (NOT proved in full — see `literal_value_partial` for the proved notations; the
rest is compared on every generated and every enumerated spelling by the `rt` channel: impl vs
`Spec.require`, and `Spec.mathValue`/`nearestF64` vs math/big): every spelling is read as the
specification demands. (`-.5` was a recorded finding until repo fix C12-05: `neg_fraction_begins`,
`neg_fraction_fixed`, `neg_fraction_counterexample`.) -/
def LiteralValue : Prop := ∀ s : List Char, oneWord s = true → LiteralValueAt s

/-- why the full statement speaks of one-word spellings only: `1 ` (with a blank) is not a numeral to
`Spec.mathValue`, and the reader — rightly — reads the number 1 -/
theorem literal_value_blank_counterexample : ¬ ∀ s : List Char, LiteralValueAt s := by
  intro h
  have h1 : readLiteral "1 ".toList = none := h "1 ".toList
  have h2 : (readLiteral "1 ".toList).isSome = true := by decide +kernel
  rw [h1] at h2
  cases h2

/-! ### the integer notations, proved for every spelling -/

theorem readLiteral_int (s : List Char) (v : Int) (h : readAll s = some [.int v]) : readLiteral s = some (.int v) := by
  simp [readLiteral, h]

theorem readLiteral_uint (s : List Char) (n : Nat) (h : readAll s = some [.uint n]) : readLiteral s = some (.uint n) := by
  simp [readLiteral, h]

theorem readLiteral_none (s : List Char) (h : readAll s = none) : readLiteral s = none := by
  simp [readLiteral, h]

/-- from the reader's answer to the specification's demand, for an integer verdict (`must` and `may`) -/
theorem at_of_int (s : List Char) (v : Int) (sup : Bool) (h : mathValue s = some (.int v, sup))
    (hr : readAll s = if -(2 : Int) ^ 63 ≤ v ∧ v < 2 ^ 63 then some [.int v] else none) : LiteralValueAt s := by
  unfold LiteralValueAt require
  rw [h]
  by_cases hv : -(2 : Int) ^ 63 ≤ v ∧ v < 2 ^ 63
  · rw [if_pos hv] at hr
    have hx := readLiteral_int s v hr
    cases sup
    · simp only [denote, hv, and_self, ↓reduceIte]
      exact Or.inr ⟨_, hx, rfl⟩
    · simp only [denote, hv, and_self, ↓reduceIte]
      exact ⟨_, hx, rfl⟩
  · rw [if_neg hv] at hr
    have hx := readLiteral_none s hr
    cases sup <;> simp only [denote, hv, ↓reduceIte] <;> exact hx

theorem intAnswer_eq (n : Nat) :
    Literal.intAnswer n = if -(2 : Int) ^ 63 ≤ (n : Int) ∧ (n : Int) < 2 ^ 63 then some [.int (n : Int)] else none := by
  unfold Literal.intAnswer
  have : (-(2 : Int) ^ 63 ≤ (n : Int) ∧ (n : Int) < 2 ^ 63) ↔ n < 2 ^ 63 := by omega
  by_cases hn : n < 2 ^ 63
  · rw [if_pos hn, if_pos (this.mpr hn)]
  · rw [if_neg hn, if_neg (fun h => hn (this.mp h))]

theorem negAnswer_eq (n : Nat) :
    Literal.negAnswer n = if -(2 : Int) ^ 63 ≤ -(n : Int) ∧ -(n : Int) < 2 ^ 63 then some [.int (-(n : Int))] else none := by
  unfold Literal.negAnswer
  have : (-(2 : Int) ^ 63 ≤ -(n : Int) ∧ -(n : Int) < 2 ^ 63) ↔ n ≤ 2 ^ 63 := by omega
  by_cases hn : n ≤ 2 ^ 63
  · rw [if_pos hn, if_pos (this.mpr hn)]
  · rw [if_neg hn, if_neg (fun h => hn (this.mp h))]

/-- **`literal_value_int`** — EVERY spelling to which the specification gives an integer verdict and that
does not begin with `+` — i.e. every hex `0x…`, octal `0o…`, binary `0b…` literal, every decimal literal
`D[D_]*` with or without a minus sign (underscores well placed: a `must`; misplaced as in `1__0`, `1_`: a
`may`, and the reader reads the value all the same) — is read by the reader model (lexer from a fresh state,
`DecodeAtom` cascade, `ParseInt` with its base, top-level loop, end of input) as EXACTLY the positional value
Σ dᵢ·bⁿ⁻¹⁻ⁱ of its digits with its sign, and is refused (a parse error) exactly when that value is outside
[−2⁶³, 2⁶³). No bound on the length. Not covered: a leading `+` (`+5`: the specification says "may", the
reader reads the symbol `+` and the number) and a minus sign on a based literal (`-0x10`: "may", read as a
symbol). -/
theorem literal_value_int (s : List Char) (v : Int) (sup : Bool) (h : mathValue s = some (.int v, sup))
    (hcov : sup = true ∨ (∃ body, (s = body ∨ s = '-' :: body) ∧ digitsUnderscores body = true)) :
    LiteralValueAt s := by
  have h0 := h
  rw [Literal.mathValue_eq] at h
  rcases Literal.signOf_cases s with ⟨r, rfl, hs⟩ | ⟨r, rfl, hs⟩ | ⟨hs, hm, hp⟩
  · -- a minus sign
    rw [hs] at h
    rcases Literal.mathBody_int _ _ _ _ h with ⟨base, ds, l, hb, hd, hv, hsup⟩ | ⟨hdu, l, hd, hv, hsup⟩
    · -- `-0x…`: not a listed notation
      exfalso
      rcases hcov with rfl | ⟨body, hb2, hdu⟩
      · simp at hsup
      · rcases hb2 with hb2 | hb2
        · rw [← hb2] at hdu; simp [digitsUnderscores, isDigit] at hdu
        · simp only [List.cons.injEq, true_and] at hb2
          subst hb2
          rcases Literal.basedOf_some _ _ _ hb with ⟨rfl, _⟩ | ⟨rfl, _⟩ | ⟨rfl, _⟩ <;>
            simp [digitsUnderscores, isDigit] at hdu
    · have hv' : v = -(posValue 10 l : Int) := by simpa using hv
      subst hv'
      exact at_of_int _ _ sup h0 (by rw [Literal.read_neg_decimal r l hdu hd, negAnswer_eq])
  · -- a plus sign: never `must`, and excluded from the loose part
    exfalso
    rw [hs] at h
    rcases hcov with rfl | ⟨body, hb2, hdu⟩
    · rcases Literal.mathBody_int _ _ _ _ h with ⟨base, ds, l, hb, hd, hv, hsup⟩ | ⟨hdu, l, hd, hv, hsup⟩
      · simp at hsup
      · simp at hsup
    · rcases hb2 with hb2 | hb2
      · rw [← hb2] at hdu; simp [digitsUnderscores, isDigit] at hdu
      · simp at hb2
  · -- no sign
    rw [hs] at h
    rcases Literal.mathBody_int _ _ _ _ h with ⟨base, ds, l, hb, hd, hv, hsup⟩ | ⟨hdu, l, hd, hv, hsup⟩
    · have hv' : v = (posValue base l : Int) := by simpa using hv
      subst hv'
      rcases Literal.basedOf_some _ _ _ hb with ⟨rfl, rfl⟩ | ⟨rfl, rfl⟩ | ⟨rfl, rfl⟩
      · exact at_of_int _ _ sup h0 (by rw [Literal.read_hex ds l hd, intAnswer_eq])
      · exact at_of_int _ _ sup h0 (by rw [Literal.read_oct ds l hd, intAnswer_eq])
      · exact at_of_int _ _ sup h0 (by rw [Literal.read_binary ds l hd, intAnswer_eq])
    · have hv' : v = (posValue 10 l : Int) := by simpa using hv
      subst hv'
      exact at_of_int _ _ sup h0 (by rw [Literal.read_decimal s l hdu hd, intAnswer_eq])

/-- non-vacuity: spellings with an integer `must` verdict in each notation (underscores, sign, the
smallest int64, a value beyond int64 which must be refused) -/
example : mathValue "0xfF".toList = some (.int 255, true) ∧ mathValue "0o17".toList = some (.int 15, true) ∧
    mathValue "0b101".toList = some (.int 5, true) ∧ mathValue "1_000".toList = some (.int 1000, true) ∧
    mathValue "-9223372036854775808".toList = some (.int (-9223372036854775808), true) ∧
    mathValue "9223372036854775808".toList = some (.int 9223372036854775808, true) ∧
    mathValue "1__0".toList = some (.int 10, false) := by decide +kernel

example : LiteralValueAt "-9223372036854775808".toList :=
  literal_value_int _ _ _ (by decide +kernel : mathValue "-9223372036854775808".toList = some (.int (-9223372036854775808), true)) (Or.inl rfl)

/-- **`literal_value_uint`** — EVERY spelling to which the specification gives a uint64 verdict
(`<decimal digits>ULL`, `0x<hex digits>ULL`, `0o<octal digits>ULL`) is read as exactly the positional value
of its digits, as a uint64, and refused exactly when the value is ≥ 2⁶⁴. -/
theorem literal_value_uint (s : List Char) (n : Nat) (sup : Bool) (h : mathValue s = some (.uint n, sup)) :
    LiteralValueAt s := by
  have h0 := h
  rw [Literal.mathValue_eq] at h
  obtain ⟨hsn, rfl, d, hd, hcases⟩ := Literal.mathBody_uint _ _ _ _ h
  have hbody : (Literal.signOf s).2 = s := by
    rcases Literal.signOf_cases s with ⟨r, rfl, hs⟩ | ⟨r, rfl, hs⟩ | ⟨hs, _, _⟩
    · rw [hs] at hsn; cases hsn
    · rw [hs] at hsn; cases hsn
    · rw [hs]
  rw [hbody] at hd
  have hsd := Literal.stripSuffix?_some _ _ _ hd
  have hr : readAll s = Literal.uintAnswer n := by
    rcases hcases with ⟨ds, l, rfl, hl, rfl⟩ | ⟨ds, l, rfl, hl, rfl⟩ | ⟨l, hl, rfl⟩
    · rw [hsd]; exact Literal.read_uint_hex ds l hl
    · rw [hsd]; exact Literal.read_uint_oct ds l hl
    · rw [hsd]; exact Literal.read_uint_dec d l hl
  unfold LiteralValueAt require
  rw [h0]
  unfold Literal.uintAnswer at hr
  by_cases hn : n < 2 ^ 64
  · rw [if_pos hn] at hr
    simp only [denote, hn, ↓reduceIte]
    exact ⟨_, readLiteral_uint s n hr, rfl⟩
  · rw [if_neg hn] at hr
    simp only [denote, hn, ↓reduceIte]
    exact readLiteral_none s hr

example : mathValue "255ULL".toList = some (.uint 255, true) ∧ mathValue "0xffULL".toList = some (.uint 255, true) ∧
    mathValue "0o17ULL".toList = some (.uint 15, true) ∧
    mathValue "18446744073709551616ULL".toList = some (.uint 18446744073709551616, true) := by decide +kernel

/-! ### `Inf` and `NaN` -/

def floatBitsOf : Option Sexp → Option Nat
  | some (.float b _) => some b
  | _ => none

theorem sameNumber_of_bits (o : Option Sexp) (b : Nat) (h : floatBitsOf o = some b) :
    ∃ x, o = some x ∧ sameNumber x (.float b false) := by
  cases o with
  | none => cases h
  | some x =>
    cases x <;> simp only [floatBitsOf, Option.some.injEq, reduceCtorEq] at h
    subst h
    exact ⟨_, rfl, Or.inl rfl⟩

/-- **`literal_value_inf_nan`** — the supported spellings of the specification's infinities and NaN (`Inf`,
`-Inf`, `+Inf`: the parser folds the sign symbol into the following `Inf` token; `NaN`) are read as the
IEEE values +∞, −∞, +∞ and a NaN. (The finite fraction/exponent literals are NOT covered: see
`literal_value_partial`.) -/
theorem literal_value_inf_nan (s : List Char) (nv : NumVal) (h : mathValue s = some (nv, true))
    (hk : nv = .nan ∨ ∃ neg, nv = .inf neg) : LiteralValueAt s := by
  rw [Literal.mathValue_eq] at h
  have cInf : LiteralValueAt "Inf".toList :=
    sameNumber_of_bits _ 0x7ff0000000000000 (by decide +kernel)
  have cNeg : LiteralValueAt ('-' :: "Inf".toList) :=
    sameNumber_of_bits _ 0xfff0000000000000 (by decide +kernel)
  have cPos : LiteralValueAt ('+' :: "Inf".toList) :=
    sameNumber_of_bits _ 0x7ff0000000000000 (by decide +kernel)
  have cNaN : LiteralValueAt "NaN".toList :=
    sameNumber_of_bits _ 0x7ff8000000000001 (by decide +kernel)
  rcases Literal.signOf_cases s with ⟨r, rfl, hs⟩ | ⟨r, rfl, hs⟩ | ⟨hs, _, _⟩
  · rw [hs] at h
    rcases Literal.mathBody_special _ _ _ h hk with rfl | ⟨hn, _⟩
    · exact cNeg
    · cases hn
  · rw [hs] at h
    rcases Literal.mathBody_special _ _ _ h hk with rfl | ⟨hn, _⟩
    · exact cPos
    · cases hn
  · rw [hs] at h
    rcases Literal.mathBody_special _ _ _ h hk with rfl | ⟨_, rfl⟩
    · exact cInf
    · exact cNaN

example : mathValue "-Inf".toList = some (.inf true, true) ∧ mathValue "NaN".toList = some (.nan, true) := by decide +kernel

/-- the one-word spellings for which `LiteralValue` is proved: every integer verdict without a leading `+`
(hex, octal, binary, decimal with underscores, minus sign), every uint64 verdict (`…ULL` in base 10, 16, 8),
and the supported `Inf`/`NaN` words -/
def CoveredSpelling (s : List Char) : Prop :=
  (∃ v sup, mathValue s = some (.int v, sup) ∧
      (sup = true ∨ ∃ body, (s = body ∨ s = '-' :: body) ∧ digitsUnderscores body = true)) ∨
  (∃ n sup, mathValue s = some (.uint n, sup)) ∨
  (∃ nv, mathValue s = some (nv, true) ∧ (nv = .nan ∨ ∃ neg, nv = .inf neg))

/-- **`literal_value_partial`** — the proved part of `LiteralValue`: for every covered spelling (of any
length) the reader model answers what the specification demands. Missing from the full statement: the
finite fraction/exponent literals (verdict `.dec`: the model's `ParseFloat` rounding vs `Spec.nearestF64`, both
exact algorithms, compared bit for bit on every op but not proved equal), spellings with a leading `+` and
signed based literals (verdict `may`), and the spellings that are no numbers (that the reader reads nothing
else as a number). -/
theorem literal_value_partial (s : List Char) (h : CoveredSpelling s) : LiteralValueAt s := by
  rcases h with ⟨v, sup, h, hc⟩ | ⟨n, sup, h⟩ | ⟨nv, h, hk⟩
  · exact literal_value_int s v sup h hc
  · exact literal_value_uint s n sup h
  · exact literal_value_inf_nan s nv h hk

example : CoveredSpelling "0x7fffffffffffffff".toList :=
  Or.inl ⟨9223372036854775807, true, by decide +kernel, Or.inl rfl⟩

/-- **`literal_value_partial`** (1): `strconv.ParseInt/ParseUint` as the parser uses them
(Horner evaluation) compute the POSITIONAL value Σ dᵢ·baseⁿ⁻¹⁻ⁱ of the specification, for every
digit string and every base. -/
theorem literal_digits_positional (base : Nat) (ds : List Char) :
    NumLit.natOfDigits base ds = (digitsOf base ds).map (posValue base) :=
  Literal.natOfDigits_eq_posValue base ds

/-- **`literal_value_partial`** (2): the hex, octal, binary and (unsigned) decimal-with-underscores
tokens convert to the positional value of their digits when it fits int64, and to an error
otherwise. (The step from a spelling to its token and on to the reader's answer: `literal_value_int`,
`literal_value_uint`.) -/
theorem literal_int_tokens (c : Char) (r : List Char) :
    (isHexC c = true → atomOfTok ⟨.hex, c :: r⟩ = some (Literal.numeralValue 16 (c :: r))) ∧
    (isHexC c = true → atomOfTok ⟨.oct, c :: r⟩ = some (Literal.numeralValue 8 (c :: r))) ∧
    (isHexC c = true → atomOfTok ⟨.binary, c :: r⟩ = some (Literal.numeralValue 2 (c :: r))) ∧
    (isDig c = true → atomOfTok ⟨.decimal, c :: r⟩ = some (Literal.numeralValue 10 (dropUnderscores (c :: r)))) :=
  ⟨Literal.literal_hex c r, Literal.literal_oct c r, Literal.literal_binary c r, Literal.literal_decimal c r⟩

example : isHexC 'f' = true ∧ Literal.numeralValue 16 ['f', 'F'] = some (.int 255) ∧
    Literal.numeralValue 2 ['1', '0', '1'] = some (.int 5) := ⟨by decide, by rfl, by rfl⟩

/-- **`literal_value_partial`** (3), repo fix C12-05: where a signed number may start (after any
rune of `canStartSignedNumberAfter`, e.g. the start of the text, a blank, `(`), `-.` followed by
a digit — every digit, every lexer state ready for a new token — begins ONE atom `-.d`; the minus
is not split off as a symbol. (What the atom then denotes is `FloatRegex` + `ParseFloat`:
`neg_fraction_fixed` for instances, the `rt l` enumeration for all short spellings.) -/
theorem neg_fraction_begins (T : List Token) (l d : Char) (hl : canStartSignedNumberAfter l = true) (hd : isDig d = true) :
    Lex ⟨.normal, [], T, l⟩ ['-', '.', d] ⟨.normal, ['-', '.', d], T, d⟩ :=
  lex_minus_dot_digit T l d hl hd

example : canStartSignedNumberAfter '(' = true ∧ isDig '5' = true := by decide

/-- the tokens of a text, by the lexer before fix C12-05 -/
def legacyTokens (t : List Char) : List Token := (Legacy.Lexer.core (Legacy.Lexer.feed (.ok LexCore.init) t)).tokens

/-- the recorded finding `rt l 45.46.53` on the pre-fix lexer: `-.5` was the symbol `-` followed
by the float `.5` — and `(list -.5)` a list of two elements -/
theorem neg_fraction_counterexample :
    legacyTokens "-.5 ".toList = [⟨.symbol, ['-']⟩, ⟨.float, ".5".toList⟩] := by decide +kernel

/-- repaired: `-.5` is one float token and reads as -0.5 (bits 0xbfe0000000000000), whole, in any
pieces, inside a list; `-.25e` stays what it was (`FloatRegex` has no such form); `-.a` and `a-.5`
(no sign position) are still split as before -/
theorem neg_fraction_fixed :
    (Legacy.Lexer.core (feed (.ok LexCore.init) "-.5 ".toList)).tokens = [⟨.float, "-.5".toList⟩] ∧
    Props.C13.isOneFloat (parseChunks ["-.5".toList]) 0xbfe0000000000000 = true ∧
    Props.C13.isOneFloat (parseChunks [['-'], ['.'], ['5']]) 0xbfe0000000000000 = true ∧
    (Legacy.Lexer.core (feed (.ok LexCore.init) "(a -.5 -.a b-.5)".toList)).tokens =
      [⟨.lparen, []⟩, ⟨.symbol, ['a']⟩, ⟨.float, "-.5".toList⟩, ⟨.symbol, ['-']⟩, ⟨.dotSymbol, ".a".toList⟩,
       ⟨.symbol, ['b']⟩, ⟨.symbol, ['-']⟩, ⟨.float, ".5".toList⟩, ⟨.rparen, []⟩] ∧
    legacyTokens "(a -.a b-.5)".toList = (Legacy.Lexer.core (feed (.ok LexCore.init) "(a -.a b-.5)".toList)).tokens := by
  decide +kernel

/-! ## 3. JSON-like values read back by evaluation -/

/-- **Full statement** (NOT proved; impl vs spec on every generated JSON-like value, `e` ops of the
`rt` channel, and model vs impl): a JSON-like value (numbers, strings, booleans, nil, arrays,
hashes with distinct symbol or string keys) printed, read and evaluated is the value again, key
order included. The printer half is `printJ`; reading `{k:v …}` goes through the `{`-look-ahead of
the parser and `MakeHash`/`HashSet` (Model/EvalData). -/
def EvalPrintJsonlike : Prop :=
  ∀ (ff : FloatFmt), FloatLaw ff → ∀ v : JV, isJsonLike v = true →
    (readOne (printJ ff v)).bind evalData = some v

/-- **`eval_print_jsonlike_partial`** — proved part of `EvalPrintJsonlike`, by structural induction (any
nesting depth, any length): every JSON-like value WITHOUT A HASH inside and with finite floats — 64-bit
integers, finite floats (relative to `FloatLaw`), strings of any runes, booleans, nil, arrays of such values
nested to any depth — printed, read (`read_print_data_partial` on the data value `toRead v` that the text
denotes) and evaluated (arrays element-wise, atoms to themselves) is the value again. `nil` is INCLUDED: it
prints as `nil`, reads back as the symbol `nil` (the known finding of the data half), and that symbol
evaluates to nil. Missing from the full statement: hashes (`{k:v …}` is read through the `{` look-ahead and
`MakeHash`/`HashSet`: model vs implementation vs specification on every generated hash, `rt e` ops) and
±Inf. -/
theorem eval_print_jsonlike_partial (ff : FloatFmt) (hlaw : FloatLaw ff) (v : JV) (hj : isJsonLike v = true)
    (hf : hashFree v = true) : (readOne (printJ ff v)).bind evalData = some v :=
  eval_print_hashFree ff hlaw v hj hf

/-- non-vacuity: `[1 "a\"b" [nil true 2.5] []]` is JSON-like and hash-free -/
example : isJsonLike (.arr [.int 1, .str ['a', '"', 'b'], .arr [.nil, .bool true, .flt 0x4004000000000000 false], .arr []]) = true ∧
    hashFree (.arr [.int 1, .str ['a', '"', 'b'], .arr [.nil, .bool true, .flt 0x4004000000000000 false], .arr []]) = true := by
  decide +kernel

/-- what `nil` does on the way: printed `nil`, read as the symbol, evaluated to nil -/
example : toRead .nil = .sym "nil".toList false false ∧ evalData (.sym "nil".toList false false) = some .nil := ⟨rfl, by rfl⟩

/-- fix C12-04 at work: a string key holding a quote and a backslash is printed as a string
literal that reads back (the escapes are those of `string_literal_roundtrip`) -/
example : printKey (.str ['a', '"', '\\']) = ['"', 'a', '\\', '"', '\\', '\\', '"'] := by decide +kernel

/-! ## T1. Tables regenerated from the source -/

/-- The tests of `DecodeAtom`, in source order, with the token each produces: the order the
recognisers are tried in `Lexer.decodeAtom`. -/
def cascadeExpected : List (String × String × String) :=
  [("strip-colon atom[n-1] == ':'", "-", "-"),
   ("== \"&\"", "TokenSymbol", "\"&\""),
   ("== \"\\\\\"", "TokenBackslash", "\"\""),
   ("BoolRegex", "TokenBool", "atom"),
   ("Uint64Regex", "TokenUint64", "atom"),
   ("DecimalRegex", "TokenDecimal", "atom"),
   ("HexRegex", "TokenHex", "atom[2:]"),
   ("OctRegex", "TokenOct", "atom[2:]"),
   ("BinaryRegex", "TokenBinary", "atom[2:]"),
   ("FloatRegex", "TokenFloat", "atom"),
   ("== \"NaN\" || == \"nan\"", "TokenFloat", "\"NaN\""),
   ("InfRegex", "TokenFloat", "atom"),
   ("DotSymbolRegex", "TokenDotSymbol", "atom"),
   ("BuiltinOpRegex", "TokenSymbol", "atom"),
   ("== \":\"", "TokenSymbol", "atom"),
   ("SymbolRegex", "TokenSymbolColon", "atom[:n-1]"),
   ("CharRegex", "TokenChar", "char"),
   ("endColon", "TokenColonOperator", "\":\"")]

theorem cascade_order_match : Generated.ReadPrint.decodeAtomCascade = cascadeExpected := by decide

theorem hex_escape_lens_match : Generated.ReadPrint.hexEscapeLens = [(120, 2), (117, 4), (85, 8)] := by decide

theorem hex_escape_lens_is_model :
    ∀ p ∈ Generated.ReadPrint.hexEscapeLens, hexEscapeLen (Char.ofNat p.1) = p.2 := by decide

/-- the reader's escape table (regenerated) is the one of the model (also checked by C13) -/
theorem escape_cases_match : Generated.LexTables.escapeCases = escapeTable := by decide

/-- which `strconv` conversion each literal token goes through, with its base -/
theorem literal_conversions_match : Generated.ReadPrint.literalConversions =
    [("TokenUint64", "ParseUint", "base"), ("TokenDecimal", "ParseInt", "10"), ("TokenHex", "ParseInt", "16"),
     ("TokenOct", "ParseInt", "8"), ("TokenBinary", "ParseInt", "2"), ("TokenFloat", "ParseFloat", "SexpFloatSize"),
     ("TokenSymbol", "ParseFloat", "SexpFloatSize")] := by decide

/-- a character token is decoded as a whole rune (fix C12-01) -/
theorem char_token_decoding_match : Generated.ReadPrint.charTokenDecoding = "utf8.DecodeRuneInString(tok.str)" := by decide

/-- the printer's calls into `strconv`, with their constant arguments (fix C12-03 included) -/
theorem printer_calls_match : Generated.ReadPrint.printerCalls =
    [("SexpInt", "strconv.Itoa(int(i.Val))"),
     ("SexpUint64", "return strconv.FormatUint(i.Val, 10) + \"ULL\""),
     ("SexpUint64", "strconv.FormatUint(i.Val, 10)"),
     ("SexpFloat", "strconv.FormatFloat(f.Val, 'e', -1, SexpFloatSize)"),
     ("SexpFloat", "strconv.FormatFloat(f.Val, 'f', -1, SexpFloatSize)"),
     ("SexpFloat", "strings.ContainsAny(s, \".IN\")"),
     ("SexpFloat", "s += \".0\""),
     ("SexpChar", "strconv.QuoteRune(c.Val)"),
     ("SexpStr", "return \"`\" + s.S + \"`\""),
     ("SexpStr", "strconv.Quote(string(s.S))"),
     ("SexpBool", "return \"true\""),
     ("SexpBool", "return \"false\""),
     ("SexpSymbol", "return sym.name")] := by decide

/-- a string key of a hash is printed with `strconv.Quote` (fix C12-04) -/
theorem hash_string_key_match :
    Generated.ReadPrint.hashStringKey = "str += indInner + strconv.Quote(s.S) + \":\"" := by decide

/-! ## History independence: a literal's value is a function of its spelling alone

Law: `Spec.LiteralHistory.HistoryIndependent`. The specification's reader obeys it by construction
(`spec_history_independent`). The real reader is ONE `Parser` per interpreter that lives as long as the
interpreter (`read`, `eval`, `source`, `EvalString` share it): the `rt H` ops run 2–6 spellings / print-read
round trips on one long-lived reader and compare every step with the specification's answer to that step alone. -/
section History
open ZygoVerif.Spec.LiteralHistory

/-- the reader model as a reader with memory. Its state is the lexer state the history left behind — the only
state the model has, and (`parser_state_inventory`) the only state the real `Parser` has; `nxt` is whatever
state a text leaves. The answer is status + expressions of `parseChunksFrom`. -/
def modelReader (nxt : LexState → List Char → LexState) : Reader LexState (Status × List Sexp) :=
  ⟨fun l t => (((parseChunksFrom l [t]).status, (parseChunksFrom l [t]).exprs), nxt l t)⟩

/-- **`model_reader_history_independent`** — the reader model obeys the law from every initial state and
whatever state each text leaves: in every history every text (any text, not only numerals) gets the answer it
gets when read alone. (From C13's `parseChunksFrom_eq_abstract`: the result does not depend on the lexer state.) -/
theorem model_reader_history_independent (nxt : LexState → List Char → LexState) (l0 : LexState) :
    HistoryIndependent (modelReader nxt) l0 :=
  historyIndependent_of_answer_stateless _ (fun s s' t => by
    obtain ⟨a1, b1⟩ := Props.C13.parseChunksFrom_eq_abstract s [t]
    obtain ⟨a2, b2⟩ := Props.C13.parseChunksFrom_eq_abstract s' [t]
    show ((parseChunksFrom s [t]).status, (parseChunksFrom s [t]).exprs)
       = ((parseChunksFrom s' [t]).status, (parseChunksFrom s' [t]).exprs)
    rw [a1, b1, a2, b2]) l0

/-- instance (the theorem has no hypotheses): the fresh reader, any history — e.g. `0b101`, `101`, `0x101` -/
example : (modelReader (fun l _ => l)).run LexState.init ["0b101".toList, "101".toList, "0x101".toList]
    = ["0b101".toList, "101".toList, "0x101".toList].map (fun t => ((modelReader (fun l _ => l)).read LexState.init t).1) :=
  model_reader_history_independent (fun l _ => l) LexState.init _

/-- T1: the state of the real `Parser` (regenerated field list). Every field is either reassigned whenever a
new text is handed in (`ResetAddNewInput`), or is on the explicit list: the lexer (its own fields are covered
by C13's `reset_assigns_every_field`), the interpreter, and two per-expression flags. A table that remembers
earlier texts (a memo of converted literals, an interning cache) is a new field and breaks this. -/
theorem parser_state_inventory :
    ∀ f ∈ Generated.LexTables.parserFields,
      f ∈ ["lexer", "env", "inBacktick", "recur"] ∨ f ∈ Generated.LexTables.parserResetAddNewInputAssigns := by
  decide

/-- the law has teeth — a reader that remembers converted integer literals by their DIGITS alone (what
`DecodeAtom` leaves of `0b101`, `0x101`, `1_01`: the notation is only in the token type) -/
def digitMemoReader : Reader (List (List Char × Nat)) Nat :=
  ⟨fun memo t =>
    let bd : Nat × List Char := match t with
      | '0' :: 'x' :: d => (16, d)
      | '0' :: 'o' :: d => (8, d)
      | '0' :: 'b' :: d => (2, d)
      | d => (10, d)
    match memo.lookup bd.2 with
    | some v => (v, memo)
    | none =>
      let v := bd.2.foldl (fun a c => a * bd.1 + (c.toNat - 48)) 0
      (v, (bd.2, v) :: memo)⟩

/-- after `0b101` the decimal `101` reads as 5: such a reader violates the law -/
theorem history_law_counterexample_digit_memo : ¬ HistoryIndependent digitMemoReader [] := by
  intro h
  have h2 := h ["0b101".toList, "101".toList]
  revert h2
  decide

end History

/-! ## Counterexamples: the code before the fixes (Model/LegacyReadPrint) -/

/-- before C12-01 a character literal kept the first byte: `'é'` (U+00E9) read as 195 (`Ã`) -/
theorem char_first_byte_counterexample :
    Legacy.ReadPrint.charOfTok ⟨.char, ['é']⟩ = 195 ∧ ('é').toNat = 233 := by decide

/-- before C12-02 the reader refused escapes the printer writes: `strconv.Quote` writes a
vertical tab as `\v`, a control character as `\x01`, U+0080 as `\u0080` -/
theorem escape_table_counterexample :
    quoteStr ['\x0b'] = ['"', '\\', 'v', '"'] ∧ Legacy.ReadPrint.escapeChar 'v' = none ∧
    quoteStr ['\x01'] = ['"', '\\', 'x', '0', '1', '"'] ∧ Legacy.ReadPrint.escapeChar 'x' = none ∧
    Legacy.ReadPrint.escapeChar 'u' = none ∧ Legacy.ReadPrint.escapeChar 'U' = none ∧
    Legacy.ReadPrint.escapeChar 'b' = none ∧ Legacy.ReadPrint.escapeChar 'f' = none := by decide +kernel

/-- before C12-03 the float 2.0 (FormatFloat gives `2`) printed as `2`, which is read as the
INTEGER 2 -/
theorem whole_float_counterexample :
    Legacy.ReadPrint.printFloat (fun _ _ => ['2']) 0x4000000000000000 false = ['2'] ∧
    (decodeAtom ['2']).toOption = some ⟨.decimal, ['2']⟩ ∧
    atomOfTok ⟨.decimal, ['2']⟩ = some (some (.int 2)) ∧
    printFloat (fun _ _ => ['2']) 0x4000000000000000 false = ['2', '.', '0'] :=
  ⟨rfl, by decide, rfl, by decide⟩

/-- before C12-04 the string key `a"b` printed as `"a"b"`: the literal ends after `a` -/
theorem hash_key_counterexample :
    Legacy.ReadPrint.printStrKey ['a', '"', 'b'] = ['"', 'a', '"', 'b', '"'] ∧
    printKey (.str ['a', '"', 'b']) = ['"', 'a', '\\', '"', 'b', '"'] := by decide

end ZygoVerif.Props.C12
