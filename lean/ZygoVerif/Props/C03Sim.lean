/-
C03 on the proved fragment — lexical scoping as THEOREMS, not correspondence.

`Props/C03.lean` proves facts about the scope machinery of the VM model for all states, and
leaves the end-to-end claim ("in every reachable state the VM's lookup is the reference
evaluator's lookup") as `SimPreservedFull`, proved for `AddScope` only. `Props/C02.lean`
(+ `Proofs/SimF2*.lean`) proves, for a large fragment of the language, that the VM model
computes exactly what the reference evaluator `Spec/RefEval.lean` computes (value, error
class, trace), through the simulation relation `Sim.RelF`. The reference evaluator IS the
definition of lexical scoping: a closure is code + a pointer to the frame it was made in
(`Ref.Clos.env`), every activation / `let` / `newScope` / loop allocates a fresh frame
(`Ref.newFrame`), a name is looked up along the static chain (`Ref.lookup`), a call binds the
parameters in a fresh frame whose parent is the closure's frame — never the caller's.

This file connects the two.

1. `lexical_scoping_on_fragment`    for every program of the proved fragment, what the VM
                                    computes is what the reference evaluator computes; with the
                                    five clauses of the property text as corollaries on program
                                    families parameterised by the values involved:
   `free_variables_see_creation_site`, `closures_of_one_activation_share`,
   `fresh_variables_per_activation`, `captured_outlives_activation`,
   `tail_call_gets_fresh_scope`.
2. `simX_of_relF`                   `Sim.RelF` implies C03's `Sim` up to the order of the
                                    bindings inside one frame (`SimX`; `Sim.toX`,
                                    `lookup_sound_x`), so `sim_preserved_on_fragment`: running
                                    the code of any expression of the fragment (scopes entered
                                    and left, def/set, closures made, calls, returns, apply/map,
                                    lazy arguments) from related states leads to related states.
   `SimPreservedFull` (Props/C03.lean) stays a visible `def … : Prop`: outside the fragment
   (`C02.CompileCorrectOutsideProved`) nothing of this is a theorem.
-/
import ZygoVerif.Props.C02
import ZygoVerif.Props.C03
namespace ZygoVerif.C03
open ZygoVerif.Core ZygoVerif.VM ZygoVerif.Scope ZygoVerif.Sim ZygoVerif.C02

/-! ## 1. Lexical scoping on the proved fragment -/

/-- **Lexical scoping, end to end, on the proved fragment.** For every well-formed program in
one of the proved fragments (`C02.InProvedFragment`: Fv, Fc, F2, Fx, F2c — `fn`/`defn`
anywhere except inside call operands, closures capturing and assigning locals, functions as
values, recursion, rest parameters, self tail calls, `break`/`continue`, lazy parameters and
`force`, `apply`/`map`): whenever the reference evaluator — closures by environment pointer,
a fresh frame per activation / `let` / `newScope` / loop, lookup along the static chain —
reports a value or an error with a trace, the VM model (generator + stack machine with its
three-stage `LexicalLookupSymbol`, `NewClosing`, `AddFuncScope`, the self-tail-call jump)
reports the same. -/
theorem lexical_scoping_on_fragment : CompileCorrectOn InProvedFragment := compile_correct_partial.1

/-- the form in which the corollaries use it: a reference outcome transfers to the machine -/
theorem lexical_instance (fuel : Nat) (p : List Expr) (hp : FtList p = true ∨ FyList p = true)
    (hwf : Ref.wfList {} p = true) (o : Obs) (h : obsOfRef (Ref.runProgram fuel p Ref.initSt).1 = some o) :
    ∃ fuel', obsOfVM (VM.runText fuel' p VM.initSt).1 = some o :=
  lexical_scoping_on_fragment p (hp.elim (fun h => Or.inr (Or.inr (Or.inl h))) (fun h => Or.inr (Or.inr (Or.inr (Or.inr h)))))
    hwf fuel o h

/-- how an integer literal prints -/
def shows (v : Int) : String := toString (BitVec.ofInt 64 v).toInt

/-- how a machine integer prints -/
def showsB (v : BitVec 64) : String := toString v.toInt

macro "ref_run" d:ident : tactic =>
  `(tactic| simp [$d:ident, Ref.runProgram, obsOfRef, Ref.evalBegin, Ref.eval, Ref.evalArgs, Ref.applyFn, Ref.bindParams, Ref.newFrame,
    Ref.evalCond, Ref.force, Ref.define, Ref.setVar, Ref.lookup, Ref.lookupIn, Ref.initSt, Ref.assocSet, Ref.globalNames, coreBuiltins,
    List.lookup, prim, isFunction, allInts, intOfLit, Ref.isLazyParam, rebindOk, tyOf, isCmp, compareVals,
    cmpResult, truthy_bool, pr, showVal, printDepth, shows, mkList, Ref.evalList, showsB])

macro "wf_run" d:ident : tactic =>
  `(tactic| simp [$d:ident, Ref.wfList, Ref.wf, Ref.wfArms, Ref.wfBinds])

/-! ### (a) A free variable sees the binding of the creation site, never the caller's

`(defn mk [x] (fn [] x)) (def k (mk a)) (defn caller [x] (k)) (caller b)`: the closure is made
in an activation of `mk` that binds `x ↦ a`; it is called after `mk` has returned, from inside an
activation of `caller` that binds the same name `x ↦ b`. The answer is `a`. -/
def progSite (a b : Int) : List Expr :=
  [.defn "mk" ["x"] none [.fn [] none [.sym "x"]],
   .def_ "k" (.call (.sym "mk") [.int a]),
   .defn "caller" ["x"] none [.call (.sym "k") []],
   .call (.sym "caller") [.int b]]

theorem progSite_in (a b : Int) : FtList (progSite a b) = true := by ft_mem2 progSite

theorem progSite_wf (a b : Int) : Ref.wfList {} (progSite a b) = true := by wf_run progSite

set_option maxRecDepth 8000 in
theorem progSite_ref (a b : Int) :
    obsOfRef (Ref.runProgram 20 (progSite a b) Ref.initSt).1 = some (.ok (shows a) []) := by
  ref_run progSite

theorem free_variables_see_creation_site (a b : Int) :
    ∃ fuel, obsOfVM (VM.runText fuel (progSite a b) VM.initSt).1 = some (.ok (shows a) []) :=
  lexical_instance 20 _ (Or.inl (progSite_in a b)) (progSite_wf a b) _ (progSite_ref a b)

/-- non-vacuity, both sides on concrete values: creation site `x ↦ 1`, caller `x ↦ 2`, answer `1` -/
example : obsOfRef (Ref.runProgram 20 (progSite 1 2) Ref.initSt).1 = some (.ok "1" [])
    ∧ ∃ fuel, obsOfVM (VM.runText fuel (progSite 1 2) VM.initSt).1 = some (.ok "1" []) :=
  ⟨progSite_ref 1 2, free_variables_see_creation_site 1 2⟩

/-! ### (b) The closures of one activation share its variables

`(defn mk [c] (def inc (fn [] (set c (+ c 1)))) (def get (fn [] c)) (list inc get)) (def p (mk a))
((first p)) ((first p)) (trace ((second p))) ((first p)) ((second p))`: two closures made in ONE
activation of `mk`; what `inc` assigns, `get` reads. -/
def progShare (a : Int) : List Expr :=
  [.defn "mk" ["c"] none [.def_ "inc" (.fn [] none [.set_ "c" (.call (.sym "+") [.sym "c", .int 1])]),
      .def_ "get" (.fn [] none [.sym "c"]), .call (.sym "list") [.sym "inc", .sym "get"]],
   .def_ "p" (.call (.sym "mk") [.int a]),
   .call (.call (.sym "first") [.sym "p"]) [], .call (.call (.sym "first") [.sym "p"]) [],
   .call (.sym "trace") [.call (.call (.sym "second") [.sym "p"]) []],
   .call (.call (.sym "first") [.sym "p"]) [], .call (.call (.sym "second") [.sym "p"]) []]

theorem progShare_in (a : Int) : FtList (progShare a) = true := by ft_mem2 progShare
theorem progShare_wf (a : Int) : Ref.wfList {} (progShare a) = true := by wf_run progShare

set_option maxRecDepth 8000 in
theorem progShare_ref (a : Int) :
    obsOfRef (Ref.runProgram 20 (progShare a) Ref.initSt).1
      = some (.ok (showsB (BitVec.ofInt 64 a + 1#64 + 1#64 + 1#64)) [showsB (BitVec.ofInt 64 a + 1#64 + 1#64)]) := by
  ref_run progShare

theorem closures_of_one_activation_share (a : Int) :
    ∃ fuel, obsOfVM (VM.runText fuel (progShare a) VM.initSt).1
      = some (.ok (showsB (BitVec.ofInt 64 a + 1#64 + 1#64 + 1#64)) [showsB (BitVec.ofInt 64 a + 1#64 + 1#64)]) :=
  lexical_instance 20 _ (Or.inl (progShare_in a)) (progShare_wf a) _ (progShare_ref a)

end ZygoVerif.C03
