/-
C03 on the proved fragment — lexical scoping as THEOREMS, not correspondence.

`Props/C03.lean` proves facts about the scope machinery of the VM model for all states, and
leaves the end-to-end claim ("in every reachable state the VM's lookup is the reference
evaluator's lookup") as `SimPreservedFull`, proved for `AddScope` only. `Props/C02.lean`
(+ `Proofs/SimF2*.lean`) proves, for a large fragment of the language, that the VM model
computes exactly what the reference evaluator `Spec/RefEval.lean` computes (value, error
class, trace), through the simulation relation `Sim.RelF`. The reference evaluator IS the
definition of lexical scoping: a closure is code + a pointer to the frame it was made in
(`Ref.Clos.env`), every activation / `let` / `newScope` / loop allocates a fresh frame
(`Ref.newFrame`), a name is looked up along the static chain (`Ref.lookup`), a call binds the
parameters in a fresh frame whose parent is the closure's frame — never the caller's.

This file connects the two.

1. `lexical_scoping_on_fragment`    for every program of the proved fragment, what the VM
                                    computes is what the reference evaluator computes; with the
                                    five clauses of the property text as corollaries on program
                                    families parameterised by the values involved:
   `free_variables_see_creation_site`, `closures_of_one_activation_share`,
   `fresh_variables_per_activation`, `captured_outlives_activation`,
   `tail_call_gets_fresh_scope`.
2. `simX_of_relF`                   `Sim.RelF` implies C03's `Sim` up to the order of the
                                    bindings inside one frame (`SimX`; `Sim.toX`,
                                    `lookup_sound_x`), so `sim_preserved_on_fragment`: running
                                    the code of any expression of the fragment (scopes entered
                                    and left, def/set, closures made, calls, returns, apply/map,
                                    lazy arguments) from related states leads to related states.
   `SimPreservedFull` (Props/C03.lean) stays a visible `def … : Prop`: outside the fragment
   (`C02.CompileCorrectOutsideProved`) nothing of this is a theorem.
-/
import ZygoVerif.Props.C02
import ZygoVerif.Props.C03
import ZygoVerif.Proofs.ScopeSimF
namespace ZygoVerif.C03
open ZygoVerif.Core ZygoVerif.VM ZygoVerif.Scope ZygoVerif.Sim ZygoVerif.C02

/-! ## 1. Lexical scoping on the proved fragment -/

/-- **Lexical scoping, end to end, on the proved fragment.** For every well-formed program in
one of the proved fragments (`C02.InProvedFragment`: Fv, Fc, F2, Fx, F2c — `fn`/`defn`
anywhere except inside call operands, closures capturing and assigning locals, functions as
values, recursion, rest parameters, self tail calls, `break`/`continue`, lazy parameters and
`force`, `apply`/`map`): whenever the reference evaluator — closures by environment pointer,
a fresh frame per activation / `let` / `newScope` / loop, lookup along the static chain —
reports a value or an error with a trace, the VM model (generator + stack machine with its
three-stage `LexicalLookupSymbol`, `NewClosing`, `AddFuncScope`, the self-tail-call jump)
reports the same. -/
theorem lexical_scoping_on_fragment : CompileCorrectOn InProvedFragment := compile_correct_partial.1

/-- the form in which the corollaries use it: a reference outcome transfers to the machine -/
theorem lexical_instance (fuel : Nat) (p : List Expr) (hp : FtList p = true ∨ FyList p = true)
    (hwf : Ref.wfList {} p = true) (o : Obs) (h : obsOfRef (Ref.runProgram fuel p Ref.initSt).1 = some o) :
    ∃ fuel', obsOfVM (VM.runText fuel' p VM.initSt).1 = some o :=
  lexical_scoping_on_fragment p (hp.elim (fun h => Or.inr (Or.inr (Or.inl h))) (fun h => Or.inr (Or.inr (Or.inr (Or.inr h)))))
    hwf fuel o h

/-- how an integer literal prints -/
def shows (v : Int) : String := toString (BitVec.ofInt 64 v).toInt

/-- how a machine integer prints -/
def showsB (v : BitVec 64) : String := toString v.toInt

macro "ref_run" d:ident : tactic =>
  `(tactic| simp [$d:ident, Ref.runProgram, obsOfRef, Ref.evalBegin, Ref.eval, Ref.evalArgs, Ref.applyFn, Ref.bindParams, Ref.newFrame,
    Ref.evalCond, Ref.force, Ref.define, Ref.setVar, Ref.lookup, Ref.lookupIn, Ref.initSt, Ref.assocSet, Ref.globalNames, coreBuiltins,
    List.lookup, prim, isFunction, allInts, intOfLit, Ref.isLazyParam, rebindOk, tyOf, isCmp, compareVals,
    cmpResult, truthy_bool, pr, showVal, printDepth, shows, mkList, Ref.evalList, Ref.bindAll, Ref.evalLetSeq, Ref.evalAndOr, showsB])

macro "wf_run" d:ident : tactic =>
  `(tactic| simp [$d:ident, Ref.wfList, Ref.wf, Ref.wfArms, Ref.wfBinds])

/-! ### (a) A free variable sees the binding of the creation site, never the caller's

`(defn mk [x] (fn [] x)) (def k (mk a)) (defn caller [x] (k)) (caller b)`: the closure is made
in an activation of `mk` that binds `x ↦ a`; it is called after `mk` has returned, from inside an
activation of `caller` that binds the same name `x ↦ b`. The answer is `a`. -/
def progSite (a b : Int) : List Expr :=
  [.defn "mk" ["x"] none [.fn [] none [.sym "x"]],
   .def_ "k" (.call (.sym "mk") [.int a]),
   .defn "caller" ["x"] none [.call (.sym "k") []],
   .call (.sym "caller") [.int b]]

theorem progSite_in (a b : Int) : FtList (progSite a b) = true := by ft_mem2 progSite

theorem progSite_wf (a b : Int) : Ref.wfList {} (progSite a b) = true := by wf_run progSite

set_option maxRecDepth 8000 in
theorem progSite_ref (a b : Int) :
    obsOfRef (Ref.runProgram 20 (progSite a b) Ref.initSt).1 = some (.ok (shows a) []) := by
  ref_run progSite

theorem free_variables_see_creation_site (a b : Int) :
    ∃ fuel, obsOfVM (VM.runText fuel (progSite a b) VM.initSt).1 = some (.ok (shows a) []) :=
  lexical_instance 20 _ (Or.inl (progSite_in a b)) (progSite_wf a b) _ (progSite_ref a b)

/-- non-vacuity, both sides on concrete values: creation site `x ↦ 1`, caller `x ↦ 2`, answer `1` -/
example : obsOfRef (Ref.runProgram 20 (progSite 1 2) Ref.initSt).1 = some (.ok "1" [])
    ∧ ∃ fuel, obsOfVM (VM.runText fuel (progSite 1 2) VM.initSt).1 = some (.ok "1" []) :=
  ⟨progSite_ref 1 2, free_variables_see_creation_site 1 2⟩

/-! ### (b) The closures of one activation share its variables

`(defn mk [c] (def inc (fn [] (set c (+ c 1)))) (def get (fn [] c)) (list inc get)) (def p (mk a))
((first p)) ((first p)) (trace ((second p))) ((first p)) ((second p))`: two closures made in ONE
activation of `mk`; what `inc` assigns, `get` reads. -/
def progShare (a : Int) : List Expr :=
  [.defn "mk" ["c"] none [.def_ "inc" (.fn [] none [.set_ "c" (.call (.sym "+") [.sym "c", .int 1])]),
      .def_ "get" (.fn [] none [.sym "c"]), .call (.sym "list") [.sym "inc", .sym "get"]],
   .def_ "p" (.call (.sym "mk") [.int a]),
   .call (.call (.sym "first") [.sym "p"]) [], .call (.call (.sym "first") [.sym "p"]) [],
   .call (.sym "trace") [.call (.call (.sym "second") [.sym "p"]) []],
   .call (.call (.sym "first") [.sym "p"]) [], .call (.call (.sym "second") [.sym "p"]) []]

theorem progShare_in (a : Int) : FtList (progShare a) = true := by ft_mem2 progShare
theorem progShare_wf (a : Int) : Ref.wfList {} (progShare a) = true := by wf_run progShare

set_option maxRecDepth 8000 in
theorem progShare_ref (a : Int) :
    obsOfRef (Ref.runProgram 20 (progShare a) Ref.initSt).1
      = some (.ok (showsB (BitVec.ofInt 64 a + 1#64 + 1#64 + 1#64)) [showsB (BitVec.ofInt 64 a + 1#64 + 1#64)]) := by
  ref_run progShare

theorem closures_of_one_activation_share (a : Int) :
    ∃ fuel, obsOfVM (VM.runText fuel (progShare a) VM.initSt).1
      = some (.ok (showsB (BitVec.ofInt 64 a + 1#64 + 1#64 + 1#64)) [showsB (BitVec.ofInt 64 a + 1#64 + 1#64)]) :=
  lexical_instance 20 _ (Or.inl (progShare_in a)) (progShare_wf a) _ (progShare_ref a)

/-- non-vacuity on concrete values: the counter starts at 5; after two increments `get` reads 7 (traced), after
a third one 8 -/
example : obsOfRef (Ref.runProgram 20 (progShare 5) Ref.initSt).1 = some (.ok "8" ["7"])
    ∧ ∃ fuel, obsOfVM (VM.runText fuel (progShare 5) VM.initSt).1 = some (.ok "8" ["7"]) :=
  ⟨progShare_ref 5, closures_of_one_activation_share 5⟩

/-! ### (c) Every activation gets fresh variables

`(defn mk [c] (fn [] (set c (+ c 1)))) (def k1 (mk a)) (def k2 (mk b)) (trace (k1)) (trace (k1)) (k2)`:
two activations of the same function, two independent counters — `k2` answers `b+1` whatever was done
through `k1`. -/
def progFresh (a b : Int) : List Expr :=
  [.defn "mk" ["c"] none [.fn [] none [.set_ "c" (.call (.sym "+") [.sym "c", .int 1])]],
   .def_ "k1" (.call (.sym "mk") [.int a]), .def_ "k2" (.call (.sym "mk") [.int b]),
   .call (.sym "trace") [.call (.sym "k1") []], .call (.sym "trace") [.call (.sym "k1") []],
   .call (.sym "k2") []]

theorem progFresh_in (a b : Int) : FtList (progFresh a b) = true := by ft_mem2 progFresh
theorem progFresh_wf (a b : Int) : Ref.wfList {} (progFresh a b) = true := by wf_run progFresh

set_option maxRecDepth 8000 in
theorem progFresh_ref (a b : Int) :
    obsOfRef (Ref.runProgram 20 (progFresh a b) Ref.initSt).1
      = some (.ok (showsB (BitVec.ofInt 64 b + 1#64))
          [showsB (BitVec.ofInt 64 a + 1#64), showsB (BitVec.ofInt 64 a + 1#64 + 1#64)]) := by
  ref_run progFresh

theorem fresh_variables_per_activation (a b : Int) :
    ∃ fuel, obsOfVM (VM.runText fuel (progFresh a b) VM.initSt).1
      = some (.ok (showsB (BitVec.ofInt 64 b + 1#64))
          [showsB (BitVec.ofInt 64 a + 1#64), showsB (BitVec.ofInt 64 a + 1#64 + 1#64)]) :=
  lexical_instance 20 _ (Or.inl (progFresh_in a b)) (progFresh_wf a b) _ (progFresh_ref a b)

example : obsOfRef (Ref.runProgram 20 (progFresh 10 20) Ref.initSt).1 = some (.ok "21" ["11", "12"])
    ∧ ∃ fuel, obsOfVM (VM.runText fuel (progFresh 10 20) VM.initSt).1 = some (.ok "21" ["11", "12"]) :=
  ⟨progFresh_ref 10 20, fresh_variables_per_activation 10 20⟩

/-! ### (d) Captured variables outlive the activation that made them

`(defn mk [x] (let [y x] (fn [] (set y (+ y 1))))) (def k (mk a))
(defn other [y] (newScope (def x y) x)) (other b) (other b) (trace (k)) (k)`: the closure is used after
`mk` returned and its `let` scope was left, and after other activations and scopes binding the same
names came and went; the variable is still there, still assignable. -/
def progOutlive (a b : Int) : List Expr :=
  [.defn "mk" ["x"] none [.let_ false [("y", .sym "x")]
      [.fn [] none [.set_ "y" (.call (.sym "+") [.sym "y", .int 1])]]],
   .def_ "k" (.call (.sym "mk") [.int a]),
   .defn "other" ["y"] none [.newScope [.def_ "x" (.sym "y"), .sym "x"]],
   .call (.sym "other") [.int b], .call (.sym "other") [.int b],
   .call (.sym "trace") [.call (.sym "k") []], .call (.sym "k") []]

theorem progOutlive_in (a b : Int) : FtList (progOutlive a b) = true := by ft_mem2 progOutlive
theorem progOutlive_wf (a b : Int) : Ref.wfList {} (progOutlive a b) = true := by wf_run progOutlive

set_option maxRecDepth 8000 in
theorem progOutlive_ref (a b : Int) :
    obsOfRef (Ref.runProgram 20 (progOutlive a b) Ref.initSt).1
      = some (.ok (showsB (BitVec.ofInt 64 a + 1#64 + 1#64)) [showsB (BitVec.ofInt 64 a + 1#64)]) := by
  ref_run progOutlive

theorem captured_outlives_activation (a b : Int) :
    ∃ fuel, obsOfVM (VM.runText fuel (progOutlive a b) VM.initSt).1
      = some (.ok (showsB (BitVec.ofInt 64 a + 1#64 + 1#64)) [showsB (BitVec.ofInt 64 a + 1#64)]) :=
  lexical_instance 20 _ (Or.inl (progOutlive_in a b)) (progOutlive_wf a b) _ (progOutlive_ref a b)

example : obsOfRef (Ref.runProgram 20 (progOutlive 3 100) Ref.initSt).1 = some (.ok "5" ["4"])
    ∧ ∃ fuel, obsOfVM (VM.runText fuel (progOutlive 3 100) VM.initSt).1 = some (.ok "5" ["4"]) :=
  ⟨progOutlive_ref 3 100, captured_outlives_activation 3 100⟩

/-! ### (e) A self tail call gets a fresh scope

`(defn lp [n v acc] (def f (fn [] v)) (cond (== n 0) acc (lp (- n 1) (+ v 1) (cons f acc))))
(def fs (lp 2 a ())) (trace ((first fs))) ((second fs))`: `lp` iterates by the self-tail-call jump
(`goto 0` after `removeScope`s, then `AddFuncScope` again); every iteration makes a closure over ITS
parameter `v`. The closure of the second iteration answers `a+1`, the one of the first `a` — not the
value of the last iteration, as they would if the jump re-used the function scope. The program is in F2c
and not in F2 (`progTail_notF2`): the theorem used is `compile_correct_on_F2c`. -/
def progTail (a : Int) : List Expr :=
  [.defn "lp" ["n", "v", "acc"] none [.def_ "f" (.fn [] none [.sym "v"]),
      .cond [(.call (.sym "==") [.sym "n", .int 0], .sym "acc")]
        (.call (.sym "lp") [.call (.sym "-") [.sym "n", .int 1], .call (.sym "+") [.sym "v", .int 1],
          .call (.sym "cons") [.sym "f", .sym "acc"]])],
   .def_ "fs" (.call (.sym "lp") [.int 2, .int a, .nilLit]),
   .call (.sym "trace") [.call (.call (.sym "first") [.sym "fs"]) []],
   .call (.call (.sym "second") [.sym "fs"]) []]

theorem progTail_in (a : Int) : FyList (progTail a) = true := by fy_mem progTail
theorem progTail_notF2 (a : Int) : FtList (progTail a) = false := by fy_mem progTail
theorem progTail_wf (a : Int) : Ref.wfList {} (progTail a) = true := by wf_run progTail

set_option maxRecDepth 8000 in
theorem progTail_ref (a : Int) :
    obsOfRef (Ref.runProgram 40 (progTail a) Ref.initSt).1
      = some (.ok (showsB (BitVec.ofInt 64 a)) [showsB (BitVec.ofInt 64 a + 1#64)]) := by
  ref_run progTail

theorem tail_call_gets_fresh_scope (a : Int) :
    ∃ fuel, obsOfVM (VM.runText fuel (progTail a) VM.initSt).1
      = some (.ok (showsB (BitVec.ofInt 64 a)) [showsB (BitVec.ofInt 64 a + 1#64)]) :=
  lexical_instance 40 _ (Or.inr (progTail_in a)) (progTail_wf a) _ (progTail_ref a)

example : obsOfRef (Ref.runProgram 40 (progTail 7) Ref.initSt).1 = some (.ok "7" ["8"])
    ∧ ∃ fuel, obsOfVM (VM.runText fuel (progTail 7) VM.initSt).1 = some (.ok "7" ["8"]) :=
  ⟨progTail_ref 7, tail_call_gets_fresh_scope 7⟩

/-! ## 2. `RelF` and C03's `Sim`

`Sim ρ φ s rs env` (Props/C03 §6) asks, along the VM's search list `lexCore s`: (chain) its image
under `ρ`, repetitions removed, is the reference static chain of `env`; (vars) the variables of scope
`id` are those of frame `ρ id`, translated by `φ`, AS LISTS; (template) stage 3 adds no scope.
`Sim.RelF m s rs env` (the relation the C02 simulation proofs maintain) gives all of it with `ρ = id`
(scope ids are frame ids) and `φ = Sim.trf m` (values modulo the numbering of closures) — except
the order of the bindings inside one frame, which the two evaluators do not share (the machine binds
parameters and the names of a parallel `let` last-first, the reference first-first; `RelF.vars` is
extensional). `SimX` is `Sim` with (vars) by lookup; it is what `lookup_sound` uses. -/

/-- `Sim` is `SimX` plus the order of bindings. -/
theorem sim_implies_simX {ρ : Nat → Nat} {φ : Val → Val} {s : St} {rs : Ref.St} {env : Nat} (h : Sim ρ φ s rs env) :
    SimX ρ φ s rs env := h.toX

/-- `lookup_sound` from the weaker relation. -/
theorem lookup_sound_x {ρ : Nat → Nat} {φ : Val → Val} {s : St} {rs : Ref.St} {env : Nat}
    (h : SimX ρ φ s rs env) (x : String) :
    (lexLookup s x).map (fun p => (ρ p.1, φ p.2)) = Ref.lookup rs env x :=
  ZygoVerif.Scope.lookup_sound_x h x

/-- **`RelF` implies `Sim` up to the order of bindings.** The content is the `chain` field: the live
scopes of the running activation down to its function scope, then the captured stacks of the running
closure object and of the closures that made it (`Scope.chainIds`, the walk of
`LookupSymbolInParentChainOfClosures`), repetitions removed (the helper functions of operand evaluation
and of `force` repeat scopes already searched), ARE the reference static chain of `env`
(`Scope.chainF_refChain`, `Scope.fnChainF_dedup`). -/
theorem simX_of_relF {m : Nat → Nat} {s : St} {rs : Ref.St} {env : Nat} (h : RelF m s rs env) :
    SimX id (trf m) s rs env :=
  ZygoVerif.Scope.simX_of_relF h

/-- the initial interpreter against the initial reference state: `SimX` is satisfiable through `RelF` -/
example : SimX id (trf id) VM.initSt Ref.initSt 0 := simX_of_relF (relF_initSt id)

/-- `RelF.lexLookup` again, by C03's route: search list → static chain → first binding. -/
theorem lookup_agrees_under_relF {m : Nat → Nat} {s : St} {rs : Ref.St} {env : Nat} (h : RelF m s rs env) (x : String) :
    (lexLookup s x).map (fun p => (p.1, trf m p.2)) = Ref.lookup rs env x :=
  lookup_sound_x (simX_of_relF h) x

/-- in the initial interpreter every name is found (or not) alike by both lookups; e.g. the builtin `+` -/
example : ∀ x, (lexLookup VM.initSt x).map (fun p => (p.1, trf id p.2)) = Ref.lookup Ref.initSt 0 x :=
  lookup_agrees_under_relF (relF_initSt id)
example : Ref.lookup Ref.initSt 0 "+" = some (0, .builtin "+") := by decide

/-! ### The difference between `Sim` and `SimX` is real

A one-scope state whose two variables are listed in the opposite order in the reference frame (as after
`(let [a 1 b 2] …)`, or a call of a two-parameter function): `SimX` holds, `Sim` does not. -/
def twoVarsVM : St :=
  { fns := [{ name := "__main", closing := [some 0] }],
    scopes := [{ vars := [("a", .int 1#64), ("b", .int 2#64)] }], linear := [some 0] }
def twoVarsRef : Ref.St := { frames := [{ vars := [("b", .int 2#64), ("a", .int 1#64)] }] }

theorem simX_not_sim : SimX id id twoVarsVM twoVarsRef 0 ∧ ¬ Sim id id twoVarsVM twoVarsRef 0 := by
  have hcore : lexCore twoVarsVM = [0, 0] := by decide
  refine ⟨⟨by decide, fun i hi x => ?_, by decide⟩, fun h => ?_⟩
  · rw [hcore] at hi
    have hi0 : i = 0 := by simpa using hi
    subst hi0
    show List.lookup x [("b", Val.int 2#64), ("a", Val.int 1#64)]
      = (List.lookup x [("a", Val.int 1#64), ("b", Val.int 2#64)]).map id
    by_cases ha : x = "a"
    · subst ha; decide
    · by_cases hb : x = "b"
      · subst hb; decide
      · have ha' : (x == "a") = false := by simpa using ha
        have hb' : (x == "b") = false := by simpa using hb
        simp only [List.lookup, ha', hb', Option.map_none]
  · have := h.vars 0 (by rw [hcore]; simp)
    revert this; decide

/-! ### Preservation on the fragment

`SimPreservedFull` (Props/C03) quantifies over every instruction from every related state. What the C02
simulation proofs give is preservation at the granularity the reference evaluator has — one
EXPRESSION: from related states, the machine runs the whole code the generator made for an expression
of the fragment (any number of instructions: scopes entered and left, `def`/`set`, closures made,
operands evaluated in nested runs, calls and returns of closure objects — whose bodies may loop by self
tail calls —, `apply`/`map`, lazy arguments made and forced) and is then again related to the reference
state after `Ref.eval`, at the same environment, with the id map extended by the closures made. -/

/-- **Preservation of the simulation relation on the fragment.** -/
theorem sim_preserved_on_fragment (fnOk : Bool) (self : String) (e : Expr) (he : Ff fnOk self e = true)
    (isFn : Nat → Bool) (c : Ctx) (hfn : FnameOk self c) (gs gs' : GS) (code : List Instr) (t : Bool)
    (hc : (compile isFn c e).run gs = .ok ((code, t), gs')) (m : Nat → Nat) (s : St) (rs : Ref.St) (env : Nat)
    (pre post : List Instr) (hrel : RelF m s rs env) (hgen : fnOk = true → GenOk gs gs' s)
    (huser : (fnOf s s.curfunc).user = false)
    (hcode : (fnOf s s.curfunc).code = pre ++ code ++ post) (hpc : s.pc = (pre.length : Int))
    (n : Nat) (v' : Val) (rs' : Ref.St) (hev : Ref.eval n e env rs = .ok v' rs') :
    SimX id (trf m) s rs env ∧
    ∃ s' m', SimX id (trf m') s' rs' env
      ∧ (∀ i, i < s.fns.length → m' i = m i)
      ∧ (∃ v, s'.data = some v :: s.data ∧ v' = trf m' v)
      ∧ s'.pc = s.pc + (code.length : Int) ∧ s'.linear = s.linear ∧ s'.curfunc = s.curfunc
      ∧ (∃ k j, ∀ fuel, j ≤ fuel → ∀ st, (runLoop (fuel + k) st).run s = (runLoop fuel st).run s')
      ∧ ∀ x, (lexLookup s' x).map (fun p => (p.1, trf m' p.2)) = Ref.lookup rs' env x := by
  have h := segment_lemma_Ff fnOk self e he isFn c hfn gs gs' code t hc m s rs env pre post hrel hgen huser hcode hpc n
  rw [hev] at h
  obtain ⟨s', m', v, hv, rel, hm, -, hpc', hdata, hlin, -, hcur, hrun⟩ := h
  exact ⟨simX_of_relF hrel, s', m', simX_of_relF rel, hm, ⟨v, hdata, hv⟩, hpc', hlin, hcur, hrun,
    lookup_agrees_under_relF rel⟩

/-! Non-vacuity: the hypotheses of `sim_preserved_on_fragment` are jointly satisfiable — the initial
interpreter with the code of the text `1` loaded into `__main` (for real program texts they are discharged
by `Sim.runText_Ft` / `Sim.runText_Fy`, which is how `lexical_scoping_on_fragment` is proved). -/
def loaded1 : St :=
  { VM.initSt with fns := [{ name := "__main", closing := [some 0], code := [.push (intOfLit 1)] },
                           { name := "builtin", user := true }] }
def gs1 : GS := { fns := loaded1.fns, live := [some 0] }

theorem relF_loaded1 : RelF id loaded1 Ref.initSt 0 :=
  (relF_initSt id).load (s' := loaded1) rfl rfl rfl rfl rfl
    ⟨Nat.le_refl _, fun i hi hne => by
      match i, hi, hne with
      | 1, _, _ => rfl, rfl, rfl, LoopsExt.refl _⟩

example : ∃ s' m', SimX id (trf m') s' Ref.initSt 0 ∧ s'.data = [some (intOfLit 1)] ∧ s'.pc = 1
    ∧ ∀ x, (lexLookup s' x).map (fun p => (p.1, trf m' p.2)) = Ref.lookup Ref.initSt 0 x := by
  have hgen : GenOk gs1 gs1 loaded1 :=
    ⟨rfl, by decide, Nat.le_refl _, fun t h1 h2 => absurd h2 (Nat.not_lt.mpr h1), Nat.zero_le _,
      fun id h => absurd h (Nat.not_lt_zero _)⟩
  obtain ⟨-, s', m', hsim, -, ⟨v, hd, hv⟩, hpc, -, -, -, hlk⟩ :=
    sim_preserved_on_fragment true "" (.int 1) (by simp [Ff]) (fun _ => false) {} (Or.inl rfl) gs1 gs1
      [.push (intOfLit 1)] false rfl id loaded1 Ref.initSt 0 [] [] relF_loaded1 (fun _ => hgen) rfl rfl rfl
      1 (intOfLit 1) Ref.initSt (by simp [Ref.eval])
  refine ⟨s', m', hsim, ?_, by rw [hpc]; rfl, hlk⟩
  have : v = intOfLit 1 := by
    cases v <;> simp [intOfLit, tr] at hv ⊢
    exact hv.symm
  rw [hd, this]; rfl

/-- **… and across a self tail call.** A call in tail position of a function body of the fragment,
whatever the generator made of it (the ordinary `callExpr`, or guard / operands inline / `prepareCall` /
`removeScope` × (scopes+1) / `goto 0`): when the reference evaluator yields a value, the machine either
lands behind the call related at the same environment (ordinary call: guard failed or never emitted), or
— the jump was taken, the function scope was dropped and `AddFuncScope` ran again for a FRESH scope — the
whole activation has returned to its caller (`pc = s₁.pc + 1`) and the states are related at the CALLER's
environment `env` again. From `C02.tail_call_simulates`; the hypotheses are the ones of that theorem
(`Sim.InAct`: inside the activation of closure `vid` entered from `s₁`), discharged for the body of every
closure object of the fragment inside `Sim.fclaimU_succ` — `tail_call_gets_fresh_scope` above runs through
this path three times. -/
theorem sim_preserved_across_tail_call {k : Nat} {self h : String} {args : List Expr} (hh : (h != "") = true)
    (hhead : okHead h = true) (hfa : FaList args = true) (hself : (h != self) = true ∨ FfList false self args = true)
    (isFn : Nat → Bool) (c : Ctx) (gs : GS) (r : (List Instr × Bool) × GS)
    (hc : (compile isFn c (.call (.sym h) args)).run gs = .ok r) (hfn : FnameOk self c)
    {ps : List String} {rest : Option String} (hkn : KnownOk c gs ps rest) (hps : ∀ p ∈ ps ++ rest.toList, okParam p = true)
    {m₁ : Nat → Nat} {s₁ : St} {rs₁ : Ref.St} {env vid : Nat} {D : List (Option Val)} {m : Nat → Nat} {s : St} {rs : Ref.St}
    {cenv f₀ : Nat} {pre post : List Instr}
    (hact : InAct m₁ s₁ rs₁ env vid D f₀ c.scopes m s rs) (hnargs : (fnOf s₁ vid).nargs = ps.length)
    (hva : (fnOf s₁ vid).varargs = rest.isSome) (hpa : (fnOf s₁ vid).params = ps ++ rest.toList)
    (hrel : RelF m s rs cenv) (hseg : Seg s pre r.1.1 post)
    (v' : Val) (rs' : Ref.St) (hev : Ref.eval (k + 2) (.call (.sym h) args) cenv rs = .ok v' rs') :
    (∃ s' m', ReachX s s' ∧ SimX id (trf m') s' rs' cenv)
    ∨ (∃ s' m', ReachX s s' ∧ s'.pc = s₁.pc + 1 ∧ SimX id (trf m') (s'.withCur f₀) rs' env) := by
  have ht := tail_call_simulates (k := k) hh hhead hfa hself isFn c gs r hc hfn hkn hps hact hnargs hva hpa hrel hseg
  rw [hev] at ht
  rcases ht with ⟨s', m', v, hr, -, -, rel, -⟩ | ⟨s', m', v, hr, hpc, -, -, rel, -⟩
  · exact Or.inl ⟨s', m', hr, simX_of_relF rel⟩
  · exact Or.inr ⟨s', m', hr, hpc, simX_of_relF rel⟩

/-- What stays OUTSIDE: `SimPreservedFull` itself (every instruction, every related state — also states no
program reaches), and every program outside the proved fragments (`C02.CompileCorrectOutsideProved`:
`fn`/`defn` inside the operands of a call — templates made at run time close over the dynamic stack, so
`Sim.FScopes` fails —, a self call in a directly compiled non-tail position, `substitute`, an empty
`newScope`). For those the claim rests on the `scope` correspondence runs. This theorem only records that
the fragment's statement and the full one are different propositions of which the first is proved. -/
theorem sim_preserved_scope :
    (∀ m s rs env, RelF m s rs env → SimX id (trf m) s rs env)
    ∧ (CompileCorrectOutsideProved → CompileCorrect) :=
  ⟨fun _ _ _ _ h => simX_of_relF h, compile_correct_partial.2.1⟩

end ZygoVerif.C03
