/-
C16 — lazy parameters delay, memoise and stay lexical; strict ones do not.

All theorems are about the executable model of the code that exists (`Model/VM.lean`:
`prepareArgs` = `PrepareCallExprArgs`, `callResolved` = `CallResolved`, `exec (.pushLazy e)` =
`PushLazyArgInstr`, `applyFn` = `Apply`, `forceLazy` = `SexpLazyArg.Force`, `builtin
"substitute"` = `SubstituteFunction`; `Model/Gen.lean`: `compileCallArgs` =
`GenerateCallArgsForFunction`), which channel `lazy` ties to the Go code on every run. They
hold for every function object, every argument list, every state, every amount of fuel: no
bound on sizes, depths or steps. Definitions used in the statements (`lazyPos`, `allocThunk`,
`prepPlan`, `Step`, `Reach`, `forceEntry`, `applyWrap`) are in `Proofs/LazyCalls.lean`; the
whole-machine invariant `allPres` (every function of the machine, for every instruction and
outcome, only extends the thunk table) is in `Proofs/Lazy.lean`.

Full-strength statement: `LazySemantics` — the VM model agrees with the call-by-need
reference evaluator `Spec/RefEval.lean` (thunk = expression + creation environment + memo;
strict arguments once, left to right, before the call) on class, value and effect trace of
every well-formed program. It is the statement `C02.CompileCorrect` restricted to no
fragment; the execution half of that simulation is not proved (see `notes/C02.md`), so what
is proved here are the decision points, each at full generality:

(a) `lazy_not_evaluated_at_call`      a lazy position of a call allocates one thunk and runs
                                       nothing (position form, closed form for all-lazy calls,
                                       and the same for the compile-time instruction);
(b) `force_memoises`                  a successful force stores the value; every later force —
                                       after any further activity of the machine, also in a
                                       later program text — returns it and changes nothing;
(c) `force_in_callers_env`            the thunk records the scope stack and function of the
                                       call site, keeps them whatever happens (the caller may
                                       have returned), and force runs the expression on exactly
                                       that stack, in a function closed over it;
(d) `strict_args_evaluated_once_before_call`, `strict_never_receives_thunk`
                                       a strict position is one `evalCallExpr` whose value is
                                       the operand, before `callFunction`; the three decision
                                       points (run time, compile time for the self tail call,
                                       `apply`/`map`) use the same predicate of the function
                                       object the callee *evaluated to* (so name, alias,
                                       parameter and computed callee cannot differ); variadic
                                       tails, Go builtins and unknown callees are strict;
(e) `source_recoverable`              `substitute` returns the expression the thunk was made
                                       from, as data, unevaluated, at any later time.

Not claimed: (i) the binding of operand *i* to formal *i* by the function prologue and the
lookup rules inside the forced expression are execution facts of the VM (C02/C03's
simulation); they are held by the correspondence (`lazy` channel: caller-local free
variables shadowed in the callee, forced after the caller returned). (ii) A force that
*fails* stores nothing and a later force runs the expression again (Go and the reference agree:
an error is not a value). (iii) A thunk forced re-entrantly from inside its own evaluation is
evaluated once per nesting level (both sides again).
-/
import ZygoVerif.Proofs.LazyCalls
import ZygoVerif.Generated.CallEmit
namespace ZygoVerif.C16
open ZygoVerif.Core ZygoVerif.VM

/-! ## Full-strength statement -/

inductive Obs where
  | ok (value : String) (trace : List String)
  | err (trace : List String)
deriving DecidableEq, Repr

def obsOfRef : Ref.Outcome → Option Obs
  | .ok v t => some (.ok v t)
  | .err t => some (.err t)
  | .timeout => none

def obsOfVM : VM.Outcome → Option Obs
  | .done "ok" v t _ => some (.ok v t)
  | .done "err" _ t _ => some (.err t)
  | _ => none

/-- The property at full strength on the model: on every well-formed program on which the
call-by-need reference evaluator terminates, the machine (given enough fuel) shows the same
class, value and trace of effects. NOT proved in full (it is C02's `CompileCorrect`); it IS
proved on the fragment of programs with lazy parameters, `force`, closures, tail calls, apply/map
covered by C02's simulation: `ZygoVerif.C02.lazy_semantics_on_F3lazy` in Props/C02.lean (which
imports this file and restates this very definition restricted to that fragment). -/
def LazySemantics : Prop :=
  ∀ (p : List Expr), Ref.wfList {} p = true →
    ∀ fuel o, obsOfRef (Ref.runProgram fuel p Ref.initSt).1 = some o →
      ∃ fuel', obsOfVM (VM.runText fuel' p VM.initSt).1 = some o

/-! ## (a) a lazy argument is not evaluated at the call -/

/-- With fuel for every argument, `prepareArgs` is its plan: `prepPlan` (read its definition:
a lazy position is `modify (allocThunk e)`, a strict one `evalCallExpr … e >>= pushData`). -/
theorem prepare_is_plan (fuel : Nat) (f : Option FnObj) (args : List Expr) (i : Nat) (s : St) :
    runM (prepareArgs (fuel + 1 + args.length) f i args) s = runM (prepPlan (fuel + 1) f i args) s :=
  prepareArgs_eq_plan fuel f args i s

/-- **Not evaluated at the call.** Whatever the other arguments are, the argument at a lazy
position contributes exactly `allocThunk e`: one thunk holding `e`, the current scope stack
and function; one operand naming it. No instruction of `e` runs; trace, scopes, heap,
function table are what they were (`allocThunk_effect`). -/
theorem lazy_not_evaluated_at_call (fuel : Nat) (f : Option FnObj) (i : Nat) (pre : List Expr) (e : Expr)
    (post : List Expr) (s : St) (h : lazyPos f (i + pre.length) = true) :
    runM (prepareArgs (fuel + 1 + (pre ++ e :: post).length) f i (pre ++ e :: post)) s =
      runM (prepPlan (fuel + 1 + (post.length + 1)) f i pre >>= fun _ =>
            modify (allocThunk e) >>= fun _ => prepPlan (fuel + 1) f (i + pre.length + 1) post) s :=
  prepareArgs_at_lazy_position fuel f i pre e post s h

theorem allocThunk_effect (e : Expr) (s : St) :
    (allocThunk e s).lazies[s.lazies.length]? =
      some ({ e, stack := s.linear, curfunc := s.curfunc, value := none } : LazyObj) ∧
    (allocThunk e s).data = some (.lazy s.lazies.length) :: s.data ∧
    (allocThunk e s).trace = s.trace ∧ (allocThunk e s).scopes = s.scopes ∧ (allocThunk e s).fns = s.fns ∧
    (allocThunk e s).heap = s.heap ∧ (allocThunk e s).linear = s.linear ∧ (allocThunk e s).addr = s.addr ∧
    (allocThunk e s).curfunc = s.curfunc ∧ (allocThunk e s).pc = s.pc :=
  allocThunk_new e s

/-- Every position lazy: preparing the call is a fold of `allocThunk`, for any number of
arguments; the trace and everything but thunk table and operand stack are unchanged. -/
theorem lazy_not_evaluated_all_lazy (fuel : Nat) (f : Option FnObj) (args : List Expr) (i : Nat) (s : St)
    (h : ∀ j, j < args.length → lazyPos f (i + j) = true) :
    let s' := args.foldl (fun s e => allocThunk e s) s
    runM (prepareArgs (fuel + 1 + args.length) f i args) s = (.ok (), s') ∧
    s'.trace = s.trace ∧ s'.scopes = s.scopes ∧ s'.fns = s.fns ∧ s'.heap = s.heap ∧
    s'.lazies.length = s.lazies.length + args.length := by
  have hp := prepPlan_all_lazy (fuel + 1) f args i s h
  have hf := allocThunk_fold_frame args s
  exact ⟨by rw [prepareArgs_eq_plan]; exact hp, hf.1, hf.2.1, hf.2.2.1, hf.2.2.2.1, hf.2.2.2.2.2.2.2.2.1⟩

/-- The compile-time route (`PushLazyArgInstr`, emitted for the lazy positions of a self tail
call) does to the state exactly what the run-time route does. -/
theorem lazy_not_evaluated_pushLazy (fuel : Nat) (e : Expr) (s : St) :
    runM (exec (fuel + 1) (.pushLazy e)) s = (.ok (), { allocThunk e s with pc := s.pc + 1 }) :=
  exec_pushLazy fuel e s

/-! ## (b) force memoises -/

/-- a thunk holding a value answers with it and nothing else happens -/
theorem force_returns_memo (fuel id : Nat) (s : St) (lz : LazyObj) (v : Val)
    (h : s.lazies[id]? = some lz) (hv : lz.value = some v) :
    runM (forceLazy (fuel + 1) id) s = (.ok v, s) :=
  force_hit fuel id s lz v h hv

/-- **Memoised, at most once.** If a force succeeds with `v` (state `s1`), the thunk holds `v`,
and after *any* further activity of the machine (`Reach`: instructions, calls, applies, other
forces, whole later program texts; successful or failed) every force of it returns `v` and
leaves the state — trace included — exactly as it is. -/
theorem force_memoises (f1 f2 id : Nat) (s s1 s2 : St) (v : Val)
    (h1 : runM (forceLazy f1 id) s = (.ok v, s1)) (hr : Reach s1 s2) :
    (∃ lz, s1.lazies[id]? = some lz ∧ lz.value = some v) ∧
    runM (forceLazy (f2 + 1) id) s2 = (.ok v, s2) :=
  ⟨force_stores_value f1 id s s1 v h1, force_at_most_once f1 f2 id s s1 s2 v h1 hr⟩

/-- The invariant behind it: every activity of the machine extends the thunk table
(`Proofs/Lazy.lean: allPres`, proved for all thirteen mutually recursive functions of the
machine, every instruction, every outcome). -/
theorem machine_extends_thunk_table {s s' : St} (h : Reach s s') : LExt s.lazies s'.lazies :=
  reach_ext h

/-! ## (c) force evaluates in the caller's lexical environment -/

/-- the thunk keeps expression, captured scope stack and function for ever -/
theorem thunk_keeps_call_site {s s' : St} (hr : Reach s s') (id : Nat) (lz : LazyObj) (h : s.lazies[id]? = some lz) :
    ∃ lz', s'.lazies[id]? = some lz' ∧ lz'.e = lz.e ∧ lz'.stack = lz.stack ∧ lz'.curfunc = lz.curfunc ∧
      lz'.isValue = lz.isValue :=
  thunk_env_immutable hr id lz h

/-- **In the caller's environment.** An argument delayed in state `s0` (scope stack
`s0.linear`, function `s0.curfunc`) and forced in any later state `s`, however reached: the
expression is compiled and run by `nested` in the state `forceEntry` — scope stack = the
call site's stack, inside a fresh function whose captured scopes are that stack and whose
parent is the call site's function; the scope stack current at the force is set aside. -/
theorem force_in_callers_env (e : Expr) (s0 s : St) (hr : Reach (allocThunk e s0) s) (fuel : Nat)
    (lz : LazyObj) (hlz : s.lazies[s0.lazies.length]? = some lz) (hv : lz.value = none)
    (code : List Instr) (t : Bool) (s1 : St)
    (hgen : runM (runGen (compile (isFnScope s) {} lz.e)) s = (.ok (code, t), s1)) (hne : code.isEmpty = false) :
    lz.e = e ∧ lz.stack = s0.linear ∧ lz.curfunc = s0.curfunc ∧
    runM (forceLazy (fuel + 1) s0.lazies.length) s =
      runM (nested fuel s1.fns.length (ctlOf s1) >>= forceFinish s0.lazies.length lz) (forceEntry lz code s1) ∧
    ∃ s2, runM (callFunction s1.fns.length 0) (forceEntry lz code s1) = (.ok (), s2) ∧
      s2.linear = s0.linear ∧ s2.pc = 0 ∧ (fnOf s2 s2.curfunc).closing = s0.linear ∧
      (fnOf s2 s2.curfunc).parent = some s0.curfunc ∧ (fnOf s2 s2.curfunc).code = code ++ [.ret] := by
  obtain ⟨lz', h', he, hs, hc, _⟩ := thunk_env_immutable hr s0.lazies.length _ (allocThunk_new e s0).1
  rw [hlz] at h'; cases h'
  refine ⟨he, hs, hc, force_runs_in_entry_state fuel _ s s1 lz code t hlz hv hgen hne, ?_⟩
  obtain ⟨s2, h2, a, _, c, d, e', f', _⟩ := force_body_state lz code s1
  exact ⟨s2, h2, by rw [a, hs], c, by rw [d, hs], by rw [e', hc], f'⟩

/-- **Lookups of a forced expression are the call site's lookups** (partial). `sF`: a state
in which the body of a force runs — scope stack `K` (the thunk's captured stack), current
function `f` closed over `K` with parent `c`, the call site's function (that is the state
`force_in_callers_env` exhibits). `lexLookupAt s lin cur` is `LexicalLookupSymbol` as a
function of scope stack and current function (`lexLookup s = lexLookupAt s s.linear
s.curfunc`, by `rfl`). A symbol resolves during the force as it does for the call site
(scope stack `K`, current function `c`, same tables). Hypotheses NOT discharged here, hence
`_partial`: `hfuel` — the closure chain of `c` fits the walk's fuel (true when every parent
is older than its child, which holds for all functions made by `mkFunction`/`createClosure`
but is not proved as a machine invariant); `hc` — `c` is a closure, or (`c` = main) its own
captured scopes, the global scope, add nothing to what `K` already shows. -/
theorem force_lookup_is_callsite_lookup_partial (sF : St) (K : List (Option Nat)) (f c : Nat) (x : String)
    (hcl : (fnOf sF f).closing = K) (hpar : (fnOf sF f).parent = some c)
    (hfuel : lookupChain sF x sF.fns.length c = lookupChain sF x (sF.fns.length + 1) c)
    (hc : (fnOf sF c).parent.isSome = true ∨
          ((fnOf sF c).parent = none ∧ (lookupUntilFn sF x false K = none → lookupUntilFn sF x false (fnOf sF c).closing = none) ∧ 0 < sF.fns.length)) :
    lexLookupAt sF K f x = lexLookupAt sF K c x ∧ (∀ s y, lexLookup s y = lexLookupAt s s.linear s.curfunc y) :=
  ⟨force_lookup_eq_callsite sF K f c x hcl hpar hfuel hc, fun _ _ => rfl⟩

/-- **The read happens at force time.** (1) Delaying an argument reads no variable: the new
thunk has no value for *every* expression — a bare symbol included — and `allocThunk` commutes
with any change of the scope contents. (2) After a call with only lazy positions every new thunk
holds its expression and no value. (3) For a thunk whose expression is the bare variable `x`,
still without value in a later state `s`: the force compiles `x` to the single instruction
`envToStack x` without touching `s`, and runs it in `forceEntry`, whose scope *contents* are
those of `s` — the state at the time of the force, not of the call — and `envToStack x` is the
lookup `lexLookup` in the state it executes in. So a `set` between call and first force is
seen by the force; one between two forces is not (`force_memoises`). -/
theorem force_reads_at_force_time :
    (∀ (e : Expr) (s : St), ∃ lz, (allocThunk e s).lazies[s.lazies.length]? = some lz ∧ lz.e = e ∧ lz.value = none) ∧
    (∀ (e : Expr) (s : St) (sc : List Scope), allocThunk e { s with scopes := sc } = { allocThunk e s with scopes := sc }) ∧
    (∀ (fuel : Nat) (f : Option FnObj) (args : List Expr) (i : Nat) (s : St),
       (∀ j, j < args.length → lazyPos f (i + j) = true) →
       ∃ s', runM (prepareArgs (fuel + 1 + args.length) f i args) s = (.ok (), s') ∧
         ∀ j (hj : j < args.length), ∃ lz, s'.lazies[s.lazies.length + j]? = some lz ∧ lz.e = args[j] ∧ lz.value = none) ∧
    (∀ (fuel id : Nat) (s : St) (lz : LazyObj) (x : String),
       s.lazies[id]? = some lz → lz.value = none → lz.e = .sym x →
       runM (forceLazy (fuel + 1) id) s =
         runM (nested fuel s.fns.length (ctlOf s) >>= forceFinish id lz) (forceEntry lz [.envToStack x] s) ∧
       (forceEntry lz [.envToStack x] s).scopes = s.scopes ∧
       (∃ s2, runM (callFunction s.fns.length 0) (forceEntry lz [.envToStack x] s) = (.ok (), s2) ∧
          s2.scopes = s.scopes ∧ (fnOf s2 s2.curfunc).code = [.envToStack x, .ret] ∧ s2.pc = 0)) ∧
    (∀ (fuel : Nat) (x : String) (s : St),
       runM (exec (fuel + 1) (.envToStack x)) s =
         match lexLookup s x with
         | some (_, v) => (.ok (), { s with data := some v :: s.data, pc := s.pc + 1 })
         | none => (.error .err, s)) := by
  refine ⟨fun e s => ⟨_, (allocThunk_new e s).1, rfl, rfl⟩, allocThunk_reads_no_variable, ?_, ?_, exec_envToStack⟩
  · intro fuel f args i s h
    refine ⟨_, by rw [prepareArgs_eq_plan]; exact prepPlan_all_lazy (fuel + 1) f args i s h, ?_⟩
    intro j hj
    obtain ⟨lz, h1, h2, h3, _⟩ := allocThunk_fold_thunks args s j hj
    exact ⟨lz, h1, h2, h3⟩
  · intro fuel id s lz x hlz hv he
    have hgen : runM (runGen (compile (isFnScope s) {} lz.e)) s = (.ok ([.envToStack x], false), s) := by
      rw [he]; exact runGen_compile_sym s x
    refine ⟨force_runs_in_entry_state fuel id s s lz [.envToStack x] false hlz hv hgen rfl, rfl, ?_⟩
    obtain ⟨s2, h2, _, _, c, _, _, f', g, _⟩ := force_body_state lz [.envToStack x] s
    exact ⟨s2, h2, g, f', c⟩

/-! ## (d) strict positions -/

/-- **Exactly once, before the call.** Whatever the other arguments are, the argument at a
strict position is one `evalCallExpr` of its expression — after the arguments to its left,
before those to its right — and its value is the operand. -/
theorem strict_args_evaluated_once_before_call (fuel : Nat) (f : Option FnObj) (i : Nat) (pre : List Expr)
    (e : Expr) (post : List Expr) (s : St) (h : lazyPos f (i + pre.length) = false) :
    runM (prepareArgs (fuel + 1 + (pre ++ e :: post).length) f i (pre ++ e :: post)) s =
      runM (prepPlan (fuel + 1 + (post.length + 1)) f i pre >>= fun _ =>
            (evalCallExpr (fuel + 1 + post.length) e >>= fun v => pushData v) >>= fun _ =>
            prepPlan (fuel + 1) f (i + pre.length + 1) post) s :=
  prepareArgs_at_strict_position fuel f i pre e post s h

/-- …and the whole preparation precedes `callFunction` (arity check, variadic packing, entry);
the formals consulted are those of the function object the callee evaluated to. -/
theorem call_prepares_then_enters (fuel id : Nat) (args : List Expr) (s : St) :
    runM (callResolved (fuel + 1) (.fn id) args) s =
      match runM (do prepareArgs fuel (some (fnOf s id)) 0 args; callFunction id args.length : M Unit) s with
      | (.ok u, s') => (.ok u, s')
      | (.error .err, s') => (.error .err, { s' with data := truncate s'.data s.data.length })
      | (.error flt, s') => (.error flt, s') :=
  callResolved_fn fuel id args s

/-- Every call that is not a self tail call is one `CallExprInstr`: callee first, then
`callResolved` on the callee's *value* — by name, alias, parameter or computed callee alike. -/
theorem every_call_route_resolves_at_run_time (isFn : Nat → Bool) (c : Ctx) (fuel : Nat) :
    (∀ f args, (∀ h, f ≠ .sym h) → compile isFn c (.call f args) = pure ([.callExpr f args], c.tail)) ∧
    (∀ h args, (c.tail && h == c.funcname) = false →
       compile isFn c (.call (.sym h) args) = pure ([.callExpr (.sym h) args], c.tail)) ∧
    (∀ callee args, exec (fuel + 1) (.callExpr callee args) =
       (do let f ← evalCallExpr fuel callee; callResolved fuel f args)) :=
  ⟨fun f args hf => compile_call_computed isFn c f args hf,
   fun h args hn => compile_call_by_name isFn c h args hn,
   fun callee args => exec_callExpr fuel callee args⟩

/-- **The code of an ordinary call does not depend on what its head is bound to when the
caller is compiled.** For every generator state `gs` (function table, live scopes, loops),
every `known` table and scope predicate, a call by name that is not a self tail call compiles
to the single instruction `callExpr (.sym h) args` and leaves the generator state alone: whether
`h` denotes a strict function, a lazy one, a builtin, a non-function or nothing at compile time
cannot matter — the callee is resolved and the laziness of each argument decided when the
call runs (`every_call_route_resolves_at_run_time`, `call_prepares_then_enters`), so a later
redefinition, a parameter / `let` / closure variable of the same name, or a swapped alias is
honoured. Also behind a self tail call's jump the fallback is that same instruction. -/
theorem compile_call_independent_of_bindings (isFn isFn' : Nat → Bool) (c c' : Ctx) (gs gs' : GS) (h : String)
    (args : List Expr) (hn : (c.tail && h == c.funcname) = false) (hn' : (c'.tail && h == c'.funcname) = false) :
    (compile isFn c (.call (.sym h) args)).run gs = .ok (([.callExpr (.sym h) args], c.tail), gs) ∧
    ((compile isFn c (.call (.sym h) args)).run gs).map (·.1.1) =
      ((compile isFn' c' (.call (.sym h) args)).run gs').map (·.1.1) := by
  rw [compile_call_by_name isFn c h args hn, compile_call_by_name isFn' c' h args hn']
  exact ⟨rfl, rfl⟩

/-- T1 (regenerated from the Go source on every run, `extract/ex_callemit.go`): where the
instructions that start a call are built. `CallInstr` — operands evaluated in line, the name
looked up afterwards — is built for array literals only; `GenerateCallBySymbol` builds
`CallExprInstr` (and the guard / variadic packing of the self tail call) and nothing else;
`PushLazyArgInstr` comes from `GenerateCallArgsForFunction` only. -/
theorem call_emit_sites_expected :
    (∀ p ∈ Generated.CallEmit.sites, p.2 = "CallInstr" → p.1 = "Generator.GenerateArray") ∧
    (∀ p ∈ Generated.CallEmit.sites, p.1 = "Generator.GenerateCallBySymbol" →
       p.2 = "CallExprInstr" ∨ p.2 = "PrepareCallInstr" ∨ p.2 = "TailGuardInstr") ∧
    (∀ p ∈ Generated.CallEmit.sites, p.2 = "PushLazyArgInstr" → p.1 = "Generator.GenerateCallArgsForFunction") ∧
    (∀ p ∈ Generated.CallEmit.sites, p.2 = "CallExprInstr" →
       p.1 = "Generator.GenerateCallBySymbol" ∨ p.1 = "Generator.GenerateDispatch") ∧
    (("Generator.GenerateCallBySymbol", "CallExprInstr") ∈ Generated.CallEmit.sites) := by decide

/-- **A strict function never receives an unevaluated argument** — the decision points:
run time (`prepareArgs`): a strict position pushes the value of `evalCallExpr` (above);
the run-time and the compile-time/apply decisions are the same predicate for a compiled
function; Go builtins and non-function callees have no lazy position; the variadic tail is
strict; compile time (self tail call): a strict position is the code of the expression, an
unknown function makes every position strict; `apply`/`map`: a strict position receives the
value itself. -/
theorem strict_never_receives_thunk :
    (∀ (fo : FnObj) i, fo.user = false → lazyPos (some fo) i = fo.isLazyCallArg i) ∧
    (∀ (fo : FnObj) i, fo.user = true → lazyPos (some fo) i = false) ∧
    (∀ i, lazyPos none i = false) ∧
    (∀ (fo : FnObj) i, fo.varargs = true → fo.nargs ≤ i → fo.isLazyCallArg i = false ∧ lazyPos (some fo) i = false) ∧
    (∀ isFn c (f : FnObj) i e es, f.isLazyCallArg i = false →
       compileCallArgs isFn c (some f) i (e :: es) =
         (do let a ← (do let (a, _) ← compile isFn c e; pure a)
             let b ← compileCallArgs isFn c (some f) (i + 1) es; pure (a ++ b))) ∧
    (∀ isFn c i e es,
       compileCallArgs isFn c none i (e :: es) =
         (do let a ← (do let (a, _) ← compile isFn c e; pure a)
             let b ← compileCallArgs isFn c none (i + 1) es; pure (a ++ b))) ∧
    (∀ (fo : FnObj) s i v, fo.isLazyCallArg i = false →
       applyWrap fo (s, i) v = ({ s with data := some v :: s.data }, i + 1)) :=
  ⟨decisions_agree, fun fo i hu => (user_and_unknown_callee_strict fo i hu).1, fun _ => rfl,
   variadic_tail_strict, compileCallArgs_strict_position, compileCallArgs_unknown_function, applyWrap_strict⟩

/-- `apply`/`map`: the loop is `applyWrap`; a lazy position receives a thunk that already holds
the value (forcing it runs nothing, by `force_returns_memo`) -/
theorem apply_wraps_values (fuel id : Nat) (args : List Val) (s : St) :
    runM (applyFn (fuel + 1) (.fn id) args) s =
      (let s0 : St := { s with pc := -2 }
       let s1 := (args.foldl (applyWrap (fnOf s0 id)) (s0, 0)).1
       match runM (callFunction id args.length >>= fun _ => run fuel) s1 with
       | (.ok v, s') => (.ok v, s')
       | (.error .err, s') => (.error .err, (runM (restore (ctlOf s)) s').2)
       | (.error flt, s') => (.error flt, s')) :=
  applyFn_fn fuel id args s

theorem apply_lazy_position_gets_forced_thunk (fo : FnObj) (s : St) (i : Nat) (v : Val) (h : fo.isLazyCallArg i = true) :
    ∃ s', applyWrap fo (s, i) v = (s', i + 1) ∧ s'.data = some (.lazy s.lazies.length) :: s.data ∧
      ∃ lz, s'.lazies[s.lazies.length]? = some lz ∧ lz.value = some v ∧ lz.isValue = true ∧
        s'.trace = s.trace ∧ s'.scopes = s.scopes :=
  applyWrap_lazy fo s i v h

/-- the self tail call takes the lazy positions from the template registered under the
function's own name for the duration of its own body (fix 4e6df0e) -/
theorem self_tail_call_uses_own_template (isFn : Nat → Bool) (c : Ctx) (h : String) (args : List Expr)
    (hn : (c.tail && h == c.funcname) = true) :
    compile isFn c (.call (.sym h) args) = (do
      let gs ← get
      -- (after fix C04-04: only when the number of arguments fits the template; else an ordinary call)
      if (match (c.known.lookup h).bind (fun t => gs.fns[t]?) with
          | some fo => if fo.varargs then decide (fo.nargs ≤ args.length) else args.length == fo.nargs
          | none => true) then do
        let code ← compileCallArgs isFn { c with tail := false } ((c.known.lookup h).bind (fun t => gs.fns[t]?)) 0 args
        -- (after fix C09-02: the guard in front, the ordinary call behind the jump)
        pure ([.tailGuard h (code.length + c.scopes + 4)] ++ code ++ [.prepareCall h args.length] ++
              List.replicate (c.scopes + 1) .removeScope ++ [.goto 0, .callExpr (.sym h) args], c.tail)
      else pure ([.callExpr (.sym h) args], c.tail)) :=
  compile_self_tail_call isFn c h args hn

theorem self_tail_call_lazy_position (isFn : Nat → Bool) (c : Ctx) (f : FnObj) (i : Nat) (e : Expr) (es : List Expr)
    (h : f.isLazyCallArg i = true) :
    compileCallArgs isFn c (some f) i (e :: es) =
      (do let b ← compileCallArgs isFn c (some f) (i + 1) es; pure ([.pushLazy e] ++ b)) :=
  compileCallArgs_lazy_position isFn c f i e es h

/-! ## (e) the source can be recovered -/

/-- **Source recoverable.** From the moment an argument `e` is delayed, whatever the machine
does afterwards (forcing the thunk included), `substitute` on it yields `e` as data; nothing
runs: only the data heap may grow by the array literals of the source. -/
theorem source_recoverable (e : Expr) (s0 s : St) (hr : Reach (allocThunk e s0) s) (fuel : Nat) :
    runM (builtin (fuel + 1) "substitute" [.lazy s0.lazies.length]) s =
      (.ok (quoteE e s.heap).1, { s with heap := (quoteE e s.heap).2 }) :=
  substitute_after_reach e s0 s hr fuel

/-! ## The reference evaluator has the property by construction -/

theorem reference_is_call_by_need :
    (∀ fuel id (s : Ref.St) th v, s.thunks[id]? = some th → th.value = some v → Ref.force (fuel + 1) id s = .ok v s) ∧
    (∀ fuel e es i (lazyAt : Nat → Bool) env (s : Ref.St), lazyAt i = true →
       Ref.evalArgs (fuel + 1) (e :: es) i lazyAt env s =
         (match Ref.evalArgs fuel es (i + 1) lazyAt env { s with thunks := s.thunks ++ [{ e, env, value := none }] } with
          | .ok vs s' => .ok (.lazy s.thunks.length :: vs) s'
          | r => r)) ∧
    (∀ fuel id (s : Ref.St) th, s.thunks[id]? = some th → th.isValue = false →
       Ref.applyFn (fuel + 1) (.builtin "substitute") [.lazy id] s =
         .ok (quoteE th.e s.heap).1 { s with heap := (quoteE th.e s.heap).2 }) :=
  ⟨ref_force_hit, ref_lazy_position_not_evaluated, ref_substitute_returns_source⟩

/-! ## What is proved of the full statement -/

/-- `LazySemantics` is not proved. Proved (this file): the machine's behaviour at every
decision point of the property, for all inputs. Missing: the simulation between the VM's
execution of compiled code and the reference evaluator (C02 `CompileCorrect`, fragments F0–F3)
— in particular that the prologue binds operand *i* to formal *i* and that lookups inside the
forced expression walk the captured stack as the reference walks its frames. Those are
exercised by the `lazy` correspondence on every run. -/
theorem lazy_semantics_partial :
    (∀ fuel f args i s, runM (prepareArgs (fuel + 1 + args.length) f i args) s = runM (prepPlan (fuel + 1) f i args) s) ∧
    (∀ {s s'}, Reach s s' → LExt s.lazies s'.lazies) :=
  ⟨prepareArgs_eq_plan, fun h => reach_ext h⟩

/-! ## Non-vacuity: the hypotheses above are satisfiable, on concrete machine states -/

def foMixed : FnObj := { name := "f", nargs := 2, params := ["#x", "p"] }
def foVar : FnObj := { name := "va", nargs := 1, varargs := true, params := ["#x", "#r"] }
def trS (n : String) : Expr := .call (.sym "trace") [.str n]
/-- a state with one delayed `(trace "a")` made at top level -/
def sThunk : St := allocThunk (trS "a") initSt
def okVal {α} (r : Except Fault α × St) : Option α := match r.1 with | .ok v => some v | _ => none

-- a function with a lazy and a strict position; a variadic one whose tail is strict although its name has a `#`
example : lazyPos (some foMixed) 0 = true ∧ lazyPos (some foMixed) 1 = false := by decide +kernel
example : foVar.isLazyCallArg 0 = true ∧ foVar.isLazyCallArg 1 = false ∧ foVar.isLazyCallArg 2 = false := by decide +kernel
-- preparing `(f (trace "a") (trace "b"))`: one effect (the strict argument), one thunk
example : (runM (prepareArgs 40 (some foMixed) 0 [trS "a", trS "b"]) initSt).2.trace.length = 1 ∧
          (runM (prepareArgs 40 (some foMixed) 0 [trS "a", trS "b"]) initSt).2.lazies.length = 1 := by decide +kernel
-- the hypothesis of `force_memoises`: a force that succeeds (with its one effect) …
example : okVal (runM (forceLazy 40 0) sThunk) = some (.str "a") ∧ (runM (forceLazy 40 0) sThunk).2.trace.length = 1 := by
  decide +kernel
-- … and its conclusion observed: a second force adds no effect
example : (runM (forceLazy 40 0) (runM (forceLazy 40 0) sThunk).2).2.trace.length = 1 := by decide +kernel
example : Reach sThunk (runM (forceLazy 40 0) sThunk).2 := .step (.refl _) (.forceLazy 40 0 sThunk)
-- the hypotheses of `force_in_callers_env`: the thunk has no value and its expression compiles to code
example : (sThunk.lazies[0]?.map (·.value)) = some none ∧
    (match okVal (runM (runGen (compile (isFnScope sThunk) {} (trS "a"))) sThunk) with
     | some (code, _) => !code.isEmpty | none => false) = true := by decide +kernel
-- `substitute` on it leaves the trace empty and the thunk unforced
example : (runM (builtin 5 "substitute" [.lazy 0]) sThunk).2.trace.length = 0 ∧
          ((runM (builtin 5 "substitute" [.lazy 0]) sThunk).2.lazies[0]?.map (·.value)) = some none := by decide +kernel

-- `force_reads_at_force_time`, part 4: a state with an unforced thunk of the bare variable `a`
def sVar : St := allocThunk (.sym "a") initSt
example : (sVar.lazies[0]?.map (fun lz => (lz.value, match lz.e with | .sym x => x == "a" | _ => false))) = some (none, true) := by
  decide +kernel

-- the hypotheses of `force_lookup_is_callsite_lookup_partial` on the state a top-level force runs in
def sForce : St := { initSt with fns := initSt.fns ++ [({ name := "lazyArgForce", closing := [some 0], parent := some 0 } : FnObj)],
                                   curfunc := 2 }
example : (fnOf sForce 2).closing = [some 0] ∧ (fnOf sForce 2).parent = some 0 ∧
    lookupChain sForce "trace" sForce.fns.length 0 = lookupChain sForce "trace" (sForce.fns.length + 1) 0 ∧
    ((fnOf sForce 0).parent = none ∧
      (lookupUntilFn sForce "trace" false [some 0] = none → lookupUntilFn sForce "trace" false (fnOf sForce 0).closing = none) ∧
      0 < sForce.fns.length) := by decide +kernel

end ZygoVerif.C16
