/-
C16 — lazy parameters delay, memoise and stay lexical; strict ones do not.
(first version: placeholder theorems, replaced below as the proofs land)
-/
import ZygoVerif.Model.VM
import ZygoVerif.Spec.RefEval
namespace ZygoVerif.C16
open ZygoVerif.Core ZygoVerif.VM

/-- the compile-time and the run-time decision use the same predicate -/
theorem lazy_decision_rest_is_strict (f : FnObj) (i : Nat) (hv : f.varargs = true) (hi : f.nargs ≤ i) :
    f.isLazyCallArg i = false := by
  simp [FnObj.isLazyCallArg, hv, hi]

end ZygoVerif.C16
