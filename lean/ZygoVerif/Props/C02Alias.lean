/-
C02 — "constructor freshness / aliasing": the property theorems about array literals as
constructors (lemmas and definitions in `Proofs/AliasFresh.lean`). Audited by checks/C02.py in
addition to `Props/C02.lean`.

Full statement (not proved, kept visible): `Alias.HeapMonotoneAll` — no function of the machine
shrinks the data heap or leaves a closed state unclosed. Proved parts: the allocation step of the
literal (`heap_monotone_partial`) and every builtin (`builtin_never_shrinks_heap`).
-/
import ZygoVerif.Proofs.AliasFresh
import ZygoVerif.Generated.EvalCallRet
namespace ZygoVerif.C02Alias
open ZygoVerif.Core ZygoVerif.VM ZygoVerif.Alias

/-- The generator never emits a prebuilt array for a literal: the code ends in the constructor call. -/
theorem array_literal_code_ends_in_constructor (isFn : Nat → Bool) (c : Ctx) (es : List Expr) (gs : GS)
    (code : List Instr) (t : Bool) (gs' : GS) (h : (compile isFn c (.arr es)).run gs = .ok ((code, t), gs')) :
    ∃ ce, code = ce ++ [.callArr es.length] :=
  compile_arr_shape isFn c es gs code t gs' h

/-- VM model: executing the constructor call of an array literal in a closed state allocates a cell whose id
no value of the state before mentions (data stack, variables of all scopes, heap cells, memoised lazy arguments,
code constants); the cell holds the element values, old cells are unchanged, the state is closed again. -/
theorem array_literal_allocates_fresh (f : Nat) (vs : List Val) (D : List (Option Val)) (s : St)
    (hd : s.data = vs.reverse.map some ++ D) (hc : StClosed s) :
    ∃ s', (exec (f + 3) (.callArr vs.length)).run s = (.ok (), s')
      ∧ s'.data = some (.arr s.heap.arrs.length) :: D
      ∧ ¬ Mentions s s.heap.arrs.length
      ∧ s'.heap.get s.heap.arrs.length = vs
      ∧ (∀ r, r < s.heap.arrs.length → s'.heap.get r = s.heap.get r)
      ∧ s'.heap.arrs.length = s.heap.arrs.length + 1
      ∧ StClosed s' :=
  Alias.array_literal_allocates_fresh f vs D s hd hc

/-- non-vacuity of `StClosed`: the initial machine state is closed -/
example : StClosed initSt := stClosed_init

/-- The same call site executed twice yields two different arrays (heap not shrunk in between). -/
theorem array_literal_twice_distinct (f g : Nat) (vs ws : List Val) (D E : List (Option Val)) (s t : St)
    (hd : s.data = vs.reverse.map some ++ D) (he : t.data = ws.reverse.map some ++ E)
    (hmono : (afterLiteral s D vs).heap.arrs.length ≤ t.heap.arrs.length) :
    ∃ s' t', (exec (f + 3) (.callArr vs.length)).run s = (.ok (), s')
      ∧ (exec (g + 3) (.callArr ws.length)).run t = (.ok (), t')
      ∧ s'.data.head? ≠ t'.data.head? :=
  Alias.array_literal_twice_distinct f g vs ws D E s t hd he hmono

example : ∃ s' t', (exec 3 (.callArr 0)).run initSt = (.ok (), s') ∧ (exec 3 (.callArr 0)).run (afterLiteral initSt [] []) = (.ok (), t')
    ∧ s'.data.head? ≠ t'.data.head? :=
  Alias.array_literal_twice_distinct 0 0 [] [] [] [some (.arr 0)] initSt (afterLiteral initSt [] []) rfl rfl (Nat.le_refl _)

/-- Every builtin leaves the heap as it was, after one `alloc`, or after one `set`: it never shrinks. -/
theorem builtin_never_shrinks_heap (name : String) (args : List Val) (h : DataHeap) (v : Val) (h' : DataHeap)
    (hp : prim name args h = some (v, h')) : h.arrs.length ≤ h'.arrs.length :=
  prim_heap_mono name args h v h' hp

example : prim "array" [.int 0#64] {} = some (({} : DataHeap).alloc [.int 0#64]) := prim_array _ _

/-- Ids are never reused: an allocation from any heap at least as large as the one an earlier allocation left
returns another id. -/
theorem alloc_never_reuses (h h2 : DataHeap) (xs ys : List Val) (hle : (h.alloc xs).2.arrs.length ≤ h2.arrs.length) :
    (h2.alloc ys).1 ≠ (h.alloc xs).1 :=
  alloc_after_ne h h2 xs ys hle

/-- the proved part of `Alias.HeapMonotoneAll` -/
theorem heap_monotone_partial (f : Nat) (vs : List Val) (D : List (Option Val)) (s : St)
    (hd : s.data = vs.reverse.map some ++ D) (hc : StClosed s) :
    s.heap.arrs.length ≤ ((exec (f + 3) (.callArr vs.length)).run s).2.heap.arrs.length
      ∧ StClosed ((exec (f + 3) (.callArr vs.length)).run s).2 :=
  heapMonotone_partial f vs D s hd hc

/-- Reference evaluator: a value of `[e₁ … eₙ]` is a newly allocated id, unmentioned by the (closed) state the
elements left; the cell holds the element values; old cells unchanged. -/
theorem ref_array_literal_allocates_fresh (fuel : Nat) (es : List Expr) (env : Nat) (s s' : Ref.St) (v : Val)
    (h : Ref.eval (fuel + 1) (.arr es) env s = .ok v s') :
    ∃ vs s₁, Ref.evalList fuel es env s = .ok vs s₁
      ∧ v = .arr s₁.heap.arrs.length
      ∧ s' = { s₁ with heap := (s₁.heap.alloc vs).2 }
      ∧ s'.heap.get s₁.heap.arrs.length = vs
      ∧ (∀ r, r < s₁.heap.arrs.length → s'.heap.get r = s₁.heap.get r)
      ∧ (RefClosed s₁ → ¬ RefMentions s₁ s₁.heap.arrs.length) :=
  Alias.ref_array_literal_allocates_fresh fuel es env s s' v h

example : RefClosed Ref.initSt := refClosed_init

/-- The seeded shape on the reference side: `[c₁ … cₙ]` evaluated twice gives two different arrays. -/
theorem ref_const_literal_twice_distinct (es : List Expr) (hc : constLit es) (fuel : Nat) (hf : es.length + 1 < fuel)
    (env env' : Nat) (s t : Ref.St) :
    ∃ a b s' t', Ref.eval fuel (.arr es) env s = .ok (.arr a) s' ∧ Ref.eval fuel (.arr es) env' t = .ok (.arr b) t'
      ∧ s'.heap.get a = constVals es ∧ t'.heap.get b = constVals es
      ∧ (s'.heap.arrs.length ≤ t.heap.arrs.length → a ≠ b) :=
  Alias.ref_const_literal_twice_distinct es hc fuel hf env env' s t

example : constLit [.int 0, .int 0] := by
  intro e he
  simp at he
  exact ⟨0, he⟩

/-! ## T1: `EvalCallExpression` never hands a mutable operand back as its own value

`Generated/EvalCallRet.lean` is regenerated from zygo/environment.go on every run (extract/ex_evalcallret.go): every
`return` of `Zlisp.EvalCallExpression` with the kind of its first result; kind `arg` = the operand expression itself,
unchanged, with the Go types it can have at that point. An operand is evaluated by compiling and running it; returning
the parse-tree object is right only for self-evaluating IMMUTABLE kinds. -/

/-- the kinds of parse-tree objects that are immutable and evaluate to themselves -/
def immutableKinds : List String :=
  ["*SexpInt", "*SexpUint64", "*SexpFloat", "*SexpChar", "*SexpStr", "*SexpBool", "*SexpSentinel"]

/-- a `return` is acceptable: not the argument itself, or the argument under a readable guard of immutable kinds only -/
def retOk (r : String × List String) : Bool :=
  r.1 != "arg" || (!r.2.isEmpty && r.2.all immutableKinds.contains)

/-- over the WHOLE regenerated table -/
theorem evalCallExpression_returns_argument_only_if_immutable :
    Generated.EvalCallRet.returns.all retOk = true := by decide

/-- the table is the function's: it has the lookup return and the Run return -/
theorem evalCallExpression_table_shape :
    Generated.EvalCallRet.returns.any (fun r => r.1 == "var:val") = true
      ∧ Generated.EvalCallRet.returns.any (fun r => r.1 == "var:res") = true := by decide

/-- the predicate is not vacuous: scalars pass, the table of the seeded change (array literals among the kinds
handed back) and an unguarded return of the argument do not -/
example : retOk ("arg", ["*SexpInt", "*SexpStr"]) = true := by decide
theorem seeded_fast_path_table_counterexample :
    retOk ("arg", ["*SexpInt", "*SexpUint64", "*SexpFloat", "*SexpChar", "*SexpStr", "*SexpBool", "*SexpArray"]) = false := by decide
example : retOk ("arg", ["any"]) = false := by decide

end ZygoVerif.C02Alias
