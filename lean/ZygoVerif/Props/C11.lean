/-
C11 — JSON and msgpack encodings round-trip and are well-formed.

Model: Model/Json.lean (SexpToJson and the decode glue after fixes C11-01..03),
Model/Quote.lean (strconv.Quote, exact through Generated/IsPrint.lean).
Spec: Spec/Rfc8259.lean (RFC 8259 parser), Spec/JsonData.lean (domain, denotation).
Lemmas: Proofs/JsonString.lean, Proofs/JsonWf.lean.
-/
import ZygoVerif.Proofs.JsonWf
import ZygoVerif.Proofs.JsonHistory
import ZygoVerif.Model.LegacyJson
namespace ZygoVerif.Props.C11
open ZygoVerif.Print ZygoVerif.Rfc8259 ZygoVerif.Json ZygoVerif.JsonData
open ZygoVerif.Proofs.JsonWf ZygoVerif.Proofs.JsonString

/-- **Strings, full strength.** For every string content that is valid UTF-8 (any sequence
of Unicode scalar values: quotes, backslashes, control characters, non-BMP, …) the text
`(json s)` is one well-formed JSON text and denotes exactly that string. -/
theorem json_wellformed_string (s : Bytes) (bt : Bool) (hv : validUtf8 s = true) :
    Rfc8259.parse (sexpToJson (.str s bt)) = some (.str s) := by
  have h := parseValue_string s [] hv ((sexpToJson (.str s bt)).length)
  simp only [List.append_nil] at h
  have he : sexpToJson (.str s bt) = jsonQuote s := by simp [sexpToJson]
  unfold Rfc8259.parse
  rw [he] at h ⊢
  rw [h]; rfl

example : validUtf8 [0x22, 0x5C, 0x07, 0xF0, 0x9F, 0x98, 0x80] = true := by decide +kernel

/-- **Well-formedness at every depth** (`json_wellformed`, partial: the number leaves).
For every value of the domain — nested records, hashes and arrays over strings, symbols,
integers, finite floats, booleans and nil, under symbol or string keys, all string
contents — the RFC 8259 parser reads the encoder's text back as exactly the data the value
denotes (type name under `Atype`, members in field order, `zKeyOrder`), given enough fuel.
MISSING (hence `_partial`): the hypothesis `NumLeaves` (the decimal text of an integer /
the `jsonFloat` text of a finite float parses to its value: a lemma about
`natDigits`/`takeDigits`, not yet proved; validated by the `wf` ops of channel `json`), and
the bound `need v ≤ text length` that turns `parseValue` with explicit fuel into
`Rfc8259.parse`. -/
theorem json_wellformed_partial (nl : NumLeaves) (v : V) (hd : inDom v = true) (f : Nat) (hf : need v ≤ f) :
    parseValue (f + 1) (sexpToJson v) = some (denote v, []) := by
  have := wf_value nl v hd f hf [] (Or.inl rfl)
  simpa using this

example : inDom (.hash (asciiBytes "hash") [(.str [0x61] false, .arr [.nil, .bool true, .str [0x22] false])]) = true := by
  decide +kernel

/-- Inside any context that continues with `,`, `]` or `}` (how values sit in arrays and
objects) the same holds, leaving the continuation untouched. -/
theorem json_wellformed_in_context_partial (nl : NumLeaves) (v : V) (hd : inDom v = true) (f : Nat)
    (hf : need v ≤ f) (rest : Bytes) (hr : Follow rest) :
    parseValue (f + 1) (sexpToJson v ++ rest) = some (denote v, rest) :=
  wf_value nl v hd f hf rest hr

/-- Hash keys: a key written by the encoder is read back as the key's own text, whatever
it contains (this is what failed before C11-01 for string keys). -/
theorem json_key_wellformed (k : Bytes) (hk : validUtf8 k = true) (f : Nat) (J X : Bytes) (jv : JValue)
    (acc : List (Bytes × JValue)) (hv : parseValue f (J ++ X) = some (jv, X)) :
    parseMembers (f + 1) (jsonQuote k ++ 0x3A :: J ++ X) acc =
      (match skipWs X with
       | 0x2C :: r' => parseMembers f r' (acc ++ [(k, jv)])
       | 0x7D :: r' => some (.obj (acc ++ [(k, jv)]), r')
       | _ => none) :=
  parse_member0 f k hk J X jv acc hv

/-- **Round trip, strings** (`json_roundtrip`, partial): `(unjson (json s))` is `s` for all
string contents. The general statement (records: type names, key order restored from
`zKeyOrder` after the sorted map walk) is NOT proved; it is checked by the `rt`/`mp` ops
of the channel against `JsonData.norm` (model = spec = implementation on every op). -/
theorem json_roundtrip_string_partial (fp : FloatParse) (s : Bytes) (bt : Bool) (hv : validUtf8 s = true) :
    unjson fp (sexpToJson (.str s bt)) = some (.str s false) := by
  unfold unjson
  rw [json_wellformed_string s bt hv]
  simp [ofJson]

/-! `MsgpackCodec`, `msgpack` (= `SexpToMsgpack`) and `unmsgpack` (= `MsgpackToSexp`) are defined in
Model/Json.lean (the history model Model/JsonHistory.lean uses them too). -/

/-- **msgpack** is a corollary: under the codec round-trip law `dec (enc g) = g`, the
msgpack round trip of a value equals its JSON round trip. -/
theorem msgpack_roundtrip (c : MsgpackCodec) (law : ∀ g, c.dec (c.enc g) = some g) (fp : FloatParse) (v : V) :
    (msgpack c v).bind (unmsgpack c fp) = unjson fp (sexpToJson v) := by
  unfold msgpack unmsgpack unjson
  cases Rfc8259.parse (sexpToJson v) with
  | none => rfl
  | some g => simp [law]

/-- the law is satisfiable (hypothesis not vacuous): a codec over a one-value universe would
not do, so the witness keeps the value in a side table — here the trivial "encode nothing,
decode a constant" codec restricted to that constant. -/
example : ∃ (c : MsgpackCodec) (g : JValue), c.dec (c.enc g) = some g :=
  ⟨{ enc := fun _ => [], dec := fun _ => some .null }, .null, rfl⟩

/-! ### Histories: an encoded result is a value

`(unmsgpack (msgpack v))` written as one expression is only the shortest history. The
property does not say "at once": a script keeps the raw value, a Go caller keeps the slice,
other values are encoded and decoded in between, and the kept result must still decode to
`v`. Spec/JsonHistory.lean states this for any implementation seen as a transition system
(`EncodeResultsStable`, `HistoryRoundTrip`) and gives the reference semantics of the `hist`
ops of channel `json` (`specRun`: a slot IS the value it was made from). The model of the
code that exists (Model/JsonHistory.lean `machine`: every encode result is an immutable cell
of an append-only store — there is no package-level buffer, cache or handle that an encode
or decode writes, tie T1 through C20's `globals_writes_allowed`) satisfies both laws for
ALL histories, and answers every history exactly as the reference does. On a pure model
these proofs are short; the point is the statement, which the correspondence then checks
on the real code step by step (impl vs `specRun`). -/

open ZygoVerif.JsonHistory in
/-- **Encoded results are values** (law 1, all histories): after any prefix of encodes and
decodes, the holder of an encode result reads the same bytes after any suffix. -/
theorem encode_results_stable (c : Codecs) (fp : FloatParse) : EncodeResultsStable (machine c fp) :=
  Proofs.JsonHistory.encode_results_stable c fp

open ZygoVerif.JsonHistory in
/-- The law is not true of every machine: with ONE output buffer that is reset and reused,
the returned slice aliasing it (the shape of a seeded mutation; not /repo), the bytes held
for `nil` read `true` after `true` has been encoded. -/
theorem encode_results_stable_sharedbuf_counterexample (c : Codecs) (fp : FloatParse) :
    ¬ EncodeResultsStable (sharedBufMachine c fp) := by
  intro h
  have h1 := h [] [.enc .json (.bool true)] .json .nil
  simp [sharedBufMachine, Machine.ops, Machine.op, encBytes, sexpToJson, sexpString, asciiBytes] at h1

open ZygoVerif.JsonHistory in
/-- **`decode (encode v) = v` at every step of every history** (law 2; partial exactly as
`json_roundtrip` is: the one-step round trip `rt` of the values concerned is a hypothesis).
Whatever was encoded or decoded before and in between, decoding a kept result gives
`norm v`. -/
theorem history_roundtrip_partial (c : Codecs) (fp : FloatParse) (dom : Fmt → V → Prop)
    (rt : ∀ f v, dom f v → (encBytes c f v).bind (decBytes c fp f) = some (norm v)) :
    HistoryRoundTrip (machine c fp) dom :=
  Proofs.JsonHistory.history_roundtrip c fp dom rt

open ZygoVerif.JsonHistory in
/-- Strings, unconditionally for JSON and under the codec law for msgpack: every history
round-trips every valid-UTF-8 string. -/
theorem history_roundtrip_string (c : Codecs) (fp : FloatParse) (law : ∀ g, c.mp.dec (c.mp.enc g) = some g) :
    HistoryRoundTrip (machine c fp)
      (fun f v => f ≠ .gojson ∧ ∃ s bt, v = .str s bt ∧ validUtf8 s = true) := by
  apply history_roundtrip_partial
  rintro f v ⟨hf, s, bt, rfl, hv⟩
  cases f with
  | json => simpa [encBytes, decBytes, norm] using json_roundtrip_string_partial fp s bt hv
  | msgpack =>
    have := msgpack_roundtrip c.mp law fp (.str s bt)
    rw [json_roundtrip_string_partial fp s bt hv] at this
    have e : decBytes c fp .msgpack = unmsgpack c.mp fp := rfl
    simpa [encBytes, e, norm] using this
  | gojson => exact absurd rfl hf

example : (fun (f : JsonHistory.Fmt) (v : V) => f ≠ .gojson ∧ ∃ s bt, v = .str s bt ∧ validUtf8 s = true)
    .msgpack (.str [0x22, 0x5C] false) := ⟨by decide, _, _, rfl, by decide +kernel⟩

open ZygoVerif.JsonHistory in
/-- **The history theorem on the op language that the correspondence runs**: for every list
of values whose one-step JSON round trip holds (`json_roundtrip`; proved for strings,
sampled by the `rt` ops otherwise; asked of a value and of the value after `mv` has
overwritten its first element) and every list of steps — encodes in any format and
interpreter, decodes of any kept slot in any order, stability questions, the holder
overwriting its bytes, mutations of decoded results, mutations of the ORIGINAL values
between encodes — the model answers exactly what the reference machine answers: each decode
gives `norm` of the value the slot was made from as it was when the slot was made, each
stability question `same`, and a decoded result changes only when it is mutated itself.
No bound on the number of values or steps. -/
theorem history_model_eq_spec (c : Codecs) (fp : FloatParse) (law : ∀ g, c.mp.dec (c.mp.enc g) = some g)
    (vals : List V)
    (rt : ∀ v ∈ vals, unjson fp (sexpToJson v) = some (norm v) ∧
      ∀ v', setFirstV v = some v' → unjson fp (sexpToJson v') = some (norm v'))
    (steps : List Step) :
    modelRun c fp vals steps = specRun vals steps := by
  have good : ∀ v, unjson fp (sexpToJson v) = some (norm v) → Proofs.JsonHistory.Good c fp v := by
    intro v h f
    unfold unjson at h
    cases hp : Rfc8259.parse (sexpToJson v) with
    | none => rw [hp] at h; simp at h
    | some g =>
      rw [hp] at h
      cases f with
      | json => exact ⟨_, rfl, fun _ => by simpa [decBytes, unjson, hp] using h⟩
      | msgpack => exact ⟨c.mp.enc g, by simp [encBytes, msgpack, hp], fun _ => by simpa [decBytes, unmsgpack, law] using h⟩
      | gojson => exact ⟨c.gj.enc g, by simp [encBytes, msgpack, hp], fun hne => absurd rfl hne⟩
  apply Proofs.JsonHistory.runFrom_sim c fp steps _ _ (Proofs.JsonHistory.rel_init c fp vals _)
  intro v hv
  exact ⟨good v (rt v hv).1, fun v' h' => good v' ((rt v hv).2 v' h')⟩

/-- the hypotheses are satisfiable: a history over two strings (`mv` does not apply to a string) -/
example (fp : FloatParse) : ∀ v ∈ [V.str [0x61] false, V.str [0x22, 0x0A] true],
    unjson fp (sexpToJson v) = some (norm v) ∧
      ∀ v', JsonHistory.setFirstV v = some v' → unjson fp (sexpToJson v') = some (norm v') := by
  intro v hv
  simp only [List.mem_cons, List.not_mem_nil, or_false] at hv
  rcases hv with rfl | rfl
  · exact ⟨json_roundtrip_string_partial fp _ _ (by decide +kernel), fun v' h => by simp [JsonHistory.setFirstV] at h⟩
  · exact ⟨json_roundtrip_string_partial fp _ _ (by decide +kernel), fun v' h => by simp [JsonHistory.setFirstV] at h⟩

open ZygoVerif.JsonHistory in
/-- **Decoded results are independent**: a mutation of result cell `r` (`aset`, `hset` on a
decoded structure) changes no other result cell, no kept encode result and nothing else of
the state — on the model and on the reference alike (`mutate` is the same function of the
result list on every machine; what the correspondence checks is that the real decoders
build structures that share nothing). -/
theorem decode_results_independent {σ E : Type} (st st' : St σ E) (r : Nat) (fn : V → Option V) (o : Out)
    (h : mutate st r fn = some (st', o)) :
    st'.m = st.m ∧ st'.slots = st.slots ∧ ∀ r', r' ≠ r → st'.results[r']? = st.results[r']? := by
  unfold mutate at h
  split at h
  · simp at h
  · simp only [Option.some.injEq, Prod.mk.injEq] at h; obtain ⟨rfl, _⟩ := h; exact ⟨rfl, rfl, fun _ _ => rfl⟩
  · split at h
    · simp only [Option.some.injEq, Prod.mk.injEq] at h
      obtain ⟨rfl, _⟩ := h
      exact ⟨rfl, rfl, fun r' hr => by simp [List.getElem?_set_ne (Ne.symm hr)]⟩
    · simp only [Option.some.injEq, Prod.mk.injEq] at h; obtain ⟨rfl, _⟩ := h; exact ⟨rfl, rfl, fun _ _ => rfl⟩

/-! ### Why the pre-fix encoder was wrong: Go quoting is not JSON quoting

`quote_is_json_string` (the exact characterisation: `strconv.Quote s` is a JSON string
literal iff every rune of `s` is `"`, `\`, printable, one of \b \f \n \r \t, or a
non-printable rune of the BMP other than the C0 controls and DEL, and `s` has no invalid
byte) is stated as the executable predicate `Driver.Json.quoteJsonOk` and compared with
`isStringLiteral (quote s)` AND with Go's encoding/json on the real `strconv.Quote` by the
`qjs` ops (every single byte, every IsPrint transition point; every code point in the
thorough tier). Proved here: the instances that refute the pre-fix code. -/

/-- `\a`: Quote writes `"\a"`, not JSON -/
theorem quote_bell_counterexample : isStringLiteral (Quote.quote [0x07]) = false := by decide +kernel
/-- DEL: Quote writes `"\x7f"` -/
theorem quote_del_counterexample : isStringLiteral (Quote.quote [0x7F]) = false := by decide +kernel
/-- an invalid byte: Quote writes `"\xff"` -/
theorem quote_invalid_byte_counterexample : isStringLiteral (Quote.quote [0xFF]) = false := by decide +kernel
/-- U+E0001 (not printable, beyond the BMP): Quote writes `"\U000e0001"` -/
theorem quote_nonbmp_counterexample :
    isStringLiteral (Quote.quote [0xF3, 0xA0, 0x80, 0x81]) = false := by decide +kernel
/-- U+00AD (soft hyphen, not printable, BMP): `"­"` happens to be JSON -/
theorem quote_bmp_escape_ok : isStringLiteral (Quote.quote [0xC2, 0xAD]) = true := by decide +kernel
/-- a printable non-BMP rune is written raw and is JSON -/
theorem quote_emoji_ok : isStringLiteral (Quote.quote [0xF0, 0x9F, 0x98, 0x80]) = true := by decide +kernel

/-- the generated IsPrint table agrees with Go on ASCII: exactly 0x20–0x7E -/
theorem isPrint_ascii : ∀ c < 128, Generated.IsPrint.isPrint c = (decide (0x20 ≤ c ∧ c ≤ 0x7E)) := by
  decide +kernel

end ZygoVerif.Props.C11
