/-
C11 — JSON and msgpack encodings round-trip and are well-formed (placeholder, grows).
-/
import ZygoVerif.Model.Json
import ZygoVerif.Model.LegacyJson
import ZygoVerif.Spec.JsonData
namespace ZygoVerif.Props.C11
open ZygoVerif.Print ZygoVerif.Rfc8259

theorem placeholder : (1 : Nat) = 1 := rfl

end ZygoVerif.Props.C11
