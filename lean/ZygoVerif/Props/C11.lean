/-
C11 — JSON and msgpack encodings round-trip and are well-formed.

Model: Model/Json.lean (SexpToJson and the decode glue after fixes C11-01..03),
Model/Quote.lean (strconv.Quote, exact through Generated/IsPrint.lean).
Spec: Spec/Rfc8259.lean (RFC 8259 parser), Spec/JsonData.lean (domain, denotation).
Lemmas: Proofs/JsonString.lean, Proofs/JsonWf.lean.
-/
import ZygoVerif.Proofs.JsonWf
import ZygoVerif.Model.LegacyJson
namespace ZygoVerif.Props.C11
open ZygoVerif.Print ZygoVerif.Rfc8259 ZygoVerif.Json ZygoVerif.JsonData
open ZygoVerif.Proofs.JsonWf ZygoVerif.Proofs.JsonString

/-- **Strings, full strength.** For every string content that is valid UTF-8 (any sequence
of Unicode scalar values: quotes, backslashes, control characters, non-BMP, …) the text
`(json s)` is one well-formed JSON text and denotes exactly that string. -/
theorem json_wellformed_string (s : Bytes) (bt : Bool) (hv : validUtf8 s = true) :
    Rfc8259.parse (sexpToJson (.str s bt)) = some (.str s) := by
  have h := parseValue_string s [] hv ((sexpToJson (.str s bt)).length)
  simp only [List.append_nil] at h
  have he : sexpToJson (.str s bt) = jsonQuote s := by simp [sexpToJson]
  unfold Rfc8259.parse
  rw [he] at h ⊢
  rw [h]; rfl

example : validUtf8 [0x22, 0x5C, 0x07, 0xF0, 0x9F, 0x98, 0x80] = true := by decide +kernel

/-- **Well-formedness at every depth** (`json_wellformed`, partial: the number leaves).
For every value of the domain — nested records, hashes and arrays over strings, symbols,
integers, finite floats, booleans and nil, under symbol or string keys, all string
contents — the RFC 8259 parser reads the encoder's text back as exactly the data the value
denotes (type name under `Atype`, members in field order, `zKeyOrder`), given enough fuel.
MISSING (hence `_partial`): the hypothesis `NumLeaves` (the decimal text of an integer /
the `jsonFloat` text of a finite float parses to its value: a lemma about
`natDigits`/`takeDigits`, not yet proved; validated by the `wf` ops of channel `json`), and
the bound `need v ≤ text length` that turns `parseValue` with explicit fuel into
`Rfc8259.parse`. -/
theorem json_wellformed_partial (nl : NumLeaves) (v : V) (hd : inDom v = true) (f : Nat) (hf : need v ≤ f) :
    parseValue (f + 1) (sexpToJson v) = some (denote v, []) := by
  have := wf_value nl v hd f hf [] (Or.inl rfl)
  simpa using this

example : inDom (.hash (asciiBytes "hash") [(.str [0x61] false, .arr [.nil, .bool true, .str [0x22] false])]) = true := by
  decide +kernel

/-- Inside any context that continues with `,`, `]` or `}` (how values sit in arrays and
objects) the same holds, leaving the continuation untouched. -/
theorem json_wellformed_in_context_partial (nl : NumLeaves) (v : V) (hd : inDom v = true) (f : Nat)
    (hf : need v ≤ f) (rest : Bytes) (hr : Follow rest) :
    parseValue (f + 1) (sexpToJson v ++ rest) = some (denote v, rest) :=
  wf_value nl v hd f hf rest hr

/-- Hash keys: a key written by the encoder is read back as the key's own text, whatever
it contains (this is what failed before C11-01 for string keys). -/
theorem json_key_wellformed (k : Bytes) (hk : validUtf8 k = true) (f : Nat) (J X : Bytes) (jv : JValue)
    (acc : List (Bytes × JValue)) (hv : parseValue f (J ++ X) = some (jv, X)) :
    parseMembers (f + 1) (jsonQuote k ++ 0x3A :: J ++ X) acc =
      (match skipWs X with
       | 0x2C :: r' => parseMembers f r' (acc ++ [(k, jv)])
       | 0x7D :: r' => some (.obj (acc ++ [(k, jv)]), r')
       | _ => none) :=
  parse_member0 f k hk J X jv acc hv

/-- **Round trip, strings** (`json_roundtrip`, partial): `(unjson (json s))` is `s` for all
string contents. The general statement (records: type names, key order restored from
`zKeyOrder` after the sorted map walk) is NOT proved; it is checked by the `rt`/`mp` ops
of the channel against `JsonData.norm` (model = spec = implementation on every op). -/
theorem json_roundtrip_string_partial (fp : FloatParse) (s : Bytes) (bt : Bool) (hv : validUtf8 s = true) :
    unjson fp (sexpToJson (.str s bt)) = some (.str s false) := by
  unfold unjson
  rw [json_wellformed_string s bt hv]
  simp [ofJson]

/-! `MsgpackCodec`, `msgpack` (= `SexpToMsgpack`) and `unmsgpack` (= `MsgpackToSexp`) are defined in
Model/Json.lean (the history model Model/JsonHistory.lean uses them too). -/

/-- **msgpack** is a corollary: under the codec round-trip law `dec (enc g) = g`, the
msgpack round trip of a value equals its JSON round trip. -/
theorem msgpack_roundtrip (c : MsgpackCodec) (law : ∀ g, c.dec (c.enc g) = some g) (fp : FloatParse) (v : V) :
    (msgpack c v).bind (unmsgpack c fp) = unjson fp (sexpToJson v) := by
  unfold msgpack unmsgpack unjson
  cases Rfc8259.parse (sexpToJson v) with
  | none => rfl
  | some g => simp [law]

/-- the law is satisfiable (hypothesis not vacuous): a codec over a one-value universe would
not do, so the witness keeps the value in a side table — here the trivial "encode nothing,
decode a constant" codec restricted to that constant. -/
example : ∃ (c : MsgpackCodec) (g : JValue), c.dec (c.enc g) = some g :=
  ⟨{ enc := fun _ => [], dec := fun _ => some .null }, .null, rfl⟩

/-! ### Why the pre-fix encoder was wrong: Go quoting is not JSON quoting

`quote_is_json_string` (the exact characterisation: `strconv.Quote s` is a JSON string
literal iff every rune of `s` is `"`, `\`, printable, one of \b \f \n \r \t, or a
non-printable rune of the BMP other than the C0 controls and DEL, and `s` has no invalid
byte) is stated as the executable predicate `Driver.Json.quoteJsonOk` and compared with
`isStringLiteral (quote s)` AND with Go's encoding/json on the real `strconv.Quote` by the
`qjs` ops (every single byte, every IsPrint transition point; every code point in the
thorough tier). Proved here: the instances that refute the pre-fix code. -/

/-- `\a`: Quote writes `"\a"`, not JSON -/
theorem quote_bell_counterexample : isStringLiteral (Quote.quote [0x07]) = false := by decide +kernel
/-- DEL: Quote writes `"\x7f"` -/
theorem quote_del_counterexample : isStringLiteral (Quote.quote [0x7F]) = false := by decide +kernel
/-- an invalid byte: Quote writes `"\xff"` -/
theorem quote_invalid_byte_counterexample : isStringLiteral (Quote.quote [0xFF]) = false := by decide +kernel
/-- U+E0001 (not printable, beyond the BMP): Quote writes `"\U000e0001"` -/
theorem quote_nonbmp_counterexample :
    isStringLiteral (Quote.quote [0xF3, 0xA0, 0x80, 0x81]) = false := by decide +kernel
/-- U+00AD (soft hyphen, not printable, BMP): `"­"` happens to be JSON -/
theorem quote_bmp_escape_ok : isStringLiteral (Quote.quote [0xC2, 0xAD]) = true := by decide +kernel
/-- a printable non-BMP rune is written raw and is JSON -/
theorem quote_emoji_ok : isStringLiteral (Quote.quote [0xF0, 0x9F, 0x98, 0x80]) = true := by decide +kernel

/-- the generated IsPrint table agrees with Go on ASCII: exactly 0x20–0x7E -/
theorem isPrint_ascii : ∀ c < 128, Generated.IsPrint.isPrint c = (decide (0x20 ≤ c ∧ c ≤ 0x7E)) := by
  decide +kernel

end ZygoVerif.Props.C11
