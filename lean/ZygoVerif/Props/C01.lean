/-
C01 — no input can crash the host. (first skeleton; extended below)
-/
import ZygoVerif.Model.Parser
namespace ZygoVerif.C01
open ZygoVerif.Parser ZygoVerif.Lexer

/-- `ParserPeekNextToken(extra)` answers a token only when the queue holds more than
`extra` tokens: the guard of every `lexer.tokens[extra]` in the `{` look-ahead. -/
theorem peek_guards_index (extra : Nat) : ∀ (fuel : Nat) (s s' : PState) (t : Token),
    peekWaitRun extra fuel s = .tok t s' → extra < s'.lex.tokens.length := by
  intro fuel
  induction fuel with
  | zero => intro s s' t h; simp [peekWaitRun] at h
  | succ n ih =>
    intro s s' t h
    unfold peekWaitRun at h
    split at h
    · split at h
      · simp at h
      · exact ih _ _ _ h
    · split at h
      · rename_i t0 heq
        injection h with h1 h2
        subst h2
        split at heq
        · assumption
        · simp at heq
      · split at h
        · split at h
          · exact ih _ _ _ h
          · simp at h
        · split at h
          · simp at h
          · exact ih _ _ _ h

end ZygoVerif.C01
