/-
C01 — no input can crash the host: evaluation always returns a value or an error.

"For any source text handed to an interpreter through its script-facing entry points (load,
parse, compile, macro-expand, run, REPL line), the call returns either a value or an error to
the Go caller. It never panics out of the library or kills the host process, and it returns
whenever the program needs only a bounded number of evaluation steps."

What is proved here, and about which model:

§1  Inventory (tie T1, `Generated/PanicSites.lean`, regenerated from the source on every run):
    every function of package zygo that a script can reach from the entry points without
    passing a deferred `recover()` and that holds an operation that can panic (index, slice,
    unchecked type assertion, explicit panic, integer division, map write) is CLASSIFIED —
    its sites are explicit in a Lean model with proved guards, or it is followed by a
    behavioural model, or it is on the committed residual list. A new unrecovered function
    with such an operation breaks `inventory_classified` until it is classified.
    `Generated/StackSites.lean`: what is pushed on which VM stack (the typed pops rely on it).
§2  Parser: `lexer.tokens[extra]` in the `{` look-ahead is in range after a successful
    `ParserPeekNextToken(extra)` (the code after fix 0e5f0c5) — for every parser state.
§3  Lexer: the index and slice expressions of dumpBuffer / DecodeAtom / DecodeChar are in
    range for every buffer content.
§4  Generator: the argument prologue of every special-form generator modelled in
    `Model/GenSites.lean` never indexes outside its argument list — for every argument list
    and any sub-generator that does not panic itself. Pre-repair counterexamples: `(and)`,
    `(mdef (hash) …)`.
§5  VM: the typed pops and the other primitive stack operations neither panic on stacks without
    nil cells nor create one (restore: as long as it only truncates); see the end of the file.

The front-end models themselves (`Lexer.step`/`feed`, `Parser.run (topLoop …)`,
`Pratt.expandBlock`) are total Lean functions whose result types have no panic outcome at all;
that totality is by construction and says nothing by itself — the guards of §2–§4 are the
content. They take no fuel in the lexer; the parser and the Pratt expander recurse on a fuel
that `fuelFor` derives from the input length (exhausting it is a parse error in the model;
that it never happens on real inputs is part of the `parse`/`crash` correspondence, not a
theorem). The full statement `C01NoPanic` is kept visible in §5; its proved part is
`c01_no_panic_partial`.
-/
import ZygoVerif.Model.Parser
import ZygoVerif.Model.FrontSites
import ZygoVerif.Model.LegacyGenSites
import ZygoVerif.Proofs.C01GenSites
import ZygoVerif.Proofs.C01VM
import ZygoVerif.Generated.PanicSites
import ZygoVerif.Generated.StackSites
import ZygoVerif.Generated.GenDispatch
import ZygoVerif.Generated.CachedFields
import ZygoVerif.Props.C04Err
namespace ZygoVerif.C01
open ZygoVerif.Parser ZygoVerif.Lexer ZygoVerif.GenSites

/-! ## §1 Inventory -/

/-- How a function of the unrecovered region is covered. `sites`: its panic-capable
operations are explicit in a Lean model and the guards are proved below (§2–§5).
`behaviour`: it is followed arm by arm by an executable Lean model (Model/Lexer, Parser, Pratt,
Gen, VM) whose results are compared with the real code on every run (channels lex, parse,
expand, eval, crash), but its index/assertion sites are not explicit in the model.
`residual`: unmodelled; explored by the crash search only (reported in the evidence with its
site counts). -/
inductive Cover where | sites | behaviour | residual
deriving DecidableEq, Repr

/-- The committed classification, sorted by name (the order of the generated table: bytewise,
as Go's sort.Strings). Entries for functions that are not in the table any more are harmless. -/
def Classified : List (String × Cover) :=
  [
    ("AssignInstr.Execute", .behaviour), ("BindlistInstr.Execute", .residual), ("Blake2bUint64", .residual),
    ("ByteSliceToChunkedBase64StringNotJoined", .residual), ("Closing.TopScope", .behaviour), ("CountPostHook", .residual),
    ("CountPreHook", .residual), ("DebugInstr.Execute", .residual), ("DecodeChar", .sites),
    ("EvalFunction", .residual), ("Generator.GenerateAssert", .sites), ("Generator.GenerateAssignment", .sites),
    ("Generator.GenerateBegin", .sites), ("Generator.GenerateBreak", .sites), ("Generator.GenerateBuilder", .residual),
    ("Generator.GenerateCallBySymbol", .sites), ("Generator.GenerateCond", .sites), ("Generator.GenerateContinue", .sites),
    ("Generator.GenerateDef", .sites), ("Generator.GenerateDefmac", .sites), ("Generator.GenerateDefn", .sites),
    ("Generator.GenerateFn", .sites), ("Generator.GenerateForLoop", .sites), ("Generator.GenerateInclude", .residual),
    ("Generator.GenerateLet", .sites), ("Generator.GenerateMacexpand", .sites), ("Generator.GenerateMultiDef", .sites),
    ("Generator.GenerateNewScope", .sites), ("Generator.GeneratePackage", .sites), ("Generator.GenerateQuote", .residual),
    ("Generator.GenerateReturn", .sites), ("Generator.GenerateShortCircuit", .sites), ("Generator.GenerateSyntaxQuote", .sites),
    ("Generator.GetLHS", .residual), ("Generator.generateSyntaxQuoteHash", .residual), ("Generator.generateSyntaxQuoteList", .residual),
    ("GoStructRegistryType.register", .residual), ("HashCountKeys", .residual), ("InfixArgsToArray", .behaviour),
    ("Lexer.DecodeAtom", .sites), ("Lexer.GetNextToken", .behaviour), ("Lexer.LexNextRune", .behaviour),
    ("Lexer.PeekNextToken", .sites), ("Lexer.PromoteNextStream", .behaviour), ("Lexer.Reset", .behaviour),
    ("Lexer.twoback", .behaviour), ("ListToArray", .behaviour), ("MakeHash", .residual),
    ("MakeList", .behaviour), ("NewClosing", .behaviour), ("NewPratt", .behaviour),
    ("NewPrompter", .residual), ("Parser.ParseBacktickString", .behaviour), ("Parser.ParseBlockComment", .behaviour),
    ("Parser.ParseExpression", .sites), ("Pratt.Advance", .behaviour), ("Pratt.Expression", .behaviour),
    ("Pratt.LabeledFor", .behaviour), ("PrintState.SetSeen", .residual), ("Prompter.Getline", .residual),
    ("Prompter.getExpressionWithLiner", .residual), ("RecordDefn.SexpString", .residual), ("RegisteredType.Init", .residual),
    ("Repl", .residual), ("Scope.Show", .residual), ("Scope.UpdateSymbolInScope", .residual),
    ("SetHashKeyOrder", .residual), ("SexpArray.SexpString", .residual), ("SexpArray.Type", .residual),
    ("SexpArraySelector.AssignToSelection", .residual), ("SexpArraySelector.RHS", .residual), ("SexpArraySelector.sliceBounds", .residual),
    ("SexpClosureEnv.SexpString", .residual), ("SexpField.AlignString", .residual), ("SexpField.FieldWidths", .residual),
    ("SexpField.SexpString", .residual), ("SexpFunction.IsLazyFormal", .behaviour), ("SexpFunction.SetClosing", .residual),
    ("SexpFunction.SetFormalSymbols", .behaviour), ("SexpHash.HashGet", .residual), ("SexpHash.HashGetDefault", .residual),
    ("SexpHash.HashSet", .residual), ("SexpHash.SetMethodList", .residual), ("SexpHash.SexpString", .residual),
    ("SexpHash.nestedPathGetSet", .residual), ("SexpHashSelector.RHS", .residual), ("SexpInterfaceDecl.SexpString", .residual),
    ("SexpPair.SexpString", .residual), ("SexpSymbol.AssignToSelection", .residual), ("Stack.BindSymbol", .sites),
    ("Stack.Clone", .behaviour), ("Stack.Get", .sites), ("Stack.GetExpr", .sites),
    ("Stack.GetExpressions", .sites), ("Stack.GetTop", .sites), ("Stack.Pop", .sites),
    ("Stack.PopAddr", .sites), ("Stack.PopExpr", .sites), ("Stack.PrintStack", .residual),
    ("Stack.Push", .sites), ("Stack.Show", .residual), ("Stack.TruncateToSize", .sites),
    ("Stack.lookupSymbol", .behaviour), ("Stack.nestedPathGetSet", .residual), ("StringToRunes", .behaviour),
    ("Zlisp.CallFunction", .sites), ("Zlisp.DetectSigils", .residual), ("Zlisp.Duplicate", .residual),
    ("Zlisp.EliminateColonAndCommaFromArgs", .residual), ("Zlisp.FilterArray", .residual), ("Zlisp.FindLoop", .behaviour),
    ("Zlisp.FunctionCallNameTypeCheck", .residual), ("Zlisp.GetStackTrace", .residual), ("Zlisp.MakeSymbol", .residual),
    ("Zlisp.PrepareCallExprArgs", .behaviour), ("Zlisp.Run", .sites), ("Zlisp.compareArray", .residual),
    ("Zlisp.showStackHelper", .residual), ("arrayOpMunchLeft", .behaviour), ("baseConstruct", .residual),
    ("bindsName", .residual), ("buildSexpFun", .sites), ("decodeGoToSexpHelper", .residual),
    ("dotGetSetHelper", .residual), ("dotOpMunchLeft", .behaviour), ("errIfPrivate", .residual),
    ("fillJsonMap", .residual), ("forOpMunchRightWithLabel", .behaviour), ("getQuotedSymbol", .residual),
    ("lazyCallPositions", .residual), ("lowerGoFor", .behaviour), ("lowerRangeBinding", .behaviour),
    ("lowerRangeFor", .behaviour), ("makeSortedSlicesFromMap", .residual), ("normalizeArraySelector", .behaviour),
    ("panicOn", .residual), ("parseRangeTargets", .behaviour), ("processDumpCommand", .residual),
    ("reflectName", .residual), ("sliceBoundLiteralBeforeColon", .behaviour), ("splitOnSemicolons", .behaviour),
    ("stripAnyDotPrefix", .residual) ]

/-- `names` occurs in `table` as a subsequence (both sorted the same way): every name is
classified. Linear in the two lengths — string comparison is slow in the kernel. -/
def subseq : List String → List String → Bool
  | [], _ => true
  | _ :: _, [] => false
  | n :: ns, t :: ts => if n == t then subseq ns ts else subseq (n :: ns) ts

theorem subseq_sound : ∀ (names table : List String), subseq names table = true → ∀ n ∈ names, n ∈ table
  | [], _, _, n, hn => by cases hn
  | _ :: _, [], h, _, _ => by simp [subseq] at h
  | m :: ns, t :: ts, h, n, hn => by
    unfold subseq at h
    split at h
    · rename_i heq
      have heq' : m = t := by simpa using heq
      cases hn with
      | head => rw [heq']; exact List.mem_cons_self
      | tail _ hn' => exact List.mem_cons_of_mem _ (subseq_sound ns ts h n hn')
    · exact List.mem_cons_of_mem _ (subseq_sound (m :: ns) ts h n hn)

/-- Every function of the current source tree that is reachable from a script-facing entry
point without crossing a `recover()` and holds a potentially panicking operation is
classified. (The quantifier is the regenerated table: a proof, not a sample.) -/
theorem inventory_classified_walk :
    subseq Generated.PanicSites.unrecoveredNames (Classified.map (·.1)) = true := by decide +kernel

theorem inventory_classified :
    ∀ f ∈ Generated.PanicSites.unrecoveredNames, ∃ c, (f, c) ∈ Classified := by
  intro f hf
  have := subseq_sound _ _ inventory_classified_walk f hf
  obtain ⟨⟨n, c⟩, hmem, hn⟩ := List.mem_map.mp this
  exact ⟨c, by simpa [← hn] using hmem⟩

/-- the builtin call path is behind a recover: `CallUserFunction` installs one, and so does
`Apply` for a directly applied Go function (fix C01-06) -/
theorem recover_installed :
    Generated.PanicSites.recoverFunctions.contains "Zlisp.CallUserFunction" = true ∧
    Generated.PanicSites.recoverFunctions.contains "Zlisp.Apply" = true := by decide +kernel

/-- Stack typing (what the typed pops of §5 rely on), over the codes of the generated table:
`datastack` is only pushed through `PushExpr`/`PushExpressions` and `addrstack` through
`PushAddr`; a direct `Push` on `loopstack` pushes a `*Loop`, on `linearstack` a `*Scope` (or
copies an element of another scope stack); inside the wrappers `Push` wraps in
`DataStackElem` / `Address` / pushes a `*Scope`; a bare `StackElem` is pushed only by the
stack copies. -/
def pushOk (s : Generated.StackSites.PushSite) : Bool :=
  if s.recvC == 0 then s.viaC == 1 || s.viaC == 2
  else if s.recvC == 1 then s.viaC == 3
  else if s.recvC == 2 then s.viaC == 0 && s.elemC == 2
  else if s.recvC == 3 then (s.viaC == 0 && (s.elemC == 1 || (s.elemC == 5 && s.fnC == 4))) || s.viaC == 4
  else if s.viaC == 0 then
    (s.fnC == 1 && s.elemC == 3) || (s.fnC == 2 && s.elemC == 4) || (s.fnC == 3 && s.elemC == 1) ||
    (s.fnC == 4 && s.elemC == 5)
  else false

theorem stack_pushes_typed : Generated.StackSites.pushSites.all pushOk = true := by decide +kernel

/-! ### §1b Cached fields of values

`SexpArray.Typ` caches the slice type derived from the first element and nothing invalidates
it: after `aset` / `{a[0] = x}` / `concat` the cache can describe an element that is no longer
there, and copies (rest, slice, append) carry it along. Code that reads the cached type and
then assumes something about the elements (typed, non-nil) panics after such a write — at VM
level (`Stack.BindSymbol`), outside any recover (seeded change C01-m3; the value-history
stream of the `crash` channel is what finds it). The regenerated table lists the cache
fields and the functions after which a cache can be stale; both lists are pinned, so a new
cache field or a new stale-capable writer is a proof break until it has been looked at. -/

def KnownCachedFields : List String := ["SexpArray.Typ"]

def KnownStaleWriters : List String :=
  ["SexpArray.Typ stale after ArrayAccessFunction", "SexpArray.Typ stale after ConcatArray",
   "SexpArray.Typ stale after FuncBuilder", "SexpArray.Typ stale after SexpArraySelector.AssignToSelection",
   "SexpArray.Typ stale after SexpHash.SetMethodList"]

theorem cached_fields_known :
    subseq Generated.CachedFields.cachedFields KnownCachedFields = true ∧
    subseq Generated.CachedFields.staleCapable KnownStaleWriters = true := by decide +kernel

/-! ## §2 Parser: the `{` look-ahead -/

/-- `ParserPeekNextToken(extra)` answers a token only when the queue holds more than
`extra` tokens: the guard of every `lexer.tokens[extra]` of `ParseExpression`.
(`peekWaitRun false` = `ParserPeekNextToken`; with `true` it is `peekAfterSign`, which may
answer `EndTk` on an empty queue and whose answer is never used as an index.) -/
theorem peek_guards_index (extra : Nat) : ∀ (fuel : Nat) (s s' : PState) (t : Token),
    peekWaitRun false extra fuel s = .tok t s' → extra < s'.lex.tokens.length := by
  intro fuel
  induction fuel with
  | zero => intro s s' t h; simp [peekWaitRun] at h
  | succ n ih =>
    intro s s' t h
    unfold peekWaitRun at h
    split at h
    · split at h
      · simp at h
      · exact ih _ _ _ h
    · split at h
      · rename_i t0 heq
        injection h with h1 h2
        subst h2
        split at heq
        · assumption
        · simp at heq
      · split at h
        · split at h
          · exact ih _ _ _ h
          · simp at h
        · split at h
          · simp at h
          · exact ih _ _ _ h

/-- The look-ahead never indexes the token queue out of range: the out-of-range arm of
`peekAt` (`lexer.tokens[i]` after `ParserPeekNextToken(i)`) is dead — for every parser state,
every look-ahead distance, every continuation and whatever input is still to come. -/
theorem lookahead_index_in_range {α : Type} (i : Nat) (k : Token → Prog α) (s : PState) :
    Parser.run (.peekAt i k) s =
      (match peekWaitRun false i (s.size + 1) s with
       | .tok _ s' => Parser.run (k (s'.lex.tokens.getD i Token.zero)) s'
       | .stop st s' => (.stop st, s')) := by
  cases hp : peekWaitRun false i (s.size + 1) s with
  | tok t s1 =>
    have hlt := peek_guards_index i _ _ _ _ hp
    rw [Parser.run, hp]
    simp only [List.getElem?_eq_getElem hlt, List.getD_eq_getElem?_getD, Option.getD_some]
  | stop st s1 =>
    rw [Parser.run, hp]

example : ∃ s : PState, ∃ t s', peekWaitRun false 1 10 s = .tok t s' :=
  ⟨{ lex := { (LexState.init) with tokens := [⟨.symbol, ['a']⟩, ⟨.colonOperator, [':']⟩], stream := some [] } },
   _, _, rfl⟩

/-! ## §3 Lexer: dumpBuffer / DecodeAtom / DecodeChar -/

theorem hexRe_len (a : List Char) (h : hexRe a = true) : 2 ≤ a.length := by
  unfold hexRe at h
  split at h
  · simp
  · simp at h
theorem charRe_len (a : List Char) (h : charRe a = true) : a.length = 3 ∨ a.length = 4 := by
  unfold charRe at h
  split at h
  · left; simp
  · right; simp
  · simp at h

theorem sliceTo_ok {α} {l r : List α} {j : Int} (h : sliceTo l j = .ok r) : (r.length : Int) = j ∧ 0 ≤ j ∧ j ≤ l.length := by
  unfold sliceTo at h
  split at h
  · rename_i hc
    injection h with h; subst h
    refine ⟨?_, hc.1, hc.2⟩
    simp only [List.length_take]
    omega
  · cases h

theorem sliceFrom_ok {α} {l r : List α} {i : Int} (h : sliceFrom l i = .ok r) : (r.length : Int) = l.length - i := by
  unfold sliceFrom at h
  split at h
  · rename_i hc
    injection h with h; subst h
    simp only [List.length_drop]
    omega
  · cases h

theorem decodeCharSites_np (a : List Char) (h : charRe a = true) : NoPanic (FrontSites.decodeCharSites a) := by
  unfold FrontSites.decodeCharSites
  have hl := charRe_len a h
  refine np_bind (sliceTo_np _ _ (by omega) (by omega)) (fun r1 h1 => ?_)
  have hr1 := (sliceTo_ok h1).1
  refine np_bind (sliceFrom_np _ _ (by omega) (by omega)) (fun r2 h2 => ?_)
  have hr2 := sliceFrom_ok h2
  split
  · rename_i hc2
    exact np_bind (idx_np _ _ (by omega) (by omega)) (fun _ _ => np_pure _)
  · split
    · rename_i hc1
      exact np_bind (idx_np _ _ (by omega) (by omega)) (fun _ _ => np_pure _)
    · exact np_err

theorem octRe_len (a : List Char) (h : octRe a = true) : 2 ≤ a.length := by
  unfold octRe at h
  split at h
  · simp
  · simp at h

theorem binaryRe_len (a : List Char) (h : binaryRe a = true) : 2 ≤ a.length := by
  unfold binaryRe at h
  split at h
  · simp
  · simp at h

theorem decodeAtomSites_np (a : List Char) (hne : a ≠ []) : NoPanic (FrontSites.decodeAtomSites a) := by
  unfold FrontSites.decodeAtomSites
  have hpos : 0 < a.length := List.length_pos_iff.mpr hne
  refine np_bind (idx_np _ _ (by omega) (by omega)) (fun last _ => ?_)
  refine np_bind ?_ (fun atom hatom => ?_)
  · exact np_ite (sliceTo_np _ _ (by omega) (by omega)) (np_pure _)
  refine np_ite (np_pure _) ?_
  split
  · rename_i hx
    have h2 : 2 ≤ atom.length := by
      simp only [Bool.or_eq_true] at hx
      rcases hx with (hx | hx) | hx
      · exact hexRe_len _ hx
      · exact octRe_len _ hx
      · exact binaryRe_len _ hx
    exact np_bind (sliceFrom_np _ _ (by omega) (by omega)) (fun _ _ => np_pure _)
  · refine np_ite (np_pure _) ?_
    refine np_ite ?_ ?_
    · split
      · rename_i hcolon
        have hlen : (atom.length : Int) = (a.length : Int) - 1 := by
          rw [if_pos hcolon] at hatom
          exact (sliceTo_ok hatom).1
        exact np_bind (sliceTo_np _ _ (by omega) (by omega)) (fun _ _ => np_pure _)
      · exact np_pure _
    · split
      · rename_i hc
        exact decodeCharSites_np atom hc
      · exact np_ite (np_pure _) np_err

theorem dumpBufferSites_np (buffer : List Char) : NoPanic (FrontSites.dumpBufferSites buffer) := by
  unfold FrontSites.dumpBufferSites
  split
  · exact np_pure _
  · rename_i h
    have : buffer ≠ [] := by
      intro hb; subst hb; simp at h
    exact decodeAtomSites_np buffer this

/-- `dumpBuffer` decodes only a non-empty buffer: no index of atom decoding is ever out of
range, whatever the buffer holds (theorem `dumpBufferSites_np` above). -/
def isOk {α} : P α → Bool | .ok _ => true | _ => false
def isErr {α} : P α → Bool | .error .err => true | _ => false
def isPanic {α} : P α → Bool | .error .panic => true | _ => false
example : isErr (FrontSites.dumpBufferSites "0x".toList) = true := by decide
example : isOk (FrontSites.dumpBufferSites "'\\n'".toList) = true := by decide

/-! ## §4 Generator prologues -/

/-- Every modelled special-form prologue, for every argument list: a value or an error,
never an out-of-range index — provided the recursive `Generate` calls do not panic
themselves (the induction hypothesis of the compositional argument). -/
theorem gen_prologues_no_panic (sub : Arg → P Unit) (hs : ∀ a, NoPanic (sub a))
    (nameOk : String → Bool) (head : String) (args : List Arg) :
    NoPanic (genForm sub nameOk head args) :=
  genForm_np hs nameOk head args

example : ∀ a : Arg, NoPanic ((fun _ => pure ()) a : P Unit) := fun _ => np_pure _
example : isErr (genForm (fun _ => pure ()) (fun _ => true) "cond" []) = true := by decide
example : isOk (genForm (fun _ => pure ()) (fun _ => true) "and" []) = true := by decide
example : isOk (genForm (fun _ => pure ()) (fun _ => true) "for" [.arr [.other, .other, .other]]) = true := by decide

/-- `Generator.Generate`, the pair case: a dotted pair in code position is data; the
panic-capable `GenerateAssignment` (`ListToArray` + `panicOn`) is reached by proper lists only
— for every pair shape. -/
theorem generate_pair_dispatch_no_panic (sub : Arg → P Unit) (hs : ∀ a, NoPanic (sub a)) (p : PairShape) :
    NoPanic (genPair sub p) :=
  genPair_np hs p

example : isOk (genPair (fun _ => pure ()) ⟨false, some 1, true, 3⟩) = true := by decide

/-- The guard order matters: testing for an assignment before testing for a proper list
sends `(a = 1 \ 2)` into the `panicOn`. -/
theorem assign_before_list_counterexample :
    isPanic (Legacy.genPairAssignFirst (fun _ => pure ()) ⟨false, some 1, true, 3⟩) = true := by decide

/-- … and in the current source the call of `GenerateAssignment` in the `*SexpPair` case of
`Generate` IS dominated by the `IsList(e)` test (T1: regenerated from generator.go on every
run; lexical domination through if-bodies, else branches and early returns). -/
def guardedByIsList (c : String × List String) : Bool :=
  c.1 != "GenerateAssignment" || c.2.contains "IsList(e)" || c.2.contains "!(!IsList(e))"

theorem pair_dispatch_guarded :
    Generated.GenDispatch.pairCase.all guardedByIsList = true ∧
    (Generated.GenDispatch.pairCase.any fun c => c.1 == "GenerateAssignment") = true := by decide +kernel

/-- Before fix cc83369 `(and)` / `(or)` indexed `args[-1]`. -/
theorem legacy_and_counterexample (sub : Arg → P Unit) :
    Legacy.genShortCircuit sub [] = .error .panic := rfl

/-- Before fix C01-04 a list target of `mdef` that is not `(quote sym)` left a nil symbol
behind, which `BindlistInstr` dereferenced: `(mdef (hash) (list 1 2))`. -/
theorem legacy_mdef_counterexample :
    isPanic (Legacy.genMultiDefAndRun (fun _ => pure ()) [.pair false, .pair false]) = true := by decide

/-- … and the repaired prologue refuses it. -/
theorem mdef_refuses_list_target :
    isErr (genMultiDef (fun _ => pure ()) [.pair false, .pair false]) = true := by decide

/-! ## §5 VM -/

open ZygoVerif.VM in
/-- The full statement for the VM model: from a state whose stacks hold no nil cell, running
any loaded program with any fuel leaves the stacks free of nil cells, and the run can end in a
host panic only with an empty scope stack (the `panic("empty stack!!")` of `Stack.BindSymbol`). -/
def C01NoPanic : Prop :=
  ∀ (fuel : Nat) (s : St), VMSafe.Good s →
    VMSafe.Good ((VM.run fuel).run s).2 ∧
    (((VM.run fuel).run s).1 = .error .panic → ((VM.run fuel).run s).2.linear = [])

open ZygoVerif.VM in
/-- Proved part. The typed pops of the VM (`PopExpr`, `PopExpressions`, the argument check
of `CallFunction`, `wrangleOptargs`, scope pops, stack-mark pops) and the binding of a symbol
neither panic on stacks without nil cells nor create a nil cell, and `restoreControlState`
does not either AS LONG AS the recorded sizes do not exceed the present ones (`Fits`); one
step of `Execute` for every instruction kind that does not call into the interpreter (24 of
the 26 kinds of the model: all but `CallInstr{array}` and `CallExprInstr`) is safe in the same
sense; the one remaining panic is `LexicalBindSymbol` on an EMPTY scope stack, and then the
scope stack is empty in the final state.
Missing for `C01NoPanic`: (1) `Fits` at every `restoreControlState` and a non-empty scope
stack at every bind — the stack balance of generated code, C04's theorem, not available as a
hypothesis-free fact about `VM.run`; without it `TruncateToSize` PADS the stack with nil
cells (`restore_can_pad` below: the mechanism of every `StackElem is nil` host panic met on
the pinned tree; its witnesses were retired by the repo fixes that made `(begin)`,
`(newScope)`, `(return)`, selector assignment … leave exactly one value, and the crash search
finds no witness on the current tree); (2) the induction over the mutually recursive
interpreter functions (`run`, `exec`, `callResolved`, `nested`, `builtin`, …) that lifts these
lemmas to whole runs. Both are held by the `eval`/`crash` correspondence of every run. -/
theorem c01_no_panic_partial :
    (∀ s, VMSafe.Good s → VMSafe.SafeAt s popData) ∧
    (∀ n s, VMSafe.Good s → VMSafe.SafeAt s (popN n)) ∧
    (∀ c s, VMSafe.Good s → VMSafe.Fits c s → VMSafe.SafeAt s (restore c)) ∧
    (∀ f n s, VMSafe.Good s → VMSafe.SafeAt s (callFunction f n)) ∧
    (∀ n s, VMSafe.Good s → VMSafe.SafeAt s (popScopes n)) ∧
    (∀ l k fuel s, VMSafe.Good s → VMSafe.SafeAt s (popToMark l k fuel)) ∧
    (∀ x v s, VMSafe.Good s → VMSafe.SafeAt s (bindTop x v)) ∧
    (∀ fuel i s, VMSafe.isCall i = false → VMSafe.Good s → VMSafe.SafeAt s (exec (fuel + 1) i)) :=
  ⟨VMSafe.popData_safe, VMSafe.popN_safe, VMSafe.restore_safe, VMSafe.callFunction_safe,
   VMSafe.popScopes_safe, VMSafe.popToMark_safe, VMSafe.bindTop_safe,
   fun fuel i s hi hg => VMSafe.exec_step_safe fuel i hi s hg⟩

example : VMSafe.Good VM.initSt := VMSafe.good_init
example : VMSafe.isCall (.branch true 2) = false := rfl
example : VMSafe.Fits ⟨0, 0, 0, 0, 1, 0⟩ VM.initSt := by
  refine ⟨Nat.zero_le _, Nat.zero_le _, ?_⟩
  simp [VM.initSt]

open ZygoVerif.VM in
/-- The latent path: `restoreControlState` with a recorded size above the present one grows
the data stack with a nil cell, and the typed pop of `Run` that follows is a host panic. -/
theorem restore_can_pad :
    ((do restore ⟨0, 0, 0, 0, 1, 1⟩; popData : M Core.Val).run { VM.initSt with data := [] }).1
      = .error .panic := rfl

/-! ## §5b No host panic for generated code (C04's contracts) -/

open ZygoVerif.VM ZygoVerif.Core in
/-- **c01_no_panic_served.** Every text of the grammar `Bal.okLs` (all core forms, loops,
break/continue, functions, closures, tail calls, lazy parameters, apply/map/force), handed to an
interpreter in any state reached from the fresh one by value-returning and erroring texts of
that grammar (`C04.ServedStateE`), with any fuel: whatever outcome the VM model reports, its
class is not `panic` — the evaluation returns a value, an error, or runs out of fuel. From C04's
`no_host_panic` (Proofs/RunSafe.lean: no function of the VM's mutual block ends in a host panic
from a state without nil cells; nil cells only come from `restoreControlState` growing a stack,
every restore on a normal return is exact, and after an error nothing runs any more). -/
theorem c01_no_panic_served (fuel : Nat) (es : List Expr) (s s' : St) (cls v : String) (tr : List String) (d : String)
    (alive : Bool) (hs : C04.ServedStateE s) (hok : Bal.okLs es = true)
    (h : runText fuel es s = (Outcome.done cls v tr d, s', alive)) : cls ≠ "panic" := by
  intro hc
  subst hc
  exact C04.no_host_panic fuel es s s' v tr d alive (C04.servedStateE_served hs) hok h

open ZygoVerif.VM ZygoVerif.Core in
/-- a function `[pop, dup]` entered with one operand on the data stack -/
def padState : St :=
  { fns := [{ name := "f", code := [.pop, .dup] }], scopes := [{}], data := [some .nil], linear := [some 0],
    curfunc := 0, pc := 0 }

/-- **FINDING: `C01NoPanic` as first stated is false.** It asks `Good` (no nil cell) after EVERY
`run` from EVERY `Good` state. `Run` records the stack sizes at its entry; a run entered with
operands on the data stack — `Apply`/`map` push the arguments and then call `Run` — that fails
after it has consumed them is restored to the recorded size by `TruncateToSize`, which PADS the
data stack with nil cells. Here: `[pop, dup]` entered with one operand; `pop` takes it, `dup`
fails on the empty stack, the restore pads back to size 1 with a nil cell. This is what the Go
code does too; it is harmless there because the caller of such a `Run` (`Apply`) restores to
ITS recorded sizes — taken before the arguments were pushed — which truncates the padding away
before anything can pop it (`C04.err_contract`: every evaluator's restore after a failed nested
`Run` is exact on scope and set-aside stacks; sizes on the data stack). The true statement is
about the outermost `Run` of a text: `c01_no_panic_served`, and `C04.err_leaves_served` (after
an erroring text the stacks are exactly those of entry, no nil cell). -/
theorem c01NoPanic_asFirstStated_false : ¬ C01NoPanic := by
  intro h
  have hg : VMSafe.Good padState := by
    refine ⟨?_, ?_, ?_, ?_, ?_⟩
    · intro x hx; simp [padState] at hx; simp [hx]
    · intro x hx; simp [padState] at hx; simp [hx]
    · intro x hx; simp [padState] at hx
    · intro l hl; simp [padState] at hl
    · intro z hz; simp [padState] at hz
  have hd : ((VM.run 5).run padState).2.data = [none] := by decide +kernel
  exact (h 5 padState hg).1.data none (by rw [hd]; exact List.mem_cons_self) rfl

/-- non-vacuity of `c01_no_panic_served`: the fresh interpreter is such a state, and so is the
state after the empty text -/
example : C04.ServedStateE VM.initSt := C04.ServedStateE.init

end ZygoVerif.C01
