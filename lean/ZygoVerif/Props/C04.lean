/-
C04 — an evaluation that succeeds leaves nothing behind in the interpreter.
(first slice: coverage of the instruction set and non-vacuity of the checker; the soundness
theorems follow below as they are proved)
-/
import ZygoVerif.Spec.Balanced
import ZygoVerif.Spec.AtRest
import ZygoVerif.Generated.InstrSet
namespace ZygoVerif.C04
open ZygoVerif.Bal

/-- Every Go type that implements `Instruction` today (regenerated from the source on every
run) is a constructor of the checker's instruction type. -/
theorem instr_set_covered : ∀ t ∈ Generated.InstrSet.instrTypes, t ∈ coveredGoTypes := by
  decide

/-- …and the checker has no constructor for a type that does not exist. -/
theorem instr_set_exact : ∀ t ∈ coveredGoTypes, t ∈ Generated.InstrSet.instrTypes := by
  decide

end ZygoVerif.C04
