/-
C04 — an evaluation that succeeds leaves nothing behind in the interpreter.

The property is about every control path through every compiled body. It is decided by a
typing of bytecode (`Spec/Balanced.lean`): a function is *balanced* when an annotation
(abstract state per pc) exists that the local verifier `Bal.verify` accepts. This file states

* `instr_set_covered`   — the checker's instruction type covers every Go type that implements
                          `Instruction` today (regenerated list, closed by `decide`);
* `checker_sound`       — for ANY annotation the verifier accepts (hence for `check`), every
                          execution of the function in the stack-effect machine
                          (`Model/StackEffect.lean`: each instruction pops/pushes what its
                          `Execute` does; calls obey the calling contract), of any length,
                          through any path and any number of loop iterations,
                            - never touches the caller's part of the data stack, never pops a
                              scope of the caller, leaves the address stack alone, and
                            - at `ret` has exactly ONE value on top of the caller's data stack,
                              the caller's scope depth, and (after the return) the caller's
                              address depth;
                          a top-level text that runs to its end leaves exactly one value (which
                          `Run` pops) — or nothing when it is empty (then `Run` supplies nil);
* `legacy_…_counterexample` — the code the pre-fix generator emitted for the forms of
                          DESIGN §7 "Today" is refused by the checker and really misbehaves
                          in the machine (`Model/LegacyBalance.lean`);
* the generator theorems (`gen_balanced…`) and the VM-level statements (`RunAtRest`,
  `EvalEmptyNil`, `OneAtATime`) follow further down;
* `calling_contract`     — the VM model refines the stack-effect machine across nested runs;
* `run_at_rest_of_invariant`, `run_at_rest_reachable`
                        — on the VM model: from every state that satisfies the run-time invariant
                          (in particular: every state reachable from the fresh interpreter by
                          texts of the generator's grammar that returned values), a text of the
                          grammar that returns a value leaves the interpreter at rest. `RunAtRest`
                          over EVERY state at rest is not provable without that invariant and
                          stays a `def`; `OneAtATime` stays a `def` (`one_at_a_time_partial`);
* the last section is about RE-ENTRANCY: compiled code is shared by all activations and carries
  no run-time state (`code_writes_exact`, a regenerated table), and the static scope count of
  break/continue is right for every activation (`break_lands_at_activation_depth`,
  `same_pc_same_depth`, `nested_activation_depths`, `call_contract_of_verified_callee`,
  `exec_break_continue_static`).
-/
import ZygoVerif.Spec.Balanced
import ZygoVerif.Spec.AtRest
import ZygoVerif.Model.StackEffect
import ZygoVerif.Model.LegacyBalance
import ZygoVerif.Proofs.Balanced
import ZygoVerif.Proofs.GenBalanced
import ZygoVerif.Proofs.GenBalancedAll
import ZygoVerif.Proofs.VMRest
import ZygoVerif.Proofs.VMRefine
import ZygoVerif.Proofs.RunPrim
import ZygoVerif.Proofs.RunMain
import ZygoVerif.Proofs.Reentrant
import ZygoVerif.Generated.InstrSet
import ZygoVerif.Generated.CodeWrites
namespace ZygoVerif.C04
open ZygoVerif.Bal ZygoVerif.VM ZygoVerif.Core

/-! ## The checker speaks about the real instruction set -/

/-- Every Go type that implements `Instruction` today (regenerated from the source on every
run) is a constructor of the checker's instruction type. -/
theorem instr_set_covered : ∀ t ∈ Generated.InstrSet.instrTypes, t ∈ coveredGoTypes := by
  decide

/-- …and the checker has no constructor for a type that does not exist. -/
theorem instr_set_exact : ∀ t ∈ coveredGoTypes, t ∈ Generated.InstrSet.instrTypes := by
  decide

/-! ## Soundness of the checker -/

/-- **checker_sound.** `f` with an annotation the verifier accepts; an execution that starts
at pc 0 with the arguments (`f.entryCount` values) on top of the caller's data stack `D`,
`S` scopes and `A` return addresses (the callee's own return address included). Then at every
reachable state `c`:
1. `D` is still there, underneath (`c.data = own ++ D`): nothing of the caller was popped;
2. no scope of the caller was popped (`S ≤ c.sc`) and the address stack is as at entry;
3. if `c` is at a `ret`: `c.data = val :: D`, `c.sc = S`, and after `ReturnFromFunction` the
   address stack has depth `A - 1`;
4. if `c` is at the end of the code: `f` is a top-level text, `c.sc = S`, and
   `c.data = val :: D` — or `c.data = D` for the empty text. -/
theorem checker_sound (f : Fn) (ann : Ann) (hv : verify f ann = true)
    (D : List Cell) (S A : Nat) (c0 c : CState)
    (hpc : c0.pc = 0) (hdata : c0.data = List.replicate f.entryCount .val ++ D)
    (hsc : c0.sc = S) (haddr : c0.addr = A) (hreach : Reach f c0 c) :
    ((∃ own, c.data = own ++ D) ∧ S ≤ c.sc ∧ c.addr = A)
    ∧ (AtRet f c → c.data = .val :: D ∧ c.sc = S ∧ (afterRet c).addr = A - 1)
    ∧ (c.pc = f.code.length →
        f.kind = .top ∧ c.sc = S ∧ (c.data = .val :: D ∨ (f.code = [] ∧ c.data = D))) := by
  have hV := verified_of_verify f ann hv
  have h0 := inv_entry f ann hV D S A c0 hpc hdata hsc haddr
  have hinv := inv_reach f ann hV D S A c0 c hreach h0
  refine ⟨inv_frame ann D S A c hinv, ?_, ?_⟩
  · intro hret
    obtain ⟨h1, h2, h3⟩ := inv_at_ret f ann hV D S A c hinv hret
    exact ⟨h1, h2, by simp [afterRet, h3]⟩
  · intro hend
    obtain ⟨h1, h2, _, h4⟩ := inv_at_end f ann hV D S A c hinv hend
    exact ⟨h1, h2, h4⟩

/-- For C09 (tail calls run in constant space): every time a verified function is back at its
first instruction — which is where a self tail call jumps — the data stack holds exactly the
arguments on top of the caller's part and no scope of the function is open. So the n-th
iteration of a tail-recursive function starts at the stack depths of the first. -/
theorem tail_call_reenters_at_entry_depth (f : Fn) (ann : Ann) (hv : verify f ann = true)
    (D : List Cell) (S A : Nat) (c0 c : CState)
    (hpc : c0.pc = 0) (hdata : c0.data = List.replicate f.entryCount .val ++ D)
    (hsc : c0.sc = S) (haddr : c0.addr = A) (hreach : Reach f c0 c) (hc : c.pc = 0) :
    c.data = List.replicate f.entryCount .val ++ D ∧ c.sc = S ∧ c.addr = A := by
  have hV := verified_of_verify f ann hv
  have h0 := inv_entry f ann hV D S A c0 hpc hdata hsc haddr
  have hinv := inv_reach f ann hV D S A c0 c hreach h0
  obtain ⟨h1, h2⟩ := inv_at_pc0 f ann hV D S A c hinv hc
  exact ⟨h1, h2, (inv_frame ann D S A c hinv).2.2⟩

/-- The same for the executable checker `check` (inference + verification). -/
theorem check_sound (f : Fn) (h : check f = .ok ())
    (D : List Cell) (S A : Nat) (c0 c : CState)
    (hpc : c0.pc = 0) (hdata : c0.data = List.replicate f.entryCount .val ++ D)
    (hsc : c0.sc = S) (haddr : c0.addr = A) (hreach : Reach f c0 c) :
    ((∃ own, c.data = own ++ D) ∧ S ≤ c.sc ∧ c.addr = A)
    ∧ (AtRet f c → c.data = .val :: D ∧ c.sc = S ∧ (afterRet c).addr = A - 1)
    ∧ (c.pc = f.code.length →
        f.kind = .top ∧ c.sc = S ∧ (c.data = .val :: D ∨ (f.code = [] ∧ c.data = D))) := by
  obtain ⟨ann, hv⟩ := check_verifies f h
  exact checker_sound f ann hv D S A c0 c hpc hdata hsc haddr hreach

/-- `checkB` is `check` as a Boolean (what `decide` can evaluate). -/
theorem checkB_ok (f : Fn) (h : checkB f = true) : check f = .ok () := by
  unfold checkB at h
  split at h
  · rename_i u hu; cases u; exact hu
  · cases h

/-! ### Non-vacuity: real listings pass, and the machine really runs them -/

/-- `(defn f [b] (+ a b))` as the real generator compiles it. -/
def exDefn : Fn :=
  { kind := .fn, nformals := 1, nfixed := 1,
    code := [.addFuncScope, .popStackPutEnv, .callExpr 2, .removeScope, .ret false] }

example : checkB exDefn = true := by decide

/-- A loop with `break`/`continue` out of a nested `let`, as the real generator compiles
`(for [(def i 0) (< i 3) (set i (+ i 1))] (let [q i] (cond (== q 1) (continue) (break))))`. -/
def exLoop : Fn :=
  { kind := .top,
    code := [.loopStart 1, .addScope, .pushMark 1, .label, .push, .dup, .popStackPutEnv,
             .popUntilMark 1, .jump 6, .label, .callExpr 2, .dup, .update, .popUntilMark 1,
             .label, .callExpr 2, .branch false 13, .label, .addScope, .envToStack,
             .popStackPutEnv, .callExpr 2, .branch false 3, .cont 1 9 1, .jump 2, .brk 1 30 1,
             .removeScope, .popUntilMark 1, .jump (-19), .label, .clearMark 1, .removeScope, .push] }

example : checkB exLoop = true := by decide

/-- The macro body of `(defmac when2 [p & body] ^(cond ~p (begin ~@body) nil))`: markers,
an `explode` inside a marker region, variadic formals. -/
def exMacro : Fn :=
  { kind := .fn, nformals := 2, varargs := true, nfixed := 1,
    code := [.addFuncScope, .popStackPutEnv, .popStackPutEnv,
             .pushMarker, .push, .envToStack, .pushMarker, .push, .envToStack, .explode, .squash,
             .push, .squash, .removeScope, .ret false] }

example : checkB exMacro = true := by decide

/-- The hypotheses of `checker_sound` are satisfiable with a non-trivial execution: `exDefn`
called with one argument on top of a caller's stack that holds a marker and a value runs
to its `ret`. -/
example : ∃ c, Reach exDefn ⟨0, [.val, .val, .marker], 3, 2⟩ c ∧ AtRet exDefn c
    ∧ c.data = [.val, .val, .marker] ∧ c.sc = 3 := by
  refine ⟨⟨4, [.val, .val, .marker], 3, 2⟩, ?_, rfl, rfl, rfl⟩
  have s1 : CStep exDefn ⟨0, [.val, .val, .marker], 3, 2⟩ ⟨1, [.val, .val, .marker], 4, 2⟩ :=
    CStep.scopeUp _ .addFuncScope rfl rfl
  have s2 : CStep exDefn ⟨1, [.val, .val, .marker], 4, 2⟩ ⟨2, [.val, .marker], 4, 2⟩ :=
    CStep.simple _ .popStackPutEnv 1 0 [.val] [.val, .marker] rfl rfl rfl rfl
  have s3 : CStep exDefn ⟨2, [.val, .marker], 4, 2⟩ ⟨3, [.val, .val, .marker], 4, 2⟩ :=
    CStep.simple _ (.callExpr 2) 0 1 [] [.val, .marker] rfl rfl rfl rfl
  have s4 : CStep exDefn ⟨3, [.val, .val, .marker], 4, 2⟩ ⟨4, [.val, .val, .marker], 3, 2⟩ :=
    CStep.scopeDown _ .removeScope 3 rfl rfl rfl
  exact Reach.step _ _ _ (Reach.step _ _ _ (Reach.step _ _ _ (Reach.step _ _ _ (Reach.refl _) s1) s2) s3) s4

/-! ## The pre-fix generator (refuted) -/

/-- `(defn f [] (begin))` before fix C04-02: the body is empty, `ret` is reached with nothing
pushed. The checker refuses it … -/
theorem legacy_empty_begin_refused : checkB Legacy.emptyBeginBody = false := by decide

/-- … and in the machine the function really returns with NO value on top of its caller's
stack: the caller's `Run` then pops the caller's own operand (the host panic of DESIGN §7). -/
theorem legacy_empty_begin_counterexample (D : List Cell) (S A : Nat) :
    ∃ c, Reach Legacy.emptyBeginBody ⟨0, D, S, A⟩ c ∧ AtRet Legacy.emptyBeginBody c ∧ c.data = D := by
  refine ⟨⟨2, D, S, A⟩, ?_, rfl, rfl⟩
  have s1 : CStep Legacy.emptyBeginBody ⟨0, D, S, A⟩ ⟨1, D, S + 1, A⟩ :=
    CStep.scopeUp _ .addFuncScope rfl rfl
  have s2 : CStep Legacy.emptyBeginBody ⟨1, D, S + 1, A⟩ ⟨2, D, S, A⟩ :=
    CStep.scopeDown _ .removeScope S rfl rfl rfl
  exact Reach.step _ _ _ (Reach.step _ _ _ (Reach.refl _) s1) s2

/-- `(quote a b)` at top level before fix C04-02: two values are left, `Run` pops one. -/
theorem legacy_quote2_refused : checkB Legacy.quote2Top = false := by decide

theorem legacy_quote2_counterexample (D : List Cell) (S A : Nat) :
    ∃ c, Reach Legacy.quote2Top ⟨0, D, S, A⟩ c ∧ c.pc = Legacy.quote2Top.code.length
      ∧ c.data = .val :: .val :: D := by
  refine ⟨⟨2, .val :: .val :: D, S, A⟩, ?_, rfl, rfl⟩
  have s1 : CStep Legacy.quote2Top ⟨0, D, S, A⟩ ⟨1, .val :: D, S, A⟩ :=
    CStep.simple _ .push 0 1 [] D rfl rfl rfl rfl
  have s2 : CStep Legacy.quote2Top ⟨1, .val :: D, S, A⟩ ⟨2, .val :: .val :: D, S, A⟩ :=
    CStep.simple _ .push 0 1 [] (.val :: D) rfl rfl rfl rfl
  exact Reach.step _ _ _ (Reach.step _ _ _ (Reach.refl _) s1) s2

/-- `(let [x 1] (cond (break) 1 2))` inside a loop before fix C04-06: the `break` compiled
in the test of the `cond` pops no scope (`scopesToPop` = 0 instead of 1). -/
theorem legacy_cond_test_break_refused : checkB Legacy.condTestBreak = false := by decide

/-- `(defn g [a] (cond (> a 0) (g 0 7) a))` before fix C04-04: the self tail call pushes two
operands for one formal and jumps back to instruction 0. -/
theorem legacy_tailcall_arity_refused : checkB Legacy.tailArity = false := by decide

/-- a self call in a `let` initialiser compiled as a tail call (before fix C04-08): at the
`goto 0` the data stack holds the value of the first initialiser besides the argument. -/
theorem legacy_let_init_tailcall_refused : checkB Legacy.letInitTailCall = false := by decide

/-- `continue` inside a package body inside a loop (before fix C04-09) -/
theorem legacy_package_continue_refused : checkB Legacy.packageContinue = false := by decide

/-- Selector assignment `(defn g [] {a[0] = 99})` before fix C04-03, with the legacy effect of
`AssignInstr` (pops two, pushes nothing): `ret` is reached with no value. -/
theorem legacy_selector_assign_counterexample (D : List Cell) (S A : Nat) :
    ∃ c, Legacy.ReachL Legacy.selAssignBody ⟨0, D, S, A⟩ c ∧ AtRet Legacy.selAssignBody c ∧ c.data = D :=
  Legacy.selAssign_run D S A

/-! ## The generator emits balanced code -/

/-- **gen_balanced**, full statement: whatever the modelled generator (`Model/Gen.lean`)
compiles for a program — the top-level code of the text AND the body of every function
template it creates on the way — is accepted by the verifier. `B T` reads a model listing
as a checker listing, taking break/continue offsets from the loop table `T`. -/
def GenBalanced : Prop :=
  ∀ (isFn : Nat → Bool) (es : List Expr) (gs gs' : GS) (code : List Instr) (t : Bool),
    compileBegin isFn {} es gs = Except.ok ((code, t), gs') →
    (∃ ann, verify { kind := .top, code := B gs'.loops code } ann = true)
    ∧ ∀ i, gs.fns.length ≤ i → ∀ f ∈ gs'.fns[i]?, f.code ≠ [] →
        ∃ ann, verify { kind := .fn, nformals := f.params.length, varargs := f.varargs, nfixed := f.nargs,
                        code := B gs'.loops f.code } ann = true

/-- **gen_balanced_partial** — proved by induction over the expression grammar (the eight
mutually recursive `compile*` functions) for every program built from literals, symbols,
array literals, calls, `begin`, `def`, `set`, `cond` with any number of arms, `and`/`or` with
any number of arms, `let`, `letseq`, `newScope`, `fn`/`defn` (as the closure-creating forms
they are in the enclosing code) and selector assignment, nested to any depth (`okAs`): the
top-level code of the text is balanced, for every loop table.

SUPERSEDED by `gen_balanced` below (all forms, function bodies, self tail calls); kept because it
quantifies over EVERY loop table and needs no hypothesis on the generator state. -/
theorem gen_balanced_partial (isFn : Nat → Bool) (es : List Expr) (gs gs' : GS) (code : List Instr)
    (t : Bool) (T : List LoopRec) (hok : okAs es = true)
    (h : compileBegin isFn {} es gs = Except.ok ((code, t), gs')) :
    ∃ ann, verify { kind := .top, code := B T code } ann = true := by
  cases es with
  | nil =>
    simp only [compileBegin, pure_ok] at h
    cases h
    exact ⟨[some restState], by simp only [B, List.map_nil]; decide⟩
  | cons e es =>
    obtain ⟨_, hadds⟩ := bal_compileBegin isFn (e :: es) {} gs code t gs' rfl hok (by simp) h
    obtain ⟨mid, hfrag⟩ := hadds {} T restState (by decide)
    exact ⟨_, verify_top_of_frag (B T code) mid hfrag⟩

/-- The helper function the VM compiles for an operand (`EvalCallExpression`) or a lazy
argument (`Force`): `Generate(expr)` followed by `ret`. For the same class of expressions it
is balanced: it returns with exactly one value on top of what its caller had — so the nested
`Run` pops that value and nothing of the caller. -/
theorem gen_balanced_operand (isFn : Nat → Bool) (e : Expr) (gs gs' : GS) (code : List Instr)
    (t : Bool) (T : List LoopRec) (hok : okA e = true)
    (h : compile isFn {} e gs = Except.ok ((code, t), gs')) :
    ∃ ann, verify { kind := .thunk, code := B T (code ++ [Instr.ret]) } ann = true := by
  obtain ⟨_, hadds⟩ := bal_compile isFn e {} gs code t gs' rfl hok h
  obtain ⟨mid, hfrag⟩ := hadds {} T restState (by decide)
  have := verify_thunk_of_frag (B T code) mid hfrag
  exact ⟨(restState :: mid ++ [bump restState 1]).map some ++ [none], by simpa [B, toB] using this⟩

/-- Generator and checker together: an operand of the covered class, run in the stack-effect
machine on top of ANY caller stack, returns with exactly one value on top of it. -/
theorem operand_returns_one_value (isFn : Nat → Bool) (e : Expr) (gs gs' : GS) (code : List Instr)
    (t : Bool) (T : List LoopRec) (hok : okA e = true)
    (h : compile isFn {} e gs = Except.ok ((code, t), gs'))
    (D : List Cell) (S A : Nat) (c : CState)
    (hreach : Reach { kind := .thunk, code := B T (code ++ [Instr.ret]) } ⟨0, D, S, A⟩ c)
    (hret : AtRet { kind := .thunk, code := B T (code ++ [Instr.ret]) } c) :
    c.data = .val :: D ∧ c.sc = S := by
  obtain ⟨ann, hv⟩ := gen_balanced_operand isFn e gs gs' code t T hok h
  have := checker_sound _ ann hv D S A ⟨0, D, S, A⟩ c rfl (by simp [Fn.entryCount]) rfl rfl hreach
  exact ⟨(this.2.1 hret).1, (this.2.1 hret).2.1⟩

/-- Non-vacuity: a nested program of the covered class compiles, and the theorem applies. -/
example : ∃ code t gs', okAs [Expr.def_ "a" (.int 1),
      .let_ false [("x", .sym "a"), ("y", .int 2)]
        [.cond [(.call (.sym "<") [.sym "x", .sym "y"], .and_ [.sym "x", .or_ [.sym "y", .nilLit]])]
               (.begin_ [.set_ "a" (.sym "y"), .arr [.sym "x", .sym "y"]])]] = true
    ∧ compileBegin (fun _ => false) {} [Expr.def_ "a" (.int 1),
      .let_ false [("x", .sym "a"), ("y", .int 2)]
        [.cond [(.call (.sym "<") [.sym "x", .sym "y"], .and_ [.sym "x", .or_ [.sym "y", .nilLit]])]
               (.begin_ [.set_ "a" (.sym "y"), .arr [.sym "x", .sym "y"]])]] { fns := [] }
      = Except.ok ((code, t), gs') ∧ code.length = 29 :=
  ⟨_, _, _, by decide, rfl, by decide⟩

/-! ## The generator emits balanced code: loops, function bodies, self tail calls -/

/-- **The invariant of the induction** (`Bal.GInv d c gs Γ T σ`, Proofs/GenBalancedInv.lean) relates
the generator's context at the point where a form is compiled to the abstract state `σ` of the
checker at the point where the form's code starts:
* `σ.k = c.scopes + d` — `gen.scopes` counts the scopes opened since the function's own
  (`d` = 1 in a function body, 0 in a top-level text);
* every loop `id` on the compile-time loop stack `gs.loopstack` is either a loop of the function
  being compiled — then its stack-mark is open in `σ.frames`, the frames below it and `σ.base`
  are those recorded when the loop was entered, `c.scopes ≥ scopeDepth id + 1`, and the state a
  `break`/`continue` cuts back to (`k = scopeDepth id + 1 + d`, `junk` above the mark) is what the
  annotation holds at `loopStart + breakOffset / continueOffset` — or a loop of an enclosing
  function, whose `LoopStartInstr` does not occur in this function (`FindLoop` fails at run time);
* every open stack-mark belongs to an existing loop record (so the next loop's id is fresh);
* `c.tail` ⇒ the function's own area is empty (`σ.frames = []`, `σ.base = 0`) and the name the body
  is compiled under resolves to a template with the signature of the function being checked.
`gen_fragment`: under this invariant the code of ANY form of the covered grammar is a verified
fragment from `σ` to `σ` + one value — wherever it is placed. -/
theorem gen_fragment (isFn : Nat → Bool) (e : Expr) (c : Ctx) (gs gs' : GS) (code : List Instr) (t : Bool)
    (T : List LoopRec) (hok : okL e = true) (hgs : GSok gs) (hT : TOk gs gs' T)
    (h : compile isFn c e gs = Except.ok ((code, t), gs'))
    (d : Nat) (Γ : Env) (σ : AState) (hinv : GInv d c gs Γ T σ) :
    ExprFrag Γ (B T code) σ (bump σ 1) :=
  ((balL_compile isFn e c gs code t gs' hok hgs h).2.2.sem T hT).2 d Γ σ hinv

/-- **gen_balanced** — by ONE induction over the eight mutually recursive `compile*` functions,
for every program of the covered grammar `okLs` = ALL core forms: literals, symbols, arrays,
calls, begin, def, set, cond, and/or, let, letseq, newScope, selector assignment, **`for` (with or
without label), `break`/`continue` (labelled or not) in every position the generator accepts
(loop body, init, test, increment, cond tests and arms, and/or arms, let initialisers and bodies,
array elements, operands of def/set; out of any number of nested `let`/`newScope` scopes; to an
outer labelled loop; inside a `fn` that sits in a loop), `fn`/`defn` at any nesting depth**:
1. the top-level code of the text is verified, and
2. **every function template** the generator allocates while compiling the text — prologue
   `addFuncScope` + formals (fixed or variadic), body compiled with the tail flag on, epilogue
   `removeScope; ret`, **self tail calls** (`args; prepareCall; removeScope × (scopes+1); goto 0`,
   re-entering at instruction 0 with the entry state) in every tail context — is a verified
   function of kind `fn`.
Hypotheses, compared with the full statement `GenBalanced`:
* `okLs es`: bodies of `let`/`fn`/`defn` are not empty (the real builders refuse an empty function
  body: compile error) and no call has the empty name or a generated name `__anon<n>` as its head
  (inside the anonymous function of that very name such a call is compiled as a self tail call
  with NO arity check, because `knownFunctions` has no entry: finding C09-02);
* `GSok gs`: the ids on the compile-time loop stack at the start are ids of existing loop records
  (true of every state the interpreter reaches; `GenBalanced` quantifies over arbitrary `gs`).
What is proved is `∃ ann, verify f ann` — the hypothesis of `checker_sound`; that the work-list
inference `infer` FINDS such an annotation (`check f = ok`) is not proved (it is run on every
listing of every run, channel `bal`). -/
theorem gen_balanced (isFn : Nat → Bool) (es : List Expr) (gs gs' : GS) (code : List Instr) (t : Bool)
    (hok : okLs es = true) (hgs : GSok gs)
    (h : compileBegin isFn {} es gs = Except.ok ((code, t), gs')) :
    (∃ ann, verify { kind := .top, code := B gs'.loops code } ann = true)
    ∧ ∀ i f, gs.fns.length ≤ i → gs'.fns[i]? = some f →
        ∃ ann, verify { kind := .fn, nformals := f.params.length, varargs := f.varargs, nfixed := f.nargs,
                        code := B gs'.loops f.code } ann = true :=
  program_verified isFn es gs gs' code t gs'.loops hok hgs (TOk.self gs gs') h

/-- **gen_balanced_loops**: the first half — texts with loops, `break`, `continue`. -/
theorem gen_balanced_loops (isFn : Nat → Bool) (es : List Expr) (gs gs' : GS) (code : List Instr) (t : Bool)
    (hok : okLs es = true) (hgs : GSok gs)
    (h : compileBegin isFn {} es gs = Except.ok ((code, t), gs')) :
    ∃ ann, verify { kind := .top, code := B gs'.loops code } ann = true :=
  (gen_balanced isFn es gs gs' code t hok hgs h).1

/-- **gen_balanced_functions**: the second half — every function template, as a whole function. -/
theorem gen_balanced_functions (isFn : Nat → Bool) (es : List Expr) (gs gs' : GS) (code : List Instr) (t : Bool)
    (hok : okLs es = true) (hgs : GSok gs)
    (h : compileBegin isFn {} es gs = Except.ok ((code, t), gs'))
    (i : Nat) (f : FnObj) (hi : gs.fns.length ≤ i) (hf : gs'.fns[i]? = some f) :
    ∃ ann, verify { kind := .fn, nformals := f.params.length, varargs := f.varargs, nfixed := f.nargs,
                    code := B gs'.loops f.code } ann = true :=
  (gen_balanced isFn es gs gs' code t hok hgs h).2 i f hi hf

/-- Generator and checker together: a function the generator made, called with its arguments on
top of ANY caller stack, (1) returns with exactly one value on top of it and the caller's scope
depth, and (2) every time it is back at instruction 0 — a self tail call — the stacks have the
depths of the first entry: iteration n runs in the space of iteration 1. -/
theorem generated_function_balanced (isFn : Nat → Bool) (es : List Expr) (gs gs' : GS) (code : List Instr) (t : Bool)
    (hok : okLs es = true) (hgs : GSok gs)
    (h : compileBegin isFn {} es gs = Except.ok ((code, t), gs'))
    (i : Nat) (f : FnObj) (hi : gs.fns.length ≤ i) (hf : gs'.fns[i]? = some f)
    (D : List Cell) (S A : Nat) (c : CState)
    (hreach : Reach { kind := .fn, nformals := f.params.length, varargs := f.varargs, nfixed := f.nargs,
                      code := B gs'.loops f.code } ⟨0, List.replicate f.params.length .val ++ D, S, A⟩ c) :
    (AtRet { kind := .fn, nformals := f.params.length, varargs := f.varargs, nfixed := f.nargs,
             code := B gs'.loops f.code } c → c.data = .val :: D ∧ c.sc = S) ∧
    (c.pc = 0 → c.data = List.replicate f.params.length .val ++ D ∧ c.sc = S ∧ c.addr = A) := by
  obtain ⟨ann, hv⟩ := gen_balanced_functions isFn es gs gs' code t hok hgs h i f hi hf
  constructor
  · intro hret
    have := checker_sound _ ann hv D S A ⟨0, List.replicate f.params.length .val ++ D, S, A⟩ c rfl rfl rfl rfl hreach
    exact ⟨(this.2.1 hret).1, (this.2.1 hret).2.1⟩
  · intro hpc
    exact tail_call_reenters_at_entry_depth _ ann hv D S A ⟨0, List.replicate f.params.length .val ++ D, S, A⟩ c
      rfl rfl rfl rfl hreach hpc

/-- The full statement `GenBalanced` is FALSE for the model as it stands — the side condition
"bodies are not empty" of `gen_balanced` is needed: the model generator accepts `(fn [])` (the
real builders refuse an empty function body with a compile error) and compiles it to
`addFuncScope; removeScope; ret`, which returns with NO value (`legacy_empty_begin_counterexample`
is this very listing). -/
theorem genBalanced_needs_nonempty_bodies : ¬ GenBalanced := by
  intro hG
  obtain ⟨_, hfns⟩ := hG (fun _ => false) [.fn [] none []] { fns := [] }
    ((compileBegin (fun _ => false) {} [.fn [] none []] { fns := [] }).toOption.get!.2)
    [.createClosure 0] false rfl
  obtain ⟨ann, hv⟩ := hfns 0 (Nat.zero_le _) _ rfl (by decide)
  obtain ⟨c, hreach, hret, hdata⟩ := legacy_empty_begin_counterexample [] 0 0
  have := checker_sound _ ann hv [] 0 0 ⟨0, [], 0, 0⟩ c rfl rfl rfl rfl hreach
  have h1 := (this.2.1 hret).1
  rw [hdata] at h1
  cases h1

/-! ### Non-vacuity -/

/-- `(for outer: [(def i 0) (< i 3) (set i (+ i 1))]
       (for [(def j 0) (< j 3) (set j (+ j 1))]
         (let [q j] (cond (== q 1) (break outer:) (continue)))))`:
nested loops, a labelled `break` to the outer loop and a `continue` out of a `let`. -/
def exLoopProg : List Expr :=
  [.for_ (some "outer") (.def_ "i" (.int 0)) (.call (.sym "<") [.sym "i", .int 3]) (.set_ "i" (.call (.sym "+") [.sym "i", .int 1]))
    [.for_ none (.def_ "j" (.int 0)) (.call (.sym "<") [.sym "j", .int 3]) (.set_ "j" (.call (.sym "+") [.sym "j", .int 1]))
      [.let_ false [("q", .sym "j")]
        [.cond [(.call (.sym "==") [.sym "q", .int 1], .break_ (some "outer"))] (.continue_ none)]]]]

/-- `(defn f [n a] (cond (== n 0) a (let [m (- n 1)] (f m (+ a n)))))`: a self tail call out of a `let`. -/
def exTailProg : List Expr :=
  [.defn "f" ["n", "a"] none
    [.cond [(.call (.sym "==") [.sym "n", .int 0], .sym "a")]
      (.let_ false [("m", .call (.sym "-") [.sym "n", .int 1])] [.call (.sym "f") [.sym "m", .call (.sym "+") [.sym "a", .sym "n"]]])]]

example : GSok { fns := [] } := by intro id hid; cases hid

/-- what the generator makes of a text, judged by a Boolean predicate (evaluated by the kernel) -/
def compiledSat (es : List Expr) (P : List Instr → GS → Bool) : Bool :=
  match compileBegin (fun _ => false) {} es { fns := [] } with
  | .ok ((code, _), gs') => P code gs'
  | .error _ => false

theorem exists_of_compiledSat {es : List Expr} {P : List Instr → GS → Bool} (h : compiledSat es P = true) :
    ∃ code t gs', compileBegin (fun _ => false) {} es { fns := [] } = Except.ok ((code, t), gs') ∧ P code gs' = true := by
  unfold compiledSat at h
  cases hc : compileBegin (fun _ => false) {} es { fns := [] } with
  | error e => rw [hc] at h; cases h
  | ok r =>
    obtain ⟨⟨code, t⟩, gs'⟩ := r
    rw [hc] at h
    exact ⟨code, t, gs', rfl, h⟩

/-- the hypotheses of `gen_balanced` are satisfiable by a text with nested loops: it is in the
grammar, the generator accepts it (57 instructions, two loop records; the `break outer:` pops two
scopes — the `let` and the inner loop's — the `continue` one), … -/
example : okLs exLoopProg = true ∧ ∃ code t gs',
    compileBegin (fun _ => false) {} exLoopProg { fns := [] } = Except.ok ((code, t), gs') ∧
    (code.length == 57 && gs'.loops.length == 2 &&
     code.any (fun i => match i with | .brk 0 2 => true | _ => false) &&
     code.any (fun i => match i with | .cont 1 1 => true | _ => false)) = true :=
  ⟨by decide, exists_of_compiledSat (by decide +kernel)⟩

/-- … and by a tail-recursive function: its template is compiled to 21 instructions that contain
the guard (fix C09-02; it skips 7 instructions: itself, the two operands, `prepareCall`, two
`removeScope`, `goto`), the tail sequence with TWO `removeScope` (the `let`'s scope and the
function scope; two more close the `let` and the function on the other path) and `goto 0`. -/
example : okLs exTailProg = true ∧ ∃ code t gs',
    compileBegin (fun _ => false) {} exTailProg { fns := [] } = Except.ok ((code, t), gs') ∧
    (gs'.fns.map (fun f => f.code.length) == [21] &&
     gs'.fns.all (fun f => f.code.any (fun i => match i with | .goto 0 => true | _ => false)) &&
     gs'.fns.all (fun f => f.code.any (fun i => match i with | .tailGuard "f" 7 => true | _ => false)) &&
     gs'.fns.map (fun f => (f.code.filter (fun i => match i with | .removeScope => true | _ => false)).length) == [4]) = true :=
  ⟨by decide, exists_of_compiledSat (by decide +kernel)⟩

/-! ## The property on the VM model -/

/-- **run_at_rest**, full statement: an interpreter at rest that evaluates a text to a value is
at rest afterwards (data stack empty, only the global scope, no return address, no loop record,
pc at the end of `mainfunc`). -/
def RunAtRest : Prop :=
  ∀ (fuel : Nat) (es : List Expr) (s s' : St) (v : String) (tr : List String) (d : String) (alive : Bool),
    AtRest s → runText fuel es s = (Outcome.done "ok" v tr d, s', alive) → AtRest s'

/-- **one_at_a_time**, full statement: evaluating `es₁ ++ es₂` as one text gives the value that
evaluating `es₁` and then `es₂` gives (whenever all three evaluations return a value). -/
def OneAtATime : Prop :=
  ∀ (fuel : Nat) (es₁ es₂ : List Expr) (s : St), AtRest s → es₂ ≠ [] →
    ∀ v tr d s' a v₁ tr₁ d₁ s₁ a₁ v₂ tr₂ d₂ s₂ a₂,
      runText fuel (es₁ ++ es₂) s = (Outcome.done "ok" v tr d, s', a) →
      runText fuel es₁ s = (Outcome.done "ok" v₁ tr₁ d₁, s₁, a₁) →
      runText fuel es₂ s₁ = (Outcome.done "ok" v₂ tr₂ d₂, s₂, a₂) → v = v₂

/-- **eval_empty_nil** (proved, for every state at rest and every fuel ≥ 2): the empty text
evaluates to nil — never to a value an earlier evaluation left behind — the four depths are
what they were, and the interpreter is at rest afterwards. -/
theorem eval_empty_nil (s : St) (fuel : Nat) (h : AtRest s) :
    ∃ s', runText (fuel + 2) [] s = (Outcome.done "ok" "nil" [] (depths s), s', true) ∧ AtRest s' :=
  eval_empty s fuel h

/-- the fresh interpreter is at rest (non-vacuity of `AtRest`) -/
example : AtRest initSt := ⟨rfl, rfl, rfl, rfl, rfl, by decide⟩

/-- **exec_refines**, full statement (`Refine.ExecRefines`): every successful `VM.exec` step taken in
the code of the current function, that stays in the activation, is a step `Bal.CStep` of the
stack-effect machine of that function as the checker sees it (`Refine.fnB`), between the
abstractions (`Refine.absC`: pc, kinds of the data-stack cells, scope and address depth) of the
two states. This ties the effect table `Bal.eff` — hand-written from zygo/vm.go — to the VM model
that C02 validates against the real interpreter. -/
def ExecRefines : Prop := Refine.ExecRefines

/-- **exec_refines_partial** — proved instruction by instruction (Proofs/VMRefine.lean), for
every state and every fuel: `label`, `loopStart`, `push` (of an ordinary value), `pop` (incl. the
ignored underflow), `dup`, `popStackPutEnv`, `update`, `jump`, `goto`, `branch` (with the VM's bounds
check = the checker's `target`), `addScope`, `addFuncScope`, `removeScope`, `createClosure`,
`pushLazy`, `pushMark`, `popUntilMark`, `clearMark` (`popToMark` pops exactly the cells above the
first mark of the loop), `assign`; and with the side condition each needs: `envToStack` (no
stack-mark is bound to a name), `tailGuard` (skip target inside the function), `prepareCall`
(compiled code; packs the variadic tail of the running function), `brk`/`cont` (`FindLoop` =
`loopPos` on the checker's listing; new pc not negative). NOT proved: `callArr`/`callExpr` (the
calling contract "arguments popped, one result pushed, scopes as before" needs the induction over
nested runs with every function of the table verified) and `ret` (ends the activation). -/
theorem exec_refines_partial (i : Instr)
    (h : match i with
      | .push v => Refine.plain v = true
      | .envToStack _ | .tailGuard _ _ | .prepareCall _ _ | .brk _ _ | .cont _ _
      | .callArr _ | .callExpr _ _ | .ret => False
      | _ => True) : Refine.StepRefines i :=
  Refine.exec_refines_partial i h

/-! ## The calling contract on the VM model (refinement across nested runs) -/

open ZygoVerif.RunInv in
/-- **calling_contract** (`RunInv.allSpec'`, Proofs/RunCall2.lean + RunPrim.lean) — by induction on
the fuel over ALL thirteen functions of the VM's mutual block, from any state that satisfies the
table invariant `RunInv.WF` (every function object of index ≥ 2 — templates, closures, the
helpers of `EvalCallExpression`/`Force` — is a VERIFIED function with generated-code side
conditions; every stored value contains no stack-mark and only ids of such functions; the
expressions of lazy arguments are in the covered grammar), whenever the function returns normally:
* `exec` of ANY instruction of a `Running` loop (`RunInv.Running`: the stack of activations — the
  top one described by the checker's invariant `Bal.Inv` at its pc, every suspended caller by
  `Bal.Inv` of the state it resumes in, the bottom one on the `Base` the loop started on) leaves
  the loop `Running` — `callExpr` of a compiled function pushes an activation entered with exactly
  its formals' worth of operands, `ret` pops one and resumes the caller at the caller's depths
  with ONE value pushed — or `Finished`;
* `runLoop` ends `Finished`: one value on the base data, the base scope stack (as a list), the base
  address stack; `run` returns that value and leaves the base stacks;
* `evalCallExpr`, `builtin` (incl. `apply`, `map`, `force`, `substitute`), `applyFn`, `mapArr`,
  `mapList`, `forceLazy` leave data (as the checker sees it), scope stack, address stack, current
  function, pc and the set-aside stacks EXACTLY as they were and return a storable value;
  `callUser` pops its operands and pushes one value; `prepareArgs` pushes one value per operand;
* the tables only grow and `WF` holds again — compiling at run time only adds verified functions
  (`RunInv.wf_runGen`: `gen_balanced` for the whole grammar + `GenCodeOK`).
This is the refinement `VM.exec ⊑ Bal.CStep` across nested runs (`ExecRefines` for `callArr`,
`callExpr`, `ret` included), for normal returns. -/
theorem calling_contract : ∀ n, AllSpec n := allSpec'

open ZygoVerif.RunInv in
/-- Calling a function value from any well-formed state (`Apply`, and through it `map`): the
callee runs to its `ret` and everything the caller had — data stack, scopes, return addresses,
set-aside stacks — is as before; the result is a storable value. -/
theorem apply_leaves_nothing_behind (n : Nat) (f : Val) (args : List Val) (s s' : St) (v : Val) (hw : WF s)
    (hpc : s.pc = -1) (hf : vok s.fns.length f = true) (ha : ∀ a ∈ args, vok s.fns.length a = true)
    (h : (applyFn n f args).run s = (.ok v, s')) :
    s'.data.map Refine.cellOf = s.data.map Refine.cellOf ∧ s'.linear = s.linear ∧ s'.addr = s.addr ∧
      s'.suspended = s.suspended ∧ WF s' := by
  obtain ⟨hk, _⟩ := (allSpec' n).apply f args s s' v hw hpc hf ha h
  exact ⟨hk.same.data, hk.same.linear, hk.same.addr, hk.same.susp, hk.wf⟩

open ZygoVerif.RunInv in
/-- Evaluating an operand (`EvalCallExpression`: compile at run time, run the helper in a nested
`Run`, restore) leaves nothing behind. -/
theorem operand_leaves_nothing_behind (n : Nat) (e : Expr) (s s' : St) (v : Val) (hw : WF s) (hok : okL e = true)
    (h : (evalCallExpr n e).run s = (.ok v, s')) :
    s'.data.map Refine.cellOf = s.data.map Refine.cellOf ∧ s'.linear = s.linear ∧ s'.addr = s.addr ∧
      s'.curfunc = s.curfunc ∧ s'.pc = s.pc ∧ s'.suspended = s.suspended ∧ WF s' := by
  obtain ⟨hk, _⟩ := (allSpec' n).eval e s s' v hw hok h
  exact ⟨hk.same.data, hk.same.linear, hk.same.addr, hk.same.cur, hk.same.pc, hk.same.susp, hk.wf⟩

open ZygoVerif.RunInv in
/-- the fresh interpreter satisfies the table invariant (non-vacuity of `WF`) -/
theorem wf_initSt : WF initSt := by
  refine ⟨fun id h2 hl => ?_, by decide, rfl, ?_, (fun a ha => by cases ha), (fun lz hlz => by cases hlz), (fun c hc => by cases hc)⟩
  · have : initSt.fns.length = 2 := rfl
    omega
  · intro sc hsc p hp
    simp only [initSt, List.mem_cons, List.mem_nil_iff, or_false] at hsc
    subst hsc
    simp only [List.mem_append, List.mem_cons, List.mem_nil_iff, or_false, List.mem_map] at hp
    rcases hp with (rfl | rfl) | ⟨nm, _, rfl⟩ <;> rfl

/-! ### run_at_rest: the top-level text as the bottom activation -/

/-- The states an interpreter is in between texts, **as far as the theorem below covers them**:
the fresh interpreter, and every state reached from it by texts of the model generator's grammar
(`Bal.okLs`: all core forms, loops, break/continue, functions, closures, tail calls) **that
returned a value**. NOT covered: states after a text that ended in an error (the calling contract
is about normal returns; that `Run`'s error path restores the invariant is C01/C05 territory and
is not proved here) and states after texts outside the grammar. -/
inductive ServedState : St → Prop
  | init : ServedState initSt
  | text {s s' : St} {fuel : Nat} {es : List Expr} {v : String} {tr : List String} {d : String} {alive : Bool} :
      ServedState s → okLs es = true → runText fuel es s = (Outcome.done "ok" v tr d, s', alive) → ServedState s'

open ZygoVerif.RunInv in
/-- the fresh interpreter: table invariant, `mainfunc` empty and compiled, at rest -/
theorem served_initSt : Served initSt :=
  ⟨wf_initSt, ⟨rfl, AllOK.nil _, idsIn_nil _ _, rfl⟩, ⟨rfl, rfl, rfl, rfl, rfl, by decide⟩, rfl⟩

open ZygoVerif.RunInv in
/-- **run_at_rest for every state that satisfies the invariant** (`RunInv.Served`: `RunInv.WF`,
`RunInv.MainOK`, `AtRest`): a text of the grammar that returns a value leaves the interpreter
at rest — data stack empty, only the global scope, no return address, no loop record, pc at the
end of `mainfunc` — and the invariant holds again. The text runs as code APPENDED to `mainfunc`,
from the old end: it is the bottom activation of the outermost loop (`RunInv.Base.main`: no return
address; it ends by running off its end). Its annotation is the fragment of `gen_balanced`
PLACED behind the old code (`RunInv.main_stepVerified`: the fragment calculus is generic in the
position, so nothing has to be shifted and nothing is needed about the old code but that its
loop ids are unique); every step of the loop keeps "`mainfunc` is at the bottom of the stack of
activations" (`RunInv.holds_step_ext`, from `calling_contract`); the loop can only stop at the
end of `mainfunc` (`RunInv.main_end`), where the fragment's final state says: one value, no
scope, no open region. -/
theorem run_at_rest_of_invariant (fuel : Nat) (es : List Expr) (s s' : St) (v : String) (tr : List String) (d : String)
    (alive : Bool) (hs : Served s) (hok : okLs es = true)
    (h : runText fuel es s = (Outcome.done "ok" v tr d, s', alive)) : AtRest s' ∧ Served s' :=
  ⟨(runText_ok fuel es s s' v tr d alive hs hok h).rest, runText_ok fuel es s s' v tr d alive hs hok h⟩

open ZygoVerif.RunInv in
theorem served_of_servedState {s : St} (h : ServedState s) : Served s := by
  induction h with
  | init => exact served_initSt
  | text _ hok hrun ih => exact (run_at_rest_of_invariant _ _ _ _ _ _ _ _ ih hok hrun).2

/-- `RunAtRest` restricted to the states reachable from the fresh interpreter by earlier texts of
the grammar that returned values, and to texts of the grammar. -/
def RunAtRestReachable : Prop :=
  ∀ (fuel : Nat) (es : List Expr) (s s' : St) (v : String) (tr : List String) (d : String) (alive : Bool),
    ServedState s → okLs es = true → runText fuel es s = (Outcome.done "ok" v tr d, s', alive) → AtRest s'

/-- **run_at_rest_reachable** (proved): whatever texts of the grammar an interpreter has evaluated
to values since it was created — any number of them, defining functions, closures, loops, tail
calls, calling them at any depth, with any fuel — the next text of the grammar that returns a
value leaves it at rest. This is NOT the full `RunAtRest`: that one quantifies over EVERY state
with empty stacks and the pc at the end (`AtRest`), including states whose function table holds
unbalanced code bound to a name; for those it is not provable (the table invariant `RunInv.WF`
is exactly what is missing), and states after erroneous texts are not covered either (see
`ServedState`). -/
theorem run_at_rest_reachable : RunAtRestReachable := by
  intro fuel es s s' v tr d alive hs hok h
  exact (run_at_rest_of_invariant fuel es s s' v tr d alive (served_of_servedState hs) hok h).1

/-- an idle interpreter does not grow: every state between texts is at rest -/
theorem servedState_at_rest {s : St} (h : ServedState s) : AtRest s := (served_of_servedState h).rest

/-- non-vacuity: the empty text, served by the fresh interpreter, returns a value; the state after
it is a `ServedState` -/
example : ∃ s', runText 2 [] initSt = (Outcome.done "ok" "nil" [] (depths initSt), s', true) ∧ ServedState s' := by
  obtain ⟨s', h, _⟩ := eval_empty_nil initSt 0 ⟨rfl, rfl, rfl, rfl, rfl, by decide⟩
  exact ⟨s', h, ServedState.text ServedState.init rfl h⟩

theorem okLs_append : ∀ (a b : List Expr), okLs a = true → okLs b = true → okLs (a ++ b) = true
  | [], _, _, hb => hb
  | e :: es, b, ha, hb => by
    simp only [okLs, Bool.and_eq_true] at ha
    simp only [List.cons_append, okLs, Bool.and_eq_true]
    exact ⟨ha.1, okLs_append es b ha.2 hb⟩

/-- **one_at_a_time_rest_partial** (the depth half of `OneAtATime`, on the VM model): for an
interpreter in a `ServedState`, evaluating two texts of the grammar together, or one after the
other, leaves it at rest — and in a `ServedState` again — in all three evaluations that return
a value. That the VALUES agree (`OneAtATime`) is not proved: the two runs allocate function ids
in different orders (templates of the second text before / after the run-time helpers of the
first), so it needs a simulation up to renaming of function ids. -/
theorem one_at_a_time_rest_partial (fuel : Nat) (es₁ es₂ : List Expr) (s : St) (hs : ServedState s)
    (h1 : okLs es₁ = true) (h2 : okLs es₂ = true)
    {v tr d s' a v₁ tr₁ d₁ s₁ a₁ v₂ tr₂ d₂ s₂ a₂}
    (hboth : runText fuel (es₁ ++ es₂) s = (Outcome.done "ok" v tr d, s', a))
    (hfst : runText fuel es₁ s = (Outcome.done "ok" v₁ tr₁ d₁, s₁, a₁))
    (hsnd : runText fuel es₂ s₁ = (Outcome.done "ok" v₂ tr₂ d₂, s₂, a₂)) :
    AtRest s' ∧ AtRest s₁ ∧ AtRest s₂ ∧ ServedState s' ∧ ServedState s₂ :=
  have q1 : ServedState s₁ := ServedState.text hs h1 hfst
  have q2 : ServedState s₂ := ServedState.text q1 h2 hsnd
  have q : ServedState s' := ServedState.text hs (okLs_append es₁ es₂ h1 h2) hboth
  ⟨servedState_at_rest q, servedState_at_rest q1, servedState_at_rest q2, q, q2⟩

/-- **run_at_rest_partial**: `RunAtRest` for the empty text and EVERY state at rest
(`eval_empty_nil`). For non-empty texts see `run_at_rest_reachable` / `run_at_rest_of_invariant`:
proved for every state that satisfies the run-time invariant, in particular every state reachable
from the fresh interpreter by texts of the grammar that returned values. The full `RunAtRest`
(every state with empty stacks, whatever its function table holds) is not provable without the
table invariant and stays a `def`. -/
theorem run_at_rest_partial (s : St) (fuel : Nat) (h : AtRest s) :
    ∀ s' v tr d alive, runText (fuel + 2) [] s = (Outcome.done "ok" v tr d, s', alive) → AtRest s' := by
  intro s' v tr d alive hr
  obtain ⟨s'', he, hrest⟩ := eval_empty s fuel h
  rw [he] at hr
  cases hr
  exact hrest

/-- **one_at_a_time_partial** (the generator's half): the code of two texts evaluated together
is the code of the first, ONE `pop`, the code of the second — the `pop` does what the `Run`
between the two separate evaluations does (pop the first text's single value). The VM half
(that the first text's code leaves exactly one value) is `checker_sound` + `gen_balanced…`. -/
theorem one_at_a_time_partial (cs ds : List (List Instr)) (hc : cs ≠ []) (hd : ds ≠ [])
    (hne : ∀ c ∈ cs, c ≠ []) :
    asmBegin (cs ++ ds) = asmBegin cs ++ [Instr.pop] ++ asmBegin ds :=
  asmBegin_append cs ds hc hd hne

example : asmBegin ([[Instr.push .nil], [Instr.dup]] ++ [[Instr.envToStack "a"]])
    = asmBegin [[Instr.push .nil], [Instr.dup]] ++ [Instr.pop] ++ asmBegin [[Instr.envToStack "a"]] := rfl


/-! ## Re-entrancy: compiled code carries no run-time state

A compiled function is ONE object — instruction structs, the `Loop` records they point to, the
`SexpFunction` template — executed by every activation of the function: by the recursive call made
from inside its own loop body as well as by the outer call that is still waiting for it. The
machines of this file have no state in the code (a state is pc, data stack, scope depth, address
depth; the code is a parameter), so the theorems above hold per activation, at any depth. For the
real VM that is a fact about the source, regenerated on every run: -/

/-- Every place of package zygo where a field of a compiled-code object (a type implementing
`Instruction`, `Loop`, `SexpFunction`) is written outside the function that constructs the object:
(function, Type.field, how) and WHY the stored value does not depend on the activation. -/
def allowedCodeWrites : List ((String × String × String) × String) :=
  [ (("BreakInstr.Execute", "BreakInstr.pos", "assign"),
      "cache of FindLoop(s.loop): the index of the loop's LoopStartInstr in the instruction slice the break sits in; an instruction sits in one slice, closure copies share it, so every activation computes the same number (0 = not cached yet)"),
    (("ContinueInstr.Execute", "ContinueInstr.pos", "assign"),
      "as BreakInstr.pos"),
    (("CreateClosureInstr.Execute", "SexpFunction.parent", "assign"),
      "the function in which the closure is created, noted in the template and in the copy: read by symbol lookup only (LookupSymbolUntilFunction / ClosingLookupSymbol), never by code that moves a stack; what it does to name resolution is C02's and C16's subject"),
    (("FuncBuilder", "SexpFunction.hasBody", "assign"),
      "set once by the `func` builder on the function value CreateClosureInstr just made for it (popped off the data stack); a constant of the declaration"),
    (("SexpFunction.SetClosing", "SexpFunction.closingOverScopes", "assign"),
      "setter; every call site has a freshly made function as receiver (a call on anything else would be listed as SexpFunction.SetClosing())"),
    (("SexpFunction.SetFormalSymbols", "SexpFunction.argSyms", "assign"),
      "setter used while the template is built (MakeFunction, buildSexpFun, FuncBuilder); no call site on a finished object"),
    (("SexpFunction.SetFormalSymbols", "SexpFunction.hasLazyFormals", "assign"), "as argSyms"),
    (("SexpFunction.SetFormalSymbols", "SexpFunction.lazyFormals", "assign"), "as argSyms"),
    (("Zlisp.LoadExpressions", "SexpFunction.fun", "assign"),
      "mainfunc.fun grows by the code of each text (append only: positions of existing instructions, hence cached `pos` fields, stay valid); by design, not judged as growth") ]

/-- **code_writes_exact** (table fact, regenerated from the source on every run): the fields of
compiled-code objects written anywhere outside their construction are EXACTLY the justified list
above — none of them holds a stack depth or anything else that differs between two activations
that are open at the same time. A new field written by an `Execute` method or a VM function
(as `Loop.entryDepth` written by `LoopStartInstr.Execute` in the seeded change C04-m3) breaks this
theorem; channel `rest`, stream `reent`, then looks for the failing input. -/
theorem code_writes_exact :
    Generated.CodeWrites.codeWrites = allowedCodeWrites.map (·.1) := by decide

/-- Package-level variables that hold, or are keyed by, compiled-code objects, and what they are. -/
def allowedCodeGlobals : List ((String × String) × String) :=
  [ (("MissingFunction", "*SexpFunction"), "the constant placeholder returned beside an error; a Go-function value (user = true), never executed as bytecode, never written"),
    (("sxArrayOf", "*SexpFunction"), "the builtin constructor `arrayOf` (a Go function wrapped by MakeUserFunction), assigned once at package initialisation"),
    (("sxSliceOf", "*SexpFunction"), "the builtin constructor `sliceOf`, as sxArrayOf") ]

/-- **code_globals_exact** (table fact): no package-level variable is a side table of compiled-code
objects — a `map[*Loop]int` noting a depth per loop would be state of the code exactly as a field
is, without any field being written. The three variables that exist are constants. -/
theorem code_globals_exact :
    Generated.CodeWrites.codeGlobals = allowedCodeGlobals.map (·.1) := by decide

/-- every instruction type of the checker's instruction set is a compiled-code type of that table -/
theorem code_types_cover_instructions :
    ∀ t ∈ Generated.InstrSet.instrTypes, t ∈ Generated.CodeWrites.codeTypes := by decide

theorem code_types_cover_loop_and_template :
    "Loop" ∈ Generated.CodeWrites.codeTypes ∧ "SexpFunction" ∈ Generated.CodeWrites.codeTypes := by decide

/-- **same_pc_same_depth.** Inside ONE activation of a verified function the scope depth is
`S + k(pc)` — the depth at which this activation was entered plus a compile-time constant of the
pc. Hence two visits of the same pc by the same activation see the same scope depth, whatever
happened in between: loop iterations, breaks, nested calls (each a single step that leaves the
scope depth alone — `call_contract_of_verified_callee` — also when the callee is the function
itself). -/
theorem same_pc_same_depth (f : Fn) (ann : Ann) (hv : verify f ann = true)
    (D : List Cell) (S A : Nat) (c0 c c' : CState)
    (hpc : c0.pc = 0) (hdata : c0.data = List.replicate f.entryCount .val ++ D)
    (hsc : c0.sc = S) (haddr : c0.addr = A) (hr : Reach f c0 c) (hr' : Reach f c0 c')
    (hsame : c.pc = c'.pc) :
    c.sc = c'.sc ∧ ∃ a, annAt ann c.pc = some a ∧ c.sc = S + a.k := by
  refine ⟨Bal.same_pc_same_depth f ann hv D S A c0 c c' hpc hdata hsc haddr hr hr' hsame, ?_⟩
  exact scope_depth_of_pc f ann hv D S A c0 c hpc hdata hsc haddr hr

/-- **break_lands_at_activation_depth.** A `break`/`continue` of a verified function, executed by
an activation that was entered with `S` scopes: (1) pops exactly the count `p` written in the
instruction (nothing is read from the loop record but the jump offset), (2) `p` is the difference
of the compile-time constants of the two pcs, and (3) afterwards the scope depth is
`S + k(landing pc)` — THIS activation's depth at the landing point; (4) compared with any visit
`cs` of a `LoopStartInstr` by the same activation, before or after any number of re-entrant calls,
the difference is the constant `k(landing) − k(loopStart)` (1 in generated code: the loop's own
scope, `exWalk_constants`). This is why the static count is right for re-entrant code and why no
record of "the depth at loop entry" is needed. -/
theorem break_lands_at_activation_depth (f : Fn) (ann : Ann) (hv : verify f ann = true)
    (D : List Cell) (S A : Nat) (c0 c c' : CState)
    (hpc : c0.pc = 0) (hdata : c0.data = List.replicate f.entryCount .val ++ D)
    (hsc : c0.sc = S) (haddr : c0.addr = A) (hreach : Reach f c0 c)
    (l : Nat) (off : Int) (p : Nat) (hat : AtExit f c l off p) (hstep : CStep f c c') :
    (p ≤ c.sc ∧ c'.sc = c.sc - p ∧ c'.data = c.data ∧ c'.addr = c.addr)
    ∧ (∃ a a', annAt ann c.pc = some a ∧ annAt ann c'.pc = some a' ∧
        c.sc = S + a.k ∧ c'.sc = S + a'.k ∧ a.k = a'.k + p)
    ∧ (∀ cs l', Reach f c0 cs → f.code[cs.pc]? = some (.loopStart l') →
        ∃ as a', annAt ann cs.pc = some as ∧ annAt ann c'.pc = some a' ∧ c'.sc + as.k = cs.sc + a'.k) := by
  obtain ⟨h1, h2, h3, h4, _⟩ := exit_pops_static f c c' l off p hat hstep
  refine ⟨⟨h1, h2, h3, h4⟩, exit_lands_at_activation_depth f ann hv D S A c0 c c' hpc hdata hsc haddr hreach l off p hat hstep, ?_⟩
  intro cs l' hrs hstart
  exact exit_depth_vs_loop_entry f ann hv D S A c0 cs c c' hpc hdata hsc haddr l' hrs hstart hreach l off p hat hstep

/-- **call_contract_of_verified_callee.** The single step the stack-effect machine takes for a
call — arguments popped, ONE value pushed, scope and address depth as before — is what a run of a
verified callee to its `ret` does from the caller's state, at ANY scope depth and on top of ANY
rest of the data stack. With `g := f` it is the recursive call a function makes from inside its
own loop body: it comes back with the scope depth it was made at. -/
theorem call_contract_of_verified_callee (g : Fn) (ann : Ann) (hv : verify g ann = true)
    (rest : List Cell) (sc addr : Nat) (e : CState)
    (hreach : Reach g ⟨0, List.replicate g.entryCount .val ++ rest, sc, addr + 1⟩ e) (hret : AtRet g e) :
    e.data = List.replicate 1 .val ++ rest ∧ e.sc = sc ∧ (afterRet e).addr = addr :=
  Bal.call_contract_of_verified_callee g ann hv rest sc addr e hreach hret

/-- **nested_activation_depths.** Two activations of the same verified code, one inside the other:
the outer one (entered at depth `S`) is at `c` when the function is entered again at depth `c.sc`.
Whenever the two activations are at the same pc — e.g. both just landed behind a `break` of the
same loop — their scope depths differ by exactly `c.sc − S`, the depth of the call site inside the
outer activation (≥ 1 behind `AddFuncScopeInstr`). One depth recorded per loop, in the shared
`Loop` record, by whichever activation entered the loop last, is therefore wrong for the other
one; the static count is right for both. -/
theorem nested_activation_depths (f : Fn) (ann : Ann) (hv : verify f ann = true)
    (D : List Cell) (S A : Nat) (c0 c : CState)
    (hpc : c0.pc = 0) (hdata : c0.data = List.replicate f.entryCount .val ++ D)
    (hsc : c0.sc = S) (haddr : c0.addr = A) (hc : Reach f c0 c)
    (rest : List Cell) (hcd : c.data = List.replicate f.entryCount .val ++ rest)
    (x' y' : CState)
    (hx : Reach f ⟨0, c.data, c.sc, c.addr + 1⟩ x') (hy : Reach f c0 y') (hsame : x'.pc = y'.pc) :
    S ≤ c.sc ∧ x'.sc = y'.sc + (c.sc - S) :=
  Bal.nested_activation_depths f ann hv D S A c0 c hpc hdata hsc haddr hc rest hcd x' y' hx hy hsame

/-- **exec_break_continue_static** (VM model): `exec` of `BreakInstr` / `ContinueInstr` drops exactly
the static number of scopes and writes neither the loop table nor the function table nor the data
or address stack; `LoopStartInstr` changes nothing but the pc. -/
theorem exec_break_continue_static (l k n : Nat) (s s' : St) :
    ((exec (n + 1) (.brk l k)).run s = (.ok (), s') ∨ (exec (n + 1) (.cont l k)).run s = (.ok (), s') →
      k ≤ s.linear.length ∧ s'.linear = s.linear.drop k ∧ s'.loops = s.loops ∧ s'.fns = s.fns ∧
      s'.data = s.data ∧ s'.addr = s.addr)
    ∧ ((exec (n + 1) (.loopStart l)).run s = (.ok (), s') → s' = { s with pc := s.pc + 1 }) := by
  refine ⟨?_, Refine.exec_loopStart_pure l n s s'⟩
  rintro (h | h)
  · obtain ⟨h1, h2, h3, h4, h5, h6, _⟩ := Refine.exec_brk_static l k n s s' h
    exact ⟨h1, h2, h3, h4, h5, h6⟩
  · obtain ⟨h1, h2, h3, h4, h5, h6, _⟩ := Refine.exec_cont_static l k n s s' h
    exact ⟨h1, h2, h3, h4, h5, h6⟩

/-! ### Non-vacuity -/

/-- The recursive tree walk of the seeded change's demonstration, as the REAL generator compiles it
(listing taken from channel `bal`):
`(defn walk [tree] (for [(def i 0) (< i (len tree)) (set i (+ i 1))]
   (let [c (aget tree i)] (cond (array? c) (walk c) (< c 0) (break) (set total (+ total c))))))`.
Instruction 2 is the `LoopStartInstr`, 25 the recursive call, 29 the `break` out of the `let`
(one scope to pop), 38 its landing point. -/
def exWalk : Fn :=
  { kind := .fn, nformals := 1, nfixed := 1,
    code := [.addFuncScope, .popStackPutEnv, .loopStart 1, .addScope, .pushMark 1, .label, .push, .dup,
             .popStackPutEnv, .popUntilMark 1, .jump 6, .label, .callExpr 2, .dup, .update, .popUntilMark 1,
             .label, .callExpr 2, .branch false 19, .label, .addScope, .callExpr 2, .popStackPutEnv,
             .callExpr 1, .branch false 3, .callExpr 1, .jump 8, .callExpr 2, .branch false 3, .brk 1 36 1,
             .jump 4, .callExpr 2, .dup, .update, .removeScope, .popUntilMark 1, .jump (-25), .label,
             .clearMark 1, .removeScope, .push, .removeScope, .ret false] }

example : checkB exWalk = true := by decide

/-- the compile-time constants `k` of the walk: 1 at the `LoopStartInstr` (the function scope), 3 at
the `break` (function, loop, `let`), 2 at its landing point (function, loop) — landing minus loop
start = 1, the loop's own scope. -/
theorem exWalk_constants :
    (infer exWalk).toOption.map (fun ann => ((annAt ann 2).map (·.k), (annAt ann 29).map (·.k), (annAt ann 38).map (·.k)))
      = some (some 1, some 3, some 2) := by decide

/-- a minimal function with a `break` out of one nested scope -/
def exBreak : Fn :=
  { kind := .fn, code := [.addFuncScope, .loopStart 1, .addScope, .pushMark 1, .addScope, .brk 1 5 1,
                          .clearMark 1, .removeScope, .push, .removeScope, .ret false] }

example : checkB exBreak = true := by decide

/-- The hypotheses of `break_lands_at_activation_depth` are satisfiable: `exBreak`, entered with 7
scopes on top of a caller's data, reaches its `break` with 10 scopes and lands with 9 = 7 + 2. -/
example : ∃ c c', Reach exBreak ⟨0, [.val, .marker], 7, 3⟩ c ∧ AtExit exBreak c 1 5 1 ∧ CStep exBreak c c'
    ∧ c.sc = 10 ∧ c'.sc = 9 ∧ c'.pc = 6 := by
  refine ⟨⟨5, [.mark 1, .val, .marker], 10, 3⟩, ⟨6, [.mark 1, .val, .marker], 9, 3⟩, ?_, Or.inl rfl, ?_, rfl, rfl, rfl⟩
  · have s1 : CStep exBreak ⟨0, [.val, .marker], 7, 3⟩ ⟨1, [.val, .marker], 8, 3⟩ :=
      CStep.scopeUp _ .addFuncScope rfl rfl
    have s2 : CStep exBreak ⟨1, [.val, .marker], 8, 3⟩ ⟨2, [.val, .marker], 8, 3⟩ :=
      CStep.simple _ (.loopStart 1) 0 0 [] [.val, .marker] rfl rfl rfl rfl
    have s3 : CStep exBreak ⟨2, [.val, .marker], 8, 3⟩ ⟨3, [.val, .marker], 9, 3⟩ :=
      CStep.scopeUp _ .addScope rfl rfl
    have s4 : CStep exBreak ⟨3, [.val, .marker], 9, 3⟩ ⟨4, [.mark 1, .val, .marker], 9, 3⟩ :=
      CStep.pushMark _ (.pushMark 1) 1 rfl rfl
    have s5 : CStep exBreak ⟨4, [.mark 1, .val, .marker], 9, 3⟩ ⟨5, [.mark 1, .val, .marker], 10, 3⟩ :=
      CStep.scopeUp _ .addScope rfl rfl
    exact Reach.step _ _ _ (Reach.step _ _ _ (Reach.step _ _ _ (Reach.step _ _ _ (Reach.step _ _ _ (Reach.refl _) s1) s2) s3) s4) s5
  · exact CStep.exitLoop (f := exBreak) ⟨5, [.mark 1, .val, .marker], 10, 3⟩ (.brk 1 5 1) 1 5 1 1 rfl rfl (by decide) (by decide) (by decide)

/-- a VM state inside a function `g` that consists of a loop start and a `break` with two scopes to pop -/
def exBrkSt : St :=
  { initSt with fns := initSt.fns ++ [{ name := "g", code := [.loopStart 0, .brk 0 2] }], curfunc := 2,
                loops := [{ breakOff := 2 }], linear := [some 0, some 0, some 0], pc := 1 }

set_option linter.unusedSimpArgs false in
/-- `exec_break_continue_static` is not vacuous: that `break`, run by the VM model, succeeds, drops
two of the three scopes and jumps to loop start + break offset. -/
example : ∃ s', (exec 1 (.brk 0 2)).run exBrkSt = (.ok (), s') ∧ s'.linear = [some 0] ∧ s'.pc = 2 := by
  refine ⟨{ exBrkSt with linear := [some 0], pc := 2 }, ?_, rfl, rfl⟩
  simp only [exec]
  rw [Refine.run_get_bind]
  have hf : findLoopStart (fnOf exBrkSt exBrkSt.curfunc).code 0 = some 0 := by decide
  rw [hf]
  simp [popScopes, popScope, err, ExceptT.run, bind, ExceptT.bind, ExceptT.mk, ExceptT.bindCont, StateT.bind, modify,
    modifyGet, MonadStateOf.modifyGet, StateT.modifyGet, ExceptT.lift, liftM, monadLift, MonadLift.monadLift, get, getThe,
    MonadStateOf.get, StateT.get, set, StateT.set, pure, ExceptT.pure, StateT.pure, Functor.map, StateT.map, throw,
    throwThe, MonadExceptOf.throw, exBrkSt]

end ZygoVerif.C04
