/-
C06, Pratt loop = stratified grammar, part 5: the statements of a block.

`Stmts G E ts xs` — the specification's statements of a block, fuel-free: parse one expression
at the loosest level, skip one `;`, go on; an expression that is just `;` is no statement.
`parseBlock` returns only such lists (`statements_sound`). `InfixExpandArray` (model, with enough
fuel) returns `out` iff the stratified statements are `out` (`expandArray_iff`), for the table
of the current tree and the documented levels, for every non-empty token list of the fragment.
-/
import ZygoVerif.Proofs.PrattStratTable
namespace ZygoVerif.Pratt
open ZygoVerif.Stratified

/-- skip one `;` -/
def dropSemi : List Sx → List Sx
  | u :: us => if u.isSemi then us else u :: us
  | [] => []

/-- the statements of a block under the stratified grammar -/
inductive Stmts (G : Grammar) (E : Sx) : List Sx → List Sx → Prop
  | nil : Stmts G E [] []
  | cons (t : Sx) (ts : List Sx) (x : Sx) (rest xs : List Sx) :
      SS G E G (t :: ts) (x, rest) → Stmts G E (dropSemi rest) xs →
      Stmts G E (t :: ts) (if x.isSemi then xs else x :: xs)

theorem statements_succ (G : Grammar) (E : Sx) (f : Nat) (t : Sx) (ts : List Sx) :
    statements G E (f + 1) (t :: ts) =
      match strat G E (Stratified.fuelFor G (t :: ts)) G (t :: ts) with
      | none => none
      | some (x, rest) => (statements G E f (dropSemi rest)).map (fun xs => if x.isSemi then xs else x :: xs) := by
  rw [statements.eq_3]
  cases strat G E (Stratified.fuelFor G (t :: ts)) G (t :: ts) with
  | none => rfl
  | some p =>
    obtain ⟨x, rest⟩ := p
    cases rest <;> rfl

/-- what `parseBlock` returns are the statements of the block -/
theorem statements_sound (G : Grammar) (E : Sx) : ∀ (f : Nat) (ts out : List Sx),
    statements G E f ts = some out → Stmts G E ts out := by
  intro f
  induction f with
  | zero => intro ts out h; simp [statements] at h
  | succ f ih =>
    intro ts out h
    cases ts with
    | nil => rw [statements.eq_2] at h; cases h; exact Stmts.nil
    | cons t ts =>
      rw [statements_succ] at h
      cases hx : strat G E (Stratified.fuelFor G (t :: ts)) G (t :: ts) with
      | none => rw [hx] at h; cases h
      | some p =>
        obtain ⟨x, rest⟩ := p
        rw [hx] at h
        simp only at h
        cases hr : statements G E f (dropSemi rest) with
        | none => rw [hr] at h; cases h
        | some xs =>
          rw [hr] at h
          simp only [Option.map_some, Option.some.injEq] at h
          subst h
          exact Stmts.cons t ts x rest xs ⟨_, hx⟩ (ih _ _ hr)

/-- the stratified parser is a function -/
theorem SS_det {G : Grammar} {E : Sx} {lvls : Grammar} {ts : List Sx} {r1 r2 : Sx × List Sx}
    (h1 : SS G E lvls ts r1) (h2 : SS G E lvls ts r2) : r1 = r2 := by
  obtain ⟨f1, g1⟩ := h1
  obtain ⟨f2, g2⟩ := h2
  have a := (Stratified.mono G (Nat.le_max_left f1 f2)).1 _ _ _ _ g1
  have b := (Stratified.mono G (Nat.le_max_right f1 f2)).1 _ _ _ _ g2
  rw [a] at b
  exact Option.some.inj b

theorem Stmts_det {G : Grammar} {E : Sx} {ts o1 o2 : List Sx} (h1 : Stmts G E ts o1) (h2 : Stmts G E ts o2) : o1 = o2 := by
  induction h1 generalizing o2 with
  | nil => cases h2; rfl
  | cons t ts x rest xs hss _ ih =>
    cases h2 with
    | cons _ _ x' rest' xs' hss' hst' =>
      have := SS_det hss hss'
      simp only [Prod.mk.injEq] at this
      obtain ⟨rfl, rfl⟩ := this
      rw [ih hst']

/-! ## `InfixExpandArray` -/

/-- no token is named `for` (labelled `for` statements are outside the fragment) -/
def noFor (ts : List Sx) : Prop := ∀ t ∈ ts, t.isNamed "for" = false

theorem expandArray_succ (T : Table) (f : Nat) (st : Sx) (ts acc : List Sx) (hnf : noFor ts) :
    expandArray T (f + 1) st ts acc =
      match expr T f 0 st ts with
      | none => none
      | some (x, st1, ts1) =>
        match ts1 with
        | [] => some (if x.isSemi then acc else acc ++ [x])
        | u :: us =>
          if u.isSemi then (if us.isEmpty then some (if x.isSemi then acc else acc ++ [x])
            else expandArray T f st1 us (if x.isSemi then acc else acc ++ [x]))
          else expandArray T f st1 ts1 (if x.isSemi then acc else acc ++ [x]) := by
  conv => lhs; unfold expandArray
  split
  · rename_i l u us
    have : u.isNamed "for" = false := hnf u (by simp)
    simp only [this, Bool.false_eq_true, ↓reduceIte]
    rfl
  · rfl

theorem expandArray_mono (T : Table) (hc : okNudB T (.sym ":") = true) : ∀ (f : Nat) (st : Sx) (ts acc out : List Sx),
    fragList (okNudB T) ts = true → noFor ts → expandArray T f st ts acc = some out →
    expandArray T (f + 1) st ts acc = some out := by
  intro f
  induction f with
  | zero => intro st ts acc out _ _ h; simp [expandArray] at h
  | succ f ih =>
    intro st ts acc out hfr hnf h
    rw [expandArray_succ T f st ts acc hnf] at h
    rw [expandArray_succ T (f + 1) st ts acc hnf]
    cases hx : expr T f 0 st ts with
    | none => rw [hx] at h; cases h
    | some p =>
      obtain ⟨x, st1, ts1⟩ := p
      rw [hx] at h
      rw [(mono_step T hc f).1 _ _ _ _ hfr hx]
      simp only at h ⊢
      obtain ⟨_, hs, _⟩ := expr_res hfr hx
      have hfr1 : fragList (okNudB T) ts1 = true := frag_suffix hfr hs
      have hnf1 : noFor ts1 := fun t ht => hnf t (hs.subset ht)
      cases ts1 with
      | nil => exact h
      | cons u us =>
        simp only at h ⊢
        by_cases hu : u.isSemi = true
        · rw [if_pos hu] at h ⊢
          by_cases he : us.isEmpty = true
          · rw [if_pos he] at h ⊢; exact h
          · rw [if_neg he] at h ⊢
            exact ih _ _ _ _ (frag_tail hfr1) (fun t ht => hnf1 t (by simp [ht])) h
        · rw [if_neg hu] at h ⊢
          exact ih _ _ _ _ hfr1 hnf1 h

theorem expandArray_mono_le (T : Table) (hc : okNudB T (.sym ":") = true) {f f' : Nat} (hle : f ≤ f') (st : Sx)
    (ts acc out : List Sx) (hfr : fragList (okNudB T) ts = true) (hnf : noFor ts)
    (h : expandArray T f st ts acc = some out) : expandArray T f' st ts acc = some out := by
  induction hle with
  | refl => exact h
  | step _ ih => exact expandArray_mono T hc _ _ _ _ _ hfr hnf ih

theorem dropSemi_suffix (l : List Sx) : dropSemi l <:+ l := by
  cases l with
  | nil => exact List.suffix_refl _
  | cons u us =>
    simp only [dropSemi]
    split
    · exact List.suffix_cons u us
    · exact List.suffix_refl _

/-- **`InfixExpandArray` = the stratified statements** (table of the current tree, documented
levels): with the statements `acc` collected so far, the loop returns `out` (with enough fuel) iff
`out` is `acc` followed by the stratified statements of the remaining tokens. -/
theorem expandArray_iff (E : Sx) : ∀ (ts : List Sx), ts ≠ [] → Frag TG DG ts → noFor ts → ∀ (acc out : List Sx),
    (∃ f, expandArray TG f E ts acc = some out) ↔ ∃ xs, Stmts DG E ts xs ∧ out = acc ++ xs := by
  have hC := corr_generated
  have hcn := Corr.colonNud hC
  -- strong induction on the length of the token list
  have key : ∀ n ts, ts.length ≤ n → ts ≠ [] → Frag TG DG ts → noFor ts → ∀ (acc out : List Sx),
      (∃ f, expandArray TG f E ts acc = some out) ↔ ∃ xs, Stmts DG E ts xs ∧ out = acc ++ xs := by
    intro n
    induction n with
    | zero => intro ts hl hne; cases ts <;> simp_all
    | succ n ih =>
      intro ts hl hne hfr hnf acc out
      cases ts with
      | nil => exact absurd rfl hne
      | cons t ts' =>
        have hnfr := hfr.nudFrag
        -- the first expression: Pratt ⇔ stratified
        have hfirst := fun r => pratt_iff_strat hC (t :: ts') hfr E r
        -- the rest after one expression
        have hrest : ∀ {x : Sx} {ts1 : List Sx}, PE TG E 0 (t :: ts') (x, ts1) →
            ts1 <:+ (t :: ts') ∧ ts1.length ≤ n := by
          intro x ts1 hpe
          have hs := PE.suffix hnfr hpe
          refine ⟨hs, ?_⟩
          -- `Expression` consumes at least the first token
          obtain ⟨f, he⟩ := hpe
          cases f with
          | zero => simp [expr] at he
          | succ f =>
            rw [expr.eq_3] at he
            rcases fragList_OKs TG _ hnfr t (by simp) with hn | ⟨nm, r0, hn⟩
            · rw [hn] at he
              have := (loop_res (frag_tail hnfr) he).2.1
              have hlen : ts1.length ≤ ts'.length := this.length_le
              simp only [List.length_cons] at hl; omega
            · rw [hn] at he
              simp only at he
              cases hx : expr TG f r0 E ts' with
              | none => rw [hx] at he; cases he
              | some p =>
                obtain ⟨y, st1, ts2⟩ := p
                rw [hx] at he
                obtain ⟨rfl, hs2, _⟩ := expr_res (frag_tail hnfr) hx
                have := (loop_res (frag_suffix (frag_tail hnfr) hs2) he).2.1
                have h1 : ts1.length ≤ ts2.length := this.length_le
                have h2 : ts2.length ≤ ts'.length := hs2.length_le
                simp only [List.length_cons] at hl; omega
        constructor
        · rintro ⟨f, h⟩
          cases f with
          | zero => simp [expandArray] at h
          | succ f =>
            rw [expandArray_succ TG f E _ acc hnf] at h
            cases hx : expr TG f 0 E (t :: ts') with
            | none => rw [hx] at h; cases h
            | some p =>
              obtain ⟨x, st1, ts1⟩ := p
              rw [hx] at h
              obtain ⟨rfl, _, _⟩ := expr_res hnfr hx
              have hpe : PE TG st1 0 (t :: ts') (x, ts1) := ⟨f, hx⟩
              have hss := (hfirst _).1 hpe
              obtain ⟨hs, hlen⟩ := hrest hpe
              simp only at h
              cases ts1 with
              | nil =>
                simp only [Option.some.injEq] at h
                refine ⟨if x.isSemi then [] else [x], ?_, ?_⟩
                · have := Stmts.cons t ts' x [] [] hss (by simpa [dropSemi] using Stmts.nil)
                  by_cases hxs : x.isSemi = true <;> simpa [hxs] using this
                · rw [← h]; by_cases hxs : x.isSemi = true <;> simp [hxs]
              | cons u us =>
                simp only at h
                by_cases hu : u.isSemi = true
                · rw [if_pos hu] at h
                  by_cases he : us.isEmpty = true
                  · rw [if_pos he] at h
                    have hus : us = [] := by simpa using he
                    subst hus
                    simp only [Option.some.injEq] at h
                    refine ⟨if x.isSemi then [] else [x], ?_, ?_⟩
                    · have := Stmts.cons t ts' x [u] [] hss (by simpa [dropSemi, hu] using Stmts.nil)
                      by_cases hxs : x.isSemi = true <;> simpa [hxs] using this
                    · rw [← h]; by_cases hxs : x.isSemi = true <;> simp [hxs]
                  · rw [if_neg he] at h
                    have hne' : us ≠ [] := by intro hh; apply he; simp [hh]
                    have hsu : us <:+ (t :: ts') := (List.suffix_cons u us).trans hs
                    obtain ⟨xs, hst, hout⟩ := (ih us (by simp only [List.length_cons] at hlen; omega) hne' (hfr.suffix hsu)
                      (fun a ha => hnf a (hsu.subset ha)) _ out).1 ⟨f, h⟩
                    refine ⟨if x.isSemi then xs else x :: xs, ?_, ?_⟩
                    · exact Stmts.cons t ts' x (u :: us) xs hss (by simpa [dropSemi, hu] using hst)
                    · rw [hout]; by_cases hxs : x.isSemi = true <;> simp [hxs]
                · rw [if_neg hu] at h
                  obtain ⟨xs, hst, hout⟩ := (ih (u :: us) hlen (by simp) (hfr.suffix hs)
                    (fun a ha => hnf a (hs.subset ha)) _ out).1 ⟨f, h⟩
                  refine ⟨if x.isSemi then xs else x :: xs, ?_, ?_⟩
                  · exact Stmts.cons t ts' x (u :: us) xs hss (by simpa [dropSemi, hu] using hst)
                  · rw [hout]; by_cases hxs : x.isSemi = true <;> simp [hxs]
        · rintro ⟨xs0, hst, rfl⟩
          cases hst with
          | cons _ _ x rest xs hss hst' =>
            have hpe := (hfirst _).2 hss
            obtain ⟨hs, hlen⟩ := hrest hpe
            obtain ⟨f1, hx⟩ := hpe
            -- fuel for the rest
            have hacc : ∀ a : List Sx, a ++ (if x.isSemi = true then xs else x :: xs) =
                (if x.isSemi = true then a else a ++ [x]) ++ xs := by
              intro a; by_cases hxs : x.isSemi = true <;> simp [hxs]
            cases rest with
            | nil =>
              simp only [dropSemi] at hst'
              cases hst'
              refine ⟨f1 + 1, ?_⟩
              rw [expandArray_succ TG f1 E _ acc hnf, hx]
              simp only [hacc, List.append_nil]
            | cons u us =>
              by_cases hu : u.isSemi = true
              · simp only [dropSemi, hu, ↓reduceIte] at hst'
                by_cases he : us.isEmpty = true
                · have hus : us = [] := by simpa using he
                  subst hus
                  cases hst'
                  refine ⟨f1 + 1, ?_⟩
                  rw [expandArray_succ TG f1 E _ acc hnf, hx]
                  simp only [hu, ↓reduceIte, List.isEmpty_nil, hacc, List.append_nil]
                · have hne' : us ≠ [] := by intro hh; apply he; simp [hh]
                  have hsu : us <:+ (t :: ts') := (List.suffix_cons u us).trans hs
                  have hfu := hfr.suffix hsu
                  have hnu : noFor us := fun a ha => hnf a (hsu.subset ha)
                  obtain ⟨f2, h2⟩ := (ih us (by simp only [List.length_cons] at hlen; omega) hne' hfu hnu
                    (if x.isSemi then acc else acc ++ [x]) _).2 ⟨xs, hst', rfl⟩
                  have g1 := (mono TG hcn (Nat.le_max_left f1 f2)).1 _ _ _ _ hnfr hx
                  have g2 := expandArray_mono_le TG hcn (Nat.le_max_right f1 f2) _ _ _ _ hfu.nudFrag hnu h2
                  refine ⟨max f1 f2 + 1, ?_⟩
                  rw [expandArray_succ TG _ E _ acc hnf, g1]
                  simp only [hu, ↓reduceIte, he, Bool.false_eq_true, hacc]
                  exact g2
              · have hd : dropSemi (u :: us) = u :: us := by simp [dropSemi, hu]
                rw [hd] at hst'
                have hfu := hfr.suffix hs
                have hnu : noFor (u :: us) := fun a ha => hnf a (hs.subset ha)
                obtain ⟨f2, h2⟩ := (ih (u :: us) hlen (by simp) hfu hnu
                  (if x.isSemi then acc else acc ++ [x]) _).2 ⟨xs, hst', rfl⟩
                have g1 := (mono TG hcn (Nat.le_max_left f1 f2)).1 _ _ _ _ hnfr hx
                have g2 := expandArray_mono_le TG hcn (Nat.le_max_right f1 f2) _ _ _ _ hfu.nudFrag hnu h2
                refine ⟨max f1 f2 + 1, ?_⟩
                rw [expandArray_succ TG _ E _ acc hnf, g1]
                simp only [hu, Bool.false_eq_true, ↓reduceIte, hacc]
                exact g2
  intro ts hne hfr hnf acc out
  exact key ts.length ts (Nat.le_refl _) hne hfr hnf acc out

end ZygoVerif.Pratt
